(* C07/Proofs17.v — round 5: stack_win_line as extracted from parser.rs (Gen/C07WinLine.v, translate/c07_win_line.py)
   is this directory's record constructor, and hence (Proofs5: text_record_agree) C09's byte-level line recogniser. *)
From RM Require Import Base.Word C06.Model C07.Model C07.Text C07.Proofs5 Gen.C07WinLine.
From RM Require C09.Grammar.
Open Scope Z_scope.

Lemma g_stack_win_line_eq : forall ty a sz pro epi par sav loc mx hp rest,
  g_stack_win_line ty a sz pro epi par sav loc mx hp rest = stack_win_line ty a sz pro epi par sav loc mx hp rest.
Proof. intros. reflexivity. Qed.

(* the kinds of field C09's p_stack_win reads after the tag, in order: single_sp is_hex, hex64sp, 7 x hex32sp,
   single_sp is_dec, name_eol *)
Definition grammar_field_kinds : list Z := [0; 64; 32; 32; 32; 32; 32; 32; 32; 1; 2].

Lemma g_line_fields_kinds : map snd g_line_fields = grammar_field_kinds.
Proof. reflexivity. Qed.

Lemma g_line_agrees_with_grammar : forall ty a sz pro epi par sav loc mx hp rest,
  counts_pos rest ->
  conv_frame_type (C09.Grammar.win_of_fields ty a sz pro epi par sav loc mx hp rest) =
  g_stack_win_line ty a sz pro epi par sav loc mx hp (unrle rest).
Proof. intros. rewrite g_stack_win_line_eq. apply text_record_agree. assumption. Qed.
