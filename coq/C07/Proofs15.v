(* C07/Proofs15.v — the property-level statements carried over to the functions compiled from walker.rs. *)
From RM Require Import Base.Word C06.Model C06.Proofs C07.Model C07.Proofs C07.Proofs2 C07.Proofs3 Gen.C07WinEval C07.Source C07.Proofs14.
Open Scope Z_scope.

Lemma source_is_model :
  (forall i g, g_win_frame_size i g = win_frame_size i g) /\
  g_clear_names = win_clear_names /\ g_win_outputs = win_outputs /\
  (forall E i e, g_win_initial_vars E i e = win_initial_vars E i e) /\
  (forall p E t ms, g_win_step p E t ms = win_step p E t ms) /\
  (forall S (ops : wops S) E i abp s, g_walk_win_fpo ops E i abp s = walk_win_fpo ops E i abp s) /\
  (forall S (ops : wops S) p E i e s, src_walk_win_framedata ops p E i e s = walk_win_framedata ops p E i e s) /\
  (forall S (ops : wops S) p E f s, src_walk_frame ops p E f s = walk_frame ops p E f s).
Proof.
  repeat split; auto using g_frame_size_eq, g_clear_names_eq, g_outputs_eq, g_initial_eq, g_step_eq, g_fpo_eq,
                           src_framedata_eq, src_walk_frame_eq.
Qed.

Lemma src_refines_spec : forall p E i e,
    info_u32 i -> u32 (e_gcps E) ->
    match src_win_final_vars p E i e, win_spec E i e with
    | Ret (Some m), Some f => forall k, vget k m = f k
    | Ret None, None => True
    | _, _ => False
    end.
Proof. intros. rewrite src_final_vars_eq. apply win_refines_spec; assumption. Qed.

Lemma src_mock_exact : forall p E i e s' m,
    src_walk_win_framedata (mock_ops 4) p E i e m_init = Ret (s', true) ->
    src_win_final_vars p E i e = Ret (Some m) ->
    forall n, m_regs s' n = (if mem_b n six then
                               match vget (dollar n) m with Some v => SetTo v | None => Unset end
                             else if mem_b n g_clear_names then Cleared else Unset).
Proof. intros p E i e s' m. rewrite src_framedata_eq, src_final_vars_eq, g_clear_names_eq. apply mock_framedata_exact. Qed.

Lemma src_fpo_formulae : forall E i abp s',
    g_walk_win_fpo (mock_ops 4) E i abp m_init = (s', true) ->
    exists fs esp a eip,
      g_win_frame_size i (e_gcps E) = Some fs /\ fs = w_locals i + w_saved i + e_gcps E /\ e_callee E N_esp = Some esp /\
      (a = esp + fs \/
       (a = esp + fs + 4 /\ e_has_gc E = false /\ e_mem E (esp + fs) = e_callee E N_eip)) /\
      (a = esp + fs -> e_has_gc E = false -> e_mem E (esp + fs) <> e_callee E N_eip) /\
      e_mem E a = Some eip /\
      m_regs s' N_eip = SetTo eip /\ m_regs s' N_esp = SetTo (a + 4) /\
      (if abp then exists v, e_mem E (esp + e_gcps E + w_saved i - 8) = Some v /\ m_regs s' N_ebp = SetTo v /\
                             m_regs s' N_ebx = Unset
       else exists v, e_callee E N_ebp = Some v /\ m_regs s' N_ebp = SetTo v /\
                      m_regs s' N_ebx = match e_callee E N_ebx with Some b => SetTo b | None => Unset end).
Proof.
  intros E i abp s' H. rewrite g_fpo_eq in H.
  destruct (fpo_formulae _ _ _ _ H) as (fs & esp & a & eip & Hfs & R).
  exists fs, esp, a, eip. rewrite g_frame_size_eq. split; [exact Hfs|]. split; [|exact R].
  unfold win_frame_size, checked_add in Hfs.
  destruct (w_locals i + w_saved i <? 2 ^ 32); [|discriminate].
  destruct (w_locals i + w_saved i + e_gcps E <? 2 ^ 32); [|discriminate]. congruence.
Qed.

Lemma src_walk_frame_total : forall (S : Type) (ops : wops S) (p : profile) (E : env) (f : symfile) (s : S),
    Forall win_wf (sf_framedata f) -> Forall win_wf (sf_fpo f) ->
    Forall is_framedata (sf_framedata f) -> Forall is_fpo (sf_fpo f) ->
    exists r : option S, src_walk_frame ops p E f s = Ret r.
Proof. intros. rewrite src_walk_frame_eq. apply walk_frame_total7; assumption. Qed.
