(* C07/Driver.v — entry points of the correspondence run (extracted to OCaml). *)
From RM Require Import C07.Model C07.Text C07.Walker C07.WalkerFd C07.Source C06.Driver.
From RM Require Import Gen.C07WinEval.
From RM Require C09.Grammar.
Open Scope Z_scope.

(* a record of the case line: STACK WIN fields, or one STACK CFI INIT line *)
Inductive rec :=
| RWin (ty addr size prolog epilog params saved locals maxstack hasprog : Z) (rest : bytes)
| RCfi (addr size : Z) (rules : bytes).

Fixpoint build_sym (l : list rec) (f : symfile) : symfile :=
  match l with
  | [] => f
  | RWin ty a sz pr ep pa sv lo mx hp rest :: r =>
      build_sym r
        (match stack_win_line ty a sz pr ep pa sv lo mx hp rest with
         | FrameData i => mkSym (sf_framedata f ++ [i]) (sf_fpo f) (sf_cfi f)
         | Fpo i => mkSym (sf_framedata f) (sf_fpo f ++ [i]) (sf_cfi f)
         | Unhandled => f
         end)
  | RCfi a sz rules :: r =>
      build_sym r (mkSym (sf_framedata f) (sf_fpo f) (Some (mkCfi (a, rules) sz [])))
  end.

(* Every front-end is parametrised in the function standing for SymbolFile::walk_frame: the run evaluates each case with
   the HAND-WRITTEN model (walk_frame, the one the older theorems are stated about) and with the model COMPILED from
   walker.rs / mod.rs (Source.src_walk_frame over Gen/C07WinEval.v, regenerated on every run); ocaml/c07/main.ml prints
   a `D;;` answer when they differ, so the compiled model, the hand-written model and the real code are compared per
   case.  c07_driver_source_agrees (Properties.v) proves the two instances equal for all inputs. *)
Definition wf_mock := wops mstate -> profile -> env -> symfile -> mstate -> outcome (option mstate).
Definition wf_real := wops rstate -> profile -> env -> symfile -> rstate -> outcome (option rstate).

Definition run_mock7_with (wf : wf_mock) (lookup gcps : Z) (hasgc : bool) (regs : list (bytes * Z)) (membase : Z) (mem : bytes)
                     (recs : list rec) (names : list bytes) : c06_out :=
  let E := mock_env 4 lookup regs membase mem hasgc gcps in
  match wf (mock_ops 4) Debug E (build_sym recs (mkSym [] [] None)) m_init with
  | Ret (Some s) => observe_mock names s
  | Ret None => out_none
  | _ => out_panic
  end.

(* x86 walk_stack step from a context frame (no frame below it); module base 0x40000000 *)
Definition run_real7_with (wf : wf_real) (ctx : list (bytes * Z)) (valid : option (list bytes))
                     (stackbase : Z) (stack : bytes) (recs : list rec) : c06_out :=
  let a := x86 in
  let ip := match assoc (a_ip a) ctx with Some v => v | None => 0 end in
  let sp := match assoc (a_sp a) ctx with Some v => v | None => 0 end in
  let sp_valid := match valid with None => true | Some which => mem_b (a_sp a) which end in
  if negb sp_valid || (ip <? 1073741824) || (1073741824 + 65536 <=? ip) then out_none else
  (* context frame: the frame list is just the callee; has_grand_callee / parameter size derived as in front-end F *)
  let E := frames_env (real_callee a ctx valid) (mem_read 4 stackbase stack) (ip - 1073741824) [] (mkSF None) in
  match wf (real_ops a) Debug E (build_sym recs (mkSym [] [] None)) (real_init a ctx valid) with
  | Ret (Some s) =>
      match post_real 0 a sp s with
      | Some s1 => Build_c06_out 1 None None (observe_real a s1) []
      | None => out_none
      end
  | Ret None => out_none
  | _ => out_panic
  end.

Definition run_mock7 := run_mock7_with (@walk_frame mstate).
Definition run_mock7_src := run_mock7_with (@src_walk_frame mstate).
Definition run_real7 := run_real7_with (@walk_frame rstate).
Definition run_real7_src := run_real7_with (@src_walk_frame rstate).

(* ---- the same two front-ends, starting from the TEXT of the symbol file (C07/Text.v) ---- *)
Definition out_rejected := Build_c06_out 4 None None [] [].

Definition run_mock7_text (lookup gcps : Z) (hasgc : bool) (regs : list (bytes * Z)) (membase : Z) (mem : bytes)
                          (lines : list bytes) (names : list bytes) : c06_out :=
  let E := mock_env 4 lookup regs membase mem hasgc gcps in
  match walk_frame_text (mock_ops 4) Debug E (map C09.Grammar.to_rle lines) m_init with
  | Ret (Some (Some s)) => observe_mock names s
  | Ret (Some None) => out_none
  | Ret None => out_rejected
  | _ => out_panic
  end.

Definition run_real7_text (ctx : list (bytes * Z)) (valid : option (list bytes))
                          (stackbase : Z) (stack : bytes) (lines : list bytes) : c06_out :=
  let a := x86 in
  let ip := match assoc (a_ip a) ctx with Some v => v | None => 0 end in
  let sp := match assoc (a_sp a) ctx with Some v => v | None => 0 end in
  let sp_valid := match valid with None => true | Some which => mem_b (a_sp a) which end in
  if negb sp_valid || (ip <? 1073741824) || (1073741824 + 65536 <=? ip) then out_none else
  let E := frames_env (real_callee a ctx valid) (mem_read 4 stackbase stack) (ip - 1073741824) [] (mkSF None) in
  match walk_frame_text (real_ops a) Debug E (map C09.Grammar.to_rle lines) (real_init a ctx valid) with
  | Ret (Some (Some s)) =>
      match post_real 0 a sp s with
      | Some s1 => Build_c06_out 1 None None (observe_real a s1) []
      | None => out_none
      end
  | Ret (Some None) => out_none
  | Ret None => out_none       (* no symbols: no CFI frame *)
  | _ => out_panic
  end.

(* ---- front-end F: one x86 walk_stack step resumed from a frame LIST.  `below` = StackFrame::parameter_size of the
   frames under the callee, innermost first; has_grand_callee / grand_callee_parameter_size are derived from the
   list as walk_stack + CfiStackWalker::from_ctx_and_args do (C07/Walker.v, Gen/C07WalkerArgs.v).
   walk_stack: a frame it produced itself is unwound further only while its stack pointer is inside the stack memory;
   x86::get_caller_frame left `instruction = eip - 1` in every frame but the context frame. ---- *)
Definition frames_pre (below : list (option Z)) (ctx : list (bytes * Z)) (valid : option (list bytes))
                      (stackbase : Z) (stack : bytes) : option (Z * Z) :=
  let a := x86 in
  let ip := match assoc (a_ip a) ctx with Some v => v | None => 0 end in
  let sp := match assoc (a_sp a) ctx with Some v => v | None => 0 end in
  let instr := match below with [] => ip | _ :: _ => ip - 1 end in
  let sp_valid := match valid with None => true | Some which => mem_b (a_sp a) which end in
  let sp_in_stack := match below with
                     | [] => true
                     | _ :: _ => match mem_read 1 stackbase stack sp with Some _ => true | None => false end
                     end in
  if negb sp_valid || negb sp_in_stack || (instr <? 1073741824) || (1073741824 + 65536 <=? instr) then None
  else Some (instr - 1073741824, sp).

Definition run_frames7_with (wf : wf_real) (below : list (option Z)) (ctx : list (bytes * Z)) (valid : option (list bytes))
                       (stackbase : Z) (stack : bytes) (recs : list rec) : c06_out :=
  let a := x86 in
  match frames_pre below ctx valid stackbase stack with
  | None => out_none
  | Some (lookup, sp) =>
      let E := frames_env (real_callee a ctx valid) (mem_read 4 stackbase stack) lookup (map mkSF below) (mkSF None) in
      match wf (real_ops a) Debug E (build_sym recs (mkSym [] [] None)) (real_init a ctx valid) with
      | Ret (Some s) =>
          match post_real 0 a sp s with
          | Some s1 => Build_c06_out 1 None None (observe_real a s1) []
          | None => out_none
          end
      | Ret None => out_none
      | _ => out_panic
      end
  end.
Definition run_frames7 := run_frames7_with (@walk_frame rstate).
Definition run_frames7_src := run_frames7_with (@src_walk_frame rstate).

Definition run_frames7_text (below : list (option Z)) (ctx : list (bytes * Z)) (valid : option (list bytes))
                            (stackbase : Z) (stack : bytes) (lines : list bytes) : c06_out :=
  let a := x86 in
  match frames_pre below ctx valid stackbase stack with
  | None => out_none
  | Some (lookup, sp) =>
      let E := frames_env (real_callee a ctx valid) (mem_read 4 stackbase stack) lookup (map mkSF below) (mkSF None) in
      match walk_frame_text (real_ops a) Debug E (map C09.Grammar.to_rle lines) (real_init a ctx valid) with
      | Ret (Some (Some s)) =>
          match post_real 0 a sp s with
          | Some s1 => Build_c06_out 1 None None (observe_real a s1) []
          | None => out_none
          end
      | Ret (Some None) => out_none
      | Ret None => out_none
      | _ => out_panic
      end
  end.

(* ---- front-end G (round 5): a WHOLE x86 walk from the context frame through STACK WIN records of both kinds
   (C07/WalkerFd.v win_walk, the function c07_win_recovers_chain(_bp) are about).  The symbol file as walk_stack sees it
   from an instruction pointer: every frame but the context frame is looked up at eip - 1 (the generator keeps eip and
   eip - 1 of the context frame inside one function and one record), frame data preferred over FPO, parameter size from
   the FUNC record covering the address (none = unknown). ---- *)
Fixpoint func_psize (funcs : list (Z * Z * Z)) (a : Z) : option Z :=
  match funcs with
  | [] => None
  | (fa, fs, ps) :: r => if (fa <=? a) && (a <? fa + fs) then Some ps else func_psize r a
  end.

Definition walk_lookup (recs : list rec) (funcs : list (Z * Z * Z)) (eip : Z) : option (win_info * option Z) :=
  let a := eip - 1 - 1073741824 in
  if (a <? 0) || (65536 <=? a) then None else
  let f := build_sym recs (mkSym [] [] None) in
  match win_table (sf_framedata f), win_table (sf_fpo f) with
  | Ret fd, Ret fp =>
      match C08.Model.rm_get fd a with
      | Some i => Some (i, func_psize funcs a)
      | None => match C08.Model.rm_get fp a with
                | Some i => Some (i, func_psize funcs a)
                | None => None
                end
      end
  | _, _ => None
  end.

(* win_walk (WalkerFd.v) over the compiled evaluators: src_walk_win_framedata / g_walk_win_fpo instead of
   walk_win_framedata / walk_win_fpo *)
Definition src_win_xstep (mem : Z -> option Z) (below : list sframe) (callee : sframe) (r : xregs) (i : win_info) : option xregs :=
  let E := frames_env (fun n => assoc n [(N_eip, x_eip r); (N_esp, x_esp r); (N_ebp, x_ebp r)]) mem 0 below callee in
  let out := fun (o : mstate * bool) =>
    match o with
    | (s, true) =>
        match m_regs s N_eip, m_regs s N_esp, m_regs s N_ebp with
        | SetTo a, SetTo b, SetTo c => Some (mkX a b c)
        | _, _, _ => None
        end
    | (_, false) => None
    end in
  match w_thing i with
  | ProgramString e =>
      match src_walk_win_framedata (mock_ops 4) Debug E i e m_init with
      | Ret o => out o
      | _ => None
      end
  | AllocatesBasePointer abp => out (g_walk_win_fpo (mock_ops 4) E i abp m_init)
  end.

Fixpoint walk_with (step : (Z -> option Z) -> list sframe -> sframe -> xregs -> win_info -> option xregs)
                   (fuel : nat) (mem : Z -> option Z) (in_stack : Z -> bool) (lookup : Z -> option (win_info * option Z))
                   (below : list sframe) (r : xregs) : list xregs :=
  match fuel with
  | O => []
  | S k =>
      if (match below with [] => true | _ :: _ => in_stack (x_esp r) end) then
        match lookup (x_eip r) with
        | None => []
        | Some (i, ps) =>
            match step mem below (mkSF ps) r i with
            | Some r' =>
                if (x_eip r' <? 4096) || (x_esp r' <=? x_esp r) then []
                else r' :: walk_with step k mem in_stack lookup (below ++ [mkSF ps]) r'
            | None => []
            end
        end
      else []
  end.

Definition run_walk7_with (walk : nat -> (Z -> option Z) -> (Z -> bool) -> (Z -> option (win_info * option Z)) -> list sframe -> xregs -> list xregs)
                     (ctx : list (bytes * Z)) (stackbase : Z) (stack : bytes) (funcs : list (Z * Z * Z)) (recs : list rec)
  : list xregs :=
  let g := fun n => match assoc n ctx with Some v => v | None => 0 end in
  walk 64%nat (mem_read 4 stackbase stack)
           (fun sp => match mem_read 1 stackbase stack sp with Some _ => true | None => false end)
           (walk_lookup recs funcs) [] (mkX (g N_eip) (g N_esp) (g N_ebp)).
Definition run_walk7 := run_walk7_with win_walk.
Definition run_walk7_src := run_walk7_with (walk_with src_win_xstep).
