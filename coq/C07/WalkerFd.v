(* C07/WalkerFd.v — round 5: walk_stack's loop on the abstract 32-bit walker with BOTH kinds of STACK WIN record
   (C07/Walker.v's fpo_walk gives up on a frame-data record): a frame-data record is evaluated by
   walk_win_framedata, an FPO record by walk_win_fpo; eip / esp / ebp of the caller must all be set.  Definitions only. *)
From RM Require Import C06.Model C07.Model C07.Walker.
Open Scope Z_scope.

Definition win_xstep (mem : Z -> option Z) (below : list sframe) (callee : sframe) (r : xregs) (i : win_info) : option xregs :=
  let E := frames_env (fun n => assoc n [(N_eip, x_eip r); (N_esp, x_esp r); (N_ebp, x_ebp r)]) mem 0 below callee in
  match w_thing i with
  | ProgramString e =>
      match walk_win_framedata (mock_ops 4) Debug E i e m_init with
      | Ret (s, true) =>
          match m_regs s N_eip, m_regs s N_esp, m_regs s N_ebp with
          | SetTo a, SetTo b, SetTo c => Some (mkX a b c)
          | _, _, _ => None
          end
      | _ => None
      end
  | AllocatesBasePointer _ => fpo_step mem below callee r i
  end.

Fixpoint win_walk (fuel : nat) (mem : Z -> option Z) (in_stack : Z -> bool) (lookup : Z -> option (win_info * option Z))
                  (below : list sframe) (r : xregs) : list xregs :=
  match fuel with
  | O => []
  | S k =>
      if (match below with [] => true | _ :: _ => in_stack (x_esp r) end) then
        match lookup (x_eip r) with
        | None => []
        | Some (i, ps) =>
            match win_xstep mem below (mkSF ps) r i with
            | Some r' =>
                if (x_eip r' <? 4096) || (x_esp r' <=? x_esp r) then []
                else r' :: win_walk k mem in_stack lookup (below ++ [mkSF ps]) r'
            | None => []
            end
        end
      else []
  end.

(* $T0 .raSearch = $eip $T0 ^ = $esp $T0 4 + = *)
Definition prog_ra_search_b : bytes :=
  [36; 84; 48; 32; 46; 114; 97; 83; 101; 97; 114; 99; 104; 32; 61; 32; 36; 101; 105; 112; 32; 36; 84; 48; 32; 94; 32; 61; 32;
   36; 101; 115; 112; 32; 36; 84; 48; 32; 52; 32; 43; 32; 61].

(* well-formed stacks whose functions carry an FPO record (no base pointer) or a frame-data record with that program,
   in any mix; same frame layout as fpo_layout: [arguments for the callee][locals][saved registers][return address] *)
Fixpoint win_layout (mem : Z -> option Z) (in_stack : Z -> bool) (lookup : Z -> option (win_info * option Z))
                    (ctx : bool) (gcps eip esp : Z) (acts : list act) : Prop :=
  match acts with
  | [] => True
  | (i, ps, ra) :: rest =>
      let F := w_locals i + w_saved i + gcps in
      lookup eip = Some (i, ps) /\
      (w_thing i = AllocatesBasePointer false \/ w_thing i = ProgramString prog_ra_search_b) /\
      (ctx = false -> in_stack esp = true) /\
      win_frame_size i gcps = Some F /\ 0 <= F /\
      mem (esp + F) = Some ra /\ 4096 <= ra < 2 ^ 32 /\ esp + F + 4 < 2 ^ 32 /\
      (* an FPO record on the context frame: no leftover return address on top (frame data has no such rule) *)
      (ctx = true -> w_thing i = AllocatesBasePointer false -> ra <> eip) /\
      win_layout mem in_stack lookup false (psz ps) ra (esp + F + 4) rest
  end.

(* ---- all three kinds of record in one stack: FPO without / with base pointer, frame data with the .raSearch program.
   An activation names the ebp its caller resumes with (Walker.v: act_bp, fpo_chain_bp). ---- *)
Fixpoint win_layout_bp (mem : Z -> option Z) (in_stack : Z -> bool) (lookup : Z -> option (win_info * option Z))
                       (ctx : bool) (gcps eip esp ebp : Z) (acts : list act_bp) : Prop :=
  match acts with
  | [] => True
  | (i, ps, ra, bp') :: rest =>
      let F := w_locals i + w_saved i + gcps in
      lookup eip = Some (i, ps) /\ (ctx = false -> in_stack esp = true) /\
      win_frame_size i gcps = Some F /\ 0 <= w_locals i /\ 0 <= w_saved i /\ 0 <= gcps /\
      mem (esp + F) = Some ra /\ 4096 <= ra < 2 ^ 32 /\ esp + F + 4 < 2 ^ 32 /\
      match w_thing i with
      | AllocatesBasePointer true =>
          (ctx = true -> ra <> eip) /\ 0 <= esp + gcps + w_saved i - 8 /\ mem (esp + gcps + w_saved i - 8) = Some bp'
      | AllocatesBasePointer false => (ctx = true -> ra <> eip) /\ bp' = ebp
      | ProgramString e => e = prog_ra_search_b /\ bp' = ebp /\ 0 <= ebp
      end /\ bp' < 2 ^ 32 /\
      win_layout_bp mem in_stack lookup false (psz ps) ra (esp + F + 4) bp' rest
  end.

(* ---- standard ebp frames (the module docs' worked example): every function carries a frame-data record with
   `$T0 $ebp = $eip $T0 4 + ^ = $ebp $T0 ^ = $esp $T0 8 + =`; the callee's ebp points at the saved ebp, the return
   address sits right above it.  An activation = (record, parameter size, return address, the caller's ebp). ---- *)
Definition prog_ebp_frame_b : bytes :=
  [36; 84; 48; 32; 36; 101; 98; 112; 32; 61; 32; 36; 101; 105; 112; 32; 36; 84; 48; 32; 52; 32; 43; 32; 94; 32; 61; 32;
   36; 101; 98; 112; 32; 36; 84; 48; 32; 94; 32; 61; 32; 36; 101; 115; 112; 32; 36; 84; 48; 32; 56; 32; 43; 32; 61].

Fixpoint ebp_layout (mem : Z -> option Z) (in_stack : Z -> bool) (lookup : Z -> option (win_info * option Z))
                    (ctx : bool) (gcps eip esp ebp : Z) (acts : list act_bp) : Prop :=
  match acts with
  | [] => True
  | (i, ps, ra, bp') :: rest =>
      lookup eip = Some (i, ps) /\ w_thing i = ProgramString prog_ebp_frame_b /\ (ctx = false -> in_stack esp = true) /\
      (* the predefined .raSearch must be computable although the program does not use it *)
      (exists fs, win_frame_size i gcps = Some fs /\ 0 <= fs /\ esp + fs < 2 ^ 32) /\
      0 <= esp < 2 ^ 32 /\ esp < ebp + 8 /\ ebp + 8 < 2 ^ 32 /\ 0 <= ebp /\
      mem (ebp + 4) = Some ra /\ 4096 <= ra < 2 ^ 32 /\ mem ebp = Some bp' /\ 0 <= bp' < 2 ^ 32 /\
      ebp_layout mem in_stack lookup false (psz ps) ra (ebp + 8) bp' rest
  end.

Fixpoint ebp_chain (ebp : Z) (acts : list act_bp) : list xregs :=
  match acts with
  | [] => []
  | (i, ps, ra, bp') :: rest => mkX ra (ebp + 8) bp' :: ebp_chain bp' rest
  end.
