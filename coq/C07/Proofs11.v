(* C07/Proofs11.v — every well-formed all-FPO x86 stack is walked to exactly its generated chain (any depth, from the
   context frame or from any later frame, functions with or without FUNC records, any recursion). *)
From Coq Require Import Lia.
From RM Require Import C06.Model C06.Proofs C07.Model C07.Walker C07.Proofs2 C07.Proofs6 C07.Proofs7.
Import ListNotations.
Open Scope Z_scope.

(* the context frame: no skip when the slot does not hold the frame's own eip *)
Lemma fpo_step_context : forall mem callee r i fs ra,
  w_thing i = AllocatesBasePointer false ->
  win_frame_size i 0 = Some fs ->
  0 <= x_esp r -> 0 <= fs ->
  mem (x_esp r + fs) = Some ra -> ra <> x_eip r ->
  ra < 2 ^ 32 -> x_esp r + fs + 4 < 2 ^ 32 -> x_ebp r < 2 ^ 32 ->
  fpo_step mem [] callee r i = Some (mkX ra (x_esp r + fs + 4) (x_ebp r)).
Proof.
  intros mem callee r i fs ra Habp Hfs Hesp0 Hfs0 Hm Hne Hra Hsp Hbp.
  unfold fpo_step, frames_env. rewrite Habp. rewrite walker_has_gc_spec, walker_gcps_spec.
  change (spec_has_gc []) with false. change (spec_gcps []) with 0.
  unfold walk_win_fpo. cbv zeta. cbn [e_gcps e_callee e_mem e_has_gc].
  rewrite Hfs.
  change (assoc N_esp [(N_eip, x_eip r); (N_esp, x_esp r); (N_ebp, x_ebp r)]) with (Some (x_esp r)).
  change (assoc N_ebp [(N_eip, x_eip r); (N_esp, x_esp r); (N_ebp, x_ebp r)]) with (Some (x_ebp r)).
  change (assoc N_ebx [(N_eip, x_eip r); (N_esp, x_esp r); (N_ebp, x_ebp r)]) with (@None Z).
  change (assoc N_eip [(N_eip, x_eip r); (N_esp, x_esp r); (N_ebp, x_ebp r)]) with (Some (x_eip r)).
  unfold checked_add.
  replace (x_esp r + fs <? 2 ^ 64) with true by (symmetry; apply Z.ltb_lt; lia).
  rewrite Hm. cbn [negb].
  replace (ra =? x_eip r) with false by (symmetry; apply Z.eqb_neq; exact Hne).
  replace (x_esp r + fs + 4 <? 2 ^ 64) with true by (symmetry; apply Z.ltb_lt; lia).
  set (s0 := clear_all (mock_ops 4) win_clear_names m_init).
  rewrite (mock_set_ok s0 N_eip ra eq_refl Hra).
  rewrite (mock_set_ok _ N_esp (x_esp r + fs + 4) eq_refl Hsp).
  rewrite (mock_set_ok _ N_ebp (x_ebp r) eq_refl Hbp).
  cbn [m_regs]. unfold upd.
  change (beq N_eip N_ebp) with false. change (beq N_eip N_esp) with false. change (beq N_eip N_eip) with true.
  change (beq N_esp N_ebp) with false. change (beq N_esp N_esp) with true. change (beq N_ebp N_ebp) with true.
  reflexivity.
Qed.

Definition is_nil {A} (l : list A) : bool := match l with [] => true | _ :: _ => false end.

Theorem fpo_recovers_chain : forall mem in_stack lookup ebp (acts : list act) below eip esp,
  fpo_layout mem in_stack lookup (is_nil below) (spec_gcps below) eip esp acts ->
  0 <= esp -> ebp < 2 ^ 32 ->
  fpo_walk (length acts) mem in_stack lookup below (mkX eip esp ebp) = fpo_chain (spec_gcps below) esp ebp acts.
Proof.
  intros mem in_stack lookup ebp acts. induction acts as [|[[i ps] ra] rest IH]; intros below eip esp HL Hesp Hbp.
  - reflexivity.
  - cbn [fpo_layout] in HL. destruct HL as (Hl & Habp & His & Hfs & HF & Hm & Hra & Htop & Hctx & Hrest).
    cbn [length fpo_walk fpo_chain x_esp x_eip].
    replace (match below with [] => true | _ :: _ => in_stack esp end) with true
      by (destruct below; [reflexivity|symmetry; apply His; reflexivity]).
    rewrite Hl.
    set (F := w_locals i + w_saved i + spec_gcps below) in *.
    assert (Hstep : fpo_step mem below (mkSF ps) (mkX eip esp ebp) i = Some (mkX ra (esp + F + 4) ebp)).
    { destruct below as [|g t].
      - change (spec_gcps []) with 0 in Hfs.
        apply (fpo_step_context mem (mkSF ps) (mkX eip esp ebp) i F ra); cbn [x_esp x_ebp x_eip]; try assumption; try lia.
        apply Hctx. reflexivity.
      - apply (fpo_step_above_context mem (g :: t) (mkSF ps) (mkX eip esp ebp) i F ra); cbn [x_esp x_ebp x_eip];
          try assumption; try lia. discriminate. }
    rewrite Hstep. cbn [x_eip x_esp].
    replace (ra <? 4096) with false by (symmetry; apply Z.ltb_ge; lia).
    replace (esp + F + 4 <=? esp) with false by (symmetry; apply Z.leb_gt; lia).
    cbn [orb]. f_equal.
    specialize (IH (below ++ [mkSF ps]) ra (esp + F + 4)).
    rewrite spec_gcps_snoc in IH.
    replace (is_nil (below ++ [mkSF ps])) with false in IH by (destruct below; reflexivity).
    apply IH; [exact Hrest|lia|exact Hbp].
Qed.
