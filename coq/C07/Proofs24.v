(* C07/Proofs24.v — second pass of round 5: the STACK WIN table of an ADDRESS-SORTED file, completely.  parser.rs's own
   example ("addr: 0, len: 10 / addr: 1, len: 9 / addr: 4, len: 6": each line has an accurate start, the length covers
   the rest of the function) in general: for records of one kind with strictly increasing addresses, each record ends
   where it says or just before the next one starts, whichever comes first (clip_list), nothing is dropped, and a
   lookup returns the clipped record containing the address. *)
From Coq Require Import Lia Bool.
From RM Require Import Base.Word C06.Model C06.Proofs C07.Model C07.Proofs C07.Proofs4.
From RM Require C08.Model C08.Proofs.
Import ListNotations.
Open Scope Z_scope.

(* a record the parser can produce that has a memory range *)
Definition has_range (i : win_info) : Prop := win_wf i /\ 0 < w_size i /\ w_addr i + w_size i < 2 ^ 64.

Fixpoint clip_list (l : list win_info) : list win_info :=
  match l with
  | [] => []
  | r :: t => match t with
              | [] => [r]
              | r' :: _ => set_size r (Z.min (w_size r) (w_addr r' - w_addr r)) :: clip_list t
              end
  end.

Fixpoint ascending (l : list win_info) : Prop :=
  match l with
  | [] => True
  | r :: t => match t with [] => True | r' :: _ => w_addr r < w_addr r' end /\ ascending t
  end.

Definition rng_of (i : win_info) : C08.Model.range := (w_addr i, w_addr i + w_size i - 1).

Lemma has_range_range : forall i, has_range i -> win_range i = Some (rng_of i).
Proof.
  intros i [_ [Hs Ho]]. unfold rng_of, win_range, C08.Model.mk_range, checked_add.
  replace (w_size i =? 0) with false by (symmetry; apply Z.eqb_neq; lia).
  replace (w_addr i + w_size i <? 2 ^ 64) with true by (symmetry; apply Z.ltb_lt; lia). reflexivity.
Qed.

Lemma set_size_self : forall i, set_size i (w_size i) = i.
Proof. destruct i; reflexivity. Qed.

Lemma keep_cons : forall i r, keep (i :: r) = (match win_range i with Some rg => [(rg, i)] | None => [] end) ++ keep r.
Proof. reflexivity. Qed.

Lemma has_range_clip : forall i d, has_range i -> 0 < d <= w_size i -> has_range (set_size i d).
Proof.
  intros i d [[Ha [Hs1 Hs2]] [Hp Ho]] Hd. unfold has_range, win_wf, set_size. cbn [w_addr w_size]. repeat split; lia.
Qed.

(* the vector after the records of an ascending list have been read (head = the last record, still as written) *)
Lemma insert_all_ascending : forall t r acc,
  acc_wf acc -> has_range r -> Forall has_range t -> ascending (r :: t) ->
  insert_all t ((rng_of r, r) :: acc) = Ret (rev (keep (clip_list (r :: t))) ++ acc).
Proof.
  induction t as [|r' t' IH]; intros r acc Hacc Hr Ht Hasc.
  - cbn [insert_all clip_list]. rewrite keep_cons, (has_range_range r Hr). reflexivity.
  - inversion Ht as [|? ? Hr' Ht']; subst. cbn [insert_all].
    destruct Hasc as [Hlt Hasc'].
    pose proof (has_range_range r Hr) as Er. pose proof (has_range_range r' Hr') as Er'.
    assert (Hacc1 : acc_wf ((rng_of r, r) :: acc)).
    { apply acc_wf_cons; [exact Er|exact (proj1 Hr)|exact Hacc]. }
    destruct (insert_win_cases (rng_of r) r acc r' (rng_of r') Hacc1 (proj1 Hr') Er') as [Hno Hyes].
    change (clip_list (r :: r' :: t')) with (set_size r (Z.min (w_size r) (w_addr r' - w_addr r)) :: clip_list (r' :: t')).
    destruct (C08.Model.intersects (rng_of r) (rng_of r')) eqn:Ei.
    + destruct (Hyes eq_refl) as [H1 _]. rewrite (H1 Hlt). cbn [obind].
      unfold C08.Model.intersects, rng_of in Ei. cbn [fst snd] in Ei. apply andb_prop in Ei. destruct Ei as [E1 E2].
      apply Z.leb_le in E1, E2.
      assert (Hmin : Z.min (w_size r) (w_addr r' - w_addr r) = w_addr r' - w_addr r) by lia.
      rewrite Hmin.
      assert (Hc : has_range (set_size r (w_addr r' - w_addr r))) by (apply has_range_clip; [exact Hr|lia]).
      pose proof (has_range_range _ Hc) as Ec.
      assert (Erng : rng_of (set_size r (w_addr r' - w_addr r)) = ((w_addr r, w_addr r' - 1) : C08.Model.range)).
      { unfold rng_of, set_size. cbn [w_addr w_size]. f_equal. lia. }
      pose proof (IH r' ((rng_of (set_size r (w_addr r' - w_addr r)), set_size r (w_addr r' - w_addr r)) :: acc)
                    (acc_wf_cons _ _ _ Ec (proj1 Hc) Hacc) Hr' Ht' Hasc') as IH1.
      rewrite Erng in IH1. etransitivity; [exact IH1|].
      rewrite (keep_cons (set_size r (w_addr r' - w_addr r))), Ec, Erng. cbn [app rev]. rewrite <- app_assoc. reflexivity.
    + rewrite (Hno eq_refl). cbn [obind].
      unfold C08.Model.intersects, rng_of in Ei. cbn [fst snd] in Ei.
      assert (Hgt : w_addr r + w_size r - 1 < w_addr r').
      { apply andb_false_iff in Ei. destruct Ei as [E|E]; apply Z.leb_gt in E; destruct Hr' as [_ [Hp' _]]; lia. }
      assert (Hmin : Z.min (w_size r) (w_addr r' - w_addr r) = w_size r) by lia.
      rewrite Hmin, set_size_self.
      rewrite (IH r' ((rng_of r, r) :: acc) Hacc1 Hr' Ht' Hasc').
      rewrite (keep_cons r), Er. cbn [app rev]. rewrite <- app_assoc. reflexivity.
Qed.

Lemma clip_has_range : forall l, Forall has_range l -> ascending l -> Forall has_range (clip_list l).
Proof.
  induction l as [|r t IH]; intros Hl Ha; [constructor|].
  inversion Hl as [|? ? Hr Ht]; subst. destruct t as [|r' t']; [constructor; [exact Hr|constructor]|].
  change (clip_list (r :: r' :: t')) with (set_size r (Z.min (w_size r) (w_addr r' - w_addr r)) :: clip_list (r' :: t')).
  destruct Ha as [Hlt Ha']. constructor; [|apply IH; assumption].
  apply has_range_clip; [exact Hr|]. destruct Hr as [_ [Hp _]]. lia.
Qed.

Lemma has_range_wf : forall l, Forall has_range l -> Forall win_wf l.
Proof. intros l H. eapply Forall_impl; [|exact H]. intros i Hi. exact (proj1 Hi). Qed.

(* every entry of the clipped tail starts at or after the tail's first address *)
Lemma clip_starts : forall t r e, Forall has_range (r :: t) -> ascending (r :: t) ->
  In e (keep (clip_list (r :: t))) -> w_addr r <= fst (fst e).
Proof.
  induction t as [|r' t' IH]; intros r e Hl Ha Hin.
  - cbn [clip_list] in Hin. inversion Hl as [|? ? Hr _]; subst. rewrite keep_cons, (has_range_range r Hr) in Hin.
    destruct Hin as [Hin|[]]. subst e. unfold rng_of. cbn. lia.
  - inversion Hl as [|? ? Hr Ht]; subst. destruct Ha as [Hlt Ha'].
    change (clip_list (r :: r' :: t')) with (set_size r (Z.min (w_size r) (w_addr r' - w_addr r)) :: clip_list (r' :: t')) in Hin.
    rewrite keep_cons in Hin. apply in_app_or in Hin. destruct Hin as [Hin|Hin].
    + assert (Hc : has_range (set_size r (Z.min (w_size r) (w_addr r' - w_addr r)))).
      { apply has_range_clip; [exact Hr|]. destruct Hr as [_ [Hp _]]. lia. }
      rewrite (has_range_range _ Hc) in Hin. destruct Hin as [Hin|[]]. subst e. unfold rng_of. cbn. lia.
    + pose proof (IH r' e Ht Ha' Hin). lia.
Qed.

Lemma clip_disjoint : forall l, Forall has_range l -> ascending l -> disjoint_ranges (keep (clip_list l)).
Proof.
  induction l as [|r t IH]; intros Hl Ha; [exact I|].
  inversion Hl as [|? ? Hr Ht]; subst. destruct t as [|r' t'].
  - cbn [clip_list]. rewrite keep_cons, (has_range_range r Hr). cbn. split; [intros e' []|exact I].
  - destruct Ha as [Hlt Ha'].
    change (clip_list (r :: r' :: t')) with (set_size r (Z.min (w_size r) (w_addr r' - w_addr r)) :: clip_list (r' :: t')).
    assert (Hc : has_range (set_size r (Z.min (w_size r) (w_addr r' - w_addr r)))).
    { apply has_range_clip; [exact Hr|]. destruct Hr as [_ [Hp _]]. lia. }
    rewrite keep_cons, (has_range_range _ Hc). cbn [app disjoint_ranges]. split; [|apply IH; assumption].
    intros e' Hin. pose proof (clip_starts t' r' e' Ht Ha' Hin) as Hs.
    unfold C08.Model.intersects, rng_of. cbn [fst snd set_size w_addr w_size]. apply andb_false_iff. right. apply Z.leb_gt. lia.
Qed.

(* ---- the theorem ---- *)
Theorem table_ascending : forall l,
  Forall has_range l -> ascending l ->
  win_table l = win_table (clip_list l) /\
  disjoint_ranges (keep (clip_list l)) /\
  exists t, win_table l = Ret t /\ forall x, C08.Model.rm_get t x = table_spec_lookup (clip_list l) x.
Proof.
  intros l Hl Ha.
  pose proof (clip_disjoint l Hl Ha) as Hd.
  pose proof (has_range_wf _ (clip_has_range l Hl Ha)) as Hwf.
  assert (E : win_table l = win_table (clip_list l)).
  { unfold win_table at 2. rewrite (insert_all_disjoint (clip_list l) [] (Forall_nil _) Hwf Hd). cbn [obind].
    rewrite app_nil_r. unfold win_table. destruct l as [|r t]; [reflexivity|].
    inversion Hl as [|? ? Hr Ht]; subst. cbn [insert_all]. unfold insert_win at 1. rewrite (has_range_range r Hr). cbn [obind].
    rewrite (insert_all_ascending t r [] (Forall_nil _) Hr Ht Ha). rewrite app_nil_r. reflexivity. }
  split; [exact E|]. split; [exact Hd|].
  destruct (table_refines_spec (clip_list l) Hwf Hd) as [t [Ht Hx]].
  exists t. split; [rewrite E; exact Ht|exact Hx].
Qed.
