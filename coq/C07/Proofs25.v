(* C07/Proofs25.v — second pass of round 5: whole x86 walks through ALL FOUR kinds of STACK WIN record in one stack —
   FPO without / with base pointer, frame data with the .raSearch program (esp-based: Proofs19 win_recovers_chain_bp) and
   frame data with the docs' standard ebp-frame program (ebp-based: ebp_recovers_chain), in any mix.  Each activation
   must satisfy the one-activation layout of its own kind; the walk yields exactly the generated chain. *)
From Coq Require Import Lia.
From RM Require Import Base.Word C06.Model C07.Model C07.Walker C07.WalkerFd C07.Proofs7 C07.Proofs11 C07.Proofs19.
Import ListNotations.
Open Scope Z_scope.

Definition is_ebp_rec (i : win_info) : bool := thing_eqb (w_thing i) (ProgramString prog_ebp_frame_b).

(* the caller's stack pointer after one activation: ebp + 8 through an ebp frame, esp + frame size + 4 otherwise *)
Definition mix_sp (gcps esp ebp : Z) (i : win_info) : Z :=
  if is_ebp_rec i then ebp + 8 else esp + (w_locals i + w_saved i + gcps) + 4.

Fixpoint mix_chain (gcps esp ebp : Z) (acts : list act_bp) : list xregs :=
  match acts with
  | [] => []
  | (i, ps, ra, bp') :: rest => mkX ra (mix_sp gcps esp ebp i) bp' :: mix_chain (psz ps) (mix_sp gcps esp ebp i) bp' rest
  end.

Fixpoint mix_layout (mem : Z -> option Z) (in_stack : Z -> bool) (lookup : Z -> option (win_info * option Z))
                    (ctx : bool) (gcps eip esp ebp : Z) (acts : list act_bp) : Prop :=
  match acts with
  | [] => True
  | (i, ps, ra, bp') :: rest =>
      (if is_ebp_rec i
       then ebp_layout mem in_stack lookup ctx gcps eip esp ebp [(i, ps, ra, bp')]
       else win_layout_bp mem in_stack lookup ctx gcps eip esp ebp [(i, ps, ra, bp')] /\ 0 <= esp) /\
      mix_layout mem in_stack lookup false (psz ps) ra (mix_sp gcps esp ebp i) bp' rest
  end.

(* a walk of one step that produced a frame is the first step of every longer walk *)
Lemma win_walk_first : forall mem in_stack lookup below r i ps r' k,
  lookup (x_eip r) = Some (i, ps) ->
  win_walk 1 mem in_stack lookup below r = [r'] ->
  win_walk (S k) mem in_stack lookup below r = r' :: win_walk k mem in_stack lookup (below ++ [mkSF ps]) r'.
Proof.
  intros mem in_stack lookup below r i ps r' k Hl H1. cbn [win_walk] in *. rewrite Hl in *.
  destruct (match below with [] => true | _ :: _ => in_stack (x_esp r) end); [|discriminate H1].
  destruct (win_xstep mem below (mkSF ps) r i) as [r1|]; [|discriminate H1].
  destruct ((x_eip r1 <? 4096) || (x_esp r1 <=? x_esp r)); [discriminate H1|].
  inversion H1; subst. reflexivity.
Qed.

Theorem mix_recovers_chain : forall mem in_stack lookup (acts : list act_bp) below eip esp ebp,
  mix_layout mem in_stack lookup (is_nil below) (spec_gcps below) eip esp ebp acts ->
  win_walk (length acts) mem in_stack lookup below (mkX eip esp ebp) = mix_chain (spec_gcps below) esp ebp acts.
Proof.
  intros mem in_stack lookup acts. induction acts as [|[[[i ps] ra] bp'] rest IH]; intros below eip esp ebp HL.
  - reflexivity.
  - cbn [mix_layout] in HL. destruct HL as [Hone Hrest].
    cbn [length mix_chain].
    assert (Hl : lookup eip = Some (i, ps)).
    { destruct (is_ebp_rec i); [exact (proj1 Hone)|exact (proj1 (proj1 Hone))]. }
    assert (H1 : win_walk 1 mem in_stack lookup below (mkX eip esp ebp) = [mkX ra (mix_sp (spec_gcps below) esp ebp i) bp']).
    { unfold mix_sp. destruct (is_ebp_rec i).
      - exact (ebp_recovers_chain mem in_stack lookup [(i, ps, ra, bp')] below eip esp ebp Hone).
      - destruct Hone as [Hw Hesp]. exact (win_recovers_chain_bp mem in_stack lookup [(i, ps, ra, bp')] below eip esp ebp Hw Hesp). }
    rewrite (win_walk_first mem in_stack lookup below (mkX eip esp ebp) i ps _ (length rest) Hl H1).
    f_equal.
    specialize (IH (below ++ [mkSF ps]) ra (mix_sp (spec_gcps below) esp ebp i) bp').
    rewrite spec_gcps_snoc in IH.
    replace (is_nil (below ++ [mkSF ps])) with false in IH by (destruct below; reflexivity).
    apply IH. exact Hrest.
Qed.
