(* C07/Proofs22.v — second pass of round 5: the exact extent of the known finding F-C07a.  For EVERY callee validity
   set and every record, the set of registers that are valid in the caller although the record does not set them is
   W = { r in CALLEE_SAVED_REGS = [ebp; ebx; edi; esi] | r valid in the callee, r not set by the record }:
   the caller's validity set is (what the record sets) + W, disjointly, every register of W carries the callee's value,
   and W is empty exactly when the case is outside the known class. *)
From Coq Require Import Lia Bool.
From RM Require Import Base.Word C06.Model C06.Proofs C07.Model C07.Proofs C07.Proofs2 C07.Proofs16.
Open Scope Z_scope.

Definition callee_has (valid : option (list bytes)) (n : bytes) : bool :=
  match valid with None => true | Some which => mem_b n which end.

(* the registers F-C07a forwards for a record that sets [sets] *)
Definition wrongly_forwarded (valid : option (list bytes)) (sets : bytes -> bool) : list bytes :=
  filter (fun n => callee_has valid n && negb (sets n)) (a_saved x86).

Lemma mem_b_filter : forall (f : bytes -> bool) n l, mem_b n (filter f l) = mem_b n l && f n.
Proof.
  intros f n l. induction l as [|x r IH]; [reflexivity|].
  cbn [filter mem_b]. destruct (f x) eqn:Fx; cbn [mem_b]; rewrite IH.
  - destruct (beq n x) eqn:B; [|reflexivity]. apply beq_eq in B. subst x. rewrite Fx. reflexivity.
  - destruct (beq n x) eqn:B; [|reflexivity]. apply beq_eq in B. subst x. rewrite Fx. cbn [orb]. rewrite andb_false_r. reflexivity.
Qed.

Lemma mem_b_In : forall n l, mem_b n l = true <-> In n l.
Proof.
  intros n l. split; [apply mem_b_in|]. intro H. destruct (mem_b n l) eqn:M; [reflexivity|].
  exfalso. exact (mem_b_false_notin _ _ M H).
Qed.

Lemma filter_nil_existsb : forall A (f : A -> bool) l, filter f l = [] <-> existsb f l = false.
Proof.
  induction l as [|x r IH]; cbn [filter existsb]; [tauto|].
  destruct (f x); cbn [orb]; [split; discriminate|exact IH].
Qed.

Lemma filter_ext_in' : forall A (f g : A -> bool) l, (forall x, In x l -> f x = g x) -> filter f l = filter g l.
Proof.
  induction l as [|x r IH]; intro H; [reflexivity|]. cbn [filter].
  rewrite (H x (or_introl eq_refl)), IH; [reflexivity|]. intros; apply H; right; assumption.
Qed.

Lemma saved_nodup : NoDup (a_saved x86).
Proof. repeat constructor; cbn; intro H; repeat (destruct H as [H|H]; [discriminate|]); exact H. Qed.

Lemma saved_mem_six : forall n, In n (a_saved x86) -> mem_b n six = true.
Proof. intros n H. apply mem_b_In. apply saved_in_six. exact H. Qed.

(* the generic shape: validity = sets || forwarded  ==>  validity = sets || (in W), W disjoint from sets *)
Lemma forwarded_split : forall valid (sets : bytes -> bool) (v : bytes -> bool) ctx,
  (forall n, v n = sets n || r_valid (real_init x86 ctx valid) n) ->
  let W := wrongly_forwarded valid sets in
  (forall n, v n = sets n || mem_b n W) /\
  (forall n, In n W <-> In n (a_saved x86) /\ callee_has valid n = true /\ sets n = false) /\
  (forall n, In n W -> v n = true) /\
  NoDup W.
Proof.
  intros valid sets v ctx H W. subst W. unfold wrongly_forwarded.
  split; [|split; [|split]].
  - intro n. rewrite H, mem_b_filter, real_init_valid. fold (callee_has valid n).
    destruct (sets n), (mem_b n (a_saved x86)), (callee_has valid n); reflexivity.
  - intro n. rewrite filter_In, andb_true_iff, negb_true_iff. tauto.
  - intros n Hn. apply filter_In in Hn. destruct Hn as [Hs Hp]. apply andb_true_iff in Hp. destruct Hp as [Hc _].
    rewrite H, real_init_valid. fold (callee_has valid n). rewrite Hc. apply mem_b_In in Hs. rewrite Hs. apply orb_true_r.
  - apply NoDup_filter. exact saved_nodup.
Qed.

(* ---- frame data ---- *)
Definition fd_sets (m : vars) (n : bytes) : bool := mem_b n six && is_set n m.

Theorem forwarded_exact_framedata : forall p E i e ctx valid s' m,
  walk_win_framedata (real_ops x86) p E i e (real_init x86 ctx valid) = Ret (s', true) ->
  win_final_vars p E i e = Ret (Some m) ->
  let W := wrongly_forwarded valid (fd_sets m) in
  (forall n, r_valid s' n = fd_sets m n || mem_b n W) /\
  (forall n, In n W <-> In n (a_saved x86) /\ callee_has valid n = true /\ is_set n m = false) /\
  (forall n, In n W -> r_valid s' n = true /\ r_ctx s' n = r_ctx (real_init x86 ctx valid) n) /\
  NoDup W /\
  (W = [] <-> Known_C07a ctx valid m = false).
Proof.
  intros p E i e ctx valid s' m H Hm W.
  pose proof (real_framedata_exact p E i e ctx valid s' m H Hm) as X.
  destruct (forwarded_split valid (fd_sets m) (r_valid s') ctx (fun n => proj1 (X n))) as [A [B [C D]]].
  fold W in A, B, C, D.
  split; [exact A|]. split; [|split; [|split; [exact D|]]].
  - intro n. rewrite B. unfold fd_sets. split.
    + intros [Hs [Hc Hf]]. rewrite (saved_mem_six n Hs) in Hf. tauto.
    + intros [Hs [Hc Hf]]. rewrite (saved_mem_six n Hs). tauto.
  - intros n Hn. split; [exact (C n Hn)|].
    destruct (X n) as [_ Xc]. rewrite Xc.
    apply B in Hn. destruct Hn as [Hs [_ Hf]]. unfold fd_sets in Hf. rewrite (saved_mem_six n Hs) in *. cbn [andb] in Hf.
    unfold is_set in Hf. destruct (vget (dollar n) m); [discriminate|reflexivity].
  - unfold W, wrongly_forwarded, Known_C07a. rewrite <- filter_nil_existsb.
    rewrite (filter_ext_in' _ (fun n => callee_has valid n && negb (fd_sets m n))
                              (fun n => r_valid (real_init x86 ctx valid) n && negb (is_set n m))); [tauto|].
    intros n Hs. rewrite real_init_valid. fold (callee_has valid n). unfold fd_sets.
    rewrite (saved_mem_six n Hs). apply mem_b_In in Hs. rewrite Hs. reflexivity.
Qed.

(* ---- FPO ---- *)
Theorem forwarded_exact_fpo : forall E i abp ctx valid s',
  walk_win_fpo (real_ops x86) E i abp (real_init x86 ctx valid) = (s', true) ->
  let W := wrongly_forwarded valid (fpo_sets E abp) in
  (forall n, r_valid s' n = fpo_sets E abp n || mem_b n W) /\
  (forall n, In n W <-> In n (a_saved x86) /\ callee_has valid n = true /\ fpo_sets E abp n = false) /\
  (forall n, In n W -> r_valid s' n = true) /\
  NoDup W /\
  (W = [] <-> Known_C07a_fpo E abp ctx valid = false) /\
  (* register by register *)
  ~ In N_ebp W /\
  (In N_esi W <-> callee_has valid N_esi = true) /\
  (In N_edi W <-> callee_has valid N_edi = true) /\
  (In N_ebx W <-> callee_has valid N_ebx = true /\ (abp = true \/ e_callee E N_ebx = None)).
Proof.
  intros E i abp ctx valid s' H W.
  pose proof (real_fpo_exact E i abp ctx valid s' H) as X.
  destruct (forwarded_split valid (fpo_sets E abp) (r_valid s') ctx X) as [A [B [C D]]].
  fold W in A, B, C, D.
  split; [exact A|]. split; [exact B|]. split; [exact C|]. split; [exact D|].
  split.
  { unfold W, wrongly_forwarded, Known_C07a_fpo. rewrite <- filter_nil_existsb.
    rewrite (filter_ext_in' _ (fun n => callee_has valid n && negb (fpo_sets E abp n))
                              (fun n => r_valid (real_init x86 ctx valid) n && negb (fpo_sets E abp n))); [tauto|].
    intros n Hs. rewrite real_init_valid. fold (callee_has valid n). apply mem_b_In in Hs. rewrite Hs. reflexivity. }
  split. { rewrite B. intros [_ [_ F]]. rewrite fpo_sets_ebp in F. discriminate. }
  split. { rewrite B. assert (S : In N_esi (a_saved x86)) by (cbn; tauto).
           assert (F : fpo_sets E abp N_esi = false) by (unfold fpo_sets; cbn; rewrite andb_false_r; reflexivity). tauto. }
  split. { rewrite B. assert (S : In N_edi (a_saved x86)) by (cbn; tauto).
           assert (F : fpo_sets E abp N_edi = false) by (unfold fpo_sets; cbn; rewrite andb_false_r; reflexivity). tauto. }
  rewrite B. assert (S : In N_ebx (a_saved x86)) by (cbn; tauto).
  assert (F : fpo_sets E abp N_ebx = false <-> (abp = true \/ e_callee E N_ebx = None)).
  { unfold fpo_sets. change (beq N_ebx N_eip) with false. change (beq N_ebx N_esp) with false.
    change (beq N_ebx N_ebp) with false. change (beq N_ebx N_ebx) with true. cbn [orb andb].
    destruct abp, (e_callee E N_ebx); cbn; split; intro Q; try reflexivity; try discriminate; try tauto;
      destruct Q as [Q|Q]; discriminate. }
  tauto.
Qed.

(* through the real walker's own callee registers (E as from_ctx_and_args builds it): ebx is wrongly forwarded by an
   FPO record exactly when it is valid in the callee and the record allocates a base pointer *)
Lemma real_callee_ebx : forall ctx valid,
  real_callee x86 ctx valid N_ebx = None <-> callee_has valid N_ebx = false.
Proof.
  intros. unfold real_callee. change (memoize x86 N_ebx) with (Some N_ebx). unfold callee_has.
  destruct valid as [which|]; [|split; discriminate]. destruct (mem_b N_ebx which); split; try discriminate; reflexivity.
Qed.

Corollary forwarded_fpo_ebx_real : forall E i abp ctx valid s',
  e_callee E N_ebx = real_callee x86 ctx valid N_ebx ->
  walk_win_fpo (real_ops x86) E i abp (real_init x86 ctx valid) = (s', true) ->
  (In N_ebx (wrongly_forwarded valid (fpo_sets E abp)) <-> callee_has valid N_ebx = true /\ abp = true).
Proof.
  intros E i abp ctx valid s' He H.
  destruct (forwarded_exact_fpo E i abp ctx valid s' H) as [_ [_ [_ [_ [_ [_ [_ [_ X]]]]]]]].
  rewrite X, He, real_callee_ebx. destruct (callee_has valid N_ebx); split; intros [P Q]; try discriminate;
    (split; [reflexivity|]); [destruct Q as [Q|Q]; [exact Q|discriminate]|left; exact Q].
Qed.

(* every subset of the four callee-saved registers occurs: for each validity set V and each set D of outputs a
   program defines, W = (saved ∩ V) \ D — here as a closed formula on lists *)
Lemma wrongly_forwarded_formula : forall valid sets,
  wrongly_forwarded valid sets =
  (if callee_has valid N_ebp && negb (sets N_ebp) then [N_ebp] else []) ++
  (if callee_has valid N_ebx && negb (sets N_ebx) then [N_ebx] else []) ++
  (if callee_has valid N_edi && negb (sets N_edi) then [N_edi] else []) ++
  (if callee_has valid N_esi && negb (sets N_esi) then [N_esi] else []).
Proof.
  intros. unfold wrongly_forwarded. change (a_saved x86) with [N_ebp; N_ebx; N_edi; N_esi]. cbn [filter].
  destruct (callee_has valid N_ebp && negb (sets N_ebp)), (callee_has valid N_ebx && negb (sets N_ebx)),
           (callee_has valid N_edi && negb (sets N_edi)), (callee_has valid N_esi && negb (sets N_esi)); reflexivity.
Qed.
