(* C07/Text.v — from the text of a symbol file to the evaluation, as ONE model: the byte-level line
   grammar and SymbolParser state machine of C09/Grammar.v (nom parsers of STACK WIN / STACK CFI INIT /
   STACK CFI lines, hex field limits, type / has_program consistency, MODULE-first rule, finish_item,
   insert_win_stack_info, the RangeMap builders) feed SymbolFile::walk_frame, which evaluates the records
   with this directory's walk_win_framedata / walk_win_fpo and C06's walk_with_stack_cfi.
   Definitions only (extracted through Driver.v). *)
From RM Require Import C06.Model C07.Model.
From RM Require C08.Model C09.Grammar.
Open Scope Z_scope.


(* run-length encoded text -> bytes *)
Fixpoint rep (b : Z) (n : nat) : bytes := match n with O => [] | S k => b :: rep b k end.
Definition unrle (s : C09.Grammar.rle) : bytes :=
  flat_map (fun bc => rep (fst bc) (Z.to_nat (Z.max 1 (snd bc)))) s.

Definition conv_thing (t : C09.Grammar.win_thing) : win_thing :=
  match t with
  | C09.Grammar.ProgramString s => ProgramString (unrle s)
  | C09.Grammar.AllocatesBasePointer b => AllocatesBasePointer b
  end.
Definition conv_win (w : C09.Grammar.win_info) : win_info :=
  mkWin (C09.Grammar.wi_addr w) (C09.Grammar.wi_size w) (C09.Grammar.wi_prolog w) (C09.Grammar.wi_epilog w) (C09.Grammar.wi_params w) (C09.Grammar.wi_saved w)
        (C09.Grammar.wi_locals w) (C09.Grammar.wi_maxstack w) (conv_thing (C09.Grammar.wi_thing w)).
Definition conv_frame_type (f : C09.Grammar.win_frame_type) : win_frame_type :=
  match f with
  | C09.Grammar.FrameData i => FrameData (conv_win i)
  | C09.Grammar.Fpo i => Fpo (conv_win i)
  | C09.Grammar.Unhandled => Unhandled
  end.

(* parse_more over complete lines (each given without its '\n'); None = the file is rejected *)
Fixpoint parse_lines (p : C09.Grammar.pst) (ls : list C09.Grammar.rle) : option C09.Grammar.pst :=
  match ls with
  | [] => Some p
  | l :: r => match C09.Grammar.recog_pst p l with
              | inl p' => parse_lines p' r
              | inr _ => None
              end
  end.

(* while count < len && add_rules[count].address <= addr *)
Fixpoint take_rules (addr : Z) (l : list C09.Grammar.cfi_rule) : list C09.Grammar.cfi_rule :=
  match l with
  | [] => []
  | x :: t => if C09.Grammar.cr_addr x <=? addr then x :: take_rules addr t else []
  end.

(* SymbolFile::walk_frame on the finished tables; the module is based at 0 *)
Definition walk_frame_table {S} (ops : wops S) (p : profile) (E : env) (t : C09.Grammar.table) (s : S) : outcome (option S) :=
  let addr := e_instr E in
  do wr <- match C08.Model.rm_get (C09.Grammar.t_win_fd t) addr with
           | Some w =>
               match C09.Grammar.wi_thing w with
               | C09.Grammar.ProgramString e => walk_win_framedata ops p E (conv_win w) (unrle e) s
               | _ => Panic PANIC_WIN_UNREACHABLE
               end
           | None =>
               match C08.Model.rm_get (C09.Grammar.t_win_fpo t) addr with
               | Some w =>
                   match C09.Grammar.wi_thing w with
                   | C09.Grammar.AllocatesBasePointer b => Ret (walk_win_fpo ops E (conv_win w) b s)
                   | _ => Panic PANIC_WIN_UNREACHABLE
                   end
               | None => Ret (s, false)
               end
           end;
  let '(s1, okw) := wr in
  if okw then Ret (Some s1)
  else match C08.Model.rm_get (C09.Grammar.t_cfi t) addr with
       | Some sc =>
           walk_with_stack_cfi ops p E
             (unrle (C09.Grammar.cr_rules (C09.Grammar.sc_init sc)) ::
              map (fun r => unrle (C09.Grammar.cr_rules r)) (take_rules addr (C09.Grammar.sc_add sc))) s1
       | None => Ret None
       end.

(* Ret None = SymbolFile::from_bytes rejects the text; Ret (Some r) = walk_frame's answer *)
Definition walk_frame_text {S} (ops : wops S) (p : profile) (E : env) (lines : list C09.Grammar.rle) (s : S)
  : outcome (option (option S)) :=
  match parse_lines C09.Grammar.init_pst lines with
  | None => Ret None
  | Some ps =>
      do t <- C09.Grammar.finish ps;
      do r <- walk_frame_table ops p E t s;
      Ret (Some r)
  end.
