(* C04/Proofs.v — the walker recovers laid-out stacks (per technique, unbounded depth). *)
From Coq Require Import Lia ZArith List Bool.
From RM Require Import C05.Model C05.Proofs C04.Model.
Import ListNotations.
Open Scope Z_scope.

(* ------------------------------------------------------------------ the stack as an array of words *)
Lemma le_bytes_length : forall n w, length (le_bytes n w) = n.
Proof. induction n; intros; cbn; [reflexivity|]. rewrite IHn. reflexivity. Qed.

Lemma le_value_le_bytes : forall n w, 0 <= w < 256 ^ Z.of_nat n -> le_value (le_bytes n w) = w.
Proof.
  induction n as [|n IH]; intros w H.
  - cbn in *. lia.
  - cbn [le_bytes le_value]. rewrite Nat2Z.inj_succ, Z.pow_succ_r in H by lia.
    rewrite IH.
    + pose proof (Z.div_mod w 256). lia.
    + split; [apply Z.div_pos; lia | apply Z.div_lt_upper_bound; lia].
Qed.

Lemma words_bytes_length : forall n ws, length (flat_map (le_bytes n) ws) = (n * length ws)%nat.
Proof.
  induction ws as [|w t IH]; cbn [flat_map length]; [lia|].
  rewrite app_length, le_bytes_length, IH. lia.
Qed.

Lemma skipn_words : forall n pre rest,
  skipn (n * length pre) (flat_map (le_bytes n) (pre ++ rest)) = flat_map (le_bytes n) rest.
Proof.
  intros n pre rest. rewrite flat_map_app.
  rewrite skipn_app, words_bytes_length.
  rewrite skipn_all2 by (rewrite words_bytes_length; lia).
  replace (n * length pre - n * length pre)%nat with 0%nat by lia. reflexivity.
Qed.

Lemma le_bytes_bytes : forall n w, Forall (fun b => 0 <= b < 256) (le_bytes n w).
Proof.
  induction n as [|n IH]; intros w; cbn [le_bytes]; constructor; [apply Z.mod_pos_bound; lia | apply IH].
Qed.

Section Words.
Variable a : arch.
Hypothesis Hpw : (a_bits a = 32 /\ a_pw a = 4) \/ (a_bits a = 64 /\ a_pw a = 8).

Lemma pw_pos : 0 < a_pw a.
Proof. destruct Hpw as [[_ ->]|[_ ->]]; lia. Qed.

Lemma mem_len_words : forall base ws, mem_len (mk_mem a base ws) = a_pw a * Z.of_nat (length ws).
Proof.
  intros. unfold mem_len, mk_mem, words_bytes; cbn [m_bytes]. rewrite words_bytes_length.
  pose proof pw_pos. rewrite Nat2Z.inj_mul, Z2Nat.id by lia. reflexivity.
Qed.

Lemma read_at : forall base pre w post,
  0 <= w < 2 ^ a_bits a ->
  read (mk_mem a base (pre ++ w :: post)) (a_pw a) (base + a_pw a * Z.of_nat (length pre)) = Some w.
Proof.
  intros base pre w post Hw. pose proof pw_pos as Hp.
  unfold read. cbn [m_base mk_mem]. unfold checked_sub.
  replace (base + a_pw a * Z.of_nat (length pre) - base) with (a_pw a * Z.of_nat (length pre)) by lia.
  destruct (0 <=? a_pw a * Z.of_nat (length pre)) eqn:E; [|apply Z.leb_gt in E; nia].
  rewrite mem_len_words, app_length. cbn [length].
  destruct (a_pw a * Z.of_nat (length pre) + a_pw a <=? a_pw a * Z.of_nat (length pre + S (length post))) eqn:E2;
    [|apply Z.leb_gt in E2; nia].
  f_equal. cbn [m_bytes mk_mem]. unfold words_bytes.
  replace (Z.to_nat (a_pw a * Z.of_nat (length pre))) with (Z.to_nat (a_pw a) * length pre)%nat by nia.
  rewrite skipn_words. cbn [flat_map].
  rewrite firstn_app, le_bytes_length. replace (Z.to_nat (a_pw a) - Z.to_nat (a_pw a))%nat with 0%nat by lia.
  rewrite firstn_all2 by (rewrite le_bytes_length; lia). cbn [firstn]. rewrite app_nil_r.
  apply le_value_le_bytes.
  destruct Hpw as [[Hb Hq]|[Hb Hq]]; rewrite Hb in Hw; rewrite Hq; cbn; cbn in Hw; lia.
Qed.

Lemma read_end : forall base ws k, 0 <= k ->
  read (mk_mem a base ws) (a_pw a) (base + a_pw a * Z.of_nat (length ws) + k) = None.
Proof.
  intros base ws k Hk. pose proof pw_pos as Hp.
  unfold read. cbn [m_base mk_mem]. unfold checked_sub.
  destruct (0 <=? base + a_pw a * Z.of_nat (length ws) + k - base); [|reflexivity].
  rewrite mem_len_words.
  destruct (base + a_pw a * Z.of_nat (length ws) + k - base + a_pw a <=? a_pw a * Z.of_nat (length ws)) eqn:E; [|reflexivity].
  apply Z.leb_le in E. lia.
Qed.

Lemma mem_wf_words : forall base ws, 0 <= base -> mem_wf (mk_mem a base ws).
Proof.
  intros base ws Hb. split; [exact Hb|]. cbn [m_bytes mk_mem]. unfold words_bytes.
  induction ws as [|w t IH]; cbn [flat_map]; [constructor|].
  apply Forall_app. split; [apply le_bytes_bytes|exact IH].
Qed.
End Words.

(* ------------------------------------------------------------------ helpers shared by the techniques *)
Lemma total_words_app : forall l1 l2 e, total_words (l1 ++ l2) e = total_words l1 e + total_words l2 e.
Proof. induction l1 as [|f t IH]; intros; cbn [total_words app]; [lia|]. rewrite IH. lia. Qed.

Lemma filter_memb_all : forall cs extra, filter (fun n => memb n (cs ++ extra)) cs = cs.
Proof.
  intros cs extra.
  assert (H : forall l pre, filter (fun n => memb n (pre ++ l ++ extra)) l = l).
  { induction l as [|x t IH]; intros pre; cbn [filter]; [reflexivity|].
    assert (E : memb x (pre ++ (x :: t) ++ extra) = true).
    { unfold memb. apply existsb_exists. exists x. split; [|apply Z.eqb_refl].
      apply in_or_app. right. left. reflexivity. }
    rewrite E. f_equal. specialize (IH (pre ++ [x])). rewrite <- app_assoc in IH. exact IH. }
  exact (H cs []).
Qed.

Lemma filter_all_true : forall (g : Z -> bool) cs, (forall x, In x cs -> g x = true) -> filter g cs = cs.
Proof.
  intros g. induction cs as [|x t IH]; intros H; cbn [filter]; [reflexivity|].
  rewrite (H x (or_introl eq_refl)). f_equal. apply IH. intros y Hy. apply H. right. exact Hy.
Qed.

(* the predicate of callee_forwarded_regs (either body) accepts every name the validity set lists *)
Lemma fwd_pred_memb : forall a n l, memb n l = true ->
  (if a_fwd_alias a then reg_valid a n (VSome l) else memb n l) = true.
Proof.
  intros a n l H. destruct (a_fwd_alias a); [|exact H].
  unfold reg_valid, alias_group. cbn [existsb]. rewrite H. reflexivity.
Qed.

Lemma In_memb : forall x l, In x l -> memb x l = true.
Proof. intros x l H. unfold memb. apply existsb_exists. exists x. split; [exact H|apply Z.eqb_refl]. Qed.

Lemma strip_small : forall a mma x, 0 <= x < 2 ^ 47 -> strip a mma x = x.
Proof.
  intros a mma x Hx. unfold strip. destruct (a_strip a); [|reflexivity].
  unfold ptr_auth_strip. set (mx := Z.max _ _). set (hb := next_pow2 mx).
  assert (H47 : 2 ^ 47 <= hb).
  { unfold hb, next_pow2. apply Z.pow_le_mono_r; [lia|].
    assert (E : Z.log2_up (2 ^ arm64_apple_bits - 1) = 47) by reflexivity.
    rewrite <- E. apply Z.log2_up_le_mono. unfold mx. apply Z.le_max_l. }
  destruct (hb <? two64); [|reflexivity]. apply Z.mod_small. lia.
Qed.

(* ------------------------------------------------------------------ CFI with the correct oracle *)
Section CfiChain.
Variable p : profile.
Variable a : arch.
Variable os : Z.
Variable mem : memory.
Variable module_at : Z -> option Z.
Variable max_module_addr : Z.
Variable instr_valid : Z -> bool.
Variable base : Z.
Variable all : list frame_spec.
Variable ip0 : Z.

Hypothesis Ha : arch_ok a.
Hypothesis Hbase : m_base mem = base.
Hypothesis Hlen : mem_len mem = a_pw a * total_words all 0.
Hypothesis Hwf : cfi_wf_layout a base all = true.
(* every frame's lookup address lies in a module (whose symbol file the oracle stands for) *)
Hypothesis Hmod0 : module_at ip0 <> None.
Hypothesis Hmod : forall f, In f all -> module_at (fs_ra f - a_adj a) <> None.
(* arm64: return addresses below the pointer-authentication mask *)
Hypothesis Hra47 : forall f, In f all -> a_strip a = true -> fs_ra f < 2 ^ 47.
(* the CFI walker's sp name is (an alias of) the name the unwinder asks for *)
Hypothesis Hnames : forall l, reg_valid a (a_sp_name a) (VSome (l ++ [a_cfi_sp_name a; a_cfi_ip_name a])) = true.

(* any symbol-file oracle that answers like the correct one on frames of this shape (C06's evaluator on rule text
   describing the layout is such an oracle; [cfi_correct] itself trivially) *)
Variable cfi_walk : frame -> option frame -> list Z -> option (regs * list Z).
Hypothesis Hagree : forall callee gc fwd,
  r_fp (f_regs callee) = 0 -> r_lr (f_regs callee) = 0 -> r_gp (f_regs callee) = [] ->
  cfi_walk callee gc fwd = cfi_correct a base all callee gc fwd.
Notation oracle := cfi_walk.
Notation walkf := (walk current_code p a os mem module_at max_module_addr oracle instr_valid).
Notation gcf := (get_caller_frame current_code p a os mem module_at max_module_addr oracle instr_valid).
Definition vchain : list Z := a_callee_saved a ++ [a_cfi_sp_name a; a_cfi_ip_name a].
Definition r0 : regs := ctx_regs ip0 base 0.

Lemma pw_cases : (a_bits a = 32 /\ a_pw a = 4) \/ (a_bits a = 64 /\ a_pw a = 8).
Proof. destruct Ha as [H _]. exact H. Qed.

Lemma cfi_gaps_cons : forall f t, cfi_gaps_ok a (f :: t) = true ->
  0 <= fs_gap f /\ a_cutoff a <= fs_ra f /\ fs_ra f < 2 ^ a_bits a /\ cfi_gaps_ok a t = true.
Proof.
  intros f t H. cbn [cfi_gaps_ok] in H.
  apply andb_prop in H. destruct H as [H H4]. apply andb_prop in H. destruct H as [H H3].
  apply andb_prop in H. destruct H as [H1 H2].
  apply Z.leb_le in H1. apply Z.leb_le in H2. apply Z.ltb_lt in H3. auto.
Qed.

Lemma gaps_nonneg_total : forall l, cfi_gaps_ok a l = true -> 0 <= total_words l 0.
Proof.
  induction l as [|f t IH]; intros H; [cbn; lia|].
  apply cfi_gaps_cons in H. destruct H as [H1 [_ [_ H4]]]. specialize (IH H4). cbn [total_words]. lia.
Qed.

Lemma cfi_gaps_app : forall l1 l2, cfi_gaps_ok a (l1 ++ l2) = true -> cfi_gaps_ok a l1 = true /\ cfi_gaps_ok a l2 = true.
Proof.
  induction l1 as [|f t IH]; intros l2 H; cbn [app cfi_gaps_ok] in *; [split; [reflexivity|exact H]|].
  apply andb_prop in H. destruct H as [H1 H2]. destruct (IH l2 H2) as [I1 I2]. rewrite H1, I1. split; [reflexivity|exact I2].
Qed.

Lemma lookup_skip : forall done fs o, cfi_gaps_ok a done = true ->
  cfi_lookup (a_pw a) base o (done ++ fs) (base + a_pw a * (o + total_words done 0))
  = cfi_lookup (a_pw a) base (o + total_words done 0) fs (base + a_pw a * (o + total_words done 0)).
Proof.
  pose proof (pw_pos a pw_cases) as Hp.
  induction done as [|f t IH]; intros fs o H; cbn [app total_words cfi_lookup].
  - replace (o + 0) with o by lia. reflexivity.
  - apply cfi_gaps_cons in H. destruct H as [H [_ [_ H0]]].
    pose proof (gaps_nonneg_total t H0) as Ht.
    destruct (base + a_pw a * (o + (fs_gap f + 1 + 0 + total_words t 0)) =? base + a_pw a * o) eqn:E; [apply Z.eqb_eq in E; nia|].
    specialize (IH fs (o + fs_gap f + 1) H0).
    replace (o + (fs_gap f + 1 + 0 + total_words t 0)) with (o + fs_gap f + 1 + total_words t 0) by lia. exact IH.
Qed.

Lemma cfi_chain_walk : forall fs done callee gc fuel,
  all = done ++ fs ->
  r_sp (f_regs callee) = base + a_pw a * total_words done 0 ->
  r_fp (f_regs callee) = 0 -> r_lr (f_regs callee) = 0 -> r_gp (f_regs callee) = [] ->
  (f_valid callee = VAll \/ f_valid callee = VSome vchain) ->
  (is_context (f_trust callee) = true -> fs <> []) ->
  module_at (f_instr callee) <> None ->
  (length fs < fuel)%nat ->
  walkf fuel callee gc = Ret (cfi_chain a vchain r0 base (total_words done 0) fs).
Proof.
  pose proof (pw_pos a pw_cases) as Hp.
  assert (Hwf' := Hwf). unfold cfi_wf_layout in Hwf'.
  apply andb_prop in Hwf'. destruct Hwf' as [Hwf' Htop]. apply andb_prop in Hwf'. destruct Hwf' as [Hg Hb0].
  apply Z.ltb_lt in Htop. apply Z.ltb_lt in Hb0.
  induction fs as [|f t IH]; intros done callee gc fuel Hall Hsp Hfp Hlr Hgp Hv Hctx Hm Hfuel;
    (destruct fuel as [|k]; [cbn in Hfuel; lia|]); cbn [walk].
  - (* end of the described stack: the frame's sp is the end of the stack memory *)
    assert (Enc : is_context (f_trust callee) = false).
    { destruct (is_context (f_trust callee)); [exfalso; apply Hctx; reflexivity | reflexivity]. }
    unfold stop_here. cbn [fx_sp_guard current_code]. rewrite Enc. cbn [negb andb].
    assert (Es : sp_in_stack mem callee = false).
    { unfold sp_in_stack. destruct (read mem 1 (r_sp (f_regs callee))) eqn:R; [|reflexivity].
      apply read_some in R. rewrite app_nil_r in Hall. subst done. rewrite Hbase, Hlen in R. lia. }
    rewrite Es. reflexivity.
  - rewrite Hall in Hg. destruct (cfi_gaps_app _ _ Hg) as [Hgd Hgf].
    apply cfi_gaps_cons in Hgf. destruct Hgf as [Hgf [H0 [H1 H]]].
    pose proof (gaps_nonneg_total done Hgd) as Hd0. pose proof (gaps_nonneg_total t H) as Ht0.
    assert (Htot : total_words all 0 = total_words done 0 + (fs_gap f + 1 + 0 + total_words t 0)).
    { rewrite Hall, total_words_app. reflexivity. }
    (* not stopped *)
    assert (Est : stop_here current_code mem callee = false).
    { unfold stop_here. cbn [fx_sp_guard current_code]. destruct (is_context (f_trust callee)); [reflexivity|].
      cbn [negb andb]. unfold sp_in_stack.
      destruct (read_is_some_iff1 mem (r_sp (f_regs callee))) as [_ Hr].
      destruct Hr as [v Hr]; [rewrite Hbase, Hlen, Hsp, Htot; nia|]. rewrite Hr. reflexivity. }
    rewrite Est.
    (* the oracle answers with the caller *)
    assert (Eo : oracle callee gc (forwarded a (f_valid callee)) =
                 Some ({| r_ip := fs_ra f; r_sp := base + a_pw a * (total_words done 0 + fs_gap f + 1); r_fp := 0; r_lr := 0; r_gp := [] |}, vchain)).
    { rewrite (Hagree callee gc _ Hfp Hlr Hgp). unfold cfi_correct. rewrite Hsp, Hall.
      pose proof (lookup_skip done (f :: t) 0 Hgd) as L. cbn [Z.add] in L. rewrite L. cbn [cfi_lookup].
      rewrite Z.eqb_refl. rewrite Hfp, Hlr, Hgp. f_equal. f_equal.
      unfold vchain. destruct Hv as [Hv|Hv]; rewrite Hv; cbn [forwarded]; [reflexivity|].
      unfold vchain. rewrite filter_all_true; [reflexivity|].
      intros x Hx. apply fwd_pred_memb. apply In_memb. apply in_or_app. left. exact Hx. }
    assert (Hin : In f all) by (rewrite Hall; apply in_or_app; right; left; reflexivity).
    assert (Estrip : strip a max_module_addr (fs_ra f) = fs_ra f).
    { unfold strip. destruct (a_strip a) eqn:Es; [|reflexivity].
      pose proof (strip_small a max_module_addr (fs_ra f)) as S. unfold strip in S. rewrite Es in S. apply S.
      pose proof (Hra47 f Hin eq_refl). destruct Ha as [_ [_ [_ [_ [_ [_ [_ [_ [_ [Hadj _]]]]]]]]]]. lia. }
    assert (Estrip0 : strip a max_module_addr 0 = 0) by (apply strip_small; lia).
    assert (Ecfi : by_cfi a module_at max_module_addr oracle callee gc =
                   Some ({| r_ip := fs_ra f; r_sp := base + a_pw a * (total_words done 0 + fs_gap f + 1); r_fp := 0; r_lr := 0; r_gp := [] |}, vchain)).
    { unfold by_cfi.
      assert (Ev : reg_valid a (a_sp_name a) (f_valid callee) = true).
      { destruct Hv as [Hv|Hv]; rewrite Hv; [reflexivity|]. unfold vchain. apply Hnames. }
      rewrite Ev. cbn [negb]. destruct (module_at (f_instr callee)); [|contradiction]. rewrite Eo.
      unfold cfi_post. cbn [r_ip r_sp r_fp r_lr r_gp]. rewrite Estrip, Estrip0.
      destruct (reg_valid a (a_fp_name a) (VSome vchain)); destruct (reg_valid a (a_lr_name a) (VSome vchain)); reflexivity. }
    unfold get_caller_frame, cascade. rewrite Ecfi. cbn [obind from_context f_regs r_ip r_sp].
    destruct Ha as [_ [_ [_ [_ [_ [_ [_ [_ [_ [Hadj Hle]]]]]]]]]].
    destruct (fs_ra f <? a_cutoff a) eqn:E1; [apply Z.ltb_lt in E1; lia|].
    unfold sp_progress. cbn [f_regs r_sp from_context]. rewrite Hle, Hsp.
    destruct (base + a_pw a * (total_words done 0 + fs_gap f + 1) <=? base + a_pw a * total_words done 0) eqn:E2;
      [apply Z.leb_le in E2; nia|]. cbn [negb].
    assert (Hr64 : fs_ra f < 2 ^ 64).
    { destruct pw_cases as [[Hb _]|[Hb _]]; rewrite Hb in H1; [change (2 ^ 32) with 4294967296 in H1; change (2 ^ 64) with 18446744073709551616; lia | exact H1]. }
    rewrite chk_sub_ok by lia. cbn [obind].
    (* recurse *)
    specialize (IH (done ++ [f])
      (set_instr (from_context {| r_ip := fs_ra f; r_sp := base + a_pw a * (total_words done 0 + fs_gap f + 1); r_fp := 0; r_lr := 0; r_gp := [] |} (VSome vchain) TCfi) (fs_ra f - a_adj a))
      (Some callee) k).
    rewrite total_words_app in IH. cbn [total_words] in IH.
    replace (total_words done 0 + (fs_gap f + 1 + 0 + 0)) with (total_words done 0 + fs_gap f + 1) in IH by lia.
    rewrite IH.
    + cbn [obind cfi_chain]. reflexivity.
    + rewrite <- app_assoc. exact Hall.
    + reflexivity.
    + reflexivity.
    + reflexivity.
    + reflexivity.
    + right. reflexivity.
    + cbn. intros; discriminate.
    + cbn [set_instr f_instr]. apply Hmod. exact Hin.
    + cbn [length] in Hfuel. lia.
Qed.

Lemma cfi_recovers : forall fuel, (length all < fuel)%nat ->
  walk_stack current_code p a os mem module_at max_module_addr oracle instr_valid fuel r0 VAll
  = Ret (from_context r0 VAll TContext :: cfi_chain a vchain r0 base 0 all).
Proof.
  intros fuel Hfuel. unfold walk_stack.
  destruct all as [|f t] eqn:Eall.
  - cbn [total_words] in Hlen. unfold mem_ok. replace (mem_len mem) with 0 by lia. reflexivity.
  - assert (Hok : mem_ok mem = true).
    { assert (Hwf' := Hwf). unfold cfi_wf_layout in Hwf'.
      apply andb_prop in Hwf'. destruct Hwf' as [Hwf' Htop]. apply andb_prop in Hwf'. destruct Hwf' as [Hg Hb0].
      apply Z.ltb_lt in Htop. apply Z.ltb_lt in Hb0.
      pose proof (gaps_nonneg_total t) as Ht. apply cfi_gaps_cons in Hg. destruct Hg as [Hg [_ [_ H]]]. specialize (Ht H).
      pose proof (pw_pos a pw_cases) as Hp.
      unfold mem_ok. rewrite Hlen, Hbase. cbn [total_words] in *.
      destruct (a_pw a * (fs_gap f + 1 + 0 + total_words t 0) =? 0) eqn:E; [apply Z.eqb_eq in E; nia|]. cbn [negb andb].
      apply Z.ltb_lt. unfold two64.
      destruct pw_cases as [[Hb _]|[Hb _]]; rewrite Hb in Htop;
        [change (2 ^ 32) with 4294967296 in Htop | change (2 ^ 64) with 18446744073709551616 in Htop]; lia. }
    rewrite Hok. rewrite <- Eall in *.
    rewrite (cfi_chain_walk all [] (from_context r0 VAll TContext) None fuel); try reflexivity; auto.
    + cbn. rewrite Z.mul_0_r, Z.add_0_r. reflexivity.
    + intros _. rewrite Eall. discriminate.
Qed.
End CfiChain.

(* ------------------------------------------------------------------ scan-findable stacks *)
Section ScanChain.
Variable p : profile.
Variable a : arch.
Variable os : Z.
Variable module_at : Z -> option Z.
Variable max_module_addr : Z.
Variable cfi_walk : frame -> option frame -> list Z -> option (regs * list Z).
Variable instr_valid : Z -> bool.
Variable base : Z.
Variable all : list frame_spec.
Variable ip0 : Z.

Hypothesis Ha : arch_ok a.
Hypothesis Hskip : 0 <= scan_skip_words a /\ a_scan_skip a = a_pw a * scan_skip_words a.
(* no call frame information for any frame of this thread *)
Hypothesis Hnocfi : forall c g f, cfi_walk c g f = None.
Hypothesis Hwf : scan_wf_layout a instr_valid base all = true.
(* the names the scan puts into the validity set are the ones it asks for, and do not make fp valid *)
Hypothesis Hn_sp : reg_valid a (a_sp_name a) (plain_valid a) = true.
Hypothesis Hn_fp : reg_valid a (a_fp_name a) (plain_valid a) = false.

Notation mem := (mk_mem a base (scan_words all)).
Notation walkf := (walk current_code p a os mem module_at max_module_addr cfi_walk instr_valid).

Lemma s_pw_cases : (a_bits a = 32 /\ a_pw a = 4) \/ (a_bits a = 64 /\ a_pw a = 8).
Proof. destruct Ha as [H _]. exact H. Qed.

Lemma scan_gaps_cons : forall lo win f t, scan_gaps_ok a instr_valid lo win (f :: t) = true ->
  (lo <= fs_gap f /\ fs_gap f - lo < win) /\ a_cutoff a <= fs_ra f < 2 ^ a_bits a /\ instr_ok a instr_valid (fs_ra f) = true /\
  scan_gaps_ok a instr_valid (scan_skip_words a) (a_scan_default a) t = true.
Proof.
  intros lo win f t H. cbn [scan_gaps_ok] in H.
  apply andb_prop in H. destruct H as [H H7]. apply andb_prop in H. destruct H as [H H6].
  apply andb_prop in H. destruct H as [H H5]. apply andb_prop in H. destruct H as [H H4].
  apply andb_prop in H. destruct H as [H H3]. apply andb_prop in H. destruct H as [H1 H2].
  apply Z.leb_le in H1. apply Z.ltb_lt in H2. apply Z.leb_le in H3. apply Z.ltb_lt in H4.
  unfold instr_ok. rewrite H5, H6. repeat split; auto.
Qed.

Lemma scan_gaps_app : forall l1 l2 lo win, scan_gaps_ok a instr_valid lo win (l1 ++ l2) = true ->
  exists lo' win', scan_gaps_ok a instr_valid lo' win' l2 = true.
Proof.
  induction l1 as [|f t IH]; intros l2 lo win H.
  - exists lo, win. exact H.
  - cbn [app] in H. apply scan_gaps_cons in H. destruct H as [_ [_ [_ H]]]. exact (IH l2 _ _ H).
Qed.

Lemma skip_nonneg : 0 <= scan_skip_words a.
Proof. destruct Hskip as [H _]. exact H. Qed.

Lemma scan_total_nonneg : forall lo win l, 0 <= lo -> scan_gaps_ok a instr_valid lo win l = true -> 0 <= total_words l 0.
Proof.
  intros lo win l; revert lo win. induction l as [|f t IH]; intros lo win Hlo H; [cbn; lia|].
  apply scan_gaps_cons in H. destruct H as [[H1 _] [_ [_ H4]]]. specialize (IH _ _ skip_nonneg H4). cbn [total_words]. lia.
Qed.

Lemma scan_words_length : forall lo win l, 0 <= lo -> scan_gaps_ok a instr_valid lo win l = true ->
  Z.of_nat (length (scan_words l)) = total_words l 0.
Proof.
  intros lo win l; revert lo win. induction l as [|f t IH]; intros lo win Hlo H; [reflexivity|].
  apply scan_gaps_cons in H. destruct H as [[H1 _] [_ [_ H4]]]. specialize (IH _ _ skip_nonneg H4).
  cbn [scan_words total_words]. rewrite app_length. cbn [length]. unfold zeros. rewrite repeat_length. lia.
Qed.

Lemma scan_words_app : forall l1 l2, scan_words (l1 ++ l2) = scan_words l1 ++ scan_words l2.
Proof. induction l1 as [|f t IH]; intros; cbn [scan_words app]; [reflexivity|]. rewrite IH, <- app_assoc. reflexivity. Qed.

Lemma by_cfi_none : forall callee gc, by_cfi a module_at max_module_addr cfi_walk callee gc = None.
Proof.
  intros. unfold by_cfi. destruct (negb (reg_valid a (a_sp_name a) (f_valid callee))); [reflexivity|].
  destruct (module_at (f_instr callee)); [|reflexivity]. rewrite Hnocfi. reflexivity.
Qed.

Lemma by_fp_none : forall callee, f_valid callee = plain_valid a ->
  by_fp current_code p a os mem max_module_addr callee = Ret None.
Proof.
  intros callee Hv. unfold by_fp. destruct (a_fp a) eqn:E; try reflexivity.
  - unfold fp_x86. rewrite Hv, Hn_fp. reflexivity.
  - unfold fp_amd64. rewrite Hv, Hn_fp. reflexivity.
  - unfold fp_arm. rewrite E. destruct (negb (os =? OS_IOS)); [reflexivity|]. rewrite Hv, Hn_fp. reflexivity.
  - unfold fp_arm. rewrite E, Hv, Hn_fp. reflexivity.
Qed.

(* the words of the stack around one frame record *)
Section OneRecord.
Variable pre : list Z.
Variable g : nat.
Variable ra : Z.
Variable post : list Z.
Hypothesis Hws : scan_words all = pre ++ repeat 0 g ++ ra :: post.
Hypothesis Hra : 0 <= ra < 2 ^ a_bits a.

Lemma read_junk : forall j, (j < g)%nat ->
  read mem (a_pw a) (base + a_pw a * (Z.of_nat (length pre) + Z.of_nat j)) = Some 0.
Proof.
  intros j Hj. rewrite Hws.
  replace g with (j + S (g - j - 1))%nat by lia. rewrite repeat_app. cbn [repeat].
  replace (pre ++ (repeat 0 j ++ 0 :: repeat 0 (g - j - 1)) ++ ra :: post)
    with ((pre ++ repeat 0 j) ++ 0 :: (repeat 0 (g - j - 1) ++ ra :: post))
    by (rewrite <- !app_assoc; reflexivity).
  replace (Z.of_nat (length pre) + Z.of_nat j) with (Z.of_nat (length (pre ++ repeat 0 j)))
    by (rewrite app_length, repeat_length; lia).
  apply read_at; [exact s_pw_cases|].
  destruct s_pw_cases as [[-> _]|[-> _]]; cbn; lia.
Qed.

Lemma read_ra : read mem (a_pw a) (base + a_pw a * (Z.of_nat (length pre) + Z.of_nat g)) = Some ra.
Proof.
  rewrite Hws. rewrite app_assoc.
  replace (Z.of_nat (length pre) + Z.of_nat g) with (Z.of_nat (length (pre ++ repeat 0 g)))
    by (rewrite app_length, repeat_length; lia).
  apply read_at; [exact s_pw_cases | exact Hra].
Qed.

Hypothesis Hok : instr_ok a instr_valid ra = true.
Hypothesis Hjunk : instr_ok a instr_valid 0 = false.
Hypothesis Hbase : 0 < base.
Hypothesis Hfit : base + a_pw a * (Z.of_nat (length pre) + Z.of_nat g + 1) < 2 ^ a_bits a.

Lemma scan_finds : forall k j n, (j + k = g)%nat -> (k < n)%nat ->
  scan_loop p a mem instr_valid n (Z.of_nat j) (base + a_pw a * Z.of_nat (length pre)) None
  = Ret (Some (ctx_regs ra (base + a_pw a * (Z.of_nat (length pre) + Z.of_nat g + 1)) 0, [a_ip_name a; a_sp_name a])).
Proof.
  pose proof (pw_pos a s_pw_cases) as Hp.
  assert (HW : 0 < 2 ^ a_bits a) by (destruct s_pw_cases as [[-> _]|[-> _]]; cbn; lia).
  induction k as [|k IH]; intros j n Hjk Hn; (destruct n as [|n]; [lia|]); cbn [scan_loop]; unfold W, PW.
  - (* j = g: the return address *)
    assert (j = g) by lia. subst j.
    rewrite chk_mul_ok by nia. cbn [obind].
    unfold checked_add.
    destruct (base + a_pw a * Z.of_nat (length pre) + Z.of_nat g * a_pw a <? 2 ^ a_bits a) eqn:E1; [|apply Z.ltb_ge in E1; nia].
    replace (base + a_pw a * Z.of_nat (length pre) + Z.of_nat g * a_pw a)
      with (base + a_pw a * (Z.of_nat (length pre) + Z.of_nat g)) by lia.
    rewrite read_ra, Hok.
    destruct (base + a_pw a * (Z.of_nat (length pre) + Z.of_nat g) + a_pw a <? 2 ^ a_bits a) eqn:E2; [|apply Z.ltb_ge in E2; nia].
    assert (ER : recover_bp p a mem (Z.of_nat g) (base + a_pw a * (Z.of_nat (length pre) + Z.of_nat g))
                   (base + a_pw a * (Z.of_nat (length pre) + Z.of_nat g) + a_pw a) None = Ret (Some None)).
    { unfold recover_bp. destruct (a_bp a); try reflexivity.
      destruct (0 <? Z.of_nat g) eqn:E0; [|reflexivity]. apply Z.ltb_lt in E0. unfold W, PW.
      rewrite chk_sub_ok by nia. cbn [obind].
      replace (base + a_pw a * (Z.of_nat (length pre) + Z.of_nat g) - a_pw a)
        with (base + a_pw a * (Z.of_nat (length pre) + Z.of_nat (g - 1))) by nia.
      rewrite read_junk by lia.
      destruct (0 >? base + a_pw a * (Z.of_nat (length pre) + Z.of_nat g)) eqn:E3; [|reflexivity].
      rewrite Z.gtb_ltb in E3. apply Z.ltb_lt in E3. nia. }
    rewrite ER. cbn [obind app]. unfold ctx_regs. do 4 f_equal. lia.
  - (* a padding word *)
    rewrite chk_mul_ok by nia. cbn [obind].
    unfold checked_add.
    destruct (base + a_pw a * Z.of_nat (length pre) + Z.of_nat j * a_pw a <? 2 ^ a_bits a) eqn:E1; [|apply Z.ltb_ge in E1; nia].
    replace (base + a_pw a * Z.of_nat (length pre) + Z.of_nat j * a_pw a)
      with (base + a_pw a * (Z.of_nat (length pre) + Z.of_nat j)) by lia.
    rewrite read_junk by lia. rewrite Hjunk.
    replace (Z.of_nat j + 1) with (Z.of_nat (S j)) by lia. apply IH; lia.
Qed.
End OneRecord.

Lemma wf_parts : scan_gaps_ok a instr_valid 0 (a_scan_context a) all = true /\ instr_ok a instr_valid 0 = false /\
  0 < base /\ base + a_pw a * total_words all 0 < 2 ^ a_bits a.
Proof.
  assert (H := Hwf). unfold scan_wf_layout in H.
  apply andb_prop in H. destruct H as [H H4]. apply andb_prop in H. destruct H as [H H3].
  apply andb_prop in H. destruct H as [H1 H2].
  apply Z.ltb_lt in H3. apply Z.ltb_lt in H4. unfold instr_ok.
  destruct (a_pre_ok a 0 && instr_valid 0); [discriminate|]. auto.
Qed.

Lemma mem_len_all : mem_len mem = a_pw a * total_words all 0.
Proof.
  destruct wf_parts as [Hg _]. rewrite (mem_len_words a s_pw_cases). rewrite (scan_words_length _ _ _ (Z.le_refl 0) Hg). reflexivity.
Qed.

Lemma view_id : forall x, 0 <= x < 2 ^ a_bits a -> view a x = x.
Proof.
  intros x Hx. unfold view. destruct (a_trunc a) eqn:E; [|reflexivity].
  destruct Ha as [_ [_ [Ht _]]]. rewrite (Ht E) in Hx. unfold wrap32, two32.
  change (2 ^ 32) with 4294967296 in Hx. apply Z.mod_small. exact Hx.
Qed.

Lemma scan_chain_walk : forall fs done callee gc fuel,
  all = done ++ fs ->
  Z.of_nat (length (scan_words done)) = total_words done 0 ->
  r_sp (f_regs callee) = base + a_pw a * total_words done 0 ->
  f_valid callee = plain_valid a ->
  scan_gaps_ok a instr_valid (if is_context (f_trust callee) then 0 else scan_skip_words a)
               (if is_context (f_trust callee) then a_scan_context a else a_scan_default a) fs = true ->
  (is_context (f_trust callee) = true -> fs <> []) ->
  (length fs < fuel)%nat ->
  walkf fuel callee gc = Ret (scan_chain a base (total_words done 0) fs).
Proof.
  pose proof (pw_pos a s_pw_cases) as Hp.
  destruct wf_parts as [Hgall [Hjunk [Hb0 Htop]]].
  pose proof mem_len_all as Hml. pose proof skip_nonneg as Hsk0. destruct Hskip as [_ Hskeq].
  induction fs as [|f t IH]; intros done callee gc fuel Hall Hld Hsp Hv Hg Hctx Hfuel;
    (destruct fuel as [|k]; [cbn in Hfuel; lia|]); cbn [walk].
  - assert (Enc : is_context (f_trust callee) = false).
    { destruct (is_context (f_trust callee)); [exfalso; apply Hctx; reflexivity | reflexivity]. }
    unfold stop_here. cbn [fx_sp_guard current_code]. rewrite Enc. cbn [negb andb].
    assert (Es : sp_in_stack mem callee = false).
    { unfold sp_in_stack. destruct (read mem 1 (r_sp (f_regs callee))) eqn:R; [|reflexivity].
      apply read_some in R. rewrite app_nil_r in Hall. subst done. rewrite Hml in R. cbn [m_base mk_mem] in R. lia. }
    rewrite Es. reflexivity.
  - set (lo := if is_context (f_trust callee) then 0 else scan_skip_words a) in *.
    assert (Hlo0 : 0 <= lo) by (unfold lo; destruct (is_context (f_trust callee)); lia).
    apply scan_gaps_cons in Hg. destruct Hg as [[Hg0 Hgw] [[Hr1 Hr2] [Hok Hgt]]].
    pose proof (scan_total_nonneg _ _ _ Hsk0 Hgt) as Ht0.
    assert (Htot : total_words all 0 = total_words done 0 + (fs_gap f + 1 + 0 + total_words t 0)).
    { rewrite Hall, total_words_app. reflexivity. }
    assert (Hd0 : 0 <= total_words done 0) by lia.
    assert (Est : stop_here current_code mem callee = false).
    { unfold stop_here. cbn [fx_sp_guard current_code]. destruct (is_context (f_trust callee)); [reflexivity|].
      cbn [negb andb]. unfold sp_in_stack.
      destruct (read_is_some_iff1 mem (r_sp (f_regs callee))) as [_ Hr].
      destruct Hr as [v Hr]; [rewrite Hml, Hsp, Htot; cbn [m_base mk_mem]; nia|]. rewrite Hr. reflexivity. }
    rewrite Est.
    set (sp' := base + a_pw a * (total_words done 0 + fs_gap f + 1)).
    pose proof Ha as Ha'. destruct Ha' as [_ [_ [_ [_ [_ [_ [_ [_ [_ [Hadj Hle]]]]]]]]]].
    assert (Hra0 : 0 <= fs_ra f) by lia.
    assert (HW : 0 < 2 ^ a_bits a) by (destruct s_pw_cases as [[-> _]|[-> _]]; cbn; lia).
    (* the record, seen after skipping [lo] padding words *)
    assert (Hws : scan_words all = (scan_words done ++ repeat 0 (Z.to_nat lo)) ++ repeat 0 (Z.to_nat (fs_gap f - lo)) ++ fs_ra f :: scan_words t).
    { rewrite Hall, scan_words_app. cbn [scan_words]. unfold zeros.
      replace (Z.to_nat (fs_gap f)) with (Z.to_nat lo + Z.to_nat (fs_gap f - lo))%nat by lia.
      rewrite repeat_app, <- !app_assoc. reflexivity. }
    assert (Hlen2 : Z.of_nat (length (scan_words done ++ repeat 0 (Z.to_nat lo))) = total_words done 0 + lo).
    { rewrite app_length, repeat_length. lia. }
    assert (F : forall n, (Z.to_nat (fs_gap f - lo) < n)%nat ->
              scan_loop p a mem instr_valid n 0 (base + a_pw a * (total_words done 0 + lo)) None =
              Ret (Some (ctx_regs (fs_ra f) sp' 0, [a_ip_name a; a_sp_name a]))).
    { intros n Hn.
      pose proof (scan_finds (scan_words done ++ repeat 0 (Z.to_nat lo)) (Z.to_nat (fs_gap f - lo)) (fs_ra f) (scan_words t)
                             Hws (conj Hra0 Hr2) Hok Hjunk Hb0) as SF.
      rewrite Hlen2 in SF. change 0 with (Z.of_nat 0) at 1.
      rewrite (SF ltac:(rewrite Z2Nat.id by lia; rewrite Htot in Htop; nia) (Z.to_nat (fs_gap f - lo)) 0%nat n) by lia.
      unfold sp'. rewrite Z2Nat.id by lia. do 4 f_equal. lia. }
    assert (Hspr : 0 <= base + a_pw a * total_words done 0 < 2 ^ a_bits a) by (rewrite Htot in Htop; nia).
    assert (Escan : by_scan p a mem instr_valid callee = Ret (Some (ctx_regs (fs_ra f) sp' 0, [a_ip_name a; a_sp_name a]))).
    { unfold by_scan. rewrite Hv, Hn_sp, Hn_fp. cbn [negb]. rewrite Hsp, (view_id _ Hspr).
      unfold lo in *. destruct (is_context (f_trust callee)).
      - rewrite Z.add_0_r in F. apply F. lia.
      - destruct (a_scan_skip a =? 0) eqn:E0.
        + apply Z.eqb_eq in E0. assert (scan_skip_words a = 0) by nia.
          replace (total_words done 0 + scan_skip_words a) with (total_words done 0) in F by lia. apply F. lia.
        + unfold W. unfold checked_add. rewrite Hskeq.
          destruct (base + a_pw a * total_words done 0 + a_pw a * scan_skip_words a <? 2 ^ a_bits a) eqn:E1;
            [|apply Z.ltb_ge in E1; rewrite Htot in Htop; nia].
          replace (base + a_pw a * total_words done 0 + a_pw a * scan_skip_words a)
            with (base + a_pw a * (total_words done 0 + scan_skip_words a)) by lia.
          apply F. lia. }
    unfold get_caller_frame, cascade. rewrite by_cfi_none, (by_fp_none callee Hv). cbn [obind]. rewrite Escan. unfold ctx_regs.
    cbn [obind from_context f_regs r_ip r_sp].
    destruct (fs_ra f <? a_cutoff a) eqn:E1; [apply Z.ltb_lt in E1; lia|].
    unfold sp_progress. cbn [f_regs r_sp from_context]. rewrite Hle, Hsp. unfold sp'.
    destruct (base + a_pw a * (total_words done 0 + fs_gap f + 1) <=? base + a_pw a * total_words done 0) eqn:E2;
      [apply Z.leb_le in E2; nia|]. cbn [negb].
    assert (Hr64 : fs_ra f < 2 ^ 64).
    { destruct s_pw_cases as [[Hb _]|[Hb _]]; rewrite Hb in Hr2; [change (2 ^ 32) with 4294967296 in Hr2; change (2 ^ 64) with 18446744073709551616; lia | exact Hr2]. }
    rewrite chk_sub_ok by lia. cbn [obind].
    specialize (IH (done ++ [f]) (scan_frame a sp' (fs_ra f)) (Some callee) k).
    rewrite total_words_app in IH. cbn [total_words] in IH.
    replace (total_words done 0 + (fs_gap f + 1 + 0 + 0)) with (total_words done 0 + fs_gap f + 1) in IH by lia.
    unfold sp' in IH.
    match goal with |- obind (walk _ _ _ _ _ _ _ _ _ k ?X _) _ = _ =>
      change X with (scan_frame a (base + a_pw a * (total_words done 0 + fs_gap f + 1)) (fs_ra f)) end.
    rewrite IH.
    + cbn [obind scan_chain]. reflexivity.
    + rewrite <- app_assoc. exact Hall.
    + rewrite scan_words_app, app_length. cbn [scan_words]. rewrite app_length. cbn [length]. unfold zeros. rewrite repeat_length. lia.
    + reflexivity.
    + reflexivity.
    + cbn. exact Hgt.
    + cbn. intros; discriminate.
    + cbn [length] in Hfuel. lia.
Qed.

Lemma scan_recovers : forall fuel, (length all < fuel)%nat ->
  walk_stack current_code p a os mem module_at max_module_addr cfi_walk instr_valid fuel (ctx_regs ip0 base 0) (plain_valid a)
  = Ret (from_context (ctx_regs ip0 base 0) (plain_valid a) TContext :: scan_chain a base 0 all).
Proof.
  intros fuel Hfuel. unfold walk_stack.
  destruct wf_parts as [Hgall [Hjunk [Hb0 Htop]]]. pose proof mem_len_all as Hml.
  pose proof (pw_pos a s_pw_cases) as Hp.
  destruct all as [|f t] eqn:Eall.
  - unfold mem_ok. rewrite Hml. cbn [total_words]. rewrite Z.mul_0_r. reflexivity.
  - rewrite <- Eall in *.
    assert (Hok : mem_ok mem = true).
    { pose proof Hgall as G. rewrite Eall in G. apply scan_gaps_cons in G. destruct G as [[Hg0 _] [_ [_ Hgt]]].
      pose proof (scan_total_nonneg _ _ _ skip_nonneg Hgt) as Ht0.
      assert (Htot : total_words all 0 = fs_gap f + 1 + 0 + total_words t 0) by (rewrite Eall; reflexivity).
      unfold mem_ok. rewrite Hml. cbn [m_base mk_mem].
      destruct (a_pw a * total_words all 0 =? 0) eqn:E; [apply Z.eqb_eq in E; nia|]. cbn [negb andb].
      apply Z.ltb_lt. unfold two64.
      destruct s_pw_cases as [[Hb _]|[Hb _]]; rewrite Hb in Htop;
        [change (2 ^ 32) with 4294967296 in Htop | change (2 ^ 64) with 18446744073709551616 in Htop]; lia. }
    rewrite Hok.
    rewrite (scan_chain_walk all [] (from_context (ctx_regs ip0 base 0) (plain_valid a) TContext) None fuel); try reflexivity; auto.
    + cbn. rewrite Z.mul_0_r, Z.add_0_r. reflexivity.
    + intros _. rewrite Eall. discriminate.
Qed.
End ScanChain.

(* ------------------------------------------------------------------ instance side conditions *)
Lemma memb_last2 : forall x y l, memb x (l ++ [x; y]) = true.
Proof.
  intros. unfold memb. apply existsb_exists. exists x. split; [|apply Z.eqb_refl].
  apply in_or_app. right. left. reflexivity.
Qed.

Lemma cfi_names_ok : forall a, In (a_cfi_sp_name a) (alias_group a (a_sp_name a)) ->
  forall l, reg_valid a (a_sp_name a) (VSome (l ++ [a_cfi_sp_name a; a_cfi_ip_name a])) = true.
Proof.
  intros a H l. unfold reg_valid. apply existsb_exists. exists (a_cfi_sp_name a). split; [exact H|apply memb_last2].
Qed.

(* what the scan theorem needs of an architecture *)
Definition scan_arch (a : arch) : Prop :=
  arch_ok a /\ (0 <= scan_skip_words a /\ a_scan_skip a = a_pw a * scan_skip_words a) /\
  reg_valid a (a_sp_name a) (plain_valid a) = true /\ reg_valid a (a_fp_name a) (plain_valid a) = false.
Definition cfi_arch (a : arch) : Prop :=
  arch_ok a /\ In (a_cfi_sp_name a) (alias_group a (a_sp_name a)).

Lemma scan_arch_x86 : scan_arch x86. Proof. split; [exact arch_ok_x86|repeat split; try reflexivity; discriminate]. Qed.
Lemma scan_arch_amd64 : scan_arch amd64. Proof. split; [exact arch_ok_amd64|repeat split; try reflexivity; discriminate]. Qed.
Lemma scan_arch_arm : scan_arch arm. Proof. split; [exact arch_ok_arm|repeat split; try reflexivity; discriminate]. Qed.
Lemma scan_arch_arm64 : scan_arch arm64. Proof. split; [exact arch_ok_arm64|repeat split; try reflexivity; discriminate]. Qed.
Lemma scan_arch_mips64 : scan_arch mips64. Proof. split; [exact arch_ok_mips64|repeat split; try reflexivity; discriminate]. Qed.
Lemma scan_arch_mips32 : scan_arch mips32. Proof. split; [exact arch_ok_mips32|repeat split; try reflexivity; discriminate]. Qed.

Lemma cfi_arch_x86 : cfi_arch x86. Proof. split; [exact arch_ok_x86|cbn; auto]. Qed.
Lemma cfi_arch_amd64 : cfi_arch amd64. Proof. split; [exact arch_ok_amd64|cbn; auto]. Qed.
Lemma cfi_arch_arm : cfi_arch arm. Proof. split; [exact arch_ok_arm|cbn; auto]. Qed.
Lemma cfi_arch_arm64 : cfi_arch arm64. Proof. split; [exact arch_ok_arm64|cbn; auto]. Qed.
Lemma cfi_arch_mips32 : cfi_arch mips32. Proof. split; [exact arch_ok_mips32|cbn; auto]. Qed.
Lemma cfi_arch_mips64 : cfi_arch mips64. Proof. split; [exact arch_ok_mips64|cbn; auto]. Qed.

Theorem scan_recovers_gen :
  forall p a os module_at max_module_addr cfi_walk instr_valid base fs ip0 fuel,
    scan_arch a ->
    (forall c g f, cfi_walk c g f = None) ->
    scan_wf_layout a instr_valid base fs = true ->
    (length fs < fuel)%nat ->
    let '(r, v, mem) := scan_layout a base ip0 fs in
    walk_stack current_code p a os mem module_at max_module_addr cfi_walk instr_valid fuel r v
    = Ret (from_context r v TContext :: scan_chain a base 0 fs).
Proof.
  intros p a os ma mm cw iv base fs ip0 fuel [Ha [Hs [H1 H2]]] Hn Hwf Hf. cbn.
  exact (scan_recovers p a os ma mm cw iv base fs ip0 Ha Hs Hn Hwf H1 H2 fuel Hf).
Qed.

Theorem cfi_recovers_gen :
  forall p a os mem module_at max_module_addr instr_valid base fs ip0 fuel,
    cfi_arch a ->
    m_base mem = base -> mem_len mem = a_pw a * total_words fs 0 ->
    cfi_wf_layout a base fs = true ->
    module_at ip0 <> None ->
    (forall f, In f fs -> module_at (fs_ra f - a_adj a) <> None) ->
    (forall f, In f fs -> a_strip a = true -> fs_ra f < 2 ^ 47) ->
    (length fs < fuel)%nat ->
    walk_stack current_code p a os mem module_at max_module_addr (cfi_correct a base fs) instr_valid fuel (ctx_regs ip0 base 0) VAll
    = Ret (from_context (ctx_regs ip0 base 0) VAll TContext ::
           cfi_chain a (a_callee_saved a ++ [a_cfi_sp_name a; a_cfi_ip_name a]) (ctx_regs ip0 base 0) base 0 fs).
Proof.
  intros p a os mem ma mm iv base fs ip0 fuel [Ha Hin] Hb Hl Hwf Hm0 Hm H47 Hf.
  exact (cfi_recovers p a os mem ma mm iv base fs ip0 Ha Hb Hl Hwf Hm0 Hm H47 (cfi_names_ok a Hin)
           (cfi_correct a base fs) (fun _ _ _ _ _ _ => eq_refl) fuel Hf).
Qed.

Theorem cfi_recovers_any :
  forall p a os mem module_at max_module_addr instr_valid base fs ip0 fuel cfi_walk,
    cfi_arch a ->
    m_base mem = base -> mem_len mem = a_pw a * total_words fs 0 ->
    cfi_wf_layout a base fs = true ->
    module_at ip0 <> None ->
    (forall f, In f fs -> module_at (fs_ra f - a_adj a) <> None) ->
    (forall f, In f fs -> a_strip a = true -> fs_ra f < 2 ^ 47) ->
    (forall callee gc fwd, r_fp (f_regs callee) = 0 -> r_lr (f_regs callee) = 0 -> r_gp (f_regs callee) = [] ->
                           cfi_walk callee gc fwd = cfi_correct a base fs callee gc fwd) ->
    (length fs < fuel)%nat ->
    walk_stack current_code p a os mem module_at max_module_addr cfi_walk instr_valid fuel (ctx_regs ip0 base 0) VAll
    = Ret (from_context (ctx_regs ip0 base 0) VAll TContext ::
           cfi_chain a (a_callee_saved a ++ [a_cfi_sp_name a; a_cfi_ip_name a]) (ctx_regs ip0 base 0) base 0 fs).
Proof.
  intros p a os mem ma mm iv base fs ip0 fuel cw [Ha Hin] Hb Hl Hwf Hm0 Hm H47 Hag Hf.
  exact (cfi_recovers p a os mem ma mm iv base fs ip0 Ha Hb Hl Hwf Hm0 Hm H47 (cfi_names_ok a Hin) cw Hag fuel Hf).
Qed.
