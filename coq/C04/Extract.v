From Coq Require Extraction.
From Coq Require Import ExtrOcamlBasic.
From RM Require Import C05.Model C05.Driver C04.Model C04.Driver.
Extraction "c04_model.ml" run_case frame_module trust_code f_instr f_resume f_trust f_regs f_valid r_ip r_sp r_fp r_lr r_gp
  s_func_lo parse_symfile layout_scan layout_scan_wf layout_mix layout_mix_wf layout_mix_rules_ok layout_mix_rules_walk.
