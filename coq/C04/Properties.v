(* C04/Properties.v — property theorems only.
   Stacks of UNBOUNDED depth (induction on the list of frame specs): one technique per walk (scan; frame-pointer
   chains; CFI through the abstract correct oracle), and — round 5 — the technique chosen PER FRAME between CFI
   and scanning ([c04_recovers_chain], preconditions = the boolean [mix_wf_layout]).  Frame-pointer frames inside a
   mix, STACK WIN and the evaluation of real rule text are covered by the correspondence run (design/C04.md). *)
From Coq Require Import Lia ZArith List.
From RM Require Import C05.Model C05.Proofs C04.Model C04.Proofs C04.ProofsFp C04.ProofsMix C04.ProofsRules.
Import ListNotations.
Open Scope Z_scope.

(* scan: for every architecture meeting [scan_arch] (x86, amd64, arm, arm64/arm64_old, mips32, mips64 below), every
   list of frame specs that satisfies the boolean precondition [scan_wf_layout], any module lookup, any
   instruction-validity oracle accepting the planted return addresses and rejecting the padding word,
   no CFI: the walker returns the context frame followed by exactly the laid-out chain
   (return address, instruction = ra - adj, sp just above the return-address slot, trust scan,
   validity {ip, sp}) and stops at the end of the stack. *)
Theorem c04_recovers_chain_partial_scan :
  forall p a os module_at max_module_addr cfi_walk instr_valid base fs ip0 fuel,
    scan_arch a ->
    (forall c g f, cfi_walk c g f = None) ->
    scan_wf_layout a instr_valid base fs = true ->
    (length fs < fuel)%nat ->
    let '(r, v, mem) := scan_layout a base ip0 fs in
    walk_stack current_code p a os mem module_at max_module_addr cfi_walk instr_valid fuel r v
    = Ret (from_context r v TContext :: scan_chain a base 0 fs).
Proof. exact scan_recovers_gen. Qed.
Print Assumptions c04_recovers_chain_partial_scan.

(* CFI: with the abstract correct oracle [cfi_correct] (caller sp and return address of the frame whose
   sp it is asked about; everything else forwarded), every frame's lookup address inside a module:
   the walker prefers CFI for every frame, labels it cfi, forwards the callee-saved set, and stops at
   the end of the described stack. *)
Theorem c04_recovers_chain_partial_cfi :
  forall p a os mem module_at max_module_addr instr_valid base fs ip0 fuel,
    cfi_arch a ->
    m_base mem = base -> mem_len mem = a_pw a * total_words fs 0 ->
    cfi_wf_layout a base fs = true ->
    module_at ip0 <> None ->
    (forall f, In f fs -> module_at (fs_ra f - a_adj a) <> None) ->
    (forall f, In f fs -> a_strip a = true -> fs_ra f < 2 ^ 47) ->
    (length fs < fuel)%nat ->
    walk_stack current_code p a os mem module_at max_module_addr (cfi_correct a base fs) instr_valid fuel (ctx_regs ip0 base 0) VAll
    = Ret (from_context (ctx_regs ip0 base 0) VAll TContext ::
           cfi_chain a (a_callee_saved a ++ [a_cfi_sp_name a; a_cfi_ip_name a]) (ctx_regs ip0 base 0) base 0 fs).
Proof. exact cfi_recovers_gen. Qed.
Print Assumptions c04_recovers_chain_partial_cfi.

(* ... and the same for ANY symbol-file oracle that agrees with the correct one on the frames of this stack: the hook
   through which a concrete evaluator (C06's model of walk_with_stack_cfi on rule text describing the layout) is
   plugged in; the correspondence run does exactly that with the real code for `.cfa: SP N + .ra: .cfa w - ^`. *)
Theorem c04_recovers_chain_partial_cfi_any :
  forall p a os mem module_at max_module_addr instr_valid base fs ip0 fuel cfi_walk,
    cfi_arch a ->
    m_base mem = base -> mem_len mem = a_pw a * total_words fs 0 ->
    cfi_wf_layout a base fs = true ->
    module_at ip0 <> None ->
    (forall f, In f fs -> module_at (fs_ra f - a_adj a) <> None) ->
    (forall f, In f fs -> a_strip a = true -> fs_ra f < 2 ^ 47) ->
    (forall callee gc fwd, r_fp (f_regs callee) = 0 -> r_lr (f_regs callee) = 0 -> r_gp (f_regs callee) = [] ->
                           cfi_walk callee gc fwd = cfi_correct a base fs callee gc fwd) ->
    (length fs < fuel)%nat ->
    walk_stack current_code p a os mem module_at max_module_addr cfi_walk instr_valid fuel (ctx_regs ip0 base 0) VAll
    = Ret (from_context (ctx_regs ip0 base 0) VAll TContext ::
           cfi_chain a (a_callee_saved a ++ [a_cfi_sp_name a; a_cfi_ip_name a]) (ctx_regs ip0 base 0) base 0 fs).
Proof. exact cfi_recovers_any. Qed.
Print Assumptions c04_recovers_chain_partial_cfi_any.

(* frame-pointer chains: [saved fp][return address][gap words of locals] per call, fp = sp = base in the context,
   no CFI: for x86, amd64 (Windows slack scan or not), arm on iOS and arm64 (= arm64_old) the walker follows the
   chain for EVERY depth: one frame per call with the right return address, instruction = ra - adj,
   sp = just above the return-address slot, the recovered frame pointer, trust frame_pointer, validity
   {ip, sp, fp}; at the end of the chain every technique gives up and the walk stops. *)
Theorem c04_recovers_chain_partial_fp :
  forall p a os module_at max_module_addr cfi_walk instr_valid base fs ip0 fuel,
    fp_arch a os ->
    (forall c g f, cfi_walk c g f = None) ->
    fp_wf_layout a instr_valid base fs = true ->
    (length fs < fuel)%nat ->
    let '(r, v, mem) := fp_layout a base ip0 fs in
    walk_stack current_code p a os mem module_at max_module_addr cfi_walk instr_valid fuel r v
    = Ret (from_context r v TContext :: fp_chain a base 0 fs).
Proof. exact fp_recovers_gen. Qed.
Print Assumptions c04_recovers_chain_partial_fp.

Theorem c04_fp_archs : (forall os, fp_arch x86 os) /\ (forall os, fp_arch amd64 os) /\ (forall os, fp_arch arm64 os) /\ fp_arch arm OS_IOS.
Proof. exact (conj fp_arch_x86 (conj fp_arch_amd64 (conj fp_arch_arm64 fp_arch_arm_ios))). Qed.
Print Assumptions c04_fp_archs.

(* technique PER FRAME: every call is either described by CFI (abstract correct oracle [mix_cfi_correct], or any oracle
   agreeing with it on the frames of this walk; arbitrary words in the frame, look-alike return addresses included) or
   findable only by scanning ([skipped argument words: arbitrary][zeros][return address] inside the window of its
   callee: 160 words above the context frame, 40 above any other frame, MIPS per c04_constants).  For every
   architecture x OS meeting [mix_arch] (all six; ARM except on iOS, where a valid frame pointer of 0 ends the walk by
   design), both profiles, any module lookup, any context register file: the walker returns the context frame followed
   by exactly one frame per generated call — return address, instruction = ra - adj, sp just above the return-address
   slot, trust cfi / scan as generated, the validity set (callee-saved registers forwarded through CFI frames, {ip, sp}
   after a scan), the general registers carried through CFI frames — and stops at the generated end of stack.
   The precondition is the boolean [mix_wf_layout]; depth is unbounded (induction on the list of specs). *)
Theorem c04_recovers_chain :
  forall p a os module_at max_module_addr instr_valid base fs ip0 gp0 fuel cfi_walk,
    mix_arch a os ->
    (forall callee gc fwd, r_fp (f_regs callee) = 0 -> r_lr (f_regs callee) = 0 ->
                           cfi_walk callee gc fwd = mix_cfi_correct a base fs callee gc fwd) ->
    mix_wf_layout a instr_valid module_at base ip0 fs = true ->
    (length fs < fuel)%nat ->
    let '(r, v, mem) := mix_layout a base ip0 gp0 fs in
    walk_stack current_code p a os mem module_at max_module_addr cfi_walk instr_valid fuel r v
    = Ret (from_context r v TContext :: mix_chain a v gp0 base 0 fs).
Proof. exact mix_recovers_gen. Qed.
Print Assumptions c04_recovers_chain.

(* ... with STACK CFI rules EVALUATED instead of the abstract oracle: [cfi_rules] is the evaluator of the rule family
   `.cfa: <sp> N + .ra: .cfa <pointer width> - ^` against the CFI walker (sp must be valid, u64 wrapping arithmetic, the
   return address read from the stack memory at .cfa - pw, cfa and ra must fit the register), the symbol files abstracted
   to [rule_at] : lookup address -> N.  Precondition on the rules ([rules_ok], boolean): the callee of every CFI frame is
   covered by a record whose N is that frame's size, the callee of every scan frame by none.  Same conclusion. *)
Theorem c04_recovers_chain_rules :
  forall p a os module_at max_module_addr instr_valid base fs ip0 gp0 fuel rule_at,
    mix_arch a os ->
    mix_wf_layout a instr_valid module_at base ip0 fs = true ->
    rules_ok a rule_at ip0 fs = true ->
    (length fs < fuel)%nat ->
    let '(r, v, mem) := mix_layout a base ip0 gp0 fs in
    walk_stack current_code p a os mem module_at max_module_addr (cfi_rules a mem rule_at) instr_valid fuel r v
    = Ret (from_context r v TContext :: mix_chain a v gp0 base 0 fs).
Proof. exact mix_recovers_rules. Qed.
Print Assumptions c04_recovers_chain_rules.

(* ... and for any symbol-file oracle that agrees with the correct one on the frames the walk REACHES (sp at a record of the
   layout, fp = lr = 0, sp valid, the lookup address of that position): the form a concrete evaluator can meet *)
Theorem c04_recovers_chain_reached :
  forall p a os module_at max_module_addr instr_valid base fs ip0 gp0 fuel cfi_walk,
    mix_arch a os ->
    (forall done f t callee gc fwd, fs = done ++ f :: t -> reached a base ip0 callee done ->
                                    cfi_walk callee gc fwd = mix_cfi_correct a base fs callee gc fwd) ->
    mix_wf_layout a instr_valid module_at base ip0 fs = true ->
    (length fs < fuel)%nat ->
    let '(r, v, mem) := mix_layout a base ip0 gp0 fs in
    walk_stack current_code p a os mem module_at max_module_addr cfi_walk instr_valid fuel r v
    = Ret (from_context r v TContext :: mix_chain a v gp0 base 0 fs).
Proof. exact mix_recovers_reached. Qed.
Print Assumptions c04_recovers_chain_reached.

(* ... read column by column: frame i of the recovered chain has lookup address ra_i - adj (its module is the module
   lookup of that address, C08), return address ra_i and the technique label generated for call i; one frame per call *)
Theorem c04_chain_columns : forall a v gp base off fs,
  map f_instr (mix_chain a v gp base off fs) = map (fun f => ms_ra f - a_adj a) fs /\
  map f_resume (mix_chain a v gp base off fs) = map ms_ra fs /\
  map f_trust (mix_chain a v gp base off fs) = map (fun f => mix_trust (ms_tech f)) fs /\
  length (mix_chain a v gp base off fs) = length fs.
Proof. exact mix_chain_columns. Qed.
Print Assumptions c04_chain_columns.

Theorem c04_mix_archs :
  (forall os, mix_arch x86 os) /\ (forall os, mix_arch amd64 os) /\ (forall os, os <> OS_IOS -> mix_arch arm os) /\
  (forall os, mix_arch arm64 os) /\ (forall os, mix_arch mips32 os) /\ (forall os, mix_arch mips64 os).
Proof. exact (conj mix_arch_x86 (conj mix_arch_amd64 (conj mix_arch_arm (conj mix_arch_arm64 (conj mix_arch_mips32 mix_arch_mips64))))). Qed.
Print Assumptions c04_mix_archs.

(* the architectures the two theorems apply to *)
Theorem c04_scan_archs : scan_arch x86 /\ scan_arch amd64 /\ scan_arch arm /\ scan_arch arm64 /\ scan_arch mips32 /\ scan_arch mips64.
Proof. exact (conj scan_arch_x86 (conj scan_arch_amd64 (conj scan_arch_arm (conj scan_arch_arm64 (conj scan_arch_mips32 scan_arch_mips64))))). Qed.
Print Assumptions c04_scan_archs.
Theorem c04_cfi_archs : cfi_arch x86 /\ cfi_arch amd64 /\ cfi_arch arm /\ cfi_arch arm64 /\ cfi_arch mips32 /\ cfi_arch mips64.
Proof. exact (conj cfi_arch_x86 (conj cfi_arch_amd64 (conj cfi_arch_arm (conj cfi_arch_arm64 (conj cfi_arch_mips32 cfi_arch_mips64))))). Qed.
Print Assumptions c04_cfi_archs.

(* the documented preconditions, as they stand in the sources: scan windows 160 words for the context
   frame and 40 afterwards (MIPS: 1024 bytes; the 32-bit ABI skips 4 argument words after the first
   frame), Windows x64 frame-pointer slack 15 steps of 2 words (240 bytes), iOS-only ARM frame pointers *)
Theorem c04_constants :
  map a_scan_context [x86; amd64; arm; arm64; mips32; mips64] = [160; 160; 160; 160; 256; 128] /\
  map a_scan_default [x86; amd64; arm; arm64; mips32; mips64] = [40; 40; 40; 40; 252; 128] /\
  map a_scan_skip [x86; amd64; arm; arm64; mips32; mips64] = [0; 0; 0; 0; 16; 0] /\
  amd64_win_scan_max * amd64_win_scan_step_words * amd64_pw = 240 /\
  (amd64_other_scan_max, amd64_other_scan_step) = (0, 0) /\
  x86_max_gap = 131072 /\ amd64_max_gap = 131072 /\
  map a_fp [x86; amd64; arm; arm64; mips32; mips64] = [FpX86; FpAmd64; FpArm; FpArm64; FpNone; FpNone].
Proof. repeat split; reflexivity. Qed.
Print Assumptions c04_constants.

(* the registers each unwinder forwards through a CFI frame are the callee-saved registers of the platform calling
   convention (as sets; register names are the base-256 value of their spelling):
   x86 ebp ebx edi esi; amd64 rbx rbp r12-r15; arm r4-r10 fp; arm64 x19-x28 fp; mips s0-s7 gp sp fp —
   and the names a CFI frame adds / a scanned frame carries *)
Definition same_set (l1 l2 : list Z) : bool := forallb (fun x => memb x l2) l1 && forallb (fun x => memb x l1) l2.
Theorem c04_callee_saved :
  same_set (a_callee_saved x86) [6644336; 6644344; 6644841; 6648681] = true /\
  same_set (a_callee_saved amd64) [7496312; 7496304; 7483698; 7483699; 7483700; 7483701] = true /\
  same_set (a_callee_saved arm) [29236; 29237; 29238; 29239; 29240; 29241; 7483696; 26224] = true /\
  same_set (a_callee_saved arm64) [7876921; 7877168; 7877169; 7877170; 7877171; 7877172; 7877173; 7877174; 7877175; 7877176; 26224] = true /\
  same_set (a_callee_saved mips32) [29488; 29489; 29490; 29491; 29492; 29493; 29494; 29495; 26480; 29552; 26224] = true /\
  a_callee_saved mips64 = a_callee_saved mips32 /\
  map (fun a => (a_cfi_sp_name a, a_cfi_ip_name a)) [x86; amd64; arm; arm64; mips32; mips64]
    = [(6648688, 6646128); (7500656, 7498096); (29552, 28771); (29552, 28771); (29552, 28771); (29552, 28771)] /\
  map plain_valid [x86; amd64; arm; arm64; mips32; mips64]
    = [VSome [6646128; 6648688]; VSome [7498096; 7500656]; VSome [7483701; 7483699]; VSome [28771; 29552]; VSome [28771; 29552]; VSome [28771; 29552]].
Proof. repeat split; reflexivity. Qed.
Print Assumptions c04_callee_saved.

(* ---- non-vacuity: depth-64 layouts satisfy the preconditions, and the walker does recover them *)
Definition nv_specs (n : nat) : list frame_spec :=
  map (fun i => {| fs_gap := Z.of_nat (i mod 7); fs_ra := 1073742080 + 16 * Z.of_nat i |}) (seq 0 n).
Definition nv_iv (x : Z) : bool := (1073741824 <=? x) && (x <? 1073807360).

Example c04_nonvacuous_scan_wf64 :
  scan_wf_layout x86 nv_iv 2147483648 (nv_specs 64) = true /\
  scan_wf_layout arm64 nv_iv 140724603453440 (nv_specs 64) = true /\
  length (nv_specs 64) = 64%nat.
Proof. repeat split; vm_compute; reflexivity. Qed.

Definition nv_specs4 (n : nat) : list frame_spec :=
  map (fun i => {| fs_gap := 4 + Z.of_nat (i mod 7); fs_ra := 1073742080 + 16 * Z.of_nat i |}) (seq 0 n).
Example c04_nonvacuous_scan_mips32_wf64 : scan_wf_layout mips32 nv_iv 2147483648 (nv_specs4 64) = true.
Proof. vm_compute. reflexivity. Qed.

Example c04_nonvacuous_fp_wf64 :
  fp_wf_layout x86 nv_iv 2147483648 (nv_specs 64) = true /\ fp_wf_layout amd64 nv_iv 140724603453440 (nv_specs 64) = true /\
  fp_wf_layout arm64 nv_iv 140724603453440 (nv_specs 64) = true.
Proof. repeat split; vm_compute; reflexivity. Qed.

Example c04_nonvacuous_fp_run :
  let '(r, v, mem) := fp_layout amd64 140724603453440 1073741904 (nv_specs 64) in
  exists fs, walk_stack current_code Debug amd64 OS_WINDOWS mem (fun _ => None) 0 (fun _ _ _ => None) nv_iv (fuel_for mem) r v = Ret fs /\
             length fs = 65%nat /\ map f_trust (firstn 2 (tl fs)) = [TFramePointer; TFramePointer].
Proof. cbn [fp_layout]. eexists. split; [vm_compute; reflexivity|]. split; reflexivity. Qed.

Example c04_nonvacuous_cfi_wf64 :
  cfi_wf_layout amd64 140724603453440 (nv_specs 64) = true /\ cfi_wf_layout mips32 2147483648 (nv_specs 64) = true.
Proof. split; vm_compute; reflexivity. Qed.

Example c04_nonvacuous_scan_run :
  let '(r, v, mem) := scan_layout arm64 140724603453440 1073741904 (nv_specs 64) in
  exists fs, walk_stack current_code Debug arm64 OS_OTHER mem (fun _ => None) 0 (fun _ _ _ => None) nv_iv (fuel_for mem) r v = Ret fs /\
             length fs = 65%nat /\
             map f_resume (firstn 3 (tl fs)) = [1073742080; 1073742096; 1073742112].
Proof. cbn [scan_layout]. eexists. split; [vm_compute; reflexivity|]. split; reflexivity. Qed.

(* technique per frame: 64 calls, CFI and scan alternating irregularly, CFI frames full of look-alike return addresses,
   mips32 frames with code-looking words in the skipped argument area *)
Definition nv_mix (skip : Z) (n : nat) : list mspec :=
  map (fun i => let ra := 1073742080 + 16 * Z.of_nat i in
                if (Nat.eqb (i mod 3) 0 || Nat.eqb (i mod 7) 2)%bool
                then {| ms_tech := TkCfi; ms_fill := repeat 1073742100 (i mod 5); ms_ra := ra |}
                else {| ms_tech := TkScan; ms_fill := repeat 1073742100 (Z.to_nat skip) ++ repeat 0 (i mod 4); ms_ra := ra |})
      (seq 0 n).
Definition nv_mods (x : Z) : option Z := if (1073741824 <=? x) && (x <? 1073807360) then Some 0 else None.

Example c04_nonvacuous_mix_wf64 :
  mix_wf_layout x86 nv_iv nv_mods 2147483648 1073741904 (nv_mix 0 64) = true /\
  mix_wf_layout arm64 nv_iv nv_mods 140724603453440 1073741904 (nv_mix 0 64) = true /\
  mix_wf_layout mips32 nv_iv nv_mods 2147483648 1073741904 (nv_mix 4 64) = true /\
  map ms_tech (firstn 6 (nv_mix 0 64)) = [TkCfi; TkScan; TkCfi; TkCfi; TkScan; TkScan].
Proof. repeat split; vm_compute; reflexivity. Qed.

Example c04_nonvacuous_mix_run :
  let '(r, v, mem) := mix_layout amd64 140724603453440 1073741904 [7; 8; 9] (nv_mix 0 64) in
  exists fs, walk_stack current_code Debug amd64 OS_WINDOWS mem nv_mods 0 (mix_cfi_correct amd64 140724603453440 (nv_mix 0 64)) nv_iv
               (fuel_for mem) r v = Ret fs /\
             length fs = 65%nat /\
             map f_trust (firstn 6 (tl fs)) = [TCfi; TScan; TCfi; TCfi; TScan; TScan] /\
             map f_resume (firstn 3 (tl fs)) = [1073742080; 1073742096; 1073742112].
Proof. cbn [mix_layout]. eexists. split; [vm_compute; reflexivity|]. repeat split; reflexivity. Qed.

(* the rule table of [nv_mix 0 64] on amd64: the callee of call i is the context (i = 0) or call i-1's return address - 1 *)
Definition nv_rule_at (x : Z) : option Z :=
  let i := if x =? 1073741904 then 0%nat else Z.to_nat ((x + 1 - 1073742080) / 16 + 1) in
  if (Nat.eqb (i mod 3) 0 || Nat.eqb (i mod 7) 2)%bool then Some (8 * (Z.of_nat (i mod 5) + 1)) else None.
Example c04_nonvacuous_rules :
  rules_ok amd64 nv_rule_at 1073741904 (nv_mix 0 64) = true /\
  let '(r, v, mem) := mix_layout amd64 140724603453440 1073741904 [7; 8; 9] (nv_mix 0 64) in
  exists fs, walk_stack current_code Release amd64 OS_OTHER mem nv_mods 0 (cfi_rules amd64 mem nv_rule_at) nv_iv (fuel_for mem) r v = Ret fs /\
             length fs = 65%nat /\ map f_trust (firstn 6 (tl fs)) = [TCfi; TScan; TCfi; TCfi; TScan; TScan].
Proof. split; [vm_compute; reflexivity|]. cbn [mix_layout]. eexists. split; [vm_compute; reflexivity|]. split; reflexivity. Qed.
