(* C04/Properties.v — property theorems only.
   Stacks of UNBOUNDED depth (induction on the list of frame specs): one technique per walk (scan; frame-pointer
   chains; CFI through the abstract correct oracle), and — round 5 — the technique chosen PER FRAME among CFI,
   frame pointer and scanning ([c04_recovers_chain], preconditions = the boolean [mix_wf_layout]; frame-pointer frames
   in the mix on x86, amd64 and arm64).  STACK WIN and the evaluation of real rule text are covered by the
   correspondence run (design/C04.md). *)
From Coq Require Import Lia ZArith List.
From RM Require Import C05.Model C05.Proofs C05.Driver C05.ProofsModules C05.ProofsFunction C04.Model C04.Proofs C04.ProofsFp C04.ProofsMix C04.ProofsRules C04.ProofsAttr.
From RM Require C11.Model C11.Proofs2.
Import ListNotations.
Open Scope Z_scope.

(* scan: for every architecture meeting [scan_arch] (x86, amd64, arm, arm64/arm64_old, mips32, mips64 below), every
   list of frame specs that satisfies the boolean precondition [scan_wf_layout], any module lookup, any
   instruction-validity oracle accepting the planted return addresses and rejecting the padding word,
   no CFI: the walker returns the context frame followed by exactly the laid-out chain
   (return address, instruction = ra - adj, sp just above the return-address slot, trust scan,
   validity {ip, sp}) and stops at the end of the stack. *)
Theorem c04_recovers_chain_partial_scan :
  forall p a os module_at max_module_addr cfi_walk instr_valid base fs ip0 fuel,
    scan_arch a ->
    (forall c g f, cfi_walk c g f = None) ->
    scan_wf_layout a instr_valid base fs = true ->
    (length fs < fuel)%nat ->
    let '(r, v, mem) := scan_layout a base ip0 fs in
    walk_stack current_code p a os mem module_at max_module_addr cfi_walk instr_valid fuel r v
    = Ret (from_context r v TContext :: scan_chain a base 0 fs).
Proof. exact scan_recovers_gen. Qed.
Print Assumptions c04_recovers_chain_partial_scan.

(* CFI: with the abstract correct oracle [cfi_correct] (caller sp and return address of the frame whose
   sp it is asked about; everything else forwarded), every frame's lookup address inside a module:
   the walker prefers CFI for every frame, labels it cfi, forwards the callee-saved set, and stops at
   the end of the described stack. *)
Theorem c04_recovers_chain_partial_cfi :
  forall p a os mem module_at max_module_addr instr_valid base fs ip0 fuel,
    cfi_arch a ->
    m_base mem = base -> mem_len mem = a_pw a * total_words fs 0 ->
    cfi_wf_layout a base fs = true ->
    module_at ip0 <> None ->
    (forall f, In f fs -> module_at (fs_ra f - a_adj a) <> None) ->
    (forall f, In f fs -> a_strip a = true -> fs_ra f < 2 ^ 47) ->
    (length fs < fuel)%nat ->
    walk_stack current_code p a os mem module_at max_module_addr (cfi_correct a base fs) instr_valid fuel (ctx_regs ip0 base 0) VAll
    = Ret (from_context (ctx_regs ip0 base 0) VAll TContext ::
           cfi_chain a (a_callee_saved a ++ [a_cfi_sp_name a; a_cfi_ip_name a]) (ctx_regs ip0 base 0) base 0 fs).
Proof. exact cfi_recovers_gen. Qed.
Print Assumptions c04_recovers_chain_partial_cfi.

(* ... and the same for ANY symbol-file oracle that agrees with the correct one on the frames of this stack: the hook
   through which a concrete evaluator (C06's model of walk_with_stack_cfi on rule text describing the layout) is
   plugged in; the correspondence run does exactly that with the real code for `.cfa: SP N + .ra: .cfa w - ^`. *)
Theorem c04_recovers_chain_partial_cfi_any :
  forall p a os mem module_at max_module_addr instr_valid base fs ip0 fuel cfi_walk,
    cfi_arch a ->
    m_base mem = base -> mem_len mem = a_pw a * total_words fs 0 ->
    cfi_wf_layout a base fs = true ->
    module_at ip0 <> None ->
    (forall f, In f fs -> module_at (fs_ra f - a_adj a) <> None) ->
    (forall f, In f fs -> a_strip a = true -> fs_ra f < 2 ^ 47) ->
    (forall callee gc fwd, r_fp (f_regs callee) = 0 -> r_lr (f_regs callee) = 0 -> r_gp (f_regs callee) = [] ->
                           cfi_walk callee gc fwd = cfi_correct a base fs callee gc fwd) ->
    (length fs < fuel)%nat ->
    walk_stack current_code p a os mem module_at max_module_addr cfi_walk instr_valid fuel (ctx_regs ip0 base 0) VAll
    = Ret (from_context (ctx_regs ip0 base 0) VAll TContext ::
           cfi_chain a (a_callee_saved a ++ [a_cfi_sp_name a; a_cfi_ip_name a]) (ctx_regs ip0 base 0) base 0 fs).
Proof. exact cfi_recovers_any. Qed.
Print Assumptions c04_recovers_chain_partial_cfi_any.

(* frame-pointer chains: [saved fp][return address][gap words of locals] per call, fp = sp = base in the context,
   no CFI: for x86, amd64 (Windows slack scan or not), arm on iOS and arm64 (= arm64_old) the walker follows the
   chain for EVERY depth: one frame per call with the right return address, instruction = ra - adj,
   sp = just above the return-address slot, the recovered frame pointer, trust frame_pointer, validity
   {ip, sp, fp}; at the end of the chain every technique gives up and the walk stops. *)
Theorem c04_recovers_chain_partial_fp :
  forall p a os module_at max_module_addr cfi_walk instr_valid base fs ip0 fuel,
    fp_arch a os ->
    (forall c g f, cfi_walk c g f = None) ->
    fp_wf_layout a instr_valid base fs = true ->
    (length fs < fuel)%nat ->
    let '(r, v, mem) := fp_layout a base ip0 fs in
    walk_stack current_code p a os mem module_at max_module_addr cfi_walk instr_valid fuel r v
    = Ret (from_context r v TContext :: fp_chain a base 0 fs).
Proof. exact fp_recovers_gen. Qed.
Print Assumptions c04_recovers_chain_partial_fp.

Theorem c04_fp_archs : (forall os, fp_arch x86 os) /\ (forall os, fp_arch amd64 os) /\ (forall os, fp_arch arm64 os) /\ fp_arch arm OS_IOS.
Proof. exact (conj fp_arch_x86 (conj fp_arch_amd64 (conj fp_arch_arm64 fp_arch_arm_ios))). Qed.
Print Assumptions c04_fp_archs.

(* technique PER FRAME: every call is either described by CFI (abstract correct oracle [mix_cfi_correct], or any oracle
   agreeing with it on the frames of this walk; arbitrary words in the frame, look-alike return addresses included),
   laid out by the frame-pointer convention ([arbitrary words][saved frame pointer][return address], the callee's frame
   pointer valid and pointing at the saved word; x86, amd64 with its own sanity checks, arm64) or
   findable only by scanning ([skipped argument words: arbitrary][zeros][return address] inside the window of its
   callee: 160 words above the context frame, 40 above any other frame, MIPS per c04_constants; the callee's frame
   pointer not valid or 0).  The frame pointer travels along the stack: set by the context and by every frame-pointer
   frame (the saved word), carried through CFI frames as a callee-saved register, lost after a scan.  For every
   architecture x OS meeting [mix_arch] (all six; ARM except on iOS, where a valid frame pointer of 0 ends the walk by
   design), both profiles, any module lookup, any context register file: the walker returns the context frame followed
   by exactly one frame per generated call — return address, instruction = ra - adj, sp just above the return-address
   slot, trust cfi / frame_pointer / scan as generated, the recovered frame pointer, the validity set (callee-saved
   registers forwarded through CFI frames, {ip, sp, fp} after a frame-pointer frame, {ip, sp} after a scan), the
   general registers carried through CFI frames — and stops at the generated end of stack.
   The precondition is the boolean [mix_wf_layout]; depth is unbounded (induction on the list of specs). *)
Theorem c04_recovers_chain :
  forall p a os module_at max_module_addr instr_valid base fs ip0 fp0 gp0 fuel cfi_walk,
    mix_arch a os ->
    (forall callee gc fwd, r_lr (f_regs callee) = 0 ->
                           cfi_walk callee gc fwd = mix_cfi_correct a base fs callee gc fwd) ->
    mix_wf_layout a instr_valid module_at base ip0 fp0 fs = true ->
    (length fs < fuel)%nat ->
    let '(r, v, mem) := mix_layout a base ip0 fp0 gp0 fs in
    walk_stack current_code p a os mem module_at max_module_addr cfi_walk instr_valid fuel r v
    = Ret (from_context r v TContext :: mix_chain a v gp0 (Some fp0) base 0 fs).
Proof. exact mix_recovers_gen. Qed.
Print Assumptions c04_recovers_chain.

(* ... with STACK CFI rules EVALUATED instead of the abstract oracle: [cfi_rules] is the evaluator of the rule family
   `.cfa: <sp> N + .ra: .cfa <pointer width> - ^` against the CFI walker (sp must be valid, u64 wrapping arithmetic, the
   return address read from the stack memory at .cfa - pw, cfa and ra must fit the register), the symbol files abstracted
   to [rule_at] : lookup address -> N.  Precondition on the rules ([rules_ok], boolean): the callee of every CFI frame is
   covered by a record whose N is that frame's size, the callee of every scan or frame-pointer frame by none.  Same conclusion. *)
Theorem c04_recovers_chain_rules :
  forall p a os module_at max_module_addr instr_valid base fs ip0 fp0 gp0 fuel rule_at,
    mix_arch a os ->
    mix_wf_layout a instr_valid module_at base ip0 fp0 fs = true ->
    rules_ok a rule_at ip0 fs = true ->
    (length fs < fuel)%nat ->
    let '(r, v, mem) := mix_layout a base ip0 fp0 gp0 fs in
    walk_stack current_code p a os mem module_at max_module_addr (cfi_rules a mem rule_at) instr_valid fuel r v
    = Ret (from_context r v TContext :: mix_chain a v gp0 (Some fp0) base 0 fs).
Proof. exact mix_recovers_rules. Qed.
Print Assumptions c04_recovers_chain_rules.

(* ... and for any symbol-file oracle that agrees with the correct one on the frames the walk REACHES (sp at a record of the
   layout, lr = 0, sp valid, the lookup address of that position): the form a concrete evaluator can meet *)
Theorem c04_recovers_chain_reached :
  forall p a os module_at max_module_addr instr_valid base fs ip0 fp0 gp0 fuel cfi_walk,
    mix_arch a os ->
    (forall done f t callee gc fwd, fs = done ++ f :: t -> reached a base ip0 callee done ->
                                    cfi_walk callee gc fwd = mix_cfi_correct a base fs callee gc fwd) ->
    mix_wf_layout a instr_valid module_at base ip0 fp0 fs = true ->
    (length fs < fuel)%nat ->
    let '(r, v, mem) := mix_layout a base ip0 fp0 gp0 fs in
    walk_stack current_code p a os mem module_at max_module_addr cfi_walk instr_valid fuel r v
    = Ret (from_context r v TContext :: mix_chain a v gp0 (Some fp0) base 0 fs).
Proof. exact mix_recovers_reached. Qed.
Print Assumptions c04_recovers_chain_reached.

(* ... with module and function attribution per frame (second pass of round 5): the module lookup is C08's range map over the
   case's module list ([d_module_at mods], what fill_source_line_info uses), [files i] is any well-formed symbol file of
   module i.  The walk returns the context frame followed by a chain that is, call by call ([attributed]): lookup address
   ra - adj, return address ra, the technique label generated for the call, and IF a module is attached it is a module
   (b, size, _) of the list with b <= ra - adj < b + size, C11's model of SymbolFile::fill_symbol returns on that module's
   file at that address (either profile), and a function it names is a FUNC record of that file covering the address or a
   PUBLIC record at or below it (C05's function_covers / C11's func_sound, here over the RECOVERED chain). *)
Theorem c04_recovers_chain_attributed :
  forall p q a os max_module_addr instr_valid base fs ip0 fp0 gp0 fuel cfi_walk (mods : list modspec) (files : Z -> C11.Model.raw_file),
    mix_arch a os ->
    (forall callee gc fwd, r_lr (f_regs callee) = 0 ->
                           cfi_walk callee gc fwd = mix_cfi_correct a base fs callee gc fwd) ->
    mix_wf_layout a instr_valid (d_module_at mods) base ip0 fp0 fs = true ->
    mods_wf mods -> (forall i, C11.Proofs2.wf_file (files i)) ->
    (length fs < fuel)%nat ->
    let '(r, v, mem) := mix_layout a base ip0 fp0 gp0 fs in
    exists chain,
      walk_stack current_code p a os mem (d_module_at mods) max_module_addr cfi_walk instr_valid fuel r v
        = Ret (from_context r v TContext :: chain) /\
      Forall2 (fun (s : mspec) (f : frame) =>
                 f_instr f = ms_ra s - a_adj a /\ f_resume f = ms_ra s /\ f_trust f = mix_trust (ms_tech s) /\
                 forall i, frame_module mods f = Some i ->
                   exists b sz y, nth_error mods (Z.to_nat i) = Some (b, sz, y) /\ b <= ms_ra s - a_adj a < b + sz /\
                     exists o, C11.Model.symbolize q (files i) b (ms_ra s - a_adj a) = Ret o /\
                       forall name fbase ps, C11.Model.o_func o = Some (name, fbase, ps) ->
                         fbase <= f_instr f /\
                         ((exists fr, In fr (C11.Model.rf_funcs (files i)) /\ name = C11.Model.fr_name fr /\
                                      fbase = b + C11.Model.fr_addr fr /\ f_instr f < fbase + C11.Model.fr_size fr)
                          \/ (exists pb, In pb (C11.Model.rf_publics (files i)) /\ name = C11.Model.p_name pb /\
                                         fbase = b + C11.Model.p_addr pb)))
              fs chain.
Proof. exact mix_recovers_attributed. Qed.
Print Assumptions c04_recovers_chain_attributed.

(* ... read column by column: frame i of the recovered chain has lookup address ra_i - adj (its module is the module
   lookup of that address, C08), return address ra_i and the technique label generated for call i; one frame per call *)
Theorem c04_chain_columns : forall a v gp st base off fs,
  map f_instr (mix_chain a v gp st base off fs) = map (fun f => ms_ra f - a_adj a) fs /\
  map f_resume (mix_chain a v gp st base off fs) = map ms_ra fs /\
  map f_trust (mix_chain a v gp st base off fs) = map (fun f => mix_trust (ms_tech f)) fs /\
  length (mix_chain a v gp st base off fs) = length fs.
Proof. exact mix_chain_columns. Qed.
Print Assumptions c04_chain_columns.

Theorem c04_mix_archs :
  (forall os, mix_arch x86 os) /\ (forall os, mix_arch amd64 os) /\ (forall os, os <> OS_IOS -> mix_arch arm os) /\
  (forall os, mix_arch arm64 os) /\ (forall os, mix_arch mips32 os) /\ (forall os, mix_arch mips64 os).
Proof. exact (conj mix_arch_x86 (conj mix_arch_amd64 (conj mix_arch_arm (conj mix_arch_arm64 (conj mix_arch_mips32 mix_arch_mips64))))). Qed.
Print Assumptions c04_mix_archs.

(* the architectures the two theorems apply to *)
Theorem c04_scan_archs : scan_arch x86 /\ scan_arch amd64 /\ scan_arch arm /\ scan_arch arm64 /\ scan_arch mips32 /\ scan_arch mips64.
Proof. exact (conj scan_arch_x86 (conj scan_arch_amd64 (conj scan_arch_arm (conj scan_arch_arm64 (conj scan_arch_mips32 scan_arch_mips64))))). Qed.
Print Assumptions c04_scan_archs.
Theorem c04_cfi_archs : cfi_arch x86 /\ cfi_arch amd64 /\ cfi_arch arm /\ cfi_arch arm64 /\ cfi_arch mips32 /\ cfi_arch mips64.
Proof. exact (conj cfi_arch_x86 (conj cfi_arch_amd64 (conj cfi_arch_arm (conj cfi_arch_arm64 (conj cfi_arch_mips32 cfi_arch_mips64))))). Qed.
Print Assumptions c04_cfi_archs.

(* the documented preconditions, as they stand in the sources: scan windows 160 words for the context
   frame and 40 afterwards (MIPS: 1024 bytes; the 32-bit ABI skips 4 argument words after the first
   frame), Windows x64 frame-pointer slack 15 steps of 2 words (240 bytes), iOS-only ARM frame pointers *)
Theorem c04_constants :
  map a_scan_context [x86; amd64; arm; arm64; mips32; mips64] = [160; 160; 160; 160; 256; 128] /\
  map a_scan_default [x86; amd64; arm; arm64; mips32; mips64] = [40; 40; 40; 40; 252; 128] /\
  map a_scan_skip [x86; amd64; arm; arm64; mips32; mips64] = [0; 0; 0; 0; 16; 0] /\
  amd64_win_scan_max * amd64_win_scan_step_words * amd64_pw = 240 /\
  (amd64_other_scan_max, amd64_other_scan_step) = (0, 0) /\
  x86_max_gap = 131072 /\ amd64_max_gap = 131072 /\
  map a_fp [x86; amd64; arm; arm64; mips32; mips64] = [FpX86; FpAmd64; FpArm; FpArm64; FpNone; FpNone].
Proof. repeat split; reflexivity. Qed.
Print Assumptions c04_constants.

(* the registers each unwinder forwards through a CFI frame are the callee-saved registers of the platform calling
   convention (as sets; register names are the base-256 value of their spelling):
   x86 ebp ebx edi esi; amd64 rbx rbp r12-r15; arm r4-r10 fp; arm64 x19-x28 fp; mips s0-s7 gp sp fp —
   and the names a CFI frame adds / a scanned frame carries *)
Definition same_set (l1 l2 : list Z) : bool := forallb (fun x => memb x l2) l1 && forallb (fun x => memb x l1) l2.
Theorem c04_callee_saved :
  same_set (a_callee_saved x86) [6644336; 6644344; 6644841; 6648681] = true /\
  same_set (a_callee_saved amd64) [7496312; 7496304; 7483698; 7483699; 7483700; 7483701] = true /\
  same_set (a_callee_saved arm) [29236; 29237; 29238; 29239; 29240; 29241; 7483696; 26224] = true /\
  same_set (a_callee_saved arm64) [7876921; 7877168; 7877169; 7877170; 7877171; 7877172; 7877173; 7877174; 7877175; 7877176; 26224] = true /\
  same_set (a_callee_saved mips32) [29488; 29489; 29490; 29491; 29492; 29493; 29494; 29495; 26480; 29552; 26224] = true /\
  a_callee_saved mips64 = a_callee_saved mips32 /\
  map (fun a => (a_cfi_sp_name a, a_cfi_ip_name a)) [x86; amd64; arm; arm64; mips32; mips64]
    = [(6648688, 6646128); (7500656, 7498096); (29552, 28771); (29552, 28771); (29552, 28771); (29552, 28771)] /\
  map plain_valid [x86; amd64; arm; arm64; mips32; mips64]
    = [VSome [6646128; 6648688]; VSome [7498096; 7500656]; VSome [7483701; 7483699]; VSome [28771; 29552]; VSome [28771; 29552]; VSome [28771; 29552]].
Proof. repeat split; reflexivity. Qed.
Print Assumptions c04_callee_saved.

(* ---- non-vacuity: depth-64 layouts satisfy the preconditions, and the walker does recover them *)
Definition nv_specs (n : nat) : list frame_spec :=
  map (fun i => {| fs_gap := Z.of_nat (i mod 7); fs_ra := 1073742080 + 16 * Z.of_nat i |}) (seq 0 n).
Definition nv_iv (x : Z) : bool := (1073741824 <=? x) && (x <? 1073807360).

Example c04_nonvacuous_scan_wf64 :
  scan_wf_layout x86 nv_iv 2147483648 (nv_specs 64) = true /\
  scan_wf_layout arm64 nv_iv 140724603453440 (nv_specs 64) = true /\
  length (nv_specs 64) = 64%nat.
Proof. repeat split; vm_compute; reflexivity. Qed.

Definition nv_specs4 (n : nat) : list frame_spec :=
  map (fun i => {| fs_gap := 4 + Z.of_nat (i mod 7); fs_ra := 1073742080 + 16 * Z.of_nat i |}) (seq 0 n).
Example c04_nonvacuous_scan_mips32_wf64 : scan_wf_layout mips32 nv_iv 2147483648 (nv_specs4 64) = true.
Proof. vm_compute. reflexivity. Qed.

Example c04_nonvacuous_fp_wf64 :
  fp_wf_layout x86 nv_iv 2147483648 (nv_specs 64) = true /\ fp_wf_layout amd64 nv_iv 140724603453440 (nv_specs 64) = true /\
  fp_wf_layout arm64 nv_iv 140724603453440 (nv_specs 64) = true.
Proof. repeat split; vm_compute; reflexivity. Qed.

Example c04_nonvacuous_fp_run :
  let '(r, v, mem) := fp_layout amd64 140724603453440 1073741904 (nv_specs 64) in
  exists fs, walk_stack current_code Debug amd64 OS_WINDOWS mem (fun _ => None) 0 (fun _ _ _ => None) nv_iv (fuel_for mem) r v = Ret fs /\
             length fs = 65%nat /\ map f_trust (firstn 2 (tl fs)) = [TFramePointer; TFramePointer].
Proof. cbn [fp_layout]. eexists. split; [vm_compute; reflexivity|]. split; reflexivity. Qed.

Example c04_nonvacuous_cfi_wf64 :
  cfi_wf_layout amd64 140724603453440 (nv_specs 64) = true /\ cfi_wf_layout mips32 2147483648 (nv_specs 64) = true.
Proof. split; vm_compute; reflexivity. Qed.

Example c04_nonvacuous_scan_run :
  let '(r, v, mem) := scan_layout arm64 140724603453440 1073741904 (nv_specs 64) in
  exists fs, walk_stack current_code Debug arm64 OS_OTHER mem (fun _ => None) 0 (fun _ _ _ => None) nv_iv (fuel_for mem) r v = Ret fs /\
             length fs = 65%nat /\
             map f_resume (firstn 3 (tl fs)) = [1073742080; 1073742096; 1073742112].
Proof. cbn [scan_layout]. eexists. split; [vm_compute; reflexivity|]. split; reflexivity. Qed.

(* technique per frame: 64 calls, CFI and scan alternating irregularly, CFI frames full of look-alike return addresses,
   mips32 frames with code-looking words in the skipped argument area *)
Definition nv_mix (skip : Z) (n : nat) : list mspec :=
  map (fun i => let ra := 1073742080 + 16 * Z.of_nat i in
                if (Nat.eqb (i mod 3) 0 || Nat.eqb (i mod 7) 2)%bool
                then {| ms_tech := TkCfi; ms_fill := repeat 1073742100 (i mod 5); ms_ra := ra |}
                else {| ms_tech := TkScan; ms_fill := repeat 1073742100 (Z.to_nat skip) ++ repeat 0 (i mod 4); ms_ra := ra |})
      (seq 0 n).
Definition nv_mods (x : Z) : option Z := if (1073741824 <=? x) && (x <? 1073807360) then Some 0 else None.

Example c04_nonvacuous_mix_wf64 :
  mix_wf_layout x86 nv_iv nv_mods 2147483648 1073741904 0 (nv_mix 0 64) = true /\
  mix_wf_layout arm64 nv_iv nv_mods 140724603453440 1073741904 0 (nv_mix 0 64) = true /\
  mix_wf_layout mips32 nv_iv nv_mods 2147483648 1073741904 0 (nv_mix 4 64) = true /\
  map ms_tech (firstn 6 (nv_mix 0 64)) = [TkCfi; TkScan; TkCfi; TkCfi; TkScan; TkScan].
Proof. repeat split; vm_compute; reflexivity. Qed.

Example c04_nonvacuous_mix_run :
  let '(r, v, mem) := mix_layout amd64 140724603453440 1073741904 0 [7; 8; 9] (nv_mix 0 64) in
  exists fs, walk_stack current_code Debug amd64 OS_WINDOWS mem nv_mods 0 (mix_cfi_correct amd64 140724603453440 (nv_mix 0 64)) nv_iv
               (fuel_for mem) r v = Ret fs /\
             length fs = 65%nat /\
             map f_trust (firstn 6 (tl fs)) = [TCfi; TScan; TCfi; TCfi; TScan; TScan] /\
             map f_resume (firstn 3 (tl fs)) = [1073742080; 1073742096; 1073742112].
Proof. cbn [mix_layout]. eexists. split; [vm_compute; reflexivity|]. repeat split; reflexivity. Qed.

(* the rule table of [nv_mix 0 64] on amd64: the callee of call i is the context (i = 0) or call i-1's return address - 1 *)
Definition nv_rule_at (x : Z) : option Z :=
  let i := if x =? 1073741904 then 0%nat else Z.to_nat ((x + 1 - 1073742080) / 16 + 1) in
  if (Nat.eqb (i mod 3) 0 || Nat.eqb (i mod 7) 2)%bool then Some (8 * (Z.of_nat (i mod 5) + 1)) else None.
Example c04_nonvacuous_rules :
  rules_ok amd64 nv_rule_at 1073741904 (nv_mix 0 64) = true /\
  let '(r, v, mem) := mix_layout amd64 140724603453440 1073741904 0 [7; 8; 9] (nv_mix 0 64) in
  exists fs, walk_stack current_code Release amd64 OS_OTHER mem nv_mods 0 (cfi_rules amd64 mem nv_rule_at) nv_iv (fuel_for mem) r v = Ret fs /\
             length fs = 65%nat /\ map f_trust (firstn 6 (tl fs)) = [TCfi; TScan; TCfi; TCfi; TScan; TScan].
Proof. split; [vm_compute; reflexivity|]. cbn [mix_layout]. eexists. split; [vm_compute; reflexivity|]. split; reflexivity. Qed.

(* frame-pointer frames in the mix.  [nv_mix3 a base n]: n calls; the first 41: described by CFI when i mod 4 = 0, found
   through the frame pointer otherwise; the others: CFI when i mod 3 = 0, found by scanning otherwise (a scan loses the
   frame pointer, no frame-pointer frame can follow) — the saved frame pointer of a frame-pointer frame is the address
   of the next one's saved word when CFI frames only lie between them, 0 when the next frame that needs it is a scan
   frame (the saved words are addresses of later records: [nv_need3]). *)
Definition nv_tech3 (i : nat) : tech :=
  if (i <=? 40)%nat then match (i mod 4)%nat with 0%nat => TkCfi | _ => TkFp end
  else match (i mod 3)%nat with 0%nat => TkCfi | _ => TkScan end.
Definition nv_len3 (i : nat) : Z :=
  match nv_tech3 i with TkFp => 1 + Z.of_nat (i mod 3) | TkCfi => Z.of_nat (i mod 5) | TkScan => Z.of_nat (i mod 4) end.
(* the frame pointer the callee of record i must hold: the slot of the first frame-pointer record at or after i reached
   through CFI records, 0 if a scan record (or the end) comes first *)
Fixpoint nv_need3 (a : arch) (base : Z) (i n : nat) (off : Z) : Z :=
  match n with
  | O => 0
  | S k => match nv_tech3 i with
           | TkFp => base + a_pw a * (off + nv_len3 i - 1)
           | TkScan => 0
           | TkCfi => nv_need3 a base (S i) k (off + nv_len3 i + 1)
           end
  end.
Fixpoint nv_mix3_from (a : arch) (base : Z) (i n : nat) (off : Z) : list mspec :=
  match n with
  | O => []
  | S k =>
      let ra := 1073742080 + 16 * Z.of_nat i in
      let fill := match nv_tech3 i with
                  | TkFp => repeat 1073742100 (Z.to_nat (nv_len3 i - 1)) ++ [nv_need3 a base (S i) k (off + nv_len3 i + 1)]
                  | TkCfi => repeat 1073742100 (Z.to_nat (nv_len3 i))
                  | TkScan => repeat 0 (Z.to_nat (nv_len3 i))
                  end in
      {| ms_tech := nv_tech3 i; ms_fill := fill; ms_ra := ra |} :: nv_mix3_from a base (S i) k (off + nv_len3 i + 1)
  end.
Definition nv_mix3 (a : arch) (base : Z) (n : nat) : list mspec := nv_mix3_from a base 0 n 0.
Definition nv_fp3 (a : arch) (base : Z) (n : nat) : Z := nv_need3 a base 0 n 0.

Example c04_nonvacuous_mix_fp_wf64 :
  mix_wf_layout x86 nv_iv nv_mods 2147483648 1073741904 (nv_fp3 x86 2147483648 64) (nv_mix3 x86 2147483648 64) = true /\
  map ms_tech (firstn 6 (skipn 36 (nv_mix3 x86 2147483648 64))) = [TkCfi; TkFp; TkFp; TkFp; TkCfi; TkScan] /\
  length (nv_mix3 x86 2147483648 64) = 64%nat.
Proof. repeat split; vm_compute; reflexivity. Qed.

Example c04_nonvacuous_mix_fp_run :
  let '(r, v, mem) := mix_layout x86 2147483648 1073741904 (nv_fp3 x86 2147483648 64) [7; 8; 9] (nv_mix3 x86 2147483648 64) in
  exists fs, walk_stack current_code Debug x86 OS_WINDOWS mem nv_mods 0 (mix_cfi_correct x86 2147483648 (nv_mix3 x86 2147483648 64)) nv_iv
               (fuel_for mem) r v = Ret fs /\
             length fs = 65%nat /\
             map f_trust (firstn 8 (skipn 36 (tl fs))) = [TCfi; TFramePointer; TFramePointer; TFramePointer; TCfi; TScan; TCfi; TScan].
Proof. cbn [mix_layout]. eexists. split; [vm_compute; reflexivity|]. repeat split; reflexivity. Qed.

(* amd64: its frame-pointer technique wants the saved frame pointer to be a readable stack address at or above the
   caller's sp, so no scan frame can follow a frame-pointer frame there: CFI and frame-pointer frames to the end, the
   last saved frame pointer pointing at the last word of the stack.  arm64 (before the repair of F-C04a): the frame pointer was carried through CFI
   frames only under the name "fp" (a context frame), not under "x29" (behind a frame-pointer frame): frame-pointer
   frames first, then scan / CFI. *)
Definition nv_amd_fp (base : Z) : list mspec :=
  [ {| ms_tech := TkCfi; ms_fill := [1073742100]; ms_ra := 1073742080 |};                  (* words 0..1 *)
    {| ms_tech := TkFp; ms_fill := [5; base + 8 * 7]; ms_ra := 1073742096 |};              (* words 2..4, saved fp at word 3 *)
    {| ms_tech := TkCfi; ms_fill := [1073742100]; ms_ra := 1073742112 |};                  (* words 5..6 *)
    {| ms_tech := TkFp; ms_fill := [base + 8 * 11]; ms_ra := 1073742128 |};                (* words 7..8, saved fp at word 7 *)
    {| ms_tech := TkCfi; ms_fill := [7; 7]; ms_ra := 1073742144 |} ].                      (* words 9..11 *)
Definition nv_a64_fp (base : Z) : list mspec :=
  [ {| ms_tech := TkFp; ms_fill := [5; base + 8 * 3]; ms_ra := 1073742080 |};              (* words 0..2, saved fp at word 1 *)
    {| ms_tech := TkFp; ms_fill := [0]; ms_ra := 1073742096 |};                            (* words 3..4 *)
    {| ms_tech := TkCfi; ms_fill := [1073742100]; ms_ra := 1073742112 |};                  (* words 5..6 *)
    {| ms_tech := TkScan; ms_fill := [0; 0]; ms_ra := 1073742128 |} ].                     (* words 7..9 *)
Example c04_nonvacuous_mix_fp_amd64_arm64 :
  mix_wf_layout amd64 nv_iv nv_mods 140724603453440 1073741904 (140724603453440 + 8 * 3) (nv_amd_fp 140724603453440) = true /\
  mix_wf_layout arm64 nv_iv nv_mods 70368744177664 1073741904 (70368744177664 + 8 * 1) (nv_a64_fp 70368744177664) = true /\
  let '(r, v, mem) := mix_layout amd64 140724603453440 1073741904 (140724603453440 + 8 * 3) [] (nv_amd_fp 140724603453440) in
  exists fs, walk_stack current_code Debug amd64 OS_WINDOWS mem nv_mods 0 (mix_cfi_correct amd64 140724603453440 (nv_amd_fp 140724603453440)) nv_iv
               (fuel_for mem) r v = Ret fs /\
             map f_trust (tl fs) = [TCfi; TFramePointer; TCfi; TFramePointer; TCfi].
Proof. split; [vm_compute; reflexivity|]. split; [vm_compute; reflexivity|]. cbn [mix_layout]. eexists. split; [vm_compute; reflexivity|]. reflexivity. Qed.

(* F-C04a (fixed in /repo: "fix: arm/arm64 CFI frames forward the frame pointer whichever alias marks it valid"; design/C04.md).
   Before the repair callee_forwarded_regs of arm / arm64 looked the CALLEE_SAVED_REGS names up LITERALLY in the callee's
   validity set; the list says "fp", the frame-pointer technique marks "x29" ("r11") valid, so behind a frame-pointer frame
   a CFI frame did not carry the frame pointer on and a frame-pointer frame above it was found by scanning only.
   [literal_fwd a] is [a] with the old comparison.  The stack frame pointer / CFI / frame pointer / CFI:
   with the old comparison the third call comes back with trust scan and the frame pointer 0 (refutation, kept checkable);
   with the code as it is now the same stack satisfies the precondition and is recovered. *)
Definition literal_fwd (a : arch) : arch := {|
  a_bits := a_bits a; a_slot_bits := a_slot_bits a; a_pw := a_pw a; a_trunc := a_trunc a;
  a_ip_name := a_ip_name a; a_sp_name := a_sp_name a; a_fp_name := a_fp_name a; a_lr_name := a_lr_name a;
  a_cfi_sp_name := a_cfi_sp_name a; a_cfi_ip_name := a_cfi_ip_name a;
  a_aliases := a_aliases a; a_callee_saved := a_callee_saved a; a_fwd_alias := false;
  a_fp := a_fp a; a_fp_guard_words := a_fp_guard_words a; a_bp := a_bp a; a_max_gap := a_max_gap a;
  a_scan_context := a_scan_context a; a_scan_default := a_scan_default a; a_scan_skip := a_scan_skip a;
  a_pre_ok := a_pre_ok a; a_canon_fp := a_canon_fp a; a_strip := a_strip a;
  a_cutoff := a_cutoff a; a_adj := a_adj a; a_leaf := a_leaf a; a_sp_stop_le := a_sp_stop_le a |}.
Definition nv_a64_mix (base : Z) : list mspec :=
  [ {| ms_tech := TkFp; ms_fill := [5; base + 8 * 5]; ms_ra := 1073742080 |};              (* words 0..2, saved fp at word 1 *)
    {| ms_tech := TkCfi; ms_fill := [7]; ms_ra := 1073742096 |};                           (* words 3..4 *)
    {| ms_tech := TkFp; ms_fill := [0]; ms_ra := 1073742112 |};                            (* words 5..6, saved fp at word 5 *)
    {| ms_tech := TkCfi; ms_fill := [7]; ms_ra := 1073742128 |} ].                         (* words 7..8 *)
Theorem c04_fp_behind_cfi_unfixed_refuted :
  let base := 70368744177664 in
  let '(r, v, mem) := mix_layout arm64 base 1073741904 (base + 8 * 1) [] (nv_a64_mix base) in
  mix_wf_layout arm64 nv_iv nv_mods base 1073741904 (base + 8 * 1) (nv_a64_mix base) = true /\
  map (fun f => mix_trust (ms_tech f)) (nv_a64_mix base) = [TFramePointer; TCfi; TFramePointer; TCfi] /\
  (exists fs, walk_stack current_code Debug (literal_fwd arm64) OS_OTHER mem nv_mods 0 (mix_cfi_correct arm64 base (nv_a64_mix base)) nv_iv
                (fuel_for mem) r v = Ret fs /\
              map f_trust (tl fs) = [TFramePointer; TCfi; TScan; TCfi] /\
              map (fun f => r_fp (f_regs f)) (tl fs) = [base + 8 * 5; base + 8 * 5; 0; 0]) /\
  (exists fs, walk_stack current_code Debug arm64 OS_OTHER mem nv_mods 0 (mix_cfi_correct arm64 base (nv_a64_mix base)) nv_iv
                (fuel_for mem) r v = Ret fs /\
              map f_trust (tl fs) = [TFramePointer; TCfi; TFramePointer; TCfi] /\
              map (fun f => r_fp (f_regs f)) (tl fs) = [base + 8 * 5; base + 8 * 5; 0; 0]).
Proof.
  cbv zeta. cbn [mix_layout].
  split; [vm_compute; reflexivity|]. split; [reflexivity|]. split.
  - eexists. split; [vm_compute; reflexivity|]. split; reflexivity.
  - eexists. split; [vm_compute; reflexivity|]. split; reflexivity.
Qed.
Print Assumptions c04_fp_behind_cfi_unfixed_refuted.

(* the comparison each unwinder's callee_forwarded_regs makes, through the translator (Gen/UnwindConsts.v is regenerated from
   the sources on every run: literal name lookup / register_is_valid), and the spellings involved: arm and arm64 list the
   frame pointer as "fp" while their frame-pointer technique marks "r11" / "x29" valid, so THEY need the alias-aware
   comparison; x86 / amd64 / mips list the very name the techniques use.  Reverting the repair of F-C04a flips the first
   table (and breaks c04_mix_archs for arm / arm64). *)
Theorem c04_fwd_alias_pinned :
  map a_fwd_alias [x86; amd64; arm; arm64; mips32; mips64] = [false; false; true; true; false; false] /\
  map (fun a => memb (a_fp_name a) (a_callee_saved a)) [x86; amd64; arm; arm64; mips32; mips64] = [true; true; false; false; true; true] /\
  map (fun a => memb (a_fp_name a) (fp_valid a)) [x86; amd64; arm; arm64] = [true; true; true; true] /\
  map a_fp_name [arm; arm64] = [7483697; 7877177] /\        (* "r11", "x29" *)
  memb 26224 (a_callee_saved arm) = true /\ memb 26224 (a_callee_saved arm64) = true /\   (* "fp" *)
  In 26224 (alias_group arm (a_fp_name arm)) /\ In 26224 (alias_group arm64 (a_fp_name arm64)).
Proof. repeat split; try reflexivity; cbn; tauto. Qed.
Print Assumptions c04_fwd_alias_pinned.

(* c04_recovers_chain_attributed is not vacuous: the module list [0x40000000, +0x10000) gives the module lookup of the
   64-call x86 stack above, the precondition holds with it, and the second call's lookup address (0x4000010f) gets the
   FUNC 100 100 record of the module's symbol file *)
Definition nv_amods : list modspec := [(1073741824, 65536, None)].
Definition nv_afile : C11.Model.raw_file := C11.Model.mk_raw [] [] [] [C11.Model.mk_fraw 256 256 0 102 [] []] [] [].
Example c04_nonvacuous_attributed :
  mix_wf_layout x86 nv_iv (d_module_at nv_amods) 2147483648 1073741904 (nv_fp3 x86 2147483648 64) (nv_mix3 x86 2147483648 64) = true /\
  mods_wf nv_amods /\ C11.Proofs2.wf_file nv_afile /\
  map ms_ra (firstn 2 (nv_mix3 x86 2147483648 64)) = [1073742080; 1073742096] /\
  d_module_at nv_amods (1073742096 - a_adj x86) = Some 0 /\
  exists o, C11.Model.symbolize Release nv_afile 1073741824 (1073742096 - a_adj x86) = Ret o /\
            C11.Model.o_func o = Some (102, 1073741824 + 256, 0).
Proof.
  split; [vm_compute; reflexivity|]. split.
  { repeat constructor; cbn; lia. }
  split.
  { unfold C11.Proofs2.wf_file, nv_afile; cbn [C11.Model.rf_funcs C11.Model.rf_publics C11.Model.rf_win_fd C11.Model.rf_win_fpo].
    repeat split; try constructor; try constructor;
      unfold C11.Proofs2.wf_fraw, C11.Proofs2.u64, C11.Proofs2.u32; cbn; repeat split; try constructor; try lia; try reflexivity. }
  split; [vm_compute; reflexivity|]. split; [vm_compute; reflexivity|].
  eexists. split; vm_compute; reflexivity.
Qed.
