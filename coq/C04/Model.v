(* C04/Model.v — stack *builders* for the walker of C05/Model.v (definitions only).
   A well-formed stack is described by a list of [frame_spec]s, innermost call first.  For each
   technique [*_layout] lays the thread out (context registers, validity, stack words) and [*_chain]
   is the call chain the walker has to return.  Words are serialised little-endian, one pointer each.
     scan : [gap words of 0][return address]                       per call
     fp   : [gap words of 0][saved frame pointer][return address]  per call (x86 convention)
     cfi  : a frame of gap+1 words whose CFA is sp + pw*(gap+1); the symbol-file walk is the
            abstract *correct* oracle [cfi_correct] (C06/C07 model the evaluation itself) *)
From RM Require Export C05.Model.
Open Scope Z_scope.

Fixpoint le_bytes (n : nat) (w : Z) : list Z :=
  match n with O => [] | S k => (w mod 256) :: le_bytes k (w / 256) end.
Definition words_bytes (pw : Z) (ws : list Z) : list Z := flat_map (le_bytes (Z.to_nat pw)) ws.
Definition mk_mem (a : arch) (base : Z) (ws : list Z) : memory :=
  {| m_base := base; m_bytes := words_bytes (a_pw a) ws |}.

Record frame_spec := { fs_gap : Z; fs_ra : Z }.

Definition zeros (g : Z) : list Z := repeat 0 (Z.to_nat g).
Definition plain_valid (a : arch) : validity := VSome [a_ip_name a; a_sp_name a].
Definition ctx_regs (ip sp fp : Z) : regs := {| r_ip := ip; r_sp := sp; r_fp := fp; r_lr := 0; r_gp := [] |}.

(* ---- scan *)
Fixpoint scan_words (fs : list frame_spec) : list Z :=
  match fs with [] => [] | f :: t => zeros (fs_gap f) ++ fs_ra f :: scan_words t end.
Definition scan_frame (a : arch) (sp ra : Z) : frame :=
  {| f_instr := ra - a_adj a; f_resume := ra; f_trust := TScan;
     f_regs := ctx_regs ra sp 0; f_valid := plain_valid a |}.
Fixpoint scan_chain (a : arch) (base off : Z) (fs : list frame_spec) : list frame :=
  match fs with
  | [] => []
  | f :: t => scan_frame a (base + a_pw a * (off + fs_gap f + 1)) (fs_ra f) :: scan_chain a base (off + fs_gap f + 1) t
  end.
Fixpoint total_words (fs : list frame_spec) (extra : Z) : Z :=
  match fs with [] => 0 | f :: t => fs_gap f + 1 + extra + total_words t extra end.

(* preconditions of a scan-findable stack: every return address within the window of its callee
   (the larger one for the context frame), acceptable to instruction_seems_valid, >= the nullish cut-off;
   padding words (0) are not acceptable; the whole stack below 2^W *)
(* [lo] words are skipped before the scan starts (mips32: MIN_ARGS words for every frame but the first) *)
Definition scan_skip_words (a : arch) : Z := a_scan_skip a / a_pw a.
Fixpoint scan_gaps_ok (a : arch) (iv : Z -> bool) (lo win : Z) (fs : list frame_spec) : bool :=
  match fs with
  | [] => true
  | f :: t => (lo <=? fs_gap f) && (fs_gap f - lo <? win) && (a_cutoff a <=? fs_ra f) && (fs_ra f <? 2 ^ a_bits a) &&
              a_pre_ok a (fs_ra f) && iv (fs_ra f) && scan_gaps_ok a iv (scan_skip_words a) (a_scan_default a) t
  end.
Definition scan_wf_layout (a : arch) (iv : Z -> bool) (base : Z) (fs : list frame_spec) : bool :=
  scan_gaps_ok a iv 0 (a_scan_context a) fs && negb (a_pre_ok a 0 && iv 0) &&
  (0 <? base) && (base + a_pw a * total_words fs 0 <? 2 ^ a_bits a).
Definition scan_layout (a : arch) (base ip0 : Z) (fs : list frame_spec) : regs * validity * memory :=
  (ctx_regs ip0 base 0, plain_valid a, mk_mem a base (scan_words fs)).

(* ---- cfi with the correct oracle: the caller of the frame whose sp is [sp] *)
Definition cfi_frame (a : arch) (v : list Z) (sp ra : Z) (r : regs) : frame :=
  {| f_instr := ra - a_adj a; f_resume := ra; f_trust := TCfi;
     f_regs := {| r_ip := ra; r_sp := sp; r_fp := r_fp r; r_lr := r_lr r; r_gp := r_gp r |}; f_valid := VSome v |}.
Fixpoint cfi_lookup (pw base off : Z) (fs : list frame_spec) (sp : Z) : option (Z * Z) :=
  match fs with
  | [] => None
  | f :: t => if sp =? base + pw * off then Some (base + pw * (off + fs_gap f + 1), fs_ra f)
              else cfi_lookup pw base (off + fs_gap f + 1) t sp
  end.
(* the abstract correct oracle: restores sp and ip of the caller, keeps everything else; validity = forwarded + sp + ip *)
Definition cfi_correct (a : arch) (base : Z) (fs : list frame_spec) (callee : frame) (_ : option frame) (fwd : list Z)
  : option (regs * list Z) :=
  match cfi_lookup (a_pw a) base 0 fs (r_sp (f_regs callee)) with
  | Some (sp', ra) =>
      let r := f_regs callee in
      Some ({| r_ip := ra; r_sp := sp'; r_fp := r_fp r; r_lr := r_lr r; r_gp := r_gp r |},
            fwd ++ [a_cfi_sp_name a; a_cfi_ip_name a])
  | None => None
  end.
Fixpoint cfi_chain (a : arch) (v : list Z) (r : regs) (base off : Z) (fs : list frame_spec) : list frame :=
  match fs with
  | [] => []
  | f :: t => cfi_frame a v (base + a_pw a * (off + fs_gap f + 1)) (fs_ra f) r :: cfi_chain a v r base (off + fs_gap f + 1) t
  end.
Fixpoint cfi_gaps_ok (a : arch) (fs : list frame_spec) : bool :=
  match fs with
  | [] => true
  | f :: t => (0 <=? fs_gap f) && (a_cutoff a <=? fs_ra f) && (fs_ra f <? 2 ^ a_bits a) && cfi_gaps_ok a t
  end.
Definition cfi_wf_layout (a : arch) (base : Z) (fs : list frame_spec) : bool :=
  cfi_gaps_ok a fs && (0 <? base) && (base + a_pw a * total_words fs 0 <? 2 ^ a_bits a).

(* ---- frame-pointer chains: [saved frame pointer][return address][gap words of 0 = the caller's locals] per call,
   one trailing readable word; a saved frame pointer is the address of the next record (the last one: of the
   trailing word).  The context frame has fp = sp = base. *)
Fixpoint fp_body (a : arch) (base off : Z) (fs : list frame_spec) : list Z :=
  match fs with
  | [] => []
  | f :: t => (base + a_pw a * (off + 2 + fs_gap f)) :: fs_ra f :: zeros (fs_gap f) ++ fp_body a base (off + 2 + fs_gap f) t
  end.
Definition fp_words (a : arch) (base : Z) (fs : list frame_spec) : list Z := fp_body a base 0 fs ++ [0].
(* the validity set a frame-pointer frame carries (x86/amd64: ip, sp, fp; arm/arm64: pc, fp, sp) *)
Definition fp_valid (a : arch) : list Z :=
  match a_fp a with
  | FpArm | FpArm64 => [a_ip_name a; a_fp_name a; a_sp_name a]
  | _ => [a_ip_name a; a_sp_name a; a_fp_name a]
  end.
Definition fp_frame (a : arch) (sp ra fp : Z) : frame :=
  {| f_instr := ra - a_adj a; f_resume := ra; f_trust := TFramePointer;
     f_regs := ctx_regs ra sp fp; f_valid := VSome (fp_valid a) |}.
Fixpoint fp_chain (a : arch) (base off : Z) (fs : list frame_spec) : list frame :=
  match fs with
  | [] => []
  | f :: t => fp_frame a (base + a_pw a * (off + 2)) (fs_ra f) (base + a_pw a * (off + 2 + fs_gap f))
              :: fp_chain a base (off + 2 + fs_gap f) t
  end.
Fixpoint fp_gaps_ok (a : arch) (fs : list frame_spec) : bool :=
  match fs with
  | [] => true
  | f :: t => (0 <=? fs_gap f) && (a_cutoff a <=? fs_ra f) && (fs_ra f <? 2 ^ a_bits a) && a_canon_fp a (fs_ra f) &&
              (negb (a_strip a) || (fs_ra f <? 2 ^ 47)) && fp_gaps_ok a t
  end.
Definition fp_wf_layout (a : arch) (iv : Z -> bool) (base : Z) (fs : list frame_spec) : bool :=
  fp_gaps_ok a fs && negb (a_pre_ok a 0 && iv 0) && (0 <? base) &&
  (base + a_pw a * (total_words fs 1 + 8) <? 2 ^ a_bits a) &&
  (negb (a_strip a) || (base + a_pw a * (total_words fs 1 + 8) <? 2 ^ 47)).
Definition fp_layout (a : arch) (base ip0 : Z) (fs : list frame_spec) : regs * validity * memory :=
  (ctx_regs ip0 base base, VAll, mk_mem a base (fp_words a base fs)).

(* ---- technique per frame (round 5): CFI-described and scan-findable frames mixed in one stack.
   Per call: [fill words][return address].  A CFI frame's fill words are arbitrary (the technique never looks at
   them); a scan frame's fill is [skipped words: arbitrary][scanned words: 0], the skipped part being the MIN_ARGS
   words of mips32 for every callee but the context frame.  [ms_tech f] is the technique that recovers the caller
   of the frame whose lowest word is the first fill word of [f].
   Second pass of round 5: frame-pointer frames in the mix.  A [TkFp] record is [fill words][return address] too, its LAST
   fill word being the saved frame pointer (x86 convention [saved fp][return address]); the callee's frame pointer must
   hold the address of that word.  The frame pointer's state travels along the stack as [option Z]: [None] = not valid
   (value 0, after a scan), [Some v] = valid with value v (context frame, after a frame-pointer frame = the saved word;
   carried through CFI frames as a callee-saved register). *)
Inductive tech := TkCfi | TkScan | TkFp.
Record mspec := { ms_tech : tech; ms_fill : list Z; ms_ra : Z }.
Definition ms_len (f : mspec) : Z := Z.of_nat (length (ms_fill f)).

Fixpoint mix_words (fs : list mspec) : list Z :=
  match fs with [] => [] | f :: t => ms_fill f ++ ms_ra f :: mix_words t end.
Fixpoint mix_total (fs : list mspec) : Z :=
  match fs with [] => 0 | f :: t => ms_len f + 1 + mix_total t end.

(* validity and registers of the caller, from those of the callee *)
Definition mix_next_valid (a : arch) (t : tech) (v : validity) : validity :=
  match t with
  | TkCfi => VSome (forwarded a v ++ [a_cfi_sp_name a; a_cfi_ip_name a])
  | TkScan => plain_valid a
  | TkFp => VSome (fp_valid a)
  end.
Definition mix_next_gp (t : tech) (gp : list Z) : list Z := match t with TkCfi => gp | _ => [] end.
Definition mix_trust (t : tech) : trust := match t with TkCfi => TCfi | TkScan => TScan | TkFp => TFramePointer end.
(* the frame pointer: value (0 when not valid) and the caller's state from the callee's *)
Definition st_val (st : option Z) : Z := match st with Some v => v | None => 0 end.
Definition mix_next_st (t : tech) (fill : list Z) (st : option Z) : option Z :=
  match t with TkCfi => st | TkScan => None | TkFp => Some (last fill 0) end.
Definition mix_frame (a : arch) (t : tech) (v : validity) (gp : list Z) (st' : option Z) (sp ra : Z) : frame :=
  {| f_instr := ra - a_adj a; f_resume := ra; f_trust := mix_trust t;
     f_regs := {| r_ip := ra; r_sp := sp; r_fp := st_val st'; r_lr := 0; r_gp := mix_next_gp t gp |};
     f_valid := mix_next_valid a t v |}.
Fixpoint mix_chain (a : arch) (v : validity) (gp : list Z) (st : option Z) (base off : Z) (fs : list mspec) : list frame :=
  match fs with
  | [] => []
  | f :: t => mix_frame a (ms_tech f) v gp (mix_next_st (ms_tech f) (ms_fill f) st) (base + a_pw a * (off + ms_len f + 1)) (ms_ra f)
              :: mix_chain a (mix_next_valid a (ms_tech f) v) (mix_next_gp (ms_tech f) gp)
                           (mix_next_st (ms_tech f) (ms_fill f) st) base (off + ms_len f + 1) t
  end.

(* the abstract correct symbol-file oracle of a mixed stack: answers (caller sp, return address, everything else
   forwarded) for the frames described by CFI, None for the others *)
Fixpoint mix_lookup (pw base off : Z) (fs : list mspec) (sp : Z) : option (tech * Z * Z) :=
  match fs with
  | [] => None
  | f :: t => if sp =? base + pw * off then Some (ms_tech f, base + pw * (off + ms_len f + 1), ms_ra f)
              else mix_lookup pw base (off + ms_len f + 1) t sp
  end.
Definition mix_cfi_correct (a : arch) (base : Z) (fs : list mspec) (callee : frame) (_ : option frame) (fwd : list Z)
  : option (regs * list Z) :=
  match mix_lookup (a_pw a) base 0 fs (r_sp (f_regs callee)) with
  | Some (TkCfi, sp', ra) =>
      let r := f_regs callee in
      Some ({| r_ip := ra; r_sp := sp'; r_fp := r_fp r; r_lr := r_lr r; r_gp := r_gp r |},
            fwd ++ [a_cfi_sp_name a; a_cfi_ip_name a])
  | _ => None
  end.

(* the boolean precondition.  [ctx]: the callee is the context frame; [instr]: the callee's lookup address; [off]: words
   below the record; [st]: the callee's frame-pointer state.
   A frame-pointer frame: the architecture follows frame pointers whatever the OS (x86, amd64, arm64); the callee's frame
   pointer is valid and holds the address of the record's last fill word; the return address is canonical (and, like the
   saved frame pointer, below 2^47 where pointer-authentication bits are stripped); the caller's sp stays below the
   `MAX - 2 words` guard; on amd64 the caller's sp and the saved frame pointer must be readable stack addresses and the
   saved frame pointer must not lie below the caller's sp (get_caller_by_frame_pointer's own sanity checks).
   A scan frame: the callee's frame pointer is not valid, or 0 (the frame-pointer technique gives up on it).
   A CFI frame carries a valid frame pointer to the caller on every architecture (callee-saved; since the repair of
   F-C04a arm / arm64 forward "fp" whichever alias marks it valid: [fp_carried] in C04/ProofsMix.v). *)
Definition fp_mixable (a : arch) : bool := match a_fp a with FpX86 | FpAmd64 | FpArm64 => true | _ => false end.
Definition st_zero (st : option Z) : bool := match st with None => true | Some v => v =? 0 end.
Definition words_in_range (a : arch) (ws : list Z) : bool := forallb (fun w => (0 <=? w) && (w <? 2 ^ a_bits a)) ws.
Definition all_zero (ws : list Z) : bool := forallb (Z.eqb 0) ws.
Definition is_some {A} (o : option A) : bool := match o with Some _ => true | None => false end.
Definition opt_eqb (o : option Z) (v : Z) : bool := match o with Some x => x =? v | None => false end.
Fixpoint mix_frames_ok (a : arch) (iv : Z -> bool) (module_at : Z -> option Z) (base : Z) (ctx : bool) (instr off : Z)
  (st : option Z) (fs : list mspec) : bool :=
  match fs with
  | [] => true
  | f :: t =>
      words_in_range a (ms_fill f) && (a_cutoff a <=? ms_ra f) && (ms_ra f <? 2 ^ a_bits a) &&
      (match ms_tech f with
       | TkCfi => is_some (module_at instr) && (negb (a_strip a) || (ms_ra f <? 2 ^ 47))
       | TkScan =>
           let lo := if ctx then 0 else scan_skip_words a in
           let win := if ctx then a_scan_context a else a_scan_default a in
           (lo <=? ms_len f) && (ms_len f - lo <? win) && all_zero (skipn (Z.to_nat lo) (ms_fill f)) &&
           a_pre_ok a (ms_ra f) && iv (ms_ra f) && st_zero st
       | TkFp =>
           let nf := last (ms_fill f) 0 in
           let csp := base + a_pw a * (off + ms_len f + 1) in
           fp_mixable a && (1 <=? ms_len f) && opt_eqb st (base + a_pw a * (off + ms_len f - 1)) &&
           a_canon_fp a (ms_ra f) && (negb (a_strip a) || ((ms_ra f <? 2 ^ 47) && (nf <? 2 ^ 47))) &&
           (csp + 1 <? 2 ^ a_bits a) &&
           (match a_fp a with
            | FpAmd64 => (1 <=? mix_total t) && (csp <=? nf) && (nf + a_pw a <=? csp + a_pw a * mix_total t)
            | _ => true
            end)
       end) &&
      mix_frames_ok a iv module_at base false (ms_ra f - a_adj a) (off + ms_len f + 1) (mix_next_st (ms_tech f) (ms_fill f) st) t
  end.
Definition mix_wf_layout (a : arch) (iv : Z -> bool) (module_at : Z -> option Z) (base ip0 fp0 : Z) (fs : list mspec) : bool :=
  mix_frames_ok a iv module_at base true ip0 0 (Some fp0) fs && negb (a_pre_ok a 0 && iv 0) &&
  (a_pw a <? base) && (base + a_pw a * mix_total fs <? 2 ^ a_bits a) &&
  (0 <=? fp0) && (negb (a_strip a) || (fp0 <? 2 ^ 47)).
Definition mix_layout (a : arch) (base ip0 fp0 : Z) (gp0 : list Z) (fs : list mspec) : regs * validity * memory :=
  ({| r_ip := ip0; r_sp := base; r_fp := fp0; r_lr := 0; r_gp := gp0 |}, VAll, mk_mem a base (mix_words fs)).

(* ---- STACK CFI rules instead of the abstract oracle: the evaluator of the rule family the correspondence run uses,
     STACK CFI INIT <lo> <size> .cfa: <sp> N + .ra: .cfa <pointer width> - ^
   against CfiStackWalker (walker.rs eval_cfi_expr: u64 wrapping arithmetic, `^` = a read of one register-sized word,
   set_cfa / set_ra = Register::try_from), as [cfi_family] of C05/Driver.v does for a module table.  Here the symbol
   files are abstracted to [rule_at]: lookup address -> N of the STACK CFI record covering it (None: not covered).
   Validity: forwarded ++ [sp; pc] (the real set; [cfi_family] builds the same set without repeating a name). *)
Definition fits_w (a : arch) (x : Z) : bool := x <? 2 ^ a_bits a.
Definition cfi_rules (a : arch) (mem : memory) (rule_at : Z -> option Z) (callee : frame) (_ : option frame) (fwd : list Z)
  : option (regs * list Z) :=
  match rule_at (f_instr callee) with
  | None => None
  | Some n =>
      if negb (reg_valid a (a_cfi_sp_name a) (f_valid callee)) then None else
      let sp := view a (r_sp (f_regs callee)) in
      let cfa := wrap64 (sp + n) in
      match read mem (a_pw a) (wrap64 (cfa - a_pw a)) with
      | None => None
      | Some ra =>
          if negb (fits_w a cfa) then None else if negb (fits_w a ra) then None else
          let r := f_regs callee in
          Some ({| r_ip := ra; r_sp := cfa; r_fp := r_fp r; r_lr := r_lr r; r_gp := r_gp r |},
                fwd ++ [a_cfi_sp_name a; a_cfi_ip_name a])
      end
  end.
(* the lookup address of the callee of the frame after [done]: the context's ip, then return address - adj *)
Fixpoint prev_instr (a : arch) (instr : Z) (done : list mspec) : Z :=
  match done with [] => instr | x :: d => prev_instr a (ms_ra x - a_adj a) d end.
(* the rule table describes the layout: a CFI frame's callee is covered by a record whose N is the frame size, a scan
   or frame-pointer frame's callee by none *)
Fixpoint rules_ok (a : arch) (rule_at : Z -> option Z) (instr : Z) (fs : list mspec) : bool :=
  match fs with
  | [] => true
  | f :: t => (match ms_tech f with
               | TkCfi => opt_eqb (rule_at instr) (a_pw a * (ms_len f + 1))
               | _ => negb (is_some (rule_at instr))
               end) && rules_ok a rule_at (ms_ra f - a_adj a) t
  end.
