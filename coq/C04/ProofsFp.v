(* C04/ProofsFp.v — the walker recovers frame-pointer chains of unbounded depth (x86, amd64, arm on iOS, arm64). *)
From Coq Require Import Lia ZArith List Bool.
From RM Require Import C05.Model C05.Proofs C04.Model C04.Proofs.
Import ListNotations.
Open Scope Z_scope.

Lemma read_bounds_some : forall m n addr, m_base m <= addr -> addr - m_base m + n <= mem_len m ->
  exists v, read m n addr = Some v.
Proof.
  intros m n addr H1 H2. unfold read, checked_sub.
  destruct (0 <=? addr - m_base m) eqn:E; [|apply Z.leb_gt in E; lia].
  destruct (addr - m_base m + n <=? mem_len m) eqn:E2; [|apply Z.leb_gt in E2; lia].
  eexists; reflexivity.
Qed.

Lemma strip_id : forall a mma x, 0 <= x -> (a_strip a = true -> x < 2 ^ 47) -> strip a mma x = x.
Proof.
  intros a mma x H0 H. destruct (a_strip a) eqn:E.
  - apply strip_small. split; [exact H0|apply H; reflexivity].
  - unfold strip. rewrite E. reflexivity.
Qed.

Lemma fp_body_app : forall a base l1 l2 o,
  fp_body a base o (l1 ++ l2) = fp_body a base o l1 ++ fp_body a base (o + total_words l1 1) l2.
Proof.
  intros a base. induction l1 as [|f t IH]; intros l2 o; cbn [app fp_body total_words].
  - rewrite Z.add_0_r. reflexivity.
  - rewrite IH. f_equal. f_equal. rewrite <- app_assoc. f_equal. f_equal. f_equal. lia.
Qed.

Section FpChain.
Variable p : profile.
Variable a : arch.
Variable os : Z.
Variable module_at : Z -> option Z.
Variable max_module_addr : Z.
Variable cfi_walk : frame -> option frame -> list Z -> option (regs * list Z).
Variable instr_valid : Z -> bool.
Variable base : Z.
Variable all : list frame_spec.
Variable ip0 : Z.

Hypothesis Ha : arch_ok a.
Hypothesis Hnocfi : forall c g f, cfi_walk c g f = None.
Hypothesis Hwf : fp_wf_layout a instr_valid base all = true.
Hypothesis Hn_sp : reg_valid a (a_sp_name a) (VSome (fp_valid a)) = true.
Hypothesis Hn_fp : reg_valid a (a_fp_name a) (VSome (fp_valid a)) = true.
Hypothesis Hfpk : a_fp a <> FpNone.
Hypothesis Hios : a_fp a = FpArm -> os = OS_IOS.
Hypothesis Htrunc : a_trunc a = false.
Hypothesis Hskip : a_scan_skip a = 0.
Hypothesis Hg2 : a_fp_guard_words a = 2.

Notation mem := (mk_mem a base (fp_words a base all)).
Notation walkf := (walk current_code p a os mem module_at max_module_addr cfi_walk instr_valid).

Lemma f_pw_cases : (a_bits a = 32 /\ a_pw a = 4) \/ (a_bits a = 64 /\ a_pw a = 8).
Proof. destruct Ha as [H _]. exact H. Qed.

Lemma fp_gaps_cons : forall f t, fp_gaps_ok a (f :: t) = true ->
  0 <= fs_gap f /\ a_cutoff a <= fs_ra f < 2 ^ a_bits a /\ a_canon_fp a (fs_ra f) = true /\
  (a_strip a = true -> fs_ra f < 2 ^ 47) /\ fp_gaps_ok a t = true.
Proof.
  intros f t H. cbn [fp_gaps_ok] in H.
  apply andb_prop in H. destruct H as [H H6]. apply andb_prop in H. destruct H as [H H5].
  apply andb_prop in H. destruct H as [H H4]. apply andb_prop in H. destruct H as [H H3].
  apply andb_prop in H. destruct H as [H1 H2].
  apply Z.leb_le in H1. apply Z.leb_le in H2. apply Z.ltb_lt in H3.
  repeat split; auto. intros E. rewrite E in H5. cbn in H5. apply Z.ltb_lt in H5. exact H5.
Qed.

Lemma fp_gaps_app : forall l1 l2, fp_gaps_ok a (l1 ++ l2) = true -> fp_gaps_ok a l1 = true /\ fp_gaps_ok a l2 = true.
Proof.
  induction l1 as [|f t IH]; intros l2 H; [split; [reflexivity|exact H]|].
  cbn [app] in H. pose proof (fp_gaps_cons _ _ H) as [_ [_ [_ [_ Ht]]]].
  destruct (IH l2 Ht) as [I1 I2]. split; [|exact I2].
  cbn [app fp_gaps_ok] in *. apply andb_prop in H. destruct H as [H _]. rewrite H, I1. reflexivity.
Qed.

Lemma fp_total_nonneg : forall l, fp_gaps_ok a l = true -> 0 <= total_words l 1.
Proof.
  induction l as [|f t IH]; intros H; [cbn; lia|].
  apply fp_gaps_cons in H. destruct H as [H1 [_ [_ [_ H5]]]]. specialize (IH H5). cbn [total_words]. lia.
Qed.

Lemma fp_body_length : forall l o, fp_gaps_ok a l = true -> Z.of_nat (length (fp_body a base o l)) = total_words l 1.
Proof.
  induction l as [|f t IH]; intros o H; [reflexivity|].
  apply fp_gaps_cons in H. destruct H as [H1 [_ [_ [_ H5]]]]. specialize (IH (o + 2 + fs_gap f) H5).
  cbn [fp_body total_words length]. rewrite app_length. unfold zeros. rewrite repeat_length. lia.
Qed.

Lemma fwf_parts : fp_gaps_ok a all = true /\ instr_ok a instr_valid 0 = false /\ 0 < base /\
  base + a_pw a * (total_words all 1 + 8) < 2 ^ a_bits a /\
  (a_strip a = true -> base + a_pw a * (total_words all 1 + 8) < 2 ^ 47).
Proof.
  assert (H := Hwf). unfold fp_wf_layout in H.
  apply andb_prop in H. destruct H as [H H5]. apply andb_prop in H. destruct H as [H H4].
  apply andb_prop in H. destruct H as [H H3]. apply andb_prop in H. destruct H as [H1 H2].
  apply Z.ltb_lt in H3. apply Z.ltb_lt in H4. unfold instr_ok.
  destruct (a_pre_ok a 0 && instr_valid 0); [discriminate|].
  repeat split; auto. intros E. rewrite E in H5. cbn in H5. apply Z.ltb_lt in H5. exact H5.
Qed.

Lemma f_mem_len : mem_len mem = a_pw a * (total_words all 1 + 1).
Proof.
  destruct fwf_parts as [Hg _]. rewrite (mem_len_words a f_pw_cases). unfold fp_words.
  rewrite app_length. cbn [length]. rewrite Nat2Z.inj_add, (fp_body_length _ 0 Hg). reflexivity.
Qed.

Lemma f_by_cfi_none : forall callee gc, by_cfi a module_at max_module_addr cfi_walk callee gc = None.
Proof.
  intros. unfold by_cfi. destruct (negb (reg_valid a (a_sp_name a) (f_valid callee))); [reflexivity|].
  destruct (module_at (f_instr callee)); [|reflexivity]. rewrite Hnocfi. reflexivity.
Qed.

Definition good_valid (v : validity) : Prop := v = VAll \/ v = VSome (fp_valid a).
Lemma good_valid_sp : forall v, good_valid v -> reg_valid a (a_sp_name a) v = true.
Proof. intros v [->| ->]; [reflexivity|exact Hn_sp]. Qed.
Lemma good_valid_fp : forall v, good_valid v -> reg_valid a (a_fp_name a) v = true.
Proof. intros v [->| ->]; [reflexivity|exact Hn_fp]. Qed.

(* ---- one frame-pointer step: the record [nf; ra] at the callee's frame pointer F *)
Section Step.
Variable callee : frame.
Variables F S nf ra : Z.
Hypothesis HF : r_fp (f_regs callee) = F.
Hypothesis HS : r_sp (f_regs callee) = S.
Hypothesis Hv : good_valid (f_valid callee).
Hypothesis HFpos : 0 < F.
Hypothesis HSF : S <= F.
Hypothesis Htop : F + a_pw a * 8 < 2 ^ a_bits a.
Hypothesis Htop47 : a_strip a = true -> F + a_pw a * 8 < 2 ^ 47.
Hypothesis R1 : read mem (a_pw a) F = Some nf.
Hypothesis R2 : read mem (a_pw a) (F + a_pw a) = Some ra.
Hypothesis R3 : exists v, read mem (a_pw a) (F + a_pw a * 2) = Some v.
Hypothesis R4 : exists v, read mem (a_pw a) nf = Some v.
Hypothesis Hnf : F + a_pw a * 2 <= nf.
Hypothesis Hnf47 : a_strip a = true -> nf < 2 ^ 47.
Hypothesis Hra : 0 <= ra.
Hypothesis Hra47 : a_strip a = true -> ra < 2 ^ 47.
Hypothesis Hcanon : a_canon_fp a ra = true.

Lemma fp_step : by_fp current_code p a os mem max_module_addr callee
  = Ret (Some (ctx_regs ra (F + a_pw a * 2) nf, fp_valid a)).
Proof.
  pose proof (pw_pos a f_pw_cases) as Hp.
  assert (HW : 2 ^ a_bits a <= 2 ^ 64).
  { destruct f_pw_cases as [[-> _]|[-> _]]; [change (2 ^ 32) with 4294967296; change (2 ^ 64) with 18446744073709551616|]; lia. }
  assert (G : (F >=? fp_limit a) = false).
  { rewrite Z.geb_leb. apply Z.leb_gt. unfold fp_limit, MAXW, W, PW. rewrite Hg2. lia. }
  pose proof (good_valid_fp _ Hv) as Vf. pose proof (good_valid_sp _ Hv) as Vs.
  unfold by_fp. destruct (a_fp a) eqn:Ek.
  - (* x86 *)
    unfold fp_x86. rewrite Vf, HF, G. cbn [negb]. unfold PW, W.
    rewrite chk_add_ok by lia. cbn [obind]. rewrite R2, R1.
    rewrite chk_add_ok by lia. cbn [obind]. unfold fp_valid. rewrite Ek. reflexivity.
  - (* amd64 *)
    unfold fp_amd64. rewrite Vf, Vs, HF, HS, G. cbn [negb].
    assert (RS : forall n step, resolve current_code p a mem (Datatypes.S n) 0 step F S = Ret (Some (ra, nf, F + a_pw a * 2))).
    { intros n step. cbn [resolve]. unfold radd. cbn [fx_checked_resolve current_code]. unfold W, PW.
      replace (0 * step) with 0 by lia.
      rewrite chk_mul_ok by (replace (0 * step) with 0 by lia; lia). cbn [obind].
      unfold checked_add.
      rewrite Z.add_0_r.
      destruct (F <? 2 ^ a_bits a) eqn:E1; [|apply Z.ltb_ge in E1; lia]. cbn [obind].
      destruct (F + a_pw a <? 2 ^ a_bits a) eqn:E2; [|apply Z.ltb_ge in E2; lia]. cbn [obind]. rewrite R2, R1.
      destruct (F + a_pw a * 2 <? 2 ^ a_bits a) eqn:E3; [|apply Z.ltb_ge in E3; lia]. cbn [obind].
      destruct (F + a_pw a * 2 <=? F) eqn:E4; [apply Z.leb_le in E4; lia|].
      destruct (nf <? F + a_pw a * 2) eqn:E5; [apply Z.ltb_lt in E5; lia|]. cbn [orb].
      destruct R4 as [v4 R4']. rewrite R4'. rewrite Hcanon. cbn [negb].
      unfold stack_seems_valid, PW.
      destruct (F + a_pw a * 2 <=? S) eqn:E6; [apply Z.leb_le in E6; lia|].
      destruct R3 as [v3 R3']. rewrite R3'. reflexivity. }
    destruct (os =? OS_WINDOWS).
    + replace (Z.to_nat (amd64_win_scan_max + 1)) with (Datatypes.S 15) by reflexivity. rewrite RS. cbn [obind].
      unfold fp_valid. rewrite Ek. reflexivity.
    + replace (Z.to_nat (amd64_other_scan_max + 1)) with (Datatypes.S 0) by reflexivity. rewrite RS. cbn [obind].
      unfold fp_valid. rewrite Ek. reflexivity.
  - (* arm on iOS *)
    unfold fp_arm. rewrite Ek, (Hios eq_refl). cbn [negb Z.eqb OS_IOS]. rewrite Vf, Vs, HF, HS, G. cbn [negb].
    destruct (F =? 0) eqn:E0; [apply Z.eqb_eq in E0; lia|]. unfold PW, W. rewrite R1.
    rewrite chk_add_ok by lia. cbn [obind]. rewrite R2. rewrite chk_add_ok by lia. cbn [obind].
    rewrite (strip_id a max_module_addr nf) by (auto; lia). rewrite (strip_id a max_module_addr ra) by auto.
    rewrite Hcanon. cbn [negb]. unfold fp_valid. rewrite Ek. reflexivity.
  - (* arm64 *)
    unfold fp_arm. rewrite Ek. rewrite Vf, Vs, HF, HS, G. cbn [negb].
    destruct (F =? 0) eqn:E0; [apply Z.eqb_eq in E0; lia|]. unfold PW, W. rewrite R1.
    rewrite chk_add_ok by lia. cbn [obind]. rewrite R2. rewrite chk_add_ok by lia. cbn [obind].
    rewrite (strip_id a max_module_addr nf) by (auto; lia). rewrite (strip_id a max_module_addr ra) by auto.
    rewrite Hcanon. cbn [negb]. unfold fp_valid. rewrite Ek. reflexivity.
  - contradiction.
Qed.
End Step.

(* ---- reading a region of zero words at the end of the stack *)
Lemma repeat_snoc : forall (n : nat), repeat 0 n ++ [0] = repeat 0 (Datatypes.S n).
Proof. induction n; cbn [repeat app]; [reflexivity|]. rewrite IHn. reflexivity. Qed.

Section ZeroTail.
Variable pre : list Z.
Variable z : nat.
Hypothesis Hws : fp_words a base all = pre ++ repeat 0 z.

Lemma read_zero_region : forall j, (j < z)%nat ->
  read mem (a_pw a) (base + a_pw a * (Z.of_nat (length pre) + Z.of_nat j)) = Some 0.
Proof.
  intros j Hj. rewrite Hws.
  replace z with (j + Datatypes.S (z - j - 1))%nat by lia. rewrite repeat_app. cbn [repeat].
  replace (pre ++ repeat 0 j ++ 0 :: repeat 0 (z - j - 1)) with ((pre ++ repeat 0 j) ++ 0 :: repeat 0 (z - j - 1))
    by (rewrite <- app_assoc; reflexivity).
  replace (Z.of_nat (length pre) + Z.of_nat j) with (Z.of_nat (length (pre ++ repeat 0 j)))
    by (rewrite app_length, repeat_length; lia).
  apply read_at; [exact f_pw_cases|]. destruct f_pw_cases as [[-> _]|[-> _]]; cbn; lia.
Qed.

Lemma read_beyond : forall j, (z <= j)%nat ->
  read mem (a_pw a) (base + a_pw a * (Z.of_nat (length pre) + Z.of_nat j)) = None.
Proof.
  intros j Hj. pose proof (pw_pos a f_pw_cases) as Hp.
  pose proof (read_end a f_pw_cases base (fp_words a base all) (a_pw a * (Z.of_nat j - Z.of_nat z))) as R.
  rewrite Hws in R at 2. rewrite app_length, repeat_length in R.
  replace (base + a_pw a * Z.of_nat (length pre + z) + a_pw a * (Z.of_nat j - Z.of_nat z))
    with (base + a_pw a * (Z.of_nat (length pre) + Z.of_nat j)) in R by lia.
  apply R. nia.
Qed.

Hypothesis Hjunk : instr_ok a instr_valid 0 = false.
Hypothesis Hlow : 0 <= base + a_pw a * Z.of_nat (length pre).

Lemma scan_zeros : forall n j lb, Z.of_nat j + Z.of_nat n <= 200000 ->
  scan_loop p a mem instr_valid n (Z.of_nat j) (base + a_pw a * Z.of_nat (length pre)) lb = Ret None.
Proof.
  pose proof (pw_pos a f_pw_cases) as Hp.
  induction n as [|n IH]; intros j lb Hb; [reflexivity|]. cbn [scan_loop]. unfold W, PW.
  assert (Hsmall : 0 <= Z.of_nat j * a_pw a < 2 ^ a_bits a).
  { destruct f_pw_cases as [[-> ->]|[-> ->]]; [change (2 ^ 32) with 4294967296 | change (2 ^ 64) with 18446744073709551616]; lia. }
  rewrite chk_mul_ok by exact Hsmall. cbn [obind].
  destruct (checked_add (a_bits a) (base + a_pw a * Z.of_nat (length pre)) (Z.of_nat j * a_pw a)) as [addr|] eqn:E; [|reflexivity].
  apply checked_add_some in E. destruct E as [-> _].
  replace (base + a_pw a * Z.of_nat (length pre) + Z.of_nat j * a_pw a)
    with (base + a_pw a * (Z.of_nat (length pre) + Z.of_nat j)) by lia.
  destruct (Nat.ltb j z) eqn:Ej.
  - apply Nat.ltb_lt in Ej. rewrite (read_zero_region j Ej), Hjunk.
    replace (Z.of_nat j + 1) with (Z.of_nat (Datatypes.S j)) by lia. apply IH. lia.
  - apply Nat.ltb_ge in Ej. rewrite (read_beyond j Ej). reflexivity.
Qed.
End ZeroTail.

(* ---- the end of the chain: every technique gives up *)
Lemma scan_end : forall callee pre z,
  fp_words a base all = pre ++ repeat 0 z ->
  r_sp (f_regs callee) = base + a_pw a * Z.of_nat (length pre) -> 0 < base ->
  good_valid (f_valid callee) ->
  by_scan p a mem instr_valid callee = Ret None.
Proof.
  intros callee pre z Hws Hsp Hb Hv. destruct fwf_parts as [_ [Hjunk _]].
  pose proof (pw_pos a f_pw_cases) as Hp.
  destruct Ha as [_ [_ [_ [_ [_ [_ [Hc [Hd _]]]]]]]].
  unfold by_scan. rewrite (good_valid_sp _ Hv). cbn [negb]. unfold view. rewrite Htrunc, Hsp.
  destruct (is_context (f_trust callee)).
  - change 0 with (Z.of_nat 0) at 1. apply (scan_zeros pre z Hws Hjunk). rewrite Z2Nat.id by lia. cbn. lia.
  - rewrite Hskip. cbn [Z.eqb]. change 0 with (Z.of_nat 0) at 1. apply (scan_zeros pre z Hws Hjunk). rewrite Z2Nat.id by lia. cbn. lia.
Qed.

Lemma fp_end : forall callee body,
  fp_words a base all = body ++ [0] ->
  r_fp (f_regs callee) = base + a_pw a * Z.of_nat (length body) ->
  0 < base -> base + a_pw a * (Z.of_nat (length body) + 8) < 2 ^ a_bits a ->
  good_valid (f_valid callee) ->
  by_fp current_code p a os mem max_module_addr callee = Ret None.
Proof.
  intros callee body Hws HF Hb Htop Hv. pose proof (pw_pos a f_pw_cases) as Hp.
  set (F := base + a_pw a * Z.of_nat (length body)) in *.
  assert (HW : 2 ^ a_bits a <= 2 ^ 64).
  { destruct f_pw_cases as [[-> _]|[-> _]]; [change (2 ^ 32) with 4294967296; change (2 ^ 64) with 18446744073709551616|]; lia. }
  assert (G : (F >=? fp_limit a) = false).
  { rewrite Z.geb_leb. apply Z.leb_gt. unfold fp_limit, MAXW, W, PW. rewrite Hg2. unfold F. lia. }
  assert (RN : read mem (a_pw a) (F + a_pw a) = None).
  { pose proof (read_end a f_pw_cases base (fp_words a base all) 0 ltac:(lia)) as R.
    rewrite Hws in R at 2. rewrite app_length in R. cbn [length] in R.
    replace (base + a_pw a * Z.of_nat (length body + 1) + 0) with (F + a_pw a) in R by (unfold F; lia). exact R. }
  assert (R0 : read mem (a_pw a) F = Some 0).
  { rewrite Hws. unfold F. apply read_at; [exact f_pw_cases|]. destruct f_pw_cases as [[-> _]|[-> _]]; cbn; lia. }
  pose proof (good_valid_fp _ Hv) as Vf. pose proof (good_valid_sp _ Hv) as Vs.
  unfold by_fp. destruct (a_fp a) eqn:Ek.
  - unfold fp_x86. rewrite Vf, HF, G. cbn [negb]. unfold PW, W.
    rewrite chk_add_ok by (unfold F; lia). cbn [obind]. rewrite RN. reflexivity.
  - unfold fp_amd64. rewrite Vf, Vs, HF, G. cbn [negb].
    assert (RS : forall n step, resolve current_code p a mem (Datatypes.S n) 0 step F (r_sp (f_regs callee)) = Ret None).
    { intros n step. cbn [resolve]. unfold radd. cbn [fx_checked_resolve current_code]. unfold W, PW.
      replace (0 * step) with 0 by lia.
      rewrite chk_mul_ok by (replace (0 * step) with 0 by lia; lia). cbn [obind].
      unfold checked_add. rewrite Z.add_0_r.
      destruct (F <? 2 ^ a_bits a) eqn:E1; [|reflexivity]. cbn [obind].
      destruct (F + a_pw a <? 2 ^ a_bits a) eqn:E2; [|reflexivity]. cbn [obind]. rewrite RN. reflexivity. }
    destruct (os =? OS_WINDOWS).
    + replace (Z.to_nat (amd64_win_scan_max + 1)) with (Datatypes.S 15) by reflexivity. rewrite RS. reflexivity.
    + replace (Z.to_nat (amd64_other_scan_max + 1)) with (Datatypes.S 0) by reflexivity. rewrite RS. reflexivity.
  - unfold fp_arm. rewrite Ek, (Hios eq_refl). cbn [negb Z.eqb OS_IOS]. rewrite Vf, Vs, HF, G. cbn [negb].
    destruct (F =? 0) eqn:E0; [apply Z.eqb_eq in E0; unfold F in E0; lia|]. unfold PW, W. rewrite R0.
    rewrite chk_add_ok by (unfold F; lia). cbn [obind]. rewrite RN. reflexivity.
  - unfold fp_arm. rewrite Ek. rewrite Vf, Vs, HF, G. cbn [negb].
    destruct (F =? 0) eqn:E0; [apply Z.eqb_eq in E0; unfold F in E0; lia|]. unfold PW, W. rewrite R0.
    rewrite chk_add_ok by (unfold F; lia). cbn [obind]. rewrite RN. reflexivity.
  - reflexivity.
Qed.

Lemma fp_chain_walk : forall fs done callee gc fuel soff pre,
  all = done ++ fs ->
  fp_words a base all = pre ++ repeat 0 (Z.to_nat (total_words done 1 - soff)) ++ fp_body a base (total_words done 1) fs ++ [0] ->
  Z.of_nat (length pre) = soff -> 0 <= soff <= total_words done 1 ->
  r_fp (f_regs callee) = base + a_pw a * total_words done 1 ->
  r_sp (f_regs callee) = base + a_pw a * soff ->
  good_valid (f_valid callee) ->
  (length fs < fuel)%nat ->
  walkf fuel callee gc = Ret (fp_chain a base (total_words done 1) fs).
Proof.
  pose proof (pw_pos a f_pw_cases) as Hp.
  destruct fwf_parts as [Hgall [Hjunk [Hb0 [Htop Htop47]]]].
  pose proof f_mem_len as Hml.
  pose proof Ha as Ha'. destruct Ha' as [_ [_ [_ [_ [_ [_ [_ [_ [_ [Hadj Hle]]]]]]]]]].
  induction fs as [|f t IH]; intros done callee gc fuel soff pre Hall Hws Hpre Hso HF HS Hv Hfuel;
    (destruct fuel as [|k]; [cbn in Hfuel; lia|]); cbn [walk];
    set (off := total_words done 1) in *.
  - (* end of the chain *)
    rewrite app_nil_r in Hall. subst done.
    assert (Hoff0 : 0 <= off) by lia.
    assert (Est : stop_here current_code mem callee = false).
    { unfold stop_here. cbn [fx_sp_guard current_code]. destruct (is_context (f_trust callee)); [reflexivity|].
      cbn [negb andb]. unfold sp_in_stack.
      destruct (read_is_some_iff1 mem (r_sp (f_regs callee))) as [_ Hr].
      destruct Hr as [v Hr]; [rewrite Hml, HS; cbn [m_base mk_mem]; fold off; nia|]. rewrite Hr. reflexivity. }
    rewrite Est. cbn [fp_body app] in Hws.
    assert (Hws2 : fp_words a base all = pre ++ repeat 0 (Datatypes.S (Z.to_nat (off - soff)))).
    { rewrite Hws, repeat_snoc. reflexivity. }
    assert (Hws3 : fp_words a base all = (pre ++ repeat 0 (Z.to_nat (off - soff))) ++ [0]).
    { rewrite Hws, <- app_assoc. reflexivity. }
    assert (Hlen3 : Z.of_nat (length (pre ++ repeat 0 (Z.to_nat (off - soff)))) = off).
    { rewrite app_length, repeat_length. lia. }
    unfold get_caller_frame, cascade. rewrite f_by_cfi_none.
    rewrite (fp_end callee _ Hws3); try assumption; [| rewrite Hlen3; exact HF | rewrite Hlen3; exact Htop].
    cbn [obind]. rewrite (scan_end callee pre _ Hws2); try assumption; [| rewrite Hpre; exact HS].
    reflexivity.
  - rewrite Hall in Hgall. destruct (fp_gaps_app _ _ Hgall) as [Hgd Hgf].
    apply fp_gaps_cons in Hgf. destruct Hgf as [Hg0 [[Hr1 Hr2] [Hcan [Hr47 Hgt]]]].
    pose proof (fp_total_nonneg _ Hgd) as Hd0. pose proof (fp_total_nonneg _ Hgt) as Ht0.
    assert (Htot : total_words all 1 = off + (fs_gap f + 1 + 1 + total_words t 1)).
    { rewrite Hall, total_words_app. reflexivity. }
    assert (Est : stop_here current_code mem callee = false).
    { unfold stop_here. cbn [fx_sp_guard current_code]. destruct (is_context (f_trust callee)); [reflexivity|].
      cbn [negb andb]. unfold sp_in_stack.
      destruct (read_is_some_iff1 mem (r_sp (f_regs callee))) as [_ Hr].
      destruct Hr as [v Hr]; [rewrite Hml, HS, Htot; cbn [m_base mk_mem]; nia|]. rewrite Hr. reflexivity. }
    rewrite Est.
    set (F := base + a_pw a * off) in *.
    set (nf := base + a_pw a * (off + 2 + fs_gap f)).
    cbn [fp_body] in Hws. fold nf in Hws.
    set (pre1 := pre ++ repeat 0 (Z.to_nat (off - soff))) in *.
    assert (Hlen1 : Z.of_nat (length pre1) = off).
    { unfold pre1. rewrite app_length, repeat_length. lia. }
    assert (Hws1 : fp_words a base all = pre1 ++ nf :: (fs_ra f :: zeros (fs_gap f) ++ fp_body a base (off + 2 + fs_gap f) t ++ [0])).
    { rewrite Hws. unfold pre1. rewrite <- !app_assoc. cbn [app]. rewrite <- !app_assoc. reflexivity. }
    assert (Hws1' : fp_words a base all = (pre1 ++ [nf]) ++ fs_ra f :: (zeros (fs_gap f) ++ fp_body a base (off + 2 + fs_gap f) t ++ [0])).
    { rewrite Hws1, <- app_assoc. reflexivity. }
    assert (HW : 0 < 2 ^ a_bits a) by (destruct f_pw_cases as [[-> _]|[-> _]]; cbn; lia).
    assert (R1 : read mem (a_pw a) F = Some nf).
    { unfold F. rewrite <- Hlen1. rewrite Hws1. apply read_at; [exact f_pw_cases|]. unfold nf. nia. }
    assert (R2 : read mem (a_pw a) (F + a_pw a) = Some (fs_ra f)).
    { replace (F + a_pw a) with (base + a_pw a * Z.of_nat (length (pre1 ++ [nf])))
        by (rewrite app_length; cbn [length]; unfold F; lia).
      rewrite Hws1'. apply read_at; [exact f_pw_cases|]. lia. }
    assert (R3 : exists v, read mem (a_pw a) (F + a_pw a * 2) = Some v).
    { apply read_bounds_some; [cbn [m_base mk_mem]; unfold F; nia|]. rewrite Hml, Htot. cbn [m_base mk_mem]. unfold F. nia. }
    assert (R4 : exists v, read mem (a_pw a) nf = Some v).
    { apply read_bounds_some; [cbn [m_base mk_mem]; unfold nf; nia|]. rewrite Hml, Htot. cbn [m_base mk_mem]. unfold nf. nia. }
    assert (Efp : by_fp current_code p a os mem max_module_addr callee
                  = Ret (Some (ctx_regs (fs_ra f) (F + a_pw a * 2) nf, fp_valid a))).
    { apply (fp_step callee F (base + a_pw a * soff) nf (fs_ra f)); try assumption; try lia;
        try (unfold F, nf; nia);
        try (unfold F, nf; rewrite Htot in Htop; nia);
        try (intros E; specialize (Htop47 E); unfold F, nf; rewrite Htot in Htop47; nia). }
    unfold get_caller_frame, cascade. rewrite f_by_cfi_none, Efp. unfold ctx_regs.
    cbn [obind from_context f_regs r_ip r_sp].
    destruct (fs_ra f <? a_cutoff a) eqn:E1; [apply Z.ltb_lt in E1; lia|].
    unfold sp_progress. cbn [f_regs r_sp from_context]. rewrite Hle, HS.
    destruct (F + a_pw a * 2 <=? base + a_pw a * soff) eqn:E2; [apply Z.leb_le in E2; unfold F in E2; nia|]. cbn [negb].
    assert (Hr64 : fs_ra f < 2 ^ 64).
    { destruct f_pw_cases as [[Hb _]|[Hb _]]; rewrite Hb in Hr2; [change (2 ^ 32) with 4294967296 in Hr2; change (2 ^ 64) with 18446744073709551616; lia | exact Hr2]. }
    rewrite chk_sub_ok by lia. cbn [obind].
    match goal with |- obind (walk _ _ _ _ _ _ _ _ _ k ?X _) _ = _ =>
      change X with (fp_frame a (F + a_pw a * 2) (fs_ra f) nf) end.
    assert (Hoff' : total_words (done ++ [f]) 1 = off + 2 + fs_gap f).
    { rewrite total_words_app. cbn [total_words]. fold off. lia. }
    specialize (IH (done ++ [f]) (fp_frame a (F + a_pw a * 2) (fs_ra f) nf) (Some callee) k (off + 2)
                   (pre1 ++ [nf; fs_ra f])).
    rewrite Hoff' in IH.
    rewrite IH.
    + cbn [obind fp_chain]. fold off. unfold F, nf.
      replace (base + a_pw a * off + a_pw a * 2) with (base + a_pw a * (off + 2)) by lia. reflexivity.
    + rewrite <- app_assoc. exact Hall.
    + rewrite Hws1. replace (off + 2 + fs_gap f - (off + 2)) with (fs_gap f) by lia.
      unfold zeros. rewrite <- !app_assoc. cbn [app]. reflexivity.
    + rewrite app_length. cbn [length]. lia.
    + lia.
    + cbn. unfold nf. reflexivity.
    + cbn. unfold F. lia.
    + right. reflexivity.
    + cbn [length] in Hfuel. lia.
Qed.

Lemma fp_recovers : forall fuel, (length all < fuel)%nat ->
  walk_stack current_code p a os mem module_at max_module_addr cfi_walk instr_valid fuel (ctx_regs ip0 base base) VAll
  = Ret (from_context (ctx_regs ip0 base base) VAll TContext :: fp_chain a base 0 all).
Proof.
  intros fuel Hfuel. unfold walk_stack.
  destruct fwf_parts as [Hgall [Hjunk [Hb0 [Htop Htop47]]]]. pose proof f_mem_len as Hml.
  pose proof (pw_pos a f_pw_cases) as Hp. pose proof (fp_total_nonneg _ Hgall) as Ht0.
  assert (Hok : mem_ok mem = true).
  { unfold mem_ok. rewrite Hml. cbn [m_base mk_mem].
    destruct (a_pw a * (total_words all 1 + 1) =? 0) eqn:E; [apply Z.eqb_eq in E; nia|]. cbn [negb andb].
    apply Z.ltb_lt. unfold two64.
    destruct f_pw_cases as [[Hb _]|[Hb _]]; rewrite Hb in Htop;
      [change (2 ^ 32) with 4294967296 in Htop | change (2 ^ 64) with 18446744073709551616 in Htop]; lia. }
  rewrite Hok.
  rewrite (fp_chain_walk all [] (from_context (ctx_regs ip0 base base) VAll TContext) None fuel 0 []); try reflexivity; auto.
  - cbn. lia.
  - cbn. rewrite Z.mul_0_r, Z.add_0_r. reflexivity.
  - cbn. rewrite Z.mul_0_r, Z.add_0_r. reflexivity.
  - left. reflexivity.
Qed.
End FpChain.

Definition fp_arch (a : arch) (os : Z) : Prop :=
  arch_ok a /\
  reg_valid a (a_sp_name a) (VSome (fp_valid a)) = true /\ reg_valid a (a_fp_name a) (VSome (fp_valid a)) = true /\
  a_fp a <> FpNone /\ (a_fp a = FpArm -> os = OS_IOS) /\
  a_trunc a = false /\ a_scan_skip a = 0 /\ a_fp_guard_words a = 2.

Lemma fp_arch_x86 : forall os, fp_arch x86 os.
Proof. intros. split; [exact arch_ok_x86|]. repeat split; try reflexivity; discriminate. Qed.
Lemma fp_arch_amd64 : forall os, fp_arch amd64 os.
Proof. intros. split; [exact arch_ok_amd64|]. repeat split; try reflexivity; discriminate. Qed.
Lemma fp_arch_arm64 : forall os, fp_arch arm64 os.
Proof. intros. split; [exact arch_ok_arm64|]. repeat split; try reflexivity; discriminate. Qed.
Lemma fp_arch_arm_ios : fp_arch arm OS_IOS.
Proof. split; [exact arch_ok_arm|]. repeat split; try reflexivity; discriminate. Qed.

Theorem fp_recovers_gen :
  forall p a os module_at max_module_addr cfi_walk instr_valid base fs ip0 fuel,
    fp_arch a os ->
    (forall c g f, cfi_walk c g f = None) ->
    fp_wf_layout a instr_valid base fs = true ->
    (length fs < fuel)%nat ->
    let '(r, v, mem) := fp_layout a base ip0 fs in
    walk_stack current_code p a os mem module_at max_module_addr cfi_walk instr_valid fuel r v
    = Ret (from_context r v TContext :: fp_chain a base 0 fs).
Proof.
  intros p a os ma mm cw iv base fs ip0 fuel [Ha [H1 [H2 [H3 [H4 [H5 [H6 H7]]]]]]] Hn Hwf Hf. cbn.
  exact (fp_recovers p a os ma mm cw iv base fs ip0 Ha Hn Hwf H1 H2 H3 H4 H5 H6 H7 fuel Hf).
Qed.
