(* C04/Driver.v — entry points of the correspondence run: the walker driver of C05 (same oracles
   instantiation) and the Coq stack builders, so that generated cases come from [scan_layout] itself. *)
From RM Require Export C05.Driver.
From RM Require Import C05.Model C04.Model.
Open Scope Z_scope.

Definition specs_of (l : list (Z * Z)) : list frame_spec := map (fun gr => {| fs_gap := fst gr; fs_ra := snd gr |}) l.

(* (context registers, stack words, expected chain as (instr, resume, sp)) *)
Definition layout_scan (archid base ip0 : Z) (l : list (Z * Z)) : regs * list Z * list (Z * Z * Z) :=
  let a := arch_of archid in
  let fs := specs_of l in
  (ctx_regs ip0 base 0, scan_words fs, map (fun f => (f_instr f, f_resume f, r_sp (f_regs f))) (scan_chain a base 0 fs)).

Definition layout_scan_wf (archid base : Z) (iv : Z -> bool) (l : list (Z * Z)) : bool :=
  scan_wf_layout (arch_of archid) iv base (specs_of l).

(* technique per frame (round 5): the mixed CFI / scan builder of theorem c04_recovers_chain.
   A spec is (technique: 0 = CFI, otherwise scan; fill words; return address). *)
Definition mspecs_of (l : list (Z * list Z * Z)) : list mspec :=
  map (fun x => {| ms_tech := if fst (fst x) =? 0 then TkCfi else TkScan; ms_fill := snd (fst x); ms_ra := snd x |}) l.

(* (context registers, stack words, expected chain as (instr, resume, sp, trust code)) *)
Definition layout_mix (archid base ip0 : Z) (gp0 : list Z) (l : list (Z * list Z * Z)) : regs * list Z * list (Z * Z * Z * Z) :=
  let a := arch_of archid in
  let fs := mspecs_of l in
  let '(r, v, _) := mix_layout a base ip0 gp0 fs in
  (r, mix_words fs, map (fun f => (f_instr f, f_resume f, r_sp (f_regs f), trust_code (f_trust f))) (mix_chain a v gp0 base 0 fs)).

(* the boolean precondition of the theorem, with the module lookup and instruction_seems_valid of the case's own modules *)
Definition layout_mix_wf (archid base ip0 : Z) (mods : list modspec) (l : list (Z * list Z * Z)) : bool :=
  mix_wf_layout (arch_of archid) (d_instr_valid mods) (d_module_at mods) base ip0 (mspecs_of l).
