(* C04/Driver.v — entry points of the correspondence run: the walker driver of C05 (same oracles
   instantiation) and the Coq stack builders, so that generated cases come from [scan_layout] itself. *)
From RM Require Export C05.Driver.
From RM Require Import C05.Model C04.Model.
Open Scope Z_scope.

Definition specs_of (l : list (Z * Z)) : list frame_spec := map (fun gr => {| fs_gap := fst gr; fs_ra := snd gr |}) l.

(* (context registers, stack words, expected chain as (instr, resume, sp)) *)
Definition layout_scan (archid base ip0 : Z) (l : list (Z * Z)) : regs * list Z * list (Z * Z * Z) :=
  let a := arch_of archid in
  let fs := specs_of l in
  (ctx_regs ip0 base 0, scan_words fs, map (fun f => (f_instr f, f_resume f, r_sp (f_regs f))) (scan_chain a base 0 fs)).

Definition layout_scan_wf (archid base : Z) (iv : Z -> bool) (l : list (Z * Z)) : bool :=
  scan_wf_layout (arch_of archid) iv base (specs_of l).

(* technique per frame (round 5): the mixed CFI / frame pointer / scan builder of theorem c04_recovers_chain.
   A spec is (technique: 0 = CFI, 2 = frame pointer, otherwise scan; fill words; return address).  The last fill word of
   a frame-pointer record is a placeholder: [mix_fix] writes the saved frame pointer there — the address of the saved
   word of the next frame-pointer record when only CFI records lie between, 0 when a scan record comes first (or, at the
   end of the stack, [term]: amd64 wants a readable stack address, the last word) — and [mix_need] of the whole stack
   is the context's frame pointer. *)
Definition mspecs_of (l : list (Z * list Z * Z)) : list mspec :=
  map (fun x => {| ms_tech := if fst (fst x) =? 0 then TkCfi else if fst (fst x) =? 2 then TkFp else TkScan;
                   ms_fill := snd (fst x); ms_ra := snd x |}) l.
Fixpoint mix_need (a : arch) (base off term : Z) (fs : list mspec) : Z :=
  match fs with
  | [] => term
  | f :: t => match ms_tech f with
              | TkFp => base + a_pw a * (off + ms_len f - 1)
              | TkScan => 0
              | TkCfi => mix_need a base (off + ms_len f + 1) term t
              end
  end.
Fixpoint mix_fix (a : arch) (base off term : Z) (fs : list mspec) : list mspec :=
  match fs with
  | [] => []
  | f :: t =>
      (match ms_tech f with
       | TkFp => {| ms_tech := TkFp; ms_fill := removelast (ms_fill f) ++ [mix_need a base (off + ms_len f + 1) term t];
                    ms_ra := ms_ra f |}
       | _ => f
       end) :: mix_fix a base (off + ms_len f + 1) term t
  end.
(* (context frame pointer, specs with the saved frame pointers filled in) *)
Definition mix_built (archid base : Z) (l : list (Z * list Z * Z)) : Z * list mspec :=
  let a := arch_of archid in
  let fs0 := mspecs_of l in
  let term := match a_fp a with FpAmd64 => base + a_pw a * (mix_total fs0 - 1) | _ => 0 end in
  (mix_need a base 0 term fs0, mix_fix a base 0 term fs0).

(* (context registers, stack words, expected chain as (instr, resume, sp, trust code, fp)) *)
Definition layout_mix (archid base ip0 : Z) (gp0 : list Z) (l : list (Z * list Z * Z)) : regs * list Z * list (Z * Z * Z * Z * Z) :=
  let a := arch_of archid in
  let '(fp0, fs) := mix_built archid base l in
  let '(r, v, _) := mix_layout a base ip0 fp0 gp0 fs in
  (r, mix_words fs, map (fun f => (f_instr f, f_resume f, r_sp (f_regs f), trust_code (f_trust f), r_fp (f_regs f)))
                        (mix_chain a v gp0 (Some fp0) base 0 fs)).

(* the boolean precondition of the theorem, with the module lookup and instruction_seems_valid of the case's own modules *)
Definition layout_mix_wf (archid base ip0 : Z) (mods : list modspec) (l : list (Z * list Z * Z)) : bool :=
  let '(fp0, fs) := mix_built archid base l in
  mix_wf_layout (arch_of archid) (d_instr_valid mods) (d_module_at mods) base ip0 fp0 fs.

(* the rule table of theorem c04_recovers_chain_rules read off the case's own modules: a module whose symbol file is of
   the family `STACK CFI INIT lo size .cfa: <sp> N + .ra: .cfa <pw> - ^` covers [x] with N *)
Definition rule_at_of (a : arch) (mods : list modspec) (x : Z) : option Z :=
  match mod_of mods x with
  | Some (b, _, Some s) =>
      if x <? b then None else
      let addr := x - b in
      if (0 <? s_cfi_size s) && (s_cfi_lo s <=? addr) && (addr <? s_cfi_lo s + s_cfi_size s) &&
         (s_ra_kind s =? 0) && (s_ra_arg s =? a_pw a) && (match s_fp_off s with None => true | Some _ => false end) &&
         (match s_text s with None => true | Some _ => false end) && (match s_table s with None => true | Some _ => false end)
      then Some (s_cfa_off s) else None
  | _ => None
  end.
Definition layout_mix_rules_ok (archid ip0 : Z) (mods : list modspec) (l : list (Z * list Z * Z)) : bool :=
  rules_ok (arch_of archid) (rule_at_of (arch_of archid) mods) ip0 (mspecs_of l).   (* does not look at the fill words *)

Fixpoint zlist_eqb (l1 l2 : list Z) : bool :=
  match l1, l2 with [], [] => true | x :: t1, y :: t2 => (x =? y) && zlist_eqb t1 t2 | _, _ => false end.
Definition valid_eqb (v1 v2 : validity) : bool :=
  match v1, v2 with VAll, VAll => true | VSome l1, VSome l2 => zlist_eqb l1 l2 | _, _ => false end.
Definition frame_eqb (f g : frame) : bool :=
  (f_instr f =? f_instr g) && (f_resume f =? f_resume g) && (trust_code (f_trust f) =? trust_code (f_trust g)) &&
  (r_ip (f_regs f) =? r_ip (f_regs g)) && (r_sp (f_regs f) =? r_sp (f_regs g)) && (r_fp (f_regs f) =? r_fp (f_regs g)) &&
  (r_lr (f_regs f) =? r_lr (f_regs g)) && zlist_eqb (r_gp (f_regs f)) (r_gp (f_regs g)) && valid_eqb (f_valid f) (f_valid g).
Fixpoint frames_eqb (l1 l2 : list frame) : bool :=
  match l1, l2 with [] , [] => true | x :: t1, y :: t2 => frame_eqb x y && frames_eqb t1 t2 | _, _ => false end.

(* the walker model with the rule evaluator [cfi_rules] in place of the driver's symbol-file model returns exactly the
   chain of the theorem (computed, both profiles): the executable face of c04_recovers_chain_rules on this case *)
Definition layout_mix_rules_walk (archid os base ip0 : Z) (gp0 : list Z) (mods : list modspec) (l : list (Z * list Z * Z)) : bool :=
  let a := arch_of archid in
  let '(fp0, fs) := mix_built archid base l in
  let '(r, v, mem) := mix_layout a base ip0 fp0 gp0 fs in
  let want := from_context r v TContext :: mix_chain a v gp0 (Some fp0) base 0 fs in
  let one (p : profile) :=
    match walk_stack current_code p a os mem (d_module_at mods) (d_max_module_addr mods)
                     (cfi_rules a mem (rule_at_of a mods)) (d_instr_valid mods) (fuel_for mem) r v with
    | Ret frames => frames_eqb frames want
    | _ => false
    end in
  one Debug && one Release.
