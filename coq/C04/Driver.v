(* C04/Driver.v — entry points of the correspondence run: the walker driver of C05 (same oracles
   instantiation) and the Coq stack builders, so that generated cases come from [scan_layout] itself. *)
From RM Require Export C05.Driver.
From RM Require Import C05.Model C04.Model.
Open Scope Z_scope.

Definition specs_of (l : list (Z * Z)) : list frame_spec := map (fun gr => {| fs_gap := fst gr; fs_ra := snd gr |}) l.

(* (context registers, stack words, expected chain as (instr, resume, sp)) *)
Definition layout_scan (archid base ip0 : Z) (l : list (Z * Z)) : regs * list Z * list (Z * Z * Z) :=
  let a := arch_of archid in
  let fs := specs_of l in
  (ctx_regs ip0 base 0, scan_words fs, map (fun f => (f_instr f, f_resume f, r_sp (f_regs f))) (scan_chain a base 0 fs)).

Definition layout_scan_wf (archid base : Z) (iv : Z -> bool) (l : list (Z * Z)) : bool :=
  scan_wf_layout (arch_of archid) iv base (specs_of l).
