(* C04/ProofsMix.v — the walker recovers stacks whose frames pick their technique one by one (CFI-described and
   scan-findable frames mixed), for every depth: induction on the list of frame specs with the callee's validity
   set and register file as the invariant. *)
From Coq Require Import Lia ZArith List Bool.
From RM Require Import C05.Model C05.Proofs C04.Model C04.Proofs C04.ProofsFp.
Import ListNotations.
Open Scope Z_scope.

Lemma all_zero_repeat : forall l, all_zero l = true -> l = repeat 0 (length l).
Proof.
  induction l as [|x t IH]; cbn [all_zero forallb length repeat]; intros H; [reflexivity|].
  apply andb_prop in H. destruct H as [H1 H2]. apply Z.eqb_eq in H1. subst x. f_equal. apply IH. exact H2.
Qed.

Lemma words_in_range_app : forall a l1 l2, words_in_range a (l1 ++ l2) = words_in_range a l1 && words_in_range a l2.
Proof. intros. unfold words_in_range. apply forallb_app. Qed.

Lemma mix_words_app : forall l1 l2, mix_words (l1 ++ l2) = mix_words l1 ++ mix_words l2.
Proof. induction l1 as [|f t IH]; intros; cbn [mix_words app]; [reflexivity|]. rewrite IH, <- app_assoc. reflexivity. Qed.

Lemma mix_total_app : forall l1 l2, mix_total (l1 ++ l2) = mix_total l1 + mix_total l2.
Proof. induction l1 as [|f t IH]; intros; cbn [mix_total app]; [lia|]. rewrite IH. lia. Qed.

Lemma mix_total_nonneg : forall l, 0 <= mix_total l.
Proof. induction l as [|f t IH]; cbn [mix_total]; [lia|]. unfold ms_len. lia. Qed.

Lemma mix_words_length : forall l, Z.of_nat (length (mix_words l)) = mix_total l.
Proof.
  induction l as [|f t IH]; cbn [mix_words mix_total]; [reflexivity|].
  rewrite app_length. cbn [length]. unfold ms_len. lia.
Qed.

Section MixChain.
Variable p : profile.
Variable a : arch.
Variable os : Z.
Variable module_at : Z -> option Z.
Variable max_module_addr : Z.
Variable cfi_walk : frame -> option frame -> list Z -> option (regs * list Z).
Variable instr_valid : Z -> bool.
Variable base : Z.
Variable all : list mspec.
Variable ip0 : Z.
Variable fp0 : Z.
Variable gp0 : list Z.

Hypothesis Ha : arch_ok a.
Hypothesis Hskip : 0 <= scan_skip_words a /\ a_scan_skip a = a_pw a * scan_skip_words a.
Hypothesis Hcfisp : In (a_cfi_sp_name a) (alias_group a (a_sp_name a)).
Hypothesis Hn_sp : reg_valid a (a_sp_name a) (plain_valid a) = true.
Hypothesis Hn_csp : reg_valid a (a_cfi_sp_name a) (plain_valid a) = true.
(* the frame-pointer technique gives up on a frame pointer of 0: ARM follows frame pointers on iOS only (there a
   valid fp of 0 is the technique's own end-of-chain marker and ends the walk); ARM64 rejects the pc it reads *)
Hypothesis Hfp_arm : a_fp a = FpArm -> (os =? OS_IOS) = false.
Hypothesis Hfp_arm64 : a_fp a = FpArm64 -> a_canon_fp a 0 = false.
(* frame-pointer frames: the guard of two words, the frame pointer is callee-saved (CFI frames carry it), the validity
   set of a frame-pointer frame names sp (under both spellings) and fp *)
Hypothesis Hg2 : a_fp_guard_words a = 2.
Hypothesis Hfv_sp : reg_valid a (a_sp_name a) (VSome (fp_valid a)) = true.
Hypothesis Hfv_csp : reg_valid a (a_cfi_sp_name a) (VSome (fp_valid a)) = true.
Hypothesis Hfv_fp : memb (a_fp_name a) (fp_valid a) = true.
(* a CFI frame carries a valid frame pointer on: some CALLEE_SAVED_REGS entry is a spelling of the frame pointer and
   callee_forwarded_regs keeps it whenever the frame pointer is valid in the callee (under any spelling) *)
Hypothesis Hcarry : exists c, In c (a_callee_saved a) /\ In c (alias_group a (a_fp_name a)) /\
  forall l, reg_valid a (a_fp_name a) (VSome l) = true -> (if a_fwd_alias a then reg_valid a c (VSome l) else memb c l) = true.
Hypothesis Hwf : mix_wf_layout a instr_valid module_at base ip0 fp0 all = true.

Notation mem := (mk_mem a base (mix_words all)).
Notation walkf := (walk current_code p a os mem module_at max_module_addr cfi_walk instr_valid).

Lemma m_pw_cases : (a_bits a = 32 /\ a_pw a = 4) \/ (a_bits a = 64 /\ a_pw a = 8).
Proof. destruct Ha as [H _]. exact H. Qed.

Lemma m_W_pos : 4294967296 <= 2 ^ a_bits a.
Proof. destruct m_pw_cases as [[-> _]|[-> _]]; cbn; lia. Qed.

Lemma m_W_64 : 2 ^ a_bits a <= 2 ^ 64.
Proof. destruct m_pw_cases as [[-> _]|[-> _]]; cbn; lia. Qed.

Lemma mwf_parts : mix_frames_ok a instr_valid module_at base true ip0 0 (Some fp0) all = true /\ instr_ok a instr_valid 0 = false /\
  a_pw a < base /\ base + a_pw a * mix_total all < 2 ^ a_bits a.
Proof.
  assert (H := Hwf). unfold mix_wf_layout in H.
  apply andb_prop in H. destruct H as [H _]. apply andb_prop in H. destruct H as [H _].
  apply andb_prop in H. destruct H as [H H4]. apply andb_prop in H. destruct H as [H H3].
  apply andb_prop in H. destruct H as [H1 H2].
  apply Z.ltb_lt in H3. apply Z.ltb_lt in H4. unfold instr_ok.
  destruct (a_pre_ok a 0 && instr_valid 0); [discriminate|]. auto.
Qed.

Lemma mwf_fp0 : 0 <= fp0 /\ (a_strip a = true -> fp0 < 2 ^ 47).
Proof.
  assert (H := Hwf). unfold mix_wf_layout in H.
  apply andb_prop in H. destruct H as [H H6]. apply andb_prop in H. destruct H as [_ H5].
  apply Z.leb_le in H5. split; [exact H5|]. intros E. rewrite E in H6. cbn in H6. apply Z.ltb_lt in H6. exact H6.
Qed.

Lemma m_mem_len : mem_len mem = a_pw a * mix_total all.
Proof. rewrite (mem_len_words a m_pw_cases), mix_words_length. reflexivity. Qed.

Lemma read_low_none : forall x, 0 <= x < base -> read mem (a_pw a) x = None.
Proof.
  intros x Hx. unfold read, checked_sub. cbn [m_base mk_mem].
  destruct (0 <=? x - base) eqn:E; [apply Z.leb_le in E; lia|reflexivity].
Qed.

(* ---- the frame-pointer technique on a frame whose frame pointer is 0 *)
Lemma fp_limit_pos : 0 < fp_limit a.
Proof.
  unfold fp_limit, MAXW, W, PW. destruct Ha as [_ [_ [_ [_ [_ [Hg _]]]]]].
  destruct m_pw_cases as [[Hb Hq]|[Hb Hq]]; rewrite Hb, Hq;
    [change (2 ^ 32) with 4294967296 | change (2 ^ 64) with 18446744073709551616]; lia.
Qed.

Lemma by_fp_zero : forall callee, r_fp (f_regs callee) = 0 ->
  by_fp current_code p a os mem max_module_addr callee = Ret None.
Proof.
  intros callee H0. destruct mwf_parts as [_ [_ [Hb _]]].
  pose proof (pw_pos a m_pw_cases) as Hp. pose proof fp_limit_pos as Hl. pose proof m_W_pos as HW. pose proof m_W_64 as HW64.
  assert (Hpw8 : a_pw a <= 8) by (destruct m_pw_cases as [[_ Hq]|[_ Hq]]; rewrite Hq; lia).
  assert (Rpw : read mem (a_pw a) (a_pw a) = None) by (apply read_low_none; lia).
  unfold by_fp. destruct (a_fp a) eqn:E; [| | | |reflexivity].
  - unfold fp_x86. destruct (negb (reg_valid a (a_fp_name a) (f_valid callee))); [reflexivity|].
    rewrite H0. destruct (0 >=? fp_limit a) eqn:E1; [rewrite Z.geb_leb in E1; apply Z.leb_le in E1; lia|].
    unfold PW. rewrite chk_add_ok by lia. cbn [obind]. rewrite Z.add_0_l, Rpw. reflexivity.
  - unfold fp_amd64. destruct (negb (reg_valid a (a_fp_name a) (f_valid callee))); [reflexivity|].
    destruct (negb (reg_valid a (a_sp_name a) (f_valid callee))); [reflexivity|].
    rewrite H0. destruct (0 >=? fp_limit a) eqn:E1; [rewrite Z.geb_leb in E1; apply Z.leb_le in E1; lia|].
    assert (R : forall n step sp, resolve current_code p a mem n 0 step 0 sp = Ret None).
    { intros n step sp. destruct n as [|n]; [reflexivity|]. cbn [resolve]. unfold W, PW.
      rewrite chk_mul_ok by lia. cbn [obind]. unfold radd. cbn [fx_checked_resolve current_code obind].
      unfold checked_add. unfold W. rewrite ?Z.add_0_l, ?Z.mul_0_l.
      destruct (0 <? 2 ^ a_bits a) eqn:E2; [|apply Z.ltb_ge in E2; lia]. rewrite ?Z.add_0_l.
      destruct (a_pw a <? 2 ^ a_bits a) eqn:E3; [|apply Z.ltb_ge in E3; lia]. rewrite Rpw. reflexivity. }
    destruct (os =? OS_WINDOWS); rewrite R; reflexivity.
  - unfold fp_arm. rewrite E, (Hfp_arm eq_refl). reflexivity.
  - unfold fp_arm. rewrite E.
    destruct (negb (reg_valid a (a_fp_name a) (f_valid callee))); [reflexivity|].
    destruct (negb (reg_valid a (a_sp_name a) (f_valid callee))); [reflexivity|].
    rewrite H0. destruct (0 >=? fp_limit a) eqn:E1; [rewrite Z.geb_leb in E1; apply Z.leb_le in E1; lia|].
    cbn [Z.eqb obind]. rewrite (strip_small a max_module_addr 0) by lia. rewrite (Hfp_arm64 eq_refl). reflexivity.
Qed.

(* ---- one frame-pointer step in any stack memory: the record [nf; ra] at the callee's frame pointer F *)
Section FpStep.
Variable callee : frame.
Variables F S nf ra : Z.
Hypothesis Hmix : fp_mixable a = true.
Hypothesis HF : r_fp (f_regs callee) = F.
Hypothesis HS : r_sp (f_regs callee) = S.
Hypothesis Vf : reg_valid a (a_fp_name a) (f_valid callee) = true.
Hypothesis Vs : reg_valid a (a_sp_name a) (f_valid callee) = true.
Hypothesis HFpos : 0 < F.
Hypothesis HSF : S <= F.
Hypothesis Htop : F + a_pw a * 2 + 1 < 2 ^ a_bits a.
Hypothesis R1 : read mem (a_pw a) F = Some nf.
Hypothesis R2 : read mem (a_pw a) (F + a_pw a) = Some ra.
Hypothesis R3 : a_fp a = FpAmd64 -> exists v, read mem (a_pw a) (F + a_pw a * 2) = Some v.
Hypothesis R4 : a_fp a = FpAmd64 -> exists v, read mem (a_pw a) nf = Some v.
Hypothesis Hnf : a_fp a = FpAmd64 -> F + a_pw a * 2 <= nf.
Hypothesis Hnf0 : 0 <= nf.
Hypothesis Hnf47 : a_strip a = true -> nf < 2 ^ 47.
Hypothesis Hra : 0 <= ra.
Hypothesis Hra47 : a_strip a = true -> ra < 2 ^ 47.
Hypothesis Hcanon : a_canon_fp a ra = true.

Lemma m_fp_step : by_fp current_code p a os mem max_module_addr callee
  = Ret (Some (ctx_regs ra (F + a_pw a * 2) nf, fp_valid a)).
Proof.
  pose proof (pw_pos a m_pw_cases) as Hp. pose proof m_W_64 as HW.
  assert (G : (F >=? fp_limit a) = false).
  { rewrite Z.geb_leb. apply Z.leb_gt. unfold fp_limit, MAXW, W, PW. rewrite Hg2. lia. }
  unfold fp_mixable in Hmix.
  unfold by_fp. destruct (a_fp a) eqn:Ek; try discriminate Hmix.
  - (* x86 *)
    unfold fp_x86. rewrite Vf, HF, G. cbn [negb]. unfold PW, W.
    rewrite chk_add_ok by lia. cbn [obind]. rewrite R2, R1.
    rewrite chk_add_ok by lia. cbn [obind]. unfold fp_valid. rewrite Ek. reflexivity.
  - (* amd64 *)
    unfold fp_amd64. rewrite Vf, Vs, HF, HS, G. cbn [negb].
    assert (RS : forall n step, resolve current_code p a mem (Datatypes.S n) 0 step F S = Ret (Some (ra, nf, F + a_pw a * 2))).
    { intros n step. cbn [resolve]. unfold radd. cbn [fx_checked_resolve current_code]. unfold W, PW.
      replace (0 * step) with 0 by lia.
      rewrite chk_mul_ok by (replace (0 * step) with 0 by lia; lia). cbn [obind].
      unfold checked_add.
      rewrite Z.add_0_r.
      destruct (F <? 2 ^ a_bits a) eqn:E1; [|apply Z.ltb_ge in E1; lia]. cbn [obind].
      destruct (F + a_pw a <? 2 ^ a_bits a) eqn:E2; [|apply Z.ltb_ge in E2; lia]. cbn [obind]. rewrite R2, R1.
      destruct (F + a_pw a * 2 <? 2 ^ a_bits a) eqn:E3; [|apply Z.ltb_ge in E3; lia]. cbn [obind].
      destruct (F + a_pw a * 2 <=? F) eqn:E4; [apply Z.leb_le in E4; lia|].
      pose proof (Hnf eq_refl) as Hnf'.
      destruct (nf <? F + a_pw a * 2) eqn:E5; [apply Z.ltb_lt in E5; lia|]. cbn [orb].
      destruct (R4 eq_refl) as [v4 R4']. rewrite R4'. rewrite Hcanon. cbn [negb].
      unfold stack_seems_valid, PW.
      destruct (F + a_pw a * 2 <=? S) eqn:E6; [apply Z.leb_le in E6; lia|].
      destruct (R3 eq_refl) as [v3 R3']. rewrite R3'. reflexivity. }
    destruct (os =? OS_WINDOWS).
    + replace (Z.to_nat (amd64_win_scan_max + 1)) with (Datatypes.S 15) by reflexivity. rewrite RS. cbn [obind].
      unfold fp_valid. rewrite Ek. reflexivity.
    + replace (Z.to_nat (amd64_other_scan_max + 1)) with (Datatypes.S 0) by reflexivity. rewrite RS. cbn [obind].
      unfold fp_valid. rewrite Ek. reflexivity.
  - (* arm64 *)
    unfold fp_arm. rewrite Ek. rewrite Vf, Vs, HF, HS, G. cbn [negb].
    destruct (F =? 0) eqn:E0; [apply Z.eqb_eq in E0; lia|]. unfold PW, W. rewrite R1.
    rewrite chk_add_ok by lia. cbn [obind]. rewrite R2. rewrite chk_add_ok by lia. cbn [obind].
    rewrite (strip_id a max_module_addr nf) by auto. rewrite (strip_id a max_module_addr ra) by auto.
    rewrite Hcanon. cbn [negb]. unfold fp_valid. rewrite Ek. reflexivity.
Qed.
End FpStep.

(* ---- the scan over [skipped words][zeros][return address], with the frame pointer unknown or known to be 0 *)
Section OneRecord.
Variable pre : list Z.
Variable g : nat.
Variable ra : Z.
Variable post : list Z.
Hypothesis Hws : mix_words all = pre ++ repeat 0 g ++ ra :: post.
Hypothesis Hra : 0 <= ra < 2 ^ a_bits a.

Lemma m_read_junk : forall j, (j < g)%nat ->
  read mem (a_pw a) (base + a_pw a * (Z.of_nat (length pre) + Z.of_nat j)) = Some 0.
Proof.
  intros j Hj. rewrite Hws.
  replace g with (j + S (g - j - 1))%nat by lia. rewrite repeat_app. cbn [repeat].
  replace (pre ++ (repeat 0 j ++ 0 :: repeat 0 (g - j - 1)) ++ ra :: post)
    with ((pre ++ repeat 0 j) ++ 0 :: (repeat 0 (g - j - 1) ++ ra :: post))
    by (rewrite <- !app_assoc; reflexivity).
  replace (Z.of_nat (length pre) + Z.of_nat j) with (Z.of_nat (length (pre ++ repeat 0 j)))
    by (rewrite app_length, repeat_length; lia).
  apply read_at; [exact m_pw_cases|]. pose proof m_W_pos. lia.
Qed.

Lemma m_read_ra : read mem (a_pw a) (base + a_pw a * (Z.of_nat (length pre) + Z.of_nat g)) = Some ra.
Proof.
  rewrite Hws. rewrite app_assoc.
  replace (Z.of_nat (length pre) + Z.of_nat g) with (Z.of_nat (length (pre ++ repeat 0 g)))
    by (rewrite app_length, repeat_length; lia).
  apply read_at; [exact m_pw_cases | exact Hra].
Qed.

Hypothesis Hok : instr_ok a instr_valid ra = true.
Hypothesis Hjunk : instr_ok a instr_valid 0 = false.
Hypothesis Hbase : 0 < base.
Hypothesis Hfit : base + a_pw a * (Z.of_nat (length pre) + Z.of_nat g + 1) < 2 ^ a_bits a.

Lemma m_scan_finds : forall last_bp k j n, last_bp = None \/ last_bp = Some 0 -> (j + k = g)%nat -> (k < n)%nat ->
  scan_loop p a mem instr_valid n (Z.of_nat j) (base + a_pw a * Z.of_nat (length pre)) last_bp
  = Ret (Some (ctx_regs ra (base + a_pw a * (Z.of_nat (length pre) + Z.of_nat g + 1)) 0, [a_ip_name a; a_sp_name a])).
Proof.
  intros last_bp. pose proof (pw_pos a m_pw_cases) as Hp. pose proof m_W_pos as HW.
  induction k as [|k IH]; intros j n Hbp Hjk Hn; (destruct n as [|n]; [lia|]); cbn [scan_loop]; unfold W, PW.
  - assert (j = g) by lia. subst j.
    rewrite chk_mul_ok by nia. cbn [obind].
    unfold checked_add.
    destruct (base + a_pw a * Z.of_nat (length pre) + Z.of_nat g * a_pw a <? 2 ^ a_bits a) eqn:E1; [|apply Z.ltb_ge in E1; nia].
    replace (base + a_pw a * Z.of_nat (length pre) + Z.of_nat g * a_pw a)
      with (base + a_pw a * (Z.of_nat (length pre) + Z.of_nat g)) by lia.
    rewrite m_read_ra, Hok.
    destruct (base + a_pw a * (Z.of_nat (length pre) + Z.of_nat g) + a_pw a <? 2 ^ a_bits a) eqn:E2; [|apply Z.ltb_ge in E2; nia].
    assert (ER : recover_bp p a mem (Z.of_nat g) (base + a_pw a * (Z.of_nat (length pre) + Z.of_nat g))
                   (base + a_pw a * (Z.of_nat (length pre) + Z.of_nat g) + a_pw a) last_bp = Ret (Some None)).
    { assert (Hge : (0 >=? base + a_pw a * (Z.of_nat (length pre) + Z.of_nat g) + a_pw a) = false).
      { rewrite Z.geb_leb. apply Z.leb_gt. nia. }
      unfold recover_bp. destruct (a_bp a); [| |reflexivity].
      - destruct (0 <? Z.of_nat g) eqn:E0; [|reflexivity]. apply Z.ltb_lt in E0. unfold W, PW.
        rewrite chk_sub_ok by nia. cbn [obind].
        replace (base + a_pw a * (Z.of_nat (length pre) + Z.of_nat g) - a_pw a)
          with (base + a_pw a * (Z.of_nat (length pre) + Z.of_nat (g - 1))) by nia.
        rewrite m_read_junk by lia.
        destruct (0 >? base + a_pw a * (Z.of_nat (length pre) + Z.of_nat g)) eqn:E3;
          [rewrite Z.gtb_ltb in E3; apply Z.ltb_lt in E3; nia|].
        destruct Hbp as [-> | ->]; [reflexivity|]. rewrite Hge. reflexivity.
      - destruct Hbp as [-> | ->]; [reflexivity|].
        destruct (0 <? Z.of_nat g) eqn:E0; [|reflexivity]. apply Z.ltb_lt in E0. unfold W, PW.
        rewrite chk_sub_ok by nia. cbn [obind].
        replace (base + a_pw a * (Z.of_nat (length pre) + Z.of_nat g) - a_pw a)
          with (base + a_pw a * (Z.of_nat (length pre) + Z.of_nat (g - 1))) by nia.
        rewrite m_read_junk by lia.
        destruct (0 =? base + a_pw a * (Z.of_nat (length pre) + Z.of_nat (g - 1))) eqn:E3; [apply Z.eqb_eq in E3; nia|].
        cbn [andb]. rewrite Hge. reflexivity. }
    rewrite ER. cbn [obind app]. unfold ctx_regs. do 4 f_equal. lia.
  - rewrite chk_mul_ok by nia. cbn [obind].
    unfold checked_add.
    destruct (base + a_pw a * Z.of_nat (length pre) + Z.of_nat j * a_pw a <? 2 ^ a_bits a) eqn:E1; [|apply Z.ltb_ge in E1; nia].
    replace (base + a_pw a * Z.of_nat (length pre) + Z.of_nat j * a_pw a)
      with (base + a_pw a * (Z.of_nat (length pre) + Z.of_nat j)) by lia.
    rewrite m_read_junk by lia. rewrite Hjunk.
    replace (Z.of_nat j + 1) with (Z.of_nat (S j)) by lia. apply IH; [exact Hbp|lia|lia].
Qed.
End OneRecord.

Lemma m_view_id : forall x, 0 <= x < 2 ^ a_bits a -> view a x = x.
Proof.
  intros x Hx. unfold view. destruct (a_trunc a) eqn:E; [|reflexivity].
  destruct Ha as [_ [_ [Ht _]]]. rewrite (Ht E) in Hx. unfold wrap32, two32.
  change (2 ^ 32) with 4294967296 in Hx. apply Z.mod_small. exact Hx.
Qed.

(* validity sets the walk meets: the stack pointer is always valid *)
Lemma next_valid_sp : forall t v, reg_valid a (a_sp_name a) (mix_next_valid a t v) = true.
Proof. intros [| |] v; cbn [mix_next_valid]; [apply cfi_names_ok; exact Hcfisp | exact Hn_sp | exact Hfv_sp]. Qed.

Lemma mix_lookup_skip : forall done fs o,
  mix_lookup (a_pw a) base o (done ++ fs) (base + a_pw a * (o + mix_total done))
  = mix_lookup (a_pw a) base (o + mix_total done) fs (base + a_pw a * (o + mix_total done)).
Proof.
  pose proof (pw_pos a m_pw_cases) as Hp.
  induction done as [|f t IH]; intros fs o; cbn [app mix_total mix_lookup].
  - rewrite Z.add_0_r. reflexivity.
  - pose proof (mix_total_nonneg t) as Ht. assert (0 <= ms_len f) by (unfold ms_len; lia).
    destruct (base + a_pw a * (o + (ms_len f + 1 + mix_total t)) =? base + a_pw a * o) eqn:E; [apply Z.eqb_eq in E; nia|].
    specialize (IH fs (o + ms_len f + 1)).
    replace (o + (ms_len f + 1 + mix_total t)) with (o + ms_len f + 1 + mix_total t) by lia. exact IH.
Qed.

Definition has_name (n : Z) (v : validity) : bool := match v with VAll => true | VSome l => memb n l end.
Lemma has_name_valid : forall n v, has_name n v = true -> reg_valid a n v = true.
Proof.
  intros n [|l] H; [reflexivity|]. cbn [has_name] in H. unfold reg_valid, alias_group. cbn [existsb]. rewrite H. reflexivity.
Qed.
Lemma memb_app_l : forall x l1 l2, memb x l1 = true -> memb x (l1 ++ l2) = true.
Proof. intros x l1 l2 H. unfold memb in *. rewrite existsb_app, H. reflexivity. Qed.
Lemma memb_filter : forall x (g : Z -> bool) l, memb x l = true -> g x = true -> memb x (filter g l) = true.
Proof.
  intros x g l H Hg. unfold memb in *. apply existsb_exists in H. destruct H as [y [Hin Hy]]. apply Z.eqb_eq in Hy. subst y.
  apply existsb_exists. exists x. split; [apply filter_In; auto | apply Z.eqb_refl].
Qed.
(* a CFI frame carries a valid frame pointer on: it is callee-saved *)
Lemma reg_valid_forwarded : forall v l2, reg_valid a (a_fp_name a) v = true ->
  reg_valid a (a_fp_name a) (VSome (forwarded a v ++ l2)) = true.
Proof.
  destruct Hcarry as [c [Hin [Hal Hl]]]. intros v l2 H.
  assert (M : memb c (forwarded a v ++ l2) = true).
  { apply memb_app_l. destruct v as [|l]; cbn [forwarded]; [apply In_memb; exact Hin|].
    apply memb_filter; [apply In_memb; exact Hin | exact (Hl l H)]. }
  unfold reg_valid. apply existsb_exists. exists c. split; [exact Hal | exact M].
Qed.

Lemma frames_ok_cons : forall ctx instr off st f t, mix_frames_ok a instr_valid module_at base ctx instr off st (f :: t) = true ->
  words_in_range a (ms_fill f) = true /\ a_cutoff a <= ms_ra f < 2 ^ a_bits a /\
  (match ms_tech f with
   | TkCfi => module_at instr <> None /\ (a_strip a = true -> ms_ra f < 2 ^ 47)
   | TkScan =>
       let lo := if ctx then 0 else scan_skip_words a in
       let win := if ctx then a_scan_context a else a_scan_default a in
       lo <= ms_len f /\ ms_len f - lo < win /\ all_zero (skipn (Z.to_nat lo) (ms_fill f)) = true /\
       instr_ok a instr_valid (ms_ra f) = true /\ st_val st = 0
   | TkFp =>
       let nf := last (ms_fill f) 0 in
       let csp := base + a_pw a * (off + ms_len f + 1) in
       fp_mixable a = true /\ 1 <= ms_len f /\ st = Some (base + a_pw a * (off + ms_len f - 1)) /\
       a_canon_fp a (ms_ra f) = true /\ (a_strip a = true -> ms_ra f < 2 ^ 47 /\ nf < 2 ^ 47) /\
       csp + 1 < 2 ^ a_bits a /\
       (a_fp a = FpAmd64 -> 1 <= mix_total t /\ csp <= nf /\ nf + a_pw a <= csp + a_pw a * mix_total t)
   end) /\
  mix_frames_ok a instr_valid module_at base false (ms_ra f - a_adj a) (off + ms_len f + 1)
                (mix_next_st (ms_tech f) (ms_fill f) st) t = true.
Proof.
  intros ctx instr off st f t H. cbn [mix_frames_ok] in H.
  apply andb_prop in H. destruct H as [H H5]. apply andb_prop in H. destruct H as [H H4].
  apply andb_prop in H. destruct H as [H H3]. apply andb_prop in H. destruct H as [H1 H2].
  apply Z.leb_le in H2. apply Z.ltb_lt in H3.
  split; [exact H1|]. split; [lia|]. split; [|exact H5].
  destruct (ms_tech f).
  - apply andb_prop in H4. destruct H4 as [H6 H7]. split.
    + destruct (module_at instr); [discriminate|discriminate H6].
    + intros E. rewrite E in H7. cbn in H7. apply Z.ltb_lt in H7. exact H7.
  - cbv zeta in H4. cbv zeta.
    apply andb_prop in H4. destruct H4 as [H4 H11].
    apply andb_prop in H4. destruct H4 as [H4 H10]. apply andb_prop in H4. destruct H4 as [H4 H9].
    apply andb_prop in H4. destruct H4 as [H4 H8]. apply andb_prop in H4. destruct H4 as [H6 H7].
    apply Z.leb_le in H6. apply Z.ltb_lt in H7. unfold instr_ok. rewrite H9, H10.
    repeat split; auto. destruct st as [v|]; [|reflexivity]. cbn in H11. apply Z.eqb_eq in H11. cbn. exact H11.
  - cbv zeta in H4. cbv zeta.
    apply andb_prop in H4. destruct H4 as [H4 H12].
    apply andb_prop in H4. destruct H4 as [H4 H11]. apply andb_prop in H4. destruct H4 as [H4 H10].
    apply andb_prop in H4. destruct H4 as [H4 H9]. apply andb_prop in H4. destruct H4 as [H4 H8].
    apply andb_prop in H4. destruct H4 as [H6 H7].
    apply Z.leb_le in H7. apply Z.ltb_lt in H11.
    split; [exact H6|]. split; [exact H7|]. split.
    { destruct st as [v|]; [|discriminate H8]. cbn in H8. apply Z.eqb_eq in H8. subst v. reflexivity. }
    split; [exact H9|]. split.
    { intros E. rewrite E in H10. cbn in H10. apply andb_prop in H10. destruct H10 as [A B].
      apply Z.ltb_lt in A. apply Z.ltb_lt in B. auto. }
    split; [exact H11|].
    intros E. rewrite E in H12. apply andb_prop in H12. destruct H12 as [H12 C]. apply andb_prop in H12. destruct H12 as [A B].
    apply Z.leb_le in A. apply Z.leb_le in B. apply Z.leb_le in C. auto.
Qed.

Lemma frames_ok_app : forall l1 l2 ctx instr off st, mix_frames_ok a instr_valid module_at base ctx instr off st (l1 ++ l2) = true ->
  exists ctx' instr' off' st', mix_frames_ok a instr_valid module_at base ctx' instr' off' st' l2 = true.
Proof.
  induction l1 as [|f t IH]; intros l2 ctx instr off st H.
  - exists ctx, instr, off, st. exact H.
  - cbn [app] in H. apply frames_ok_cons in H. destruct H as [_ [_ [_ H]]]. exact (IH l2 _ _ _ _ H).
Qed.

Definition rstate (callee : frame) (done : list mspec) : Prop :=
  r_sp (f_regs callee) = base + a_pw a * mix_total done /\ r_lr (f_regs callee) = 0 /\
  reg_valid a (a_sp_name a) (f_valid callee) = true /\ reg_valid a (a_cfi_sp_name a) (f_valid callee) = true /\
  f_instr callee = prev_instr a ip0 done.

(* the callee's frame pointer: its value is the state's (0 when not valid), a stack-like value where pointer
   authentication bits are stripped, and valid (under some spelling) when the state says valid *)
Definition fpinv (callee : frame) (st : option Z) : Prop :=
  r_fp (f_regs callee) = st_val st /\ 0 <= st_val st /\ (a_strip a = true -> st_val st < 2 ^ 47) /\
  (st <> None -> reg_valid a (a_fp_name a) (f_valid callee) = true).

(* the symbol-file oracle answers like the correct one on the frames this walk reaches: the callee of the record after
   [done] has its sp at that record, lr = 0, a valid sp, and the lookup address of its position *)
Hypothesis Hagree : forall done f t callee gc fwd, all = done ++ f :: t -> rstate callee done ->
  cfi_walk callee gc fwd = mix_cfi_correct a base all callee gc fwd.

Lemma prev_instr_snoc : forall done instr f, prev_instr a instr (done ++ [f]) = ms_ra f - a_adj a.
Proof. induction done as [|x d IH]; intros; cbn [app prev_instr]; [reflexivity|apply IH]. Qed.

Lemma csp_cfi_valid : forall l, reg_valid a (a_cfi_sp_name a) (VSome (l ++ [a_cfi_sp_name a; a_cfi_ip_name a])) = true.
Proof. intros l. unfold reg_valid, alias_group. cbn [existsb]. rewrite memb_last2. reflexivity. Qed.

Lemma last_split : forall (l : list Z), l <> [] -> l = removelast l ++ [last l 0].
Proof. intros l H. apply app_removelast_last. exact H. Qed.

Lemma mix_chain_walk : forall fs done callee gc fuel st,
  all = done ++ fs ->
  rstate callee done ->
  fpinv callee st ->
  mix_frames_ok a instr_valid module_at base (is_context (f_trust callee)) (f_instr callee) (mix_total done) st fs = true ->
  (is_context (f_trust callee) = true -> fs <> []) ->
  (length fs < fuel)%nat ->
  walkf fuel callee gc = Ret (mix_chain a (f_valid callee) (r_gp (f_regs callee)) st base (mix_total done) fs).
Proof.
  pose proof (pw_pos a m_pw_cases) as Hp. pose proof m_W_pos as HW. pose proof m_W_64 as HW64.
  destruct mwf_parts as [Hgall [Hjunk [Hb0 Htop]]].
  pose proof m_mem_len as Hml. destruct Hskip as [Hsk0 Hskeq].
  pose proof Ha as Ha'. destruct Ha' as [_ [_ [_ [_ [_ [_ [_ [_ [_ [Hadj Hle]]]]]]]]]].
  induction fs as [|f t IH]; intros done callee gc fuel st Hall Hrs Hfi Hg Hctx Hfuel;
    pose proof Hrs as [Hsp [Hlr [Hvsp [Hvcsp Hinstr]]]]; pose proof Hfi as [Hfp [Hst0 [Hst47 Hstv]]];
    (destruct fuel as [|k]; [cbn in Hfuel; lia|]); cbn [walk].
  - assert (Enc : is_context (f_trust callee) = false).
    { destruct (is_context (f_trust callee)); [exfalso; apply Hctx; reflexivity | reflexivity]. }
    unfold stop_here. cbn [fx_sp_guard current_code]. rewrite Enc. cbn [negb andb].
    assert (Es : sp_in_stack mem callee = false).
    { unfold sp_in_stack. destruct (read mem 1 (r_sp (f_regs callee))) eqn:R; [|reflexivity].
      apply read_some in R. rewrite app_nil_r in Hall. subst done. rewrite Hml in R. cbn [m_base mk_mem] in R. lia. }
    rewrite Es. reflexivity.
  - apply frames_ok_cons in Hg. destruct Hg as [Hwr [[Hr1 Hr2] [Htech Hgt]]].
    pose proof (mix_total_nonneg done) as Hd0. pose proof (mix_total_nonneg t) as Ht0.
    assert (Hlen0 : 0 <= ms_len f) by (unfold ms_len; lia).
    assert (Htot : mix_total all = mix_total done + (ms_len f + 1 + mix_total t)).
    { rewrite Hall, mix_total_app. reflexivity. }
    assert (Est : stop_here current_code mem callee = false).
    { unfold stop_here. cbn [fx_sp_guard current_code]. destruct (is_context (f_trust callee)); [reflexivity|].
      cbn [negb andb]. unfold sp_in_stack.
      destruct (read_is_some_iff1 mem (r_sp (f_regs callee))) as [_ Hr].
      destruct Hr as [v Hr]; [rewrite Hml, Hsp, Htot; cbn [m_base mk_mem]; nia|]. rewrite Hr. reflexivity. }
    rewrite Est.
    set (sp' := base + a_pw a * (mix_total done + ms_len f + 1)).
    assert (Hra0 : 0 <= ms_ra f) by lia.
    assert (Hr64 : ms_ra f < 2 ^ 64) by lia.
    (* what the symbol-file oracle says about this callee *)
    assert (Elook : mix_lookup (a_pw a) base 0 all (r_sp (f_regs callee)) = Some (ms_tech f, sp', ms_ra f)).
    { rewrite Hsp, Hall. pose proof (mix_lookup_skip done (f :: t) 0) as L. cbn [Z.add] in L. rewrite L.
      cbn [mix_lookup]. rewrite Z.eqb_refl. reflexivity. }
    (* the tail of the induction, shared by the techniques *)
    assert (Tail : forall callee', f_instr callee' = ms_ra f - a_adj a -> is_context (f_trust callee') = false ->
              rstate callee' (done ++ [f]) -> fpinv callee' (mix_next_st (ms_tech f) (ms_fill f) st) ->
              walkf k callee' (Some callee) =
              Ret (mix_chain a (f_valid callee') (r_gp (f_regs callee')) (mix_next_st (ms_tech f) (ms_fill f) st)
                             base (mix_total done + ms_len f + 1) t)).
    { intros callee' Hi Hc Hst Hfi'.
      specialize (IH (done ++ [f]) callee' (Some callee) k (mix_next_st (ms_tech f) (ms_fill f) st)).
      rewrite mix_total_app in IH. cbn [mix_total] in IH.
      replace (mix_total done + (ms_len f + 1 + 0)) with (mix_total done + ms_len f + 1) in IH by lia.
      apply IH.
      - rewrite <- app_assoc. exact Hall.
      - exact Hst.
      - exact Hfi'.
      - rewrite Hc, Hi. exact Hgt.
      - rewrite Hc. intros; discriminate.
      - cbn [length] in Hfuel. lia. }
    destruct (ms_tech f) eqn:Etech.
    + (* described by CFI *)
      destruct Htech as [Hmod H47].
      assert (Estrip : strip a max_module_addr (ms_ra f) = ms_ra f).
      { unfold strip. destruct (a_strip a) eqn:Es; [|reflexivity].
        pose proof (strip_small a max_module_addr (ms_ra f)) as S. unfold strip in S. rewrite Es in S. apply S.
        pose proof (H47 eq_refl). lia. }
      assert (Estrip0 : strip a max_module_addr 0 = 0) by (apply strip_small; lia).
      assert (Estripf : strip a max_module_addr (st_val st) = st_val st) by (apply strip_id; auto).
      set (v' := forwarded a (f_valid callee) ++ [a_cfi_sp_name a; a_cfi_ip_name a]).
      assert (Ecfi : by_cfi a module_at max_module_addr cfi_walk callee gc =
                     Some ({| r_ip := ms_ra f; r_sp := sp'; r_fp := st_val st; r_lr := 0; r_gp := r_gp (f_regs callee) |}, v')).
      { unfold by_cfi. rewrite Hvsp. cbn [negb]. destruct (module_at (f_instr callee)); [|contradiction].
        rewrite (Hagree done f t callee gc _ Hall Hrs). unfold mix_cfi_correct. rewrite Elook.
        unfold cfi_post. cbn [r_ip r_sp r_fp r_lr r_gp]. rewrite Hfp, Hlr, Estrip, Estrip0, Estripf. fold v'.
        destruct (reg_valid a (a_fp_name a) (VSome v')); destruct (reg_valid a (a_lr_name a) (VSome v')); reflexivity. }
      unfold get_caller_frame, cascade. rewrite Ecfi. cbn [obind from_context f_regs r_ip r_sp].
      destruct (ms_ra f <? a_cutoff a) eqn:E1; [apply Z.ltb_lt in E1; lia|].
      unfold sp_progress. cbn [f_regs r_sp from_context]. rewrite Hle, Hsp. unfold sp'.
      destruct (base + a_pw a * (mix_total done + ms_len f + 1) <=? base + a_pw a * mix_total done) eqn:E2;
        [apply Z.leb_le in E2; nia|]. cbn [negb].
      rewrite chk_sub_ok by lia. cbn [obind].
      rewrite Tail.
      * cbn [obind mix_chain set_instr from_context f_valid f_regs r_gp]. rewrite Etech. reflexivity.
      * reflexivity.
      * reflexivity.
      * unfold rstate. cbn [set_instr from_context f_regs f_valid f_instr r_sp r_fp r_lr]. repeat split.
        -- unfold sp'. rewrite mix_total_app. cbn [mix_total]. lia.
        -- apply cfi_names_ok. exact Hcfisp.
        -- apply csp_cfi_valid.
        -- rewrite prev_instr_snoc. reflexivity.
      * cbn [mix_next_st]. unfold fpinv. cbn [set_instr from_context f_regs f_valid r_fp]. repeat split; auto.
        intros Hne. apply reg_valid_forwarded. exact (Hstv Hne).
    + (* found by scanning *)
      cbv zeta in Htech. destruct Htech as [Hlo [Hwin [Hz [Hok Hstz]]]].
      assert (Hfp0 : r_fp (f_regs callee) = 0) by (rewrite Hfp; exact Hstz).
      set (lo := if is_context (f_trust callee) then 0 else scan_skip_words a) in *.
      assert (Hlo0 : 0 <= lo) by (unfold lo; destruct (is_context (f_trust callee)); lia).
      (* the callee is not described by CFI *)
      assert (Ecfi : by_cfi a module_at max_module_addr cfi_walk callee gc = None).
      { unfold by_cfi. rewrite Hvsp. cbn [negb]. destruct (module_at (f_instr callee)); [|reflexivity].
        rewrite (Hagree done f t callee gc _ Hall Hrs). unfold mix_cfi_correct. rewrite Elook. reflexivity. }
      (* the record, seen after skipping [lo] words *)
      set (skipped := firstn (Z.to_nat lo) (ms_fill f)).
      set (g := (length (ms_fill f) - Z.to_nat lo)%nat).
      assert (Hsklen : length skipped = Z.to_nat lo).
      { unfold skipped. rewrite firstn_length. unfold ms_len in Hlo. lia. }
      assert (Hfill : ms_fill f = skipped ++ repeat 0 g).
      { rewrite <- (firstn_skipn (Z.to_nat lo) (ms_fill f)) at 1. fold skipped. f_equal.
        rewrite (all_zero_repeat _ Hz). rewrite skipn_length. reflexivity. }
      assert (Hws : mix_words all = (mix_words done ++ skipped) ++ repeat 0 g ++ ms_ra f :: mix_words t).
      { rewrite Hall, mix_words_app. cbn [mix_words]. rewrite Hfill at 1. rewrite <- !app_assoc. reflexivity. }
      assert (Hlen2 : Z.of_nat (length (mix_words done ++ skipped)) = mix_total done + lo).
      { rewrite app_length, Hsklen, Nat2Z.inj_add, mix_words_length. lia. }
      assert (Hg : Z.of_nat g = ms_len f - lo) by (unfold g, ms_len in *; lia).
      assert (F : forall n bp, bp = None \/ bp = Some 0 -> (g < n)%nat ->
                scan_loop p a mem instr_valid n 0 (base + a_pw a * (mix_total done + lo)) bp =
                Ret (Some (ctx_regs (ms_ra f) sp' 0, [a_ip_name a; a_sp_name a]))).
      { intros n bp Hbp Hn.
        pose proof (m_scan_finds (mix_words done ++ skipped) g (ms_ra f) (mix_words t)
                               Hws (conj Hra0 Hr2) Hok Hjunk ltac:(lia)) as SF.
        rewrite Hlen2 in SF. change 0 with (Z.of_nat 0) at 1.
        rewrite (SF ltac:(rewrite Hg; rewrite Htot in Htop; nia) bp g 0%nat n Hbp) by lia.
        unfold sp'. rewrite Hg. do 4 f_equal. lia. }
      assert (Hspr : 0 <= base + a_pw a * mix_total done < 2 ^ a_bits a) by (rewrite Htot in Htop; nia).
      assert (Escan : by_scan p a mem instr_valid callee = Ret (Some (ctx_regs (ms_ra f) sp' 0, [a_ip_name a; a_sp_name a]))).
      { unfold by_scan. rewrite Hvsp. cbn [negb]. rewrite Hsp, (m_view_id _ Hspr), Hfp0.
        assert (Hbp : (if reg_valid a (a_fp_name a) (f_valid callee) then Some 0 else None) = None \/
                      (if reg_valid a (a_fp_name a) (f_valid callee) then Some 0 else None) = Some 0).
        { destruct (reg_valid a (a_fp_name a) (f_valid callee)); auto. }
        unfold lo in *. destruct (is_context (f_trust callee)).
        - specialize (F (Z.to_nat (a_scan_context a)) _ Hbp). rewrite Z.add_0_r in F. apply F. lia.
        - destruct (a_scan_skip a =? 0) eqn:E0.
          + apply Z.eqb_eq in E0. assert (scan_skip_words a = 0) by nia.
            specialize (F (Z.to_nat (a_scan_default a)) _ Hbp).
            replace (mix_total done + scan_skip_words a) with (mix_total done) in F by lia. apply F. lia.
          + unfold W. unfold checked_add. rewrite Hskeq.
            destruct (base + a_pw a * mix_total done + a_pw a * scan_skip_words a <? 2 ^ a_bits a) eqn:E1;
              [|apply Z.ltb_ge in E1; rewrite Htot in Htop; nia].
            replace (base + a_pw a * mix_total done + a_pw a * scan_skip_words a)
              with (base + a_pw a * (mix_total done + scan_skip_words a)) by lia.
            apply F; [exact Hbp|lia]. }
      unfold get_caller_frame, cascade. rewrite Ecfi, (by_fp_zero callee Hfp0). cbn [obind]. rewrite Escan. unfold ctx_regs.
      cbn [obind from_context f_regs r_ip r_sp].
      destruct (ms_ra f <? a_cutoff a) eqn:E1; [apply Z.ltb_lt in E1; lia|].
      unfold sp_progress. cbn [f_regs r_sp from_context]. rewrite Hle, Hsp. unfold sp'.
      destruct (base + a_pw a * (mix_total done + ms_len f + 1) <=? base + a_pw a * mix_total done) eqn:E2;
        [apply Z.leb_le in E2; nia|]. cbn [negb].
      rewrite chk_sub_ok by lia. cbn [obind].
      rewrite Tail.
      * cbn [obind mix_chain set_instr from_context f_valid f_regs r_gp]. rewrite Etech. reflexivity.
      * reflexivity.
      * reflexivity.
      * unfold rstate. cbn [set_instr from_context f_regs f_valid f_instr r_sp r_fp r_lr]. repeat split.
        -- unfold sp'. rewrite mix_total_app. cbn [mix_total]. lia.
        -- exact Hn_sp.
        -- exact Hn_csp.
        -- rewrite prev_instr_snoc. reflexivity.
      * cbn [mix_next_st]. unfold fpinv. cbn [set_instr from_context f_regs f_valid r_fp st_val]. repeat split; try lia.
        intros Hne. exfalso. apply Hne. reflexivity.
    + (* found through the frame pointer *)
      cbv zeta in Htech. destruct Htech as [Hmx [Hl1 [Est' [Hcan [H47 [Hcsp Hamd]]]]]].
      set (nf := last (ms_fill f) 0) in *.
      set (F := base + a_pw a * (mix_total done + ms_len f - 1)).
      assert (HF : r_fp (f_regs callee) = F) by (rewrite Hfp, Est'; reflexivity).
      assert (Hne : ms_fill f <> []).
      { intros E. unfold ms_len in Hl1. rewrite E in Hl1. cbn in Hl1. lia. }
      assert (Hfill : ms_fill f = removelast (ms_fill f) ++ [nf]) by (apply last_split; exact Hne).
      assert (Hrl : Z.of_nat (length (removelast (ms_fill f))) = ms_len f - 1).
      { unfold ms_len. rewrite Hfill at 2. rewrite app_length. cbn [length]. lia. }
      assert (Hnfr : 0 <= nf < 2 ^ a_bits a).
      { rewrite Hfill in Hwr. rewrite words_in_range_app in Hwr. apply andb_prop in Hwr. destruct Hwr as [_ Hwr].
        cbn [words_in_range forallb] in Hwr. rewrite andb_true_r in Hwr. apply andb_prop in Hwr. destruct Hwr as [A B].
        apply Z.leb_le in A. apply Z.ltb_lt in B. lia. }
      assert (Ecfi : by_cfi a module_at max_module_addr cfi_walk callee gc = None).
      { unfold by_cfi. rewrite Hvsp. cbn [negb]. destruct (module_at (f_instr callee)); [|reflexivity].
        rewrite (Hagree done f t callee gc _ Hall Hrs). unfold mix_cfi_correct. rewrite Elook. reflexivity. }
      assert (Hws1 : mix_words all = (mix_words done ++ removelast (ms_fill f)) ++ nf :: (ms_ra f :: mix_words t)).
      { rewrite Hall, mix_words_app. cbn [mix_words]. rewrite Hfill at 1. rewrite <- !app_assoc. reflexivity. }
      assert (Hws2 : mix_words all = (mix_words done ++ ms_fill f) ++ ms_ra f :: mix_words t).
      { rewrite Hall, mix_words_app. cbn [mix_words]. rewrite <- !app_assoc. reflexivity. }
      assert (R1 : read mem (a_pw a) F = Some nf).
      { unfold F. replace (mix_total done + ms_len f - 1) with (Z.of_nat (length (mix_words done ++ removelast (ms_fill f))))
          by (rewrite app_length, Nat2Z.inj_add, mix_words_length; lia).
        rewrite Hws1. apply read_at; [exact m_pw_cases|exact Hnfr]. }
      assert (R2 : read mem (a_pw a) (F + a_pw a) = Some (ms_ra f)).
      { replace (F + a_pw a) with (base + a_pw a * Z.of_nat (length (mix_words done ++ ms_fill f)))
          by (rewrite app_length, Nat2Z.inj_add, mix_words_length; unfold F, ms_len; lia).
        rewrite Hws2. apply read_at; [exact m_pw_cases|lia]. }
      assert (EFsp : F + a_pw a * 2 = sp') by (unfold F, sp'; lia).
      assert (Q1 : 0 <= a_pw a * (mix_total done + ms_len f - 1)) by (apply Z.mul_nonneg_nonneg; lia).
      assert (Q2 : a_pw a * mix_total done <= a_pw a * (mix_total done + ms_len f - 1)) by (apply Z.mul_le_mono_nonneg_l; lia).
      assert (A1 : 0 < F) by (unfold F; lia).
      assert (A2 : base + a_pw a * mix_total done <= F) by (unfold F; lia).
      assert (A3 : F + a_pw a * 2 + 1 < 2 ^ a_bits a) by (rewrite EFsp; unfold sp'; exact Hcsp).
      assert (A4 : a_fp a = FpAmd64 -> exists v, read mem (a_pw a) (F + a_pw a * 2) = Some v).
      { intros E. destruct (Hamd E) as [A [B C]]. rewrite EFsp. apply read_bounds_some.
        - cbn [m_base mk_mem]. unfold sp'. nia.
        - rewrite Hml, Htot. cbn [m_base mk_mem]. unfold sp'. nia. }
      assert (A5 : a_fp a = FpAmd64 -> exists v, read mem (a_pw a) nf = Some v).
      { intros E. destruct (Hamd E) as [A [B C]]. apply read_bounds_some.
        - cbn [m_base mk_mem]. nia.
        - rewrite Hml, Htot. cbn [m_base mk_mem]. nia. }
      assert (A6 : a_fp a = FpAmd64 -> F + a_pw a * 2 <= nf).
      { intros E. destruct (Hamd E) as [A [B C]]. rewrite EFsp. exact B. }
      assert (A7 : a_strip a = true -> nf < 2 ^ 47) by (intros E; destruct (H47 E); assumption).
      assert (A8 : a_strip a = true -> ms_ra f < 2 ^ 47) by (intros E; destruct (H47 E); assumption).
      assert (A9 : reg_valid a (a_fp_name a) (f_valid callee) = true).
      { apply Hstv. rewrite Est'. discriminate. }
      assert (A10 : 0 <= nf) by lia.
      assert (Efp : by_fp current_code p a os mem max_module_addr callee
                    = Ret (Some (ctx_regs (ms_ra f) sp' nf, fp_valid a))).
      { rewrite <- EFsp.
        exact (m_fp_step callee F (base + a_pw a * mix_total done) nf (ms_ra f) Hmx HF Hsp A9 Hvsp A1 A2 A3 R1 R2 A4 A5 A6 A10 A7 Hra0 A8 Hcan). }
      unfold get_caller_frame, cascade. rewrite Ecfi, Efp. unfold ctx_regs.
      cbn [obind from_context f_regs r_ip r_sp].
      destruct (ms_ra f <? a_cutoff a) eqn:E1; [apply Z.ltb_lt in E1; lia|].
      unfold sp_progress. cbn [f_regs r_sp from_context]. rewrite Hle, Hsp. unfold sp'.
      destruct (base + a_pw a * (mix_total done + ms_len f + 1) <=? base + a_pw a * mix_total done) eqn:E2;
        [apply Z.leb_le in E2; nia|]. cbn [negb].
      rewrite chk_sub_ok by lia. cbn [obind].
      rewrite Tail.
      * cbn [obind mix_chain set_instr from_context f_valid f_regs r_gp]. rewrite Etech. reflexivity.
      * reflexivity.
      * reflexivity.
      * unfold rstate. cbn [set_instr from_context f_regs f_valid f_instr r_sp r_fp r_lr]. repeat split.
        -- unfold sp'. rewrite mix_total_app. cbn [mix_total]. lia.
        -- exact Hfv_sp.
        -- exact Hfv_csp.
        -- rewrite prev_instr_snoc. reflexivity.
      * cbn [mix_next_st]. fold nf. unfold fpinv. cbn [set_instr from_context f_regs f_valid r_fp st_val has_name].
        repeat split; try lia.
        -- intros E. destruct (H47 E). assumption.
        -- intros _. apply (has_name_valid (a_fp_name a) (VSome (fp_valid a))). exact Hfv_fp.
Qed.

Lemma mix_recovers : forall fuel, (length all < fuel)%nat ->
  let '(r, v, m) := mix_layout a base ip0 fp0 gp0 all in
  walk_stack current_code p a os m module_at max_module_addr cfi_walk instr_valid fuel r v
  = Ret (from_context r v TContext :: mix_chain a v gp0 (Some fp0) base 0 all).
Proof.
  intros fuel Hfuel. cbn [mix_layout]. unfold walk_stack.
  destruct mwf_parts as [Hgall [Hjunk [Hb0 Htop]]]. pose proof m_mem_len as Hml.
  pose proof (pw_pos a m_pw_cases) as Hp. pose proof m_W_64 as HW64. destruct mwf_fp0 as [Hf0 Hf47].
  destruct all as [|f t] eqn:Eall.
  - unfold mem_ok. rewrite Hml. cbn [mix_total]. rewrite Z.mul_0_r. reflexivity.
  - rewrite <- Eall in *.
    assert (Hok : mem_ok mem = true).
    { pose proof (mix_total_nonneg t) as Ht0.
      assert (Htot : mix_total all = ms_len f + 1 + mix_total t) by (rewrite Eall; reflexivity).
      assert (0 <= ms_len f) by (unfold ms_len; lia).
      unfold mem_ok. rewrite Hml. cbn [m_base mk_mem].
      destruct (a_pw a * mix_total all =? 0) eqn:E; [apply Z.eqb_eq in E; nia|]. cbn [negb andb].
      apply Z.ltb_lt. unfold two64. change (2 ^ 64) with 18446744073709551616 in HW64. lia. }
    rewrite Hok.
    rewrite (mix_chain_walk all [] (from_context {| r_ip := ip0; r_sp := base; r_fp := fp0; r_lr := 0; r_gp := gp0 |} VAll TContext) None fuel (Some fp0)).
    + reflexivity.
    + reflexivity.
    + unfold rstate. cbn. repeat split. rewrite Z.mul_0_r, Z.add_0_r. reflexivity.
    + unfold fpinv. cbn. repeat split; auto.
    + cbn. exact Hgall.
    + intros _. rewrite Eall. discriminate.
    + exact Hfuel.
Qed.
End MixChain.

(* what the mixed theorem needs of an architecture and operating system *)
Definition mix_arch (a : arch) (os : Z) : Prop :=
  arch_ok a /\ (0 <= scan_skip_words a /\ a_scan_skip a = a_pw a * scan_skip_words a) /\
  In (a_cfi_sp_name a) (alias_group a (a_sp_name a)) /\
  reg_valid a (a_sp_name a) (plain_valid a) = true /\ reg_valid a (a_cfi_sp_name a) (plain_valid a) = true /\
  (a_fp a = FpArm -> (os =? OS_IOS) = false) /\ (a_fp a = FpArm64 -> a_canon_fp a 0 = false) /\
  a_fp_guard_words a = 2 /\
  reg_valid a (a_sp_name a) (VSome (fp_valid a)) = true /\ reg_valid a (a_cfi_sp_name a) (VSome (fp_valid a)) = true /\
  memb (a_fp_name a) (fp_valid a) = true /\
  (exists c, In c (a_callee_saved a) /\ In c (alias_group a (a_fp_name a)) /\
     forall l, reg_valid a (a_fp_name a) (VSome l) = true -> (if a_fwd_alias a then reg_valid a c (VSome l) else memb c l) = true).

(* the spelling of the frame pointer that CALLEE_SAVED_REGS lists, per architecture, and why it is kept *)
Ltac carry_tac c :=
  exists c; split; [cbn; tauto|]; split; [cbn; tauto|];
  let Hrv := fresh "Hrv" in intros l Hrv; revert Hrv; cbv -[memb];
  repeat match goal with |- context [memb ?x l] => destruct (memb x l) end; cbn; auto.

Lemma mix_arch_x86 : forall os, mix_arch x86 os.
Proof. intros os. split; [exact arch_ok_x86|]. repeat split; try reflexivity; try discriminate; [cbn; auto | carry_tac (a_fp_name x86)]. Qed.
Lemma mix_arch_amd64 : forall os, mix_arch amd64 os.
Proof. intros os. split; [exact arch_ok_amd64|]. repeat split; try reflexivity; try discriminate; [cbn; auto | carry_tac (a_fp_name amd64)]. Qed.
Lemma mix_arch_arm : forall os, os <> OS_IOS -> mix_arch arm os.
Proof.
  intros os H. split; [exact arch_ok_arm|]. repeat split; try reflexivity; try discriminate; [cbn; auto| |carry_tac 26224].
  intros _. apply Z.eqb_neq. exact H.
Qed.
Lemma mix_arch_arm64 : forall os, mix_arch arm64 os.
Proof. intros os. split; [exact arch_ok_arm64|]. repeat split; try reflexivity; try discriminate; [cbn; auto | carry_tac 26224]. Qed.
Lemma mix_arch_mips32 : forall os, mix_arch mips32 os.
Proof. intros os. split; [exact arch_ok_mips32|]. repeat split; try reflexivity; try discriminate; [cbn; auto | carry_tac 26224]. Qed.
Lemma mix_arch_mips64 : forall os, mix_arch mips64 os.
Proof. intros os. split; [exact arch_ok_mips64|]. repeat split; try reflexivity; try discriminate; [cbn; auto | carry_tac 26224]. Qed.

(* the frames a walk over [fs] reaches: the callee of the record after [done] *)
Definition reached (a : arch) (base ip0 : Z) (callee : frame) (done : list mspec) : Prop :=
  r_sp (f_regs callee) = base + a_pw a * mix_total done /\ r_lr (f_regs callee) = 0 /\
  reg_valid a (a_sp_name a) (f_valid callee) = true /\ reg_valid a (a_cfi_sp_name a) (f_valid callee) = true /\
  f_instr callee = prev_instr a ip0 done.

Theorem mix_recovers_reached :
  forall p a os module_at max_module_addr instr_valid base fs ip0 fp0 gp0 fuel cfi_walk,
    mix_arch a os ->
    (forall done f t callee gc fwd, fs = done ++ f :: t -> reached a base ip0 callee done ->
                                    cfi_walk callee gc fwd = mix_cfi_correct a base fs callee gc fwd) ->
    mix_wf_layout a instr_valid module_at base ip0 fp0 fs = true ->
    (length fs < fuel)%nat ->
    let '(r, v, mem) := mix_layout a base ip0 fp0 gp0 fs in
    walk_stack current_code p a os mem module_at max_module_addr cfi_walk instr_valid fuel r v
    = Ret (from_context r v TContext :: mix_chain a v gp0 (Some fp0) base 0 fs).
Proof.
  intros p a os ma mm iv base fs ip0 fp0 gp0 fuel cw [Ha [Hs [Hc [Hn [Hn2 [H1 [H2 [H3 [H4 [H5 [H6 H7]]]]]]]]]]] Hag Hwf Hf.
  exact (mix_recovers p a os ma mm cw iv base fs ip0 fp0 gp0 Ha Hs Hc Hn Hn2 H1 H2 H3 H4 H5 H6 H7 Hwf Hag fuel Hf).
Qed.

Theorem mix_recovers_gen :
  forall p a os module_at max_module_addr instr_valid base fs ip0 fp0 gp0 fuel cfi_walk,
    mix_arch a os ->
    (forall callee gc fwd, r_lr (f_regs callee) = 0 ->
                           cfi_walk callee gc fwd = mix_cfi_correct a base fs callee gc fwd) ->
    mix_wf_layout a instr_valid module_at base ip0 fp0 fs = true ->
    (length fs < fuel)%nat ->
    let '(r, v, mem) := mix_layout a base ip0 fp0 gp0 fs in
    walk_stack current_code p a os mem module_at max_module_addr cfi_walk instr_valid fuel r v
    = Ret (from_context r v TContext :: mix_chain a v gp0 (Some fp0) base 0 fs).
Proof.
  intros p a os ma mm iv base fs ip0 fp0 gp0 fuel cw Hm Hag Hwf Hf.
  apply mix_recovers_reached; auto.
  intros done f t callee gc fwd _ [_ [Hlr _]]. apply Hag; assumption.
Qed.

(* the chain, read off column by column: lookup address (module attribution is the module lookup of this address),
   return address, technique label, stack pointer progress *)
Lemma mix_chain_columns : forall a v gp st base off fs,
  map f_instr (mix_chain a v gp st base off fs) = map (fun f => ms_ra f - a_adj a) fs /\
  map f_resume (mix_chain a v gp st base off fs) = map ms_ra fs /\
  map f_trust (mix_chain a v gp st base off fs) = map (fun f => mix_trust (ms_tech f)) fs /\
  length (mix_chain a v gp st base off fs) = length fs.
Proof.
  intros a v gp st base off fs. revert v gp st off.
  induction fs as [|f t IH]; intros v gp st off; cbn [mix_chain map length]; [auto|].
  destruct (IH (mix_next_valid a (ms_tech f) v) (mix_next_gp (ms_tech f) gp) (mix_next_st (ms_tech f) (ms_fill f) st) (off + ms_len f + 1)) as [I1 [I2 [I3 I4]]].
  rewrite I1, I2, I3, I4. cbn [mix_frame f_instr f_resume f_trust]. auto.
Qed.
