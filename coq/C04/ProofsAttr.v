(* C04/ProofsAttr.v — module and function attribution of the recovered chain: frame i of [mix_chain] has lookup address
   ra_i - adj, return address ra_i and the technique label generated for call i, and the module / function
   fill_source_line_info attaches to it (C08's range map over the module list, C11's model of SymbolFile::fill_symbol)
   cover that lookup address: C05's [function_covers] applied to every frame of the chain. *)
From Coq Require Import Lia ZArith List Bool.
From RM Require Import C05.Model C05.Proofs C05.Driver C05.ProofsModules C05.ProofsFunction C04.Model C04.Proofs C04.ProofsMix.
From RM Require C11.Model C11.Proofs2.
Import ListNotations.
Open Scope Z_scope.

Lemma frames_ok_ra : forall a iv module_at base fs ctx instr off st,
  mix_frames_ok a iv module_at base ctx instr off st fs = true -> Forall (fun f => ms_ra f < 2 ^ a_bits a) fs.
Proof.
  intros a iv module_at base. induction fs as [|f t IH]; intros ctx instr off st H; [constructor|].
  cbn [mix_frames_ok] in H.
  apply andb_prop in H. destruct H as [H H5]. apply andb_prop in H. destruct H as [H _].
  apply andb_prop in H. destruct H as [_ H3]. apply Z.ltb_lt in H3.
  constructor; [exact H3 | exact (IH _ _ _ _ H5)].
Qed.

Definition attributed (q : profile) (a : arch) (mods : list modspec) (files : Z -> C11.Model.raw_file) (s : mspec) (f : frame) : Prop :=
  f_instr f = ms_ra s - a_adj a /\ f_resume f = ms_ra s /\ f_trust f = mix_trust (ms_tech s) /\
  forall i, frame_module mods f = Some i ->
    exists b sz y, nth_error mods (Z.to_nat i) = Some (b, sz, y) /\ b <= ms_ra s - a_adj a < b + sz /\
      exists o, C11.Model.symbolize q (files i) b (ms_ra s - a_adj a) = Ret o /\ function_ok b (files i) f o.

Lemma mix_chain_attributed : forall q a (mods : list modspec) (files : Z -> C11.Model.raw_file),
  arch_ok a -> mods_wf mods -> (forall i, C11.Proofs2.wf_file (files i)) ->
  forall fs v gp st base off,
    Forall (fun f => ms_ra f < 2 ^ a_bits a) fs ->
    Forall2 (attributed q a mods files) fs (mix_chain a v gp st base off fs).
Proof.
  intros q a mods files Ha Hm Hf.
  assert (HW : 2 ^ a_bits a <= 2 ^ 64).
  { destruct Ha as [[[Hb _]|[Hb _]] _]; rewrite Hb; cbn; lia. }
  pose proof Ha as Ha'. destruct Ha' as [_ [_ [_ [_ [_ [_ [_ [_ [_ [Hadj _]]]]]]]]]].
  induction fs as [|f t IH]; intros v gp st base off H; cbn [mix_chain]; [constructor|].
  inversion H as [|x l Hx Hl]; subst. constructor; [|apply IH; exact Hl].
  unfold attributed. cbn [mix_frame f_instr f_resume f_trust]. repeat split.
  intros i Hi.
  match goal with |- context [function_ok _ _ ?F _] => set (fr := F) in * end.
  assert (Hlt : f_instr fr < 2 ^ 64) by (unfold fr, mix_frame; cbn [f_instr]; lia).
  destruct (function_covers q mods fr i (files i) Hm Hlt (Hf i) Hi) as [b [s [y [Hn [Hc [o [Es Fo]]]]]]].
  exists b, s, y. split; [exact Hn|]. split; [exact Hc|]. exists o. split; [exact Es|exact Fo].
Qed.

(* the mixed-technique theorem with the attribution attached: the walk returns the context frame followed by a chain
   that is, call by call, the generated one — lookup address, return address, technique label — with module and function
   covering the lookup address *)
Theorem mix_recovers_attributed :
  forall p q a os max_module_addr instr_valid base fs ip0 fp0 gp0 fuel cfi_walk (mods : list modspec) (files : Z -> C11.Model.raw_file),
    mix_arch a os ->
    (forall callee gc fwd, r_lr (f_regs callee) = 0 ->
                           cfi_walk callee gc fwd = mix_cfi_correct a base fs callee gc fwd) ->
    mix_wf_layout a instr_valid (d_module_at mods) base ip0 fp0 fs = true ->
    mods_wf mods -> (forall i, C11.Proofs2.wf_file (files i)) ->
    (length fs < fuel)%nat ->
    let '(r, v, mem) := mix_layout a base ip0 fp0 gp0 fs in
    exists chain,
      walk_stack current_code p a os mem (d_module_at mods) max_module_addr cfi_walk instr_valid fuel r v
        = Ret (from_context r v TContext :: chain) /\
      Forall2 (attributed q a mods files) fs chain.
Proof.
  intros p q a os mm iv base fs ip0 fp0 gp0 fuel cw mods files Hm Hag Hwf Hmods Hfiles Hf.
  pose proof (mix_recovers_gen p a os (d_module_at mods) mm iv base fs ip0 fp0 gp0 fuel cw Hm Hag Hwf Hf) as T.
  cbn [mix_layout] in *. eexists. split; [exact T|].
  apply mix_chain_attributed; [destruct Hm as [Ha _]; exact Ha | exact Hmods | exact Hfiles |].
  unfold mix_wf_layout in Hwf.
  apply andb_prop in Hwf. destruct Hwf as [Hwf _]. apply andb_prop in Hwf. destruct Hwf as [Hwf _].
  apply andb_prop in Hwf. destruct Hwf as [Hwf _]. apply andb_prop in Hwf. destruct Hwf as [Hwf _].
  apply andb_prop in Hwf. destruct Hwf as [Hwf _].
  exact (frames_ok_ra _ _ _ _ _ _ _ _ _ Hwf).
Qed.
