(* C04/ProofsRules.v — the mixed chain theorem with STACK CFI rules evaluated ([cfi_rules]: `.cfa: sp N + .ra: .cfa pw - ^`)
   instead of the abstract correct oracle: on every frame the walk reaches the evaluator answers like [mix_cfi_correct]. *)
From Coq Require Import Lia ZArith List Bool.
From RM Require Import C05.Model C05.Proofs C04.Model C04.Proofs C04.ProofsMix.
Import ListNotations.
Open Scope Z_scope.

Lemma rules_ok_at : forall a rule_at done instr f t,
  rules_ok a rule_at instr (done ++ f :: t) = true ->
  match ms_tech f with
  | TkCfi => rule_at (prev_instr a instr done) = Some (a_pw a * (ms_len f + 1))
  | _ => rule_at (prev_instr a instr done) = None
  end.
Proof.
  intros a rule_at. induction done as [|x d IH]; intros instr f t H; cbn [app rules_ok prev_instr] in *.
  - apply andb_prop in H. destruct H as [H _]. destruct (ms_tech f).
    + unfold opt_eqb in H. destruct (rule_at instr); [apply Z.eqb_eq in H; subst; reflexivity|discriminate].
    + destruct (rule_at instr); [discriminate|reflexivity].
    + destruct (rule_at instr); [discriminate|reflexivity].
  - apply andb_prop in H. destruct H as [_ H]. exact (IH _ _ _ H).
Qed.

Lemma rules_agree : forall a iv module_at base ip0 fp0 fs rule_at,
  arch_ok a ->
  mix_wf_layout a iv module_at base ip0 fp0 fs = true ->
  rules_ok a rule_at ip0 fs = true ->
  forall done f t callee gc fwd, fs = done ++ f :: t -> reached a base ip0 callee done ->
    cfi_rules a (mk_mem a base (mix_words fs)) rule_at callee gc fwd = mix_cfi_correct a base fs callee gc fwd.
Proof.
  intros a iv module_at base ip0 fp0 fs rule_at Ha Hwf Hrules done f t callee gc fwd Hall [Hsp [Hlr [Hv [Hvc Hi]]]].
  assert (Hpwc : (a_bits a = 32 /\ a_pw a = 4) \/ (a_bits a = 64 /\ a_pw a = 8)) by (destruct Ha as [H _]; exact H).
  pose proof (pw_pos a Hpwc) as Hp. pose proof (m_W_pos a Ha) as HW. pose proof (m_W_64 a Ha) as HW64.
  unfold mix_wf_layout in Hwf.
  apply andb_prop in Hwf. destruct Hwf as [Hwf _]. apply andb_prop in Hwf. destruct Hwf as [Hwf _].
  apply andb_prop in Hwf. destruct Hwf as [Hwf H4]. apply andb_prop in Hwf. destruct Hwf as [Hwf H3].
  apply andb_prop in Hwf. destruct Hwf as [Hfr _]. apply Z.ltb_lt in H3. apply Z.ltb_lt in H4.
  rewrite Hall in Hfr. destruct (frames_ok_app _ _ _ _ _ _ _ _ _ _ Hfr) as [ctx' [instr' [off' [st' Hfr']]]].
  apply frames_ok_cons in Hfr'. destruct Hfr' as [_ [[Hr1 Hr2] _]].
  assert (Ha' := Ha). destruct Ha as [_ [_ [_ [_ [_ [_ [_ [_ [_ [Hadj _]]]]]]]]]].
  pose proof (mix_total_nonneg done) as Hd0. pose proof (mix_total_nonneg t) as Ht0.
  assert (Hlen0 : 0 <= ms_len f) by (unfold ms_len; lia).
  assert (Htot : mix_total fs = mix_total done + (ms_len f + 1 + mix_total t)) by (rewrite Hall, mix_total_app; reflexivity).
  assert (Elook : mix_lookup (a_pw a) base 0 fs (r_sp (f_regs callee)) =
                  Some (ms_tech f, base + a_pw a * (mix_total done + ms_len f + 1), ms_ra f)).
  { rewrite Hsp, Hall. pose proof (mix_lookup_skip a base Ha' done (f :: t) 0) as L. cbn [Z.add] in L. rewrite L.
    cbn [mix_lookup]. rewrite Z.eqb_refl. reflexivity. }
  pose proof (rules_ok_at a rule_at done ip0 f t ltac:(rewrite <- Hall; exact Hrules)) as Hrule.
  unfold mix_cfi_correct. rewrite Elook. unfold cfi_rules. rewrite Hi.
  destruct (ms_tech f).
  - rewrite Hrule, Hvc. cbn [negb]. rewrite Hsp.
    rewrite (m_view_id a Ha') by (rewrite Htot in H4; nia).
    assert (Ecfa : wrap64 (base + a_pw a * mix_total done + a_pw a * (ms_len f + 1)) = base + a_pw a * (mix_total done + ms_len f + 1)).
    { unfold wrap64, two64. rewrite Z.mod_small by (rewrite Htot in H4; change (2 ^ 64) with 18446744073709551616 in *; nia). lia. }
    rewrite Ecfa.
    assert (Eaddr : wrap64 (base + a_pw a * (mix_total done + ms_len f + 1) - a_pw a) = base + a_pw a * (mix_total done + ms_len f)).
    { unfold wrap64, two64. rewrite Z.mod_small by (rewrite Htot in H4; change (2 ^ 64) with 18446744073709551616 in *; nia). lia. }
    rewrite Eaddr.
    assert (Eread : read (mk_mem a base (mix_words fs)) (a_pw a) (base + a_pw a * (mix_total done + ms_len f)) = Some (ms_ra f)).
    { rewrite Hall, mix_words_app. cbn [mix_words]. rewrite app_assoc.
      replace (mix_total done + ms_len f) with (Z.of_nat (length (mix_words done ++ ms_fill f)))
        by (rewrite app_length, Nat2Z.inj_add, mix_words_length; unfold ms_len; lia).
      apply read_at; [exact Hpwc|lia]. }
    rewrite Eread. unfold fits_w.
    destruct (base + a_pw a * (mix_total done + ms_len f + 1) <? 2 ^ a_bits a) eqn:E1; [|apply Z.ltb_ge in E1; rewrite Htot in H4; nia].
    destruct (ms_ra f <? 2 ^ a_bits a) eqn:E2; [|apply Z.ltb_ge in E2; lia].
    reflexivity.
  - rewrite Hrule. reflexivity.
  - rewrite Hrule. reflexivity.
Qed.

Theorem mix_recovers_rules :
  forall p a os module_at max_module_addr instr_valid base fs ip0 fp0 gp0 fuel rule_at,
    mix_arch a os ->
    mix_wf_layout a instr_valid module_at base ip0 fp0 fs = true ->
    rules_ok a rule_at ip0 fs = true ->
    (length fs < fuel)%nat ->
    let '(r, v, mem) := mix_layout a base ip0 fp0 gp0 fs in
    walk_stack current_code p a os mem module_at max_module_addr (cfi_rules a mem rule_at) instr_valid fuel r v
    = Ret (from_context r v TContext :: mix_chain a v gp0 (Some fp0) base 0 fs).
Proof.
  intros p a os ma mm iv base fs ip0 fp0 gp0 fuel rule_at Hm Hwf Hr Hf.
  pose proof (mix_recovers_reached p a os ma mm iv base fs ip0 fp0 gp0 fuel
                (cfi_rules a (mk_mem a base (mix_words fs)) rule_at) Hm) as T.
  cbn [mix_layout] in *. apply T; [|exact Hwf|exact Hf].
  destruct Hm as [Ha _]. exact (rules_agree a iv ma base ip0 fp0 fs rule_at Ha Hwf Hr).
Qed.
