(* C13/Adaptive.v — ADAPTIVE walks over the C12 model of the shared Symbolizer (round 5).
   In C13/Sched.v a thread's walk is a C12 task: a FIXED list of lookups.  The real unwinder is adaptive: which
   module it asks for next depends on what the earlier lookups returned (CFI found -> the caller's pc lands in
   another module than after a frame-pointer or scan step; minidump-unwind/src/lib.rs walk_stack -> get_caller_frame
   -> fill_symbol / walk_frame, each starting with get_symbols(module).await).  Here a walk is a decision tree:
     ADone f          the walk is over, f = what it computed (the frames)
     AAsk k cont      look k up; continue with (cont answer)
   [aadvance] is C12's [advance] (same phases, same [begin_call] / [complete] / [hit] on the same [shared] record —
   imported, not re-modelled) with "the rest of the list" replaced by "the continuation applied to the answer the
   task actually received" (the supplier's answer on completion, the cached Arc on a hit).  Definitions only. *)
From RM Require Export C12.Model.

Section Adaptive.
Context {F : Type}.

Inductive atask := ADone (f : F) | AAsk (k : key) (cont : outcome -> atask).

(* the lookups along the path the supplier's answers [oc] select, and the value at its end *)
Fixpoint apath (oc : key -> outcome) (a : atask) : list key :=
  match a with ADone _ => [] | AAsk k cont => k :: apath oc (cont (oc k)) end.
Fixpoint aeval (oc : key -> outcome) (a : atask) : F :=
  match a with ADone f => f | AAsk k cont => aeval oc (cont (oc k)) end.

Fixpoint aadvance (c : config) (t : task) (a : atask) (ph : phase) (s : shared) : atask * phase * shared :=
  match a with
  | ADone f => (ADone f, ph, s)
  | AAsk k cont =>
      match ph with
      | Sup (S m) => (AAsk k cont, Sup m, s)
      | Sup O => aadvance c t (cont (outc c k)) Start (complete c t k s)
      | _ =>
          match lock s k with
          | Some _ => (AAsk k cont, Wait, s)
          | None =>
              match value s k with
              | Some o => aadvance c t (cont o) Start (hit t k o s)
              | None =>
                  let s1 := begin_call t k s in
                  match susp c k with
                  | O => aadvance c t (cont (outc c k)) Start (complete c t k s1)
                  | S m => (AAsk k cont, Sup m, s1)
                  end
              end
          end
      end
  end.

Record astate := { apcs : task -> atask * phase; ash : shared }.

Definition apoll (c : config) (t : task) (s : astate) : astate :=
  let '(a, ph) := apcs s t in
  let '(a', ph', s') := aadvance c t a ph (ash s) in
  {| apcs := upd (apcs s) t (a', ph'); ash := s' |}.

(* [d]: what a task id beyond the thread list "computes" (never observed) *)
Definition ainit (d : F) (atasks : list atask) : astate :=
  {| apcs := fun t => (nth t atasks (ADone d), Start);
     ash := {| lock := fun _ => None; value := fun _ => None; calls := []; req := 0; proc := 0;
               stats := fun _ => None; results := fun _ => [] |} |}.

Definition arun (c : config) (d : F) (atasks : list atask) (sched : list task) : astate :=
  fold_left (fun s t => apoll c t s) sched (ainit d atasks).

Definition atask_done (s : astate) (t : task) : bool :=
  match fst (apcs s t) with ADone _ => true | AAsk _ _ => false end.
Definition aall_done (n : nat) (s : astate) : bool := forallb (atask_done s) (seq 0 n).

(* what thread t's walk returned, if it is over *)
Definition aresult (s : astate) (t : task) : option F :=
  match fst (apcs s t) with ADone f => Some f | AAsk _ _ => None end.
(* join_all over the walks: the thread list of the report *)
Definition aprocess_threads (c : config) (d : F) (atasks : list atask) (sched : list task) : list (option F) :=
  map (aresult (arun c d atasks sched)) (seq 0 (length atasks)).

(* the fixed-list configuration that the supplier's answers select: C12's [tasks] := the paths.  ([tasks c] itself is
   not used by the adaptive system.) *)
Definition fixed (c : config) (atasks : list atask) : config :=
  {| tasks := map (apath (outc c)) atasks; susp := susp c; outc := outc c; leaf := leaf c |}.
End Adaptive.
