From Coq Require Extraction.
From Coq Require Import ExtrOcamlBasic.
From RM Require Import C13.Driver.
From RM Require C12.Model.
Extraction "c13_model.ml" run_limits_json run_certs run_unloaded run_bitflip_sources run_linux run_cfi_rules run_adaptive a_ask a_done a_nat_of_z a_z_of_nat C12.Model.stat_loaded C12.Model.stat_corrupt.
