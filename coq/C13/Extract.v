From Coq Require Extraction.
From Coq Require Import ExtrOcamlBasic.
From RM Require Import C13.Driver.
Extraction "c13_model.ml" run_limits_json run_certs run_linux run_cfi_rules.
