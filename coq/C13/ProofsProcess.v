(* C13/ProofsProcess.v — the thread list (and the shared state) after the join is a function of the trees, the supplier's
   answers, the post-walk step and its initial state: no schedule in it, provided the post-walk steps commute. *)
From Coq Require Import Lia Sorting.Permutation.
From RM Require Import C12.Model C12.Proofs C13.Model C13.Adaptive C13.ProofsAdaptive C13.Budget C13.ProofsBudget C13.Process.
Close Scope Z_scope.
Open Scope nat_scope.

Section Process.
Context {F S : Type}.
Variable post : S -> nat -> F -> S * F.
Variable c : config.
Variable d : F.
Variable atasks : list (@atask F).
Variable s0 : S.
Let n := length atasks.
Let frames : nat -> F := fun i => aeval (outc c) (nth i atasks (ADone d)).

Lemma finish_app : forall c1 c2 s out,
  finish post frames s (c1 ++ c2) out =
  finish post frames (fst (finish post frames s c1 out)) c2 (snd (finish post frames s c1 out)).
Proof.
  induction c1 as [|i rest IH]; intros c2 s out; cbn [app finish fst snd]; [reflexivity|]. apply IH.
Qed.

Record PI (pre : list task) (ps : @pstate F S) (comp : list nat) : Prop := {
  pi_pa : pa ps = arun c d atasks pre;
  pi_nodup : NoDup comp;
  pi_lt : forall t, In t comp -> t < n;
  pi_in : forall t, In t comp -> pout ps t <> None;
  pi_out : forall t, ~ In t comp -> pout ps t = None;
  pi_sh : pshared ps = fst (finish post frames s0 comp (fun _ => None));
  pi_slots : forall j, pout ps j = snd (finish post frames s0 comp (fun _ => None)) j
}.

Lemma arun_snoc pre t : arun c d atasks (pre ++ [t]) = apoll c t (arun c d atasks pre).
Proof. unfold arun. rewrite fold_left_app. reflexivity. Qed.

Lemma PI_step pre ps comp t : PI pre ps comp ->
  exists comp', PI (pre ++ [t]) (pstep post c n ps t) comp'.
Proof.
  intros H. unfold pstep.
  assert (Epa : apoll c t (pa ps) = arun c d atasks (pre ++ [t])) by (rewrite arun_snoc, (pi_pa _ _ _ H); reflexivity).
  destruct (pout ps t) as [g|] eqn:Eo.
  - exists comp. destruct H. constructor; cbn [pa pshared pout]; auto.
  - destruct (aresult (apoll c t (pa ps)) t) as [f|] eqn:Er.
    + destruct (Nat.ltb t n) eqn:Elt.
      * apply Nat.ltb_lt in Elt.
        assert (Ef : f = frames t).
        { rewrite Epa in Er. exact (aresult_determined c d atasks (pre ++ [t]) t f Er). }
        subst f.
        assert (Hn : ~ In t comp) by (intros Hin; apply (pi_in _ _ _ H t Hin); exact Eo).
        exists (comp ++ [t]). constructor; cbn [pa pshared pout].
        -- exact Epa.
        -- apply NoDup_snoc; [exact (pi_nodup _ _ _ H)|exact Hn].
        -- intros x Hx. apply in_app_or in Hx. destruct Hx as [Hx|[Hx|[]]]; [exact (pi_lt _ _ _ H x Hx)|subst; exact Elt].
        -- intros x Hx. unfold updf. destruct (Nat.eqb x t) eqn:E; [discriminate|].
           apply in_app_or in Hx. destruct Hx as [Hx|[Hx|[]]]; [exact (pi_in _ _ _ H x Hx)|].
           subst. rewrite Nat.eqb_refl in E. discriminate.
        -- intros x Hx. unfold updf. destruct (Nat.eqb x t) eqn:E.
           ++ apply Nat.eqb_eq in E. subst. exfalso. apply Hx. apply in_or_app. right. left. reflexivity.
           ++ apply (pi_out _ _ _ H). intros Hin. apply Hx. apply in_or_app. left. exact Hin.
        -- rewrite finish_app. cbn [finish fst]. rewrite <- (pi_sh _ _ _ H). reflexivity.
        -- intros j. rewrite finish_app. cbn [finish snd]. rewrite <- (pi_sh _ _ _ H).
           unfold updf. destruct (Nat.eqb j t); [reflexivity|apply (pi_slots _ _ _ H)].
      * exists comp. destruct H. constructor; cbn [pa pshared pout]; auto.
    + exists comp. destruct H. constructor; cbn [pa pshared pout]; auto.
Qed.

Lemma PI_run : forall sched pre ps comp, PI pre ps comp ->
  exists comp', PI (pre ++ sched) (fold_left (pstep post c n) sched ps) comp'.
Proof.
  induction sched as [|t rest IH]; intros pre ps comp H; cbn [fold_left].
  - exists comp. rewrite app_nil_r. exact H.
  - destruct (PI_step pre ps comp t H) as [comp1 H1].
    destruct (IH (pre ++ [t]) _ comp1 H1) as [comp2 H2]. exists comp2.
    rewrite <- app_assoc in H2. exact H2.
Qed.

Lemma PI_process sched : exists comp, PI sched (process post c d atasks s0 sched) comp.
Proof.
  unfold process. fold n.
  assert (H0 : PI [] (pinit d atasks s0) []).
  { constructor; cbn; auto; try (intros; contradiction). constructor. }
  destruct (PI_run sched [] _ [] H0) as [comp H]. exists comp. exact H.
Qed.

(* when every future has completed, the order in which they did is a permutation of the thread indices, and the thread
   list is what [finish] makes of it *)
Lemma process_finish sched :
  pall_finished n (process post c d atasks s0 sched) = true ->
  exists comp, Permutation comp (seq 0 n) /\
    pthreads n (process post c d atasks s0 sched) = finish_threads post n frames s0 comp /\
    pshared (process post c d atasks s0 sched) = fst (finish post frames s0 comp (fun _ => None)).
Proof.
  intros Hf. destruct (PI_process sched) as [comp H]. exists comp. split; [|split].
  - apply NoDup_Permutation; [exact (pi_nodup _ _ _ H)|apply seq_NoDup|].
    intros x. rewrite in_seq. split.
    + intros Hx. pose proof (pi_lt _ _ _ H x Hx). lia.
    + intros Hx. destruct (in_dec Nat.eq_dec x comp) as [Hin|Hn]; [exact Hin|].
      unfold pall_finished in Hf. rewrite forallb_forall in Hf.
      assert (Hs : In x (seq 0 n)) by (apply in_seq; lia). specialize (Hf x Hs).
      rewrite (pi_out _ _ _ H x Hn) in Hf. discriminate.
  - unfold pthreads, finish_threads. apply map_ext. exact (pi_slots _ _ _ H).
  - exact (pi_sh _ _ _ H).
Qed.

Lemma process_independent s1 s2 :
  posts_commute post ->
  pall_finished n (process post c d atasks s0 s1) = true ->
  pall_finished n (process post c d atasks s0 s2) = true ->
  pthreads n (process post c d atasks s0 s1) = pthreads n (process post c d atasks s0 s2) /\
  pshared (process post c d atasks s0 s1) = pshared (process post c d atasks s0 s2).
Proof.
  intros HC H1 H2.
  destruct (process_finish s1 H1) as [c1 [P1 [T1 S1]]].
  destruct (process_finish s2 H2) as [c2 [P2 [T2 S2]]].
  destruct (finish_threads_commute post frames n s0 c1 c2 HC P1 P2) as [A B].
  rewrite T1, T2, S1, S2. split; assumption.
Qed.

(* read-only post-walk steps (today's code): the closed form *)
Lemma process_readonly sched :
  post_readonly post ->
  pall_finished n (process post c d atasks s0 sched) = true ->
  pthreads n (process post c d atasks s0 sched) = map (fun i => Some (snd (post s0 i (frames i)))) (seq 0 n).
Proof.
  intros HR Hf. destruct (process_finish sched Hf) as [comp [P [T _]]]. rewrite T.
  apply finish_threads_readonly; [exact HR|].
  intros i Hi. eapply Permutation_in; [apply Permutation_sym; exact P|]. apply in_seq. lia.
Qed.
End Process.
