(* C13/Process.v — the per-thread part of into_process_state as ONE system (round 5): adaptive walks over the shared
   Symbolizer (C13/Adaptive.v on C12's model), the post-walk step of every future on the state the futures share
   (C13/Budget.v) executed in the very poll in which its walk_stack returns Ready, the result read by index.
   The executor's schedule is the only source of nondeterminism: it decides the interleaving of the lookups AND the
   order in which the walks finish.  Definitions only. *)
From RM Require Export C13.Adaptive C13.Budget.

Section Process.
Context {F S : Type}.
Variable post : S -> nat -> F -> S * F.

Record pstate := { pa : @astate F; pshared : S; pout : nat -> option F }.

(* poll future t: advance its walk; if the walk is over and its post-walk step has not run yet, run it now *)
Definition pstep (c : config) (n : nat) (ps : pstate) (t : task) : pstate :=
  let sa' := apoll c t (pa ps) in
  match pout ps t, aresult sa' t with
  | None, Some f =>
      if Nat.ltb t n
      then {| pa := sa'; pshared := fst (post (pshared ps) t f); pout := updf (pout ps) t (snd (post (pshared ps) t f)) |}
      else {| pa := sa'; pshared := pshared ps; pout := pout ps |}
  | _, _ => {| pa := sa'; pshared := pshared ps; pout := pout ps |}
  end.

Definition pinit (d : F) (atasks : list (@atask F)) (s0 : S) : pstate :=
  {| pa := ainit d atasks; pshared := s0; pout := fun _ => None |}.
Definition process (c : config) (d : F) (atasks : list (@atask F)) (s0 : S) (sched : list task) : pstate :=
  fold_left (pstep c (length atasks)) sched (pinit d atasks s0).

(* state.threads after the join_all, and "every future has completed" *)
Definition pthreads (n : nat) (ps : pstate) : list (option F) := map (pout ps) (seq 0 n).
Definition pall_finished (n : nat) (ps : pstate) : bool :=
  forallb (fun t => match pout ps t with Some _ => true | None => false end) (seq 0 n).
End Process.
