(* C13/Proofs.v — order independence of the renderers, join by index. *)
From Coq Require Import Lia Sorting.Permutation.
From RM Require Import C13.Model.
Open Scope Z_scope.

Section SortFacts.
Context {K V : Type} (ltb : K -> K -> bool).
Hypothesis ltb_irrefl : forall a, ltb a a = false.
Hypothesis ltb_trans : forall a b c, ltb a b = true -> ltb b c = true -> ltb a c = true.
Hypothesis ltb_total : forall a b, ltb a b = false -> ltb b a = false -> a = b.

Lemma ltb_asym a b : ltb a b = true -> ltb b a = false.
Proof.
  intros H. destruct (ltb b a) eqn:E; [|reflexivity].
  pose proof (ltb_trans _ _ _ H E) as X. rewrite ltb_irrefl in X. discriminate.
Qed.

Lemma insert_comm (a b : K * V) l : fst a <> fst b ->
  insert_key ltb a (insert_key ltb b l) = insert_key ltb b (insert_key ltb a l).
Proof.
  intros Hab. induction l as [|x t IH]; cbn [insert_key].
  - destruct (ltb (fst a) (fst b)) eqn:E1; destruct (ltb (fst b) (fst a)) eqn:E2; try reflexivity.
    + rewrite (ltb_asym _ _ E1) in E2. discriminate.
    + exfalso. apply Hab. apply ltb_total; assumption.
  - destruct (ltb (fst b) (fst x)) eqn:Ebx; destruct (ltb (fst a) (fst x)) eqn:Eax; cbn [insert_key];
      rewrite ?Ebx, ?Eax.
    + destruct (ltb (fst a) (fst b)) eqn:E1; destruct (ltb (fst b) (fst a)) eqn:E2; try reflexivity.
      * rewrite (ltb_asym _ _ E1) in E2. discriminate.
      * exfalso. apply Hab. apply ltb_total; assumption.
    + destruct (ltb (fst a) (fst b)) eqn:E1.
      * rewrite (ltb_trans _ _ _ E1 Ebx) in Eax. discriminate.
      * cbn [insert_key]. rewrite ?Eax, ?Ebx. reflexivity.
    + destruct (ltb (fst b) (fst a)) eqn:E2.
      * rewrite (ltb_trans _ _ _ E2 Eax) in Ebx. discriminate.
      * cbn [insert_key]. rewrite ?Eax, ?Ebx. reflexivity.
    + rewrite IH. reflexivity.
Qed.

Lemma sort_perm_invariant (l1 l2 : list (K * V)) :
  Permutation l1 l2 -> NoDup (map fst l1) -> sort_by_key ltb l1 = sort_by_key ltb l2.
Proof.
  induction 1 as [|x l l' Hp IH|x y l|l l' l'' H1 IH1 H2 IH2]; intros Hnd; cbn [sort_by_key fold_right map] in *.
  - reflexivity.
  - inversion Hnd; subst. fold (sort_by_key ltb l). fold (sort_by_key ltb l'). rewrite IH by assumption. reflexivity.
  - fold (sort_by_key ltb l). apply insert_comm.
    inversion Hnd as [|? ? Hy Hrest]; subst. intros E. apply Hy. left. symmetry. exact E.
  - rewrite IH1 by assumption. apply IH2.
    eapply Permutation_NoDup; [apply Permutation_map; exact H1|exact Hnd].
Qed.

Lemma render_order_independent {R} (fmt : K * V -> R) (m i1 i2 : list (K * V)) :
  NoDup (map fst m) -> Permutation i1 m -> Permutation i2 m ->
  render ltb fmt i1 = render ltb fmt i2.
Proof.
  intros Hnd H1 H2. unfold render. f_equal. apply sort_perm_invariant.
  - eapply Permutation_trans; [exact H1|apply Permutation_sym; exact H2].
  - eapply Permutation_NoDup; [apply Permutation_map; apply Permutation_sym; exact H1|exact Hnd].
Qed.
End SortFacts.

(* ---- the strict total order of byte strings (String's Ord on ASCII / UTF-8 bytes) *)
Lemma bytes_ltb_irrefl a : bytes_ltb a a = false.
Proof. induction a as [|x t IH]; cbn [bytes_ltb]; [reflexivity|]. rewrite Z.ltb_irrefl, Z.eqb_refl, IH. reflexivity. Qed.

Lemma bytes_ltb_trans a : forall b c, bytes_ltb a b = true -> bytes_ltb b c = true -> bytes_ltb a c = true.
Proof.
  induction a as [|x a IH]; intros [|y b] [|z c]; cbn [bytes_ltb]; try discriminate; try reflexivity.
  rewrite !orb_true_iff, !andb_true_iff, !Z.ltb_lt, !Z.eqb_eq.
  intros [H|[H1 H2]] [H'|[H1' H2']].
  - left; lia.
  - left; lia.
  - left; lia.
  - right. split; [lia|]. eapply IH; eauto.
Qed.

Lemma bytes_ltb_total a : forall b, bytes_ltb a b = false -> bytes_ltb b a = false -> a = b.
Proof.
  induction a as [|x a IH]; intros [|y b]; cbn [bytes_ltb]; try discriminate; try reflexivity.
  rewrite !orb_false_iff, !andb_false_iff, !Z.ltb_ge, !Z.eqb_neq.
  intros [H1 H2] [H3 H4].
  assert (x = y) by lia. subst y.
  destruct H2 as [H2|H2]; [lia|]. destruct H4 as [H4|H4]; [lia|].
  f_equal. apply IH; assumption.
Qed.

(* ---- the refutations of the pre-fix renderers: two iteration orders, two outputs *)
Lemma render_v0_depends :
  render_v0 (fun e : Z * Z => fst e) [(1, 10); (2, 20)] <> render_v0 (fun e : Z * Z => fst e) [(2, 20); (1, 10)].
Proof. cbn. discriminate. Qed.

Lemma cert_v0_depends :
  cert_of_v0 Z.eqb [(1, [7]); (2, [7])] 7 <> cert_of_v0 Z.eqb [(2, [7]); (1, [7])] 7.
Proof. cbn. discriminate. Qed.

Lemma cert_order_independent {C M} (meqb : M -> M -> bool) (cltb : C -> C -> bool)
  (Hi : forall a, cltb a a = false)
  (Ht : forall a b c, cltb a b = true -> cltb b c = true -> cltb a c = true)
  (Hto : forall a b, cltb a b = false -> cltb b a = false -> a = b)
  (m i1 i2 : list (C * list M)) x :
  NoDup (map fst m) -> Permutation i1 m -> Permutation i2 m ->
  cert_of meqb cltb i1 x = cert_of meqb cltb i2 x.
Proof.
  intros Hnd H1 H2. unfold cert_of. f_equal.
  apply (sort_perm_invariant cltb Hi Ht Hto).
  - eapply Permutation_trans; [exact H1|apply Permutation_sym; exact H2].
  - eapply Permutation_NoDup; [apply Permutation_map; apply Permutation_sym; exact H1|exact Hnd].
Qed.

(* ---- registers: only membership of the validity set is used *)
Lemma existsb_perm {K} (f : K -> bool) l1 l2 : Permutation l1 l2 -> existsb f l1 = existsb f l2.
Proof.
  induction 1; cbn [existsb]; try congruence.
  - destruct (f x), (f y); reflexivity.
Qed.

Lemma emit_registers_order_independent {K} (eqb : K -> K -> bool) v1 v2 order :
  Permutation v1 v2 -> emit_registers eqb v1 order = emit_registers eqb v2 order.
Proof.
  intros H. unfold emit_registers. apply filter_ext. intros r. apply existsb_perm. exact H.
Qed.

(* ---- join by index *)
Lemma fold_updf {A} (res : nat -> A) i : forall l f,
  In i l \/ f i = Some (res i) ->
  fold_left (fun f i => updf f i (res i)) l f i = Some (res i).
Proof.
  induction l as [|a t IH]; intros f H; cbn [fold_left].
  - destruct H as [[]|H]. exact H.
  - apply IH. destruct (Nat.eq_dec i a) as [->|Hne].
    + right. unfold updf. rewrite Nat.eqb_refl. reflexivity.
    + destruct H as [[H|H]|H].
      * congruence.
      * left. exact H.
      * right. unfold updf. apply Nat.eqb_neq in Hne. rewrite Hne. exact H.
Qed.

Lemma join_by_index {A} n (res : nat -> A) completion :
  (forall i, (i < n)%nat -> In i completion) ->
  join_all n res completion = map (fun i => Some (res i)) (seq 0 n).
Proof.
  intros H. unfold join_all. apply map_ext_in. intros i Hi. apply in_seq in Hi.
  apply fold_updf. left. apply H. lia.
Qed.

Lemma join_by_completion_depends :
  join_by_completion (fun i => i) [0%nat; 1%nat] <> join_by_completion (fun i => i) [1%nat; 0%nat].
Proof. cbn. discriminate. Qed.
