(* C13/ProofsLimits.v — the proc_limits pipeline from the stream bytes: the HashMap built by collect() has distinct
   keys (C03's to_map keeps the names strictly sorted), so the hypothesis of render_order_independent holds for the
   real pipeline and the rendered array does not depend on the iteration order of the map. *)
From Coq Require Import Lia Sorting.Permutation Sorting.Sorted.
From RM Require Import C13.Model C13.Proofs.
Open Scope Z_scope.

Definition ename (e : entry) : bytes := fst (fst (fst e)).
Definition lt_name (a b : entry) : Prop := bytes_ltb (ename a) (ename b) = true.

Lemma bytes_eqb_refl a : bytes_eqb a a = true.
Proof. induction a as [|x t IH]; cbn [bytes_eqb]; [reflexivity|]. rewrite Z.eqb_refl, IH. reflexivity. Qed.

Lemma bytes_eqb_true a : forall b, bytes_eqb a b = true -> a = b.
Proof.
  induction a as [|x t IH]; intros [|y u]; cbn [bytes_eqb]; intros H; try discriminate; try reflexivity.
  apply andb_true_iff in H. destruct H as [H1 H2]. apply Z.eqb_eq in H1. subst y. f_equal. apply IH. exact H2.
Qed.

Lemma insert_sorted_in e : forall l x, In x (insert_sorted e l) -> x = e \/ In x l.
Proof.
  induction l as [|y t IH]; intros x H; cbn [insert_sorted] in H.
  - destruct H as [H|[]]. left. symmetry. exact H.
  - destruct (bytes_eqb (fst (fst (fst e))) (fst (fst (fst y)))).
    + destruct H as [H|H]; [left; symmetry; exact H|right; right; exact H].
    + destruct (bytes_ltb (fst (fst (fst e))) (fst (fst (fst y)))).
      * destruct H as [H|H]; [left; symmetry; exact H|right; exact H].
      * destruct H as [H|H]; [right; left; exact H|]. destruct (IH x H) as [A|A]; [left; exact A|right; right; exact A].
Qed.

Lemma insert_sorted_sorted e : forall l, StronglySorted lt_name l -> StronglySorted lt_name (insert_sorted e l).
Proof.
  induction l as [|y t IH]; intros H; cbn [insert_sorted].
  - constructor; constructor.
  - inversion H as [|? ? Ht Hy]; subst.
    fold (ename e). fold (ename y).
    destruct (bytes_eqb (ename e) (ename y)) eqn:E.
    + apply bytes_eqb_true in E. constructor; [exact Ht|].
      eapply Forall_impl; [|exact Hy]. intros z Hz. unfold lt_name in *. rewrite E. exact Hz.
    + destruct (bytes_ltb (ename e) (ename y)) eqn:L.
      * constructor; [exact H|]. constructor; [exact L|].
        eapply Forall_impl; [|exact Hy]. intros z Hz. unfold lt_name in *. eapply bytes_ltb_trans; eauto.
      * constructor; [apply IH; exact Ht|].
        apply Forall_forall. intros z Hz. apply insert_sorted_in in Hz. destruct Hz as [->|Hz].
        -- unfold lt_name. destruct (bytes_ltb (ename y) (ename e)) eqn:L2; [reflexivity|].
           pose proof (bytes_ltb_total _ _ L L2) as X. rewrite X, bytes_eqb_refl in E. discriminate.
        -- rewrite Forall_forall in Hy. apply Hy. exact Hz.
Qed.

Lemma to_map_sorted l : StronglySorted lt_name (to_map l).
Proof.
  unfold to_map.
  assert (G : forall l acc, StronglySorted lt_name acc ->
                            StronglySorted lt_name (fold_left (fun acc e => insert_sorted e acc) l acc)).
  { induction l0 as [|e t IH]; intros acc H; cbn [fold_left]; [exact H|]. apply IH. apply insert_sorted_sorted. exact H. }
  apply G. constructor.
Qed.

Lemma sorted_names_nodup l : StronglySorted lt_name l -> NoDup (map ename l).
Proof.
  induction 1 as [|x t Ht IH Hx]; cbn [map]; constructor; [|exact IH].
  intros Hin. apply in_map_iff in Hin. destruct Hin as [y [Hy Hyin]].
  rewrite Forall_forall in Hx. specialize (Hx y Hyin). unfold lt_name in Hx.
  rewrite Hy, bytes_ltb_irrefl in Hx. discriminate.
Qed.

Lemma to_map_names_distinct l : NoDup (map ename (to_map l)).
Proof. apply sorted_names_nodup, to_map_sorted. Qed.

Definition conv_entry (e : entry) : bytes * (limit * limit * bytes) := let '(n, s, h, u) := e in (n, (s, h, u)).

Lemma limits_json_order_independent (p1 p2 : list entry -> list entry) data :
  (forall m, Permutation (p1 m) m) -> (forall m, Permutation (p2 m) m) ->
  limits_json p1 data = limits_json p2 data.
Proof.
  intros H1 H2. unfold limits_json. destruct (limits_from data) as [l| | |]; cbn; try reflexivity.
  f_equal.
  apply (render_order_independent bytes_ltb bytes_ltb_irrefl bytes_ltb_trans bytes_ltb_total _ (map conv_entry (to_map l))).
  - rewrite map_map. erewrite map_ext; [apply to_map_names_distinct|].
    intros [[[n s] h] u]. reflexivity.
  - apply Permutation_map. apply H1.
  - apply Permutation_map. apply H2.
Qed.
