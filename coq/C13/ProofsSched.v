(* C13/ProofsSched.v — schedule independence on top of the C12 model and its invariant. *)
From Coq Require Import Lia.
From RM Require Import C12.Model C12.Proofs C13.Sched.

Section WithConfig.
Variable c : config.

(* what the stats map holds relative to the per-key slots *)
Definition SI (s : shared) : Prop :=
  (forall l o, stats s l = Some o -> exists k, leaf c k = l /\ value s k = Some o) /\
  (forall k o, value s k = Some o -> exists o', stats s (leaf c k) = Some o').

Lemma SI_complete t k s : SI s -> SI (complete c t k s).
Proof.
  intros [A B]. split; cbn [complete stats value].
  - intros l o H. unfold upd in *.
    destruct (Nat.eqb l (leaf c k)) eqn:E.
    + apply Nat.eqb_eq in E. subst l. inversion H; subst. exists k. rewrite Nat.eqb_refl. split; reflexivity.
    + destruct (A l o H) as [k0 [Hk0 Hv]]. exists k0. split; [exact Hk0|].
      destruct (Nat.eqb k0 k) eqn:E2; [|exact Hv].
      apply Nat.eqb_eq in E2. subst k0. subst l. rewrite Nat.eqb_refl in E. discriminate.
  - intros k0 o H. unfold upd in *.
    destruct (Nat.eqb (leaf c k0) (leaf c k)) eqn:E; [eexists; reflexivity|].
    destruct (Nat.eqb k0 k) eqn:E2.
    + apply Nat.eqb_eq in E2. subst k0. rewrite Nat.eqb_refl in E. discriminate.
    + exact (B k0 o H).
Qed.

Lemma SI_hit t k o s : SI s -> SI (hit t k o s).
Proof. intros H. exact H. Qed.
Lemma SI_begin t k s : SI s -> SI (begin_call t k s).
Proof. intros H. exact H. Qed.

Lemma advance_SI t : forall rem ph s, SI s -> SI (snd (advance c t rem ph s)).
Proof.
  induction rem as [|k rest IH]; intros ph s H; cbn [advance]; [exact H|].
  destruct ph as [| |[|m]].
  - destruct (lock s k); [exact H|]. destruct (value s k) as [o|].
    + apply IH. apply SI_hit. exact H.
    + destruct (susp c k); [apply IH; apply SI_complete; apply SI_begin; exact H|cbn [snd]; apply SI_begin; exact H].
  - destruct (lock s k); [exact H|]. destruct (value s k) as [o|].
    + apply IH. apply SI_hit. exact H.
    + destruct (susp c k); [apply IH; apply SI_complete; apply SI_begin; exact H|cbn [snd]; apply SI_begin; exact H].
  - apply IH. apply SI_complete. exact H.
  - exact H.
Qed.

Lemma poll_SI t s : SI (sh s) -> SI (sh (poll c t s)).
Proof.
  intros H. unfold poll. destruct (pcs s t) as [rem ph].
  pose proof (advance_SI t rem ph (sh s) H) as X.
  destruct (advance c t rem ph (sh s)) as [[rem' ph'] s']. exact X.
Qed.

Lemma run_SI sched : SI (sh (run c sched)).
Proof.
  unfold run, run_from.
  assert (G : forall l s, SI (sh s) -> SI (sh (fold_left (fun s t => poll c t s) l s))).
  { induction l as [|t l IH]; intros s H; cbn [fold_left]; [exact H|]. apply IH. apply poll_SI. exact H. }
  apply G. split; cbn; intros; discriminate.
Qed.

(* at quiescence every requested key has its value *)
Lemma quiescent_value sched k :
  all_done c (run c sched) = true -> In k (concat (tasks c)) ->
  value (sh (run c sched)) k = Some (outc c k).
Proof.
  intros Hd Hk. pose proof (run_inv c sched) as HI.
  pose proof (requested_called c _ HI Hd k Hk) as Hc.
  apply (inv_calls c _ _ HI) in Hc.
  rewrite (quiescent_unlocked c _ HI Hd k) in Hc.
  destruct Hc as [Hc|Hc]; [congruence|].
  destruct (value (sh (run c sched)) k) as [o|] eqn:E; [|congruence].
  rewrite (inv_val c _ _ HI k o E). reflexivity.
Qed.

Lemma valued_requested sched k o :
  value (sh (run c sched)) k = Some o -> In k (concat (tasks c)).
Proof.
  intros H. pose proof (run_inv c sched) as HI.
  apply (inv_creq c _ _ HI). apply (inv_calls c _ _ HI). right. congruence.
Qed.

(* the snapshot as a function of the configuration alone *)
Lemma stats_determined sched l :
  leaf_injective c -> all_done c (run c sched) = true ->
  (forall k, In k (concat (tasks c)) -> leaf c k = l -> stats_snapshot c sched l = Some (outc c k)) /\
  ((forall k, In k (concat (tasks c)) -> leaf c k <> l) -> stats_snapshot c sched l = None).
Proof.
  intros Hinj Hd. pose proof (run_SI sched) as [A B]. pose proof (run_inv c sched) as HI.
  unfold stats_snapshot. split.
  - intros k Hk Hl. subst l.
    destruct (B k _ (quiescent_value sched k Hd Hk)) as [o' Ho']. rewrite Ho'.
    destruct (A _ _ Ho') as [k' [Hl' Hv']].
    pose proof (valued_requested sched k' o' Hv') as Hk'.
    assert (k' = k) by (apply Hinj; assumption). subst k'.
    rewrite (inv_val c _ _ HI k o' Hv'). reflexivity.
  - intros Hno. destruct (stats (sh (run c sched)) l) as [o|] eqn:E; [|reflexivity].
    destruct (A _ _ E) as [k [Hl Hv]]. exfalso. apply (Hno k); [|exact Hl].
    eapply valued_requested. exact Hv.
Qed.

Lemma in_dec_leaf l : (exists k, In k (concat (tasks c)) /\ leaf c k = l) \/ (forall k, In k (concat (tasks c)) -> leaf c k <> l).
Proof.
  induction (concat (tasks c)) as [|a t IH].
  - right. intros k [].
  - destruct (Nat.eq_dec (leaf c a) l) as [E|E].
    + left. exists a. split; [left; reflexivity|exact E].
    + destruct IH as [[k [Hk Hl]]|IH].
      * left. exists k. split; [right; exact Hk|exact Hl].
      * right. intros k [Hk|Hk]; [subst; exact E|apply IH; exact Hk].
Qed.

Lemma stats_independent s1 s2 l :
  leaf_injective c -> all_done c (run c s1) = true -> all_done c (run c s2) = true ->
  stats_snapshot c s1 l = stats_snapshot c s2 l.
Proof.
  intros Hinj H1 H2.
  destruct (stats_determined s1 l Hinj H1) as [A1 B1].
  destruct (stats_determined s2 l Hinj H2) as [A2 B2].
  destruct (in_dec_leaf l) as [[k [Hk Hl]]|Hno].
  - rewrite (A1 k Hk Hl), (A2 k Hk Hl). reflexivity.
  - rewrite (B1 Hno), (B2 Hno). reflexivity.
Qed.

(* every thread's answers are a function of the configuration *)
Lemma pairs_determined (l : list (key * outcome)) (ks : list key) :
  map fst l = ks -> (forall k o, In (k, o) l -> o = outc c k) -> l = map (fun k => (k, outc c k)) ks.
Proof.
  revert ks. induction l as [|[k o] t IH]; intros ks E H; cbn [map] in *; subst ks; [reflexivity|].
  cbn [map fst]. rewrite (H k o (or_introl eq_refl)). f_equal.
  apply IH; [reflexivity|]. intros k' o' Hin. apply H. right. exact Hin.
Qed.

Lemma results_determined sched t :
  all_done c (run c sched) = true ->
  results (sh (run c sched)) t = map (fun k => (k, outc c k)) (nth t (tasks c) []).
Proof.
  intros Hd. pose proof (run_inv c sched) as HI.
  apply pairs_determined.
  - apply results_complete. exact Hd.
  - intros k o Hin. apply (inv_val c _ _ HI). apply (inv_res c _ _ HI t). exact Hin.
Qed.

Lemma threads_independent {F} (walk : task -> list (key * outcome) -> F) s1 s2 :
  all_done c (run c s1) = true -> all_done c (run c s2) = true ->
  process_threads walk c s1 = process_threads walk c s2.
Proof.
  intros H1 H2. unfold process_threads. apply map_ext. intros t. unfold thread_frames.
  rewrite (results_determined s1 t H1), (results_determined s2 t H2). reflexivity.
Qed.

(* the rendered "modules" array *)
Lemma render_modules_independent s1 s2 mods :
  leaf_injective c -> all_done c (run c s1) = true -> all_done c (run c s2) = true ->
  render_modules c s1 mods = render_modules c s2 mods.
Proof.
  intros Hinj H1 H2. unfold render_modules. apply map_ext. intros k.
  rewrite (stats_independent s1 s2 (leaf c k) Hinj H1 H2). reflexivity.
Qed.

Lemma render_modules_spec sched mods :
  leaf_injective c -> all_done c (run c sched) = true ->
  render_modules c sched mods = modules_spec c mods.
Proof.
  intros Hinj Hd. unfold render_modules, modules_spec. apply map_ext. intros k.
  destruct (stats_determined sched (leaf c k) Hinj Hd) as [A B].
  destruct (in_dec Nat.eq_dec k (concat (tasks c))) as [Hk|Hk].
  - rewrite (A k Hk eq_refl). reflexivity.
  - destruct (existsb (fun k' => Nat.eqb (leaf c k') (leaf c k)) (concat (tasks c))) eqn:E.
    + destruct (find (fun k' => Nat.eqb (leaf c k') (leaf c k)) (concat (tasks c))) as [k'|] eqn:F.
      * apply find_some in F. destruct F as [Hin Hl]. apply Nat.eqb_eq in Hl.
        rewrite (A k' Hin Hl). reflexivity.
      * apply existsb_exists in E. destruct E as [x [Hx Hl]].
        pose proof (find_none _ _ F x Hx) as X. cbv beta in X. congruence.
    + rewrite B; [reflexivity|]. intros k' Hin Hl.
      assert (X : existsb (fun k'0 => Nat.eqb (leaf c k'0) (leaf c k)) (concat (tasks c)) = true).
      { apply existsb_exists. exists k'. split; [exact Hin|]. apply Nat.eqb_eq. exact Hl. }
      rewrite X in E. discriminate.
Qed.
End WithConfig.

(* two modules sharing one leaf name: the snapshot depends on who finishes last *)
Definition same_leaf_cfg : config :=
  {| tasks := [[0]; [1]]; susp := fun _ => 0;
     outc := fun k => match k with 0 => OOk | _ => ONotFound end; leaf := fun _ => 0 |}.
Lemma stats_depends_on_schedule :
  all_done same_leaf_cfg (run same_leaf_cfg [0; 1]) = true /\
  all_done same_leaf_cfg (run same_leaf_cfg [1; 0]) = true /\
  stats_snapshot same_leaf_cfg [0; 1] 0 = Some ONotFound /\
  stats_snapshot same_leaf_cfg [1; 0] 0 = Some OOk.
Proof. vm_compute. repeat split. Qed.
