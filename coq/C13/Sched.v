(* C13/Sched.v — the per-thread walks over the C12 model of the shared Symbolizer.
   A thread's walk is a task of C12 (its symbol lookups in order); what it computes from the
   answers is an arbitrary function [walk].  The stats snapshot is C12's [stats] map (keyed by
   the leaf name of code_file) read after every walk has finished.  Definitions only. *)
From RM Require Export C12.Model.

Definition thread_frames {F} (walk : task -> list (key * outcome) -> F) (s : state) (t : task) : F :=
  walk t (results (sh s) t).
(* what processing returns for the threads: join by index (C13.Model.join_all is proved to be
   this map whenever every sub-future completes) *)
Definition process_threads {F} (walk : task -> list (key * outcome) -> F) (c : config) (sched : list task) : list F :=
  map (thread_frames walk (run c sched)) (seq 0 (ntasks c)).
(* symbol_provider.stats() after join_all: per leaf name, the stats class *)
Definition stats_snapshot (c : config) (sched : list task) (leafname : nat) : option outcome :=
  stats (sh (run c sched)) leafname.

Definition leaf_injective (c : config) : Prop :=
  forall k1 k2, In k1 (concat (tasks c)) -> In k2 (concat (tasks c)) -> leaf c k1 = leaf c k2 -> k1 = k2.
