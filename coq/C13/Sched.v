(* C13/Sched.v — the per-thread walks over the C12 model of the shared Symbolizer.
   A thread's walk is a task of C12 (its symbol lookups in order); what it computes from the
   answers is an arbitrary function [walk].  The stats snapshot is C12's [stats] map (keyed by
   the leaf name of code_file) read after every walk has finished.  Definitions only. *)
From RM Require Export C12.Model.

Definition thread_frames {F} (walk : task -> list (key * outcome) -> F) (s : state) (t : task) : F :=
  walk t (results (sh s) t).
(* what processing returns for the threads: join by index (C13.Model.join_all is proved to be
   this map whenever every sub-future completes) *)
Definition process_threads {F} (walk : task -> list (key * outcome) -> F) (c : config) (sched : list task) : list F :=
  map (thread_frames walk (run c sched)) (seq 0 (ntasks c)).
(* symbol_provider.stats() after join_all: per leaf name, the stats class *)
Definition stats_snapshot (c : config) (sched : list task) (leafname : nat) : option outcome :=
  stats (sh (run c sched)) leafname.

Definition leaf_injective (c : config) : Prop :=
  forall k1 k2, In k1 (concat (tasks c)) -> In k2 (concat (tasks c)) -> leaf c k1 = leaf c k2 -> k1 = k2.

(* print_json "modules": for each module of the dump (its key), the stats fields looked up under the
   leaf name of its code_file:  stats.get(name) -> (loaded_symbols, missing_symbols = had_stats && !loaded,
   corrupt_symbols); no entry -> all false.  process_state.rs 1016-1062 *)
Definition module_fields (st : option outcome) : bool * bool * bool :=
  match st with
  | Some o => (stat_loaded o, negb (stat_loaded o), stat_corrupt o)
  | None => (false, false, false)
  end.
Definition render_modules (c : config) (sched : list task) (mods : list key) : list (bool * bool * bool) :=
  map (fun k => module_fields (stats_snapshot c sched (leaf c k))) mods.
(* what it must be: a function of the configuration alone *)
Definition modules_spec (c : config) (mods : list key) : list (bool * bool * bool) :=
  map (fun k => if in_dec Nat.eq_dec k (concat (tasks c)) then module_fields (Some (outc c k)) else
                if existsb (fun k' => Nat.eqb (leaf c k') (leaf c k)) (concat (tasks c))
                then module_fields (match find (fun k' => Nat.eqb (leaf c k') (leaf c k)) (concat (tasks c)) with
                                    | Some k' => Some (outc c k') | None => None end)
                else module_fields None) mods.
