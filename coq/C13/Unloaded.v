(* C13/Unloaded.v — the per-frame list of overlapping UNLOADED modules and the evil-json certificate map from the
   parsed JSON object.  Definitions only.

   Mirrors:
     minidump-processor/src/processor.rs, the per-thread future of into_process_state, after walk_stack:
         if frame.module.is_none() {
             let mut offsets = BTreeMap::new();
             for unloaded in unloaded_modules.modules_at_address(frame.instruction) {
                 let offset = frame.instruction - unloaded.raw.base_of_image;
                 offsets.entry(unloaded.name.clone()).or_insert_with(BTreeSet::new).insert(offset);
             }
             frame.unloaded_modules = offsets;
         }
     minidump/src/minidump.rs MinidumpUnloadedModuleList::modules_at_address (filter of the by-address list with
         range.contains(address)), MinidumpUnloadedModule::memory_range (None for size 0 or base + size overflowing u64,
         else [base, base + size - 1])
     the printers: process_state.rs print_json `frame.unloaded_modules.iter().map(|(module, offsets)| ..offsets.iter()..)`,
         minidump-unwind lib.rs CallStack::print `for (name, offsets) in &frame.unloaded_modules { .. for offset in offsets ..`
   A BTreeMap<String, BTreeSet<u64>> is a list of (name, offsets) kept strictly ascending by name, each offsets list kept
   strictly ascending: `entry(k).or_insert_with(BTreeSet::new).insert(x)` is [map_upsert]; iterating the map / the set is
   reading the list from the left (the orderedness is an invariant: ProofsUnloaded.upsert_sorted).
   [perm] = the order in which modules_at_address yields the overlapping modules (today: ascending by range; the theorems
   hold for EVERY order, so nothing depends on how that list is sorted or on ties in it).
   The `_hash` variants are the same code with HashMap / HashSet in place of the ordered containers (iteration order = a
   parameter): the refuted contrast (mutation "StackFrame.unloaded_modules: HashMap"). *)
From RM Require Export Base.Word C13.Model.
Open Scope Z_scope.

(* BTreeSet<u64>::insert *)
Fixpoint set_insert (x : Z) (l : list Z) : list Z :=
  match l with
  | [] => [x]
  | y :: t => if x <? y then x :: y :: t else if y <? x then y :: set_insert x t else y :: t
  end.

(* BTreeSet<K>::insert for any ordered key (check_for_bitflips walks a BTreeSet<&'static str> of register names that
   op_analysis fills operand by operand: base register, index register) *)
Section OrderedSet.
Context {K : Type} (kltb : K -> K -> bool).
Fixpoint oset_insert (x : K) (l : list K) : list K :=
  match l with
  | [] => [x]
  | y :: t => if kltb x y then x :: y :: t else if kltb y x then y :: oset_insert x t else y :: t
  end.
Definition oset_of_list (l : list K) : list K := fold_left (fun s x => oset_insert x s) l [].
End OrderedSet.

Section OrderedMap.
Context {K : Type} (kltb : K -> K -> bool).
(* BTreeMap<K, BTreeSet<u64>>: entry(k).or_insert_with(BTreeSet::new).insert(x) *)
Fixpoint map_upsert (k : K) (x : Z) (m : list (K * list Z)) : list (K * list Z) :=
  match m with
  | [] => [(k, [x])]
  | (k', s) :: t => if kltb k k' then (k, [x]) :: (k', s) :: t
                    else if kltb k' k then (k', s) :: map_upsert k x t
                    else (k', set_insert x s) :: t
  end.
Definition map_of_pairs (l : list (K * Z)) : list (K * list Z) :=
  fold_left (fun m e => map_upsert (fst e) (snd e) m) l [].
Fixpoint map_get (keqb : K -> K -> bool) (k : K) (m : list (K * list Z)) : list Z :=
  match m with [] => [] | (k', s) :: t => if keqb k k' then s else map_get keqb k t end.
End OrderedMap.

Record umod := { u_name : bytes; u_base : Z; u_size : Z }.

(* MinidumpUnloadedModule::memory_range *)
Definition u_range (u : umod) : option (Z * Z) :=
  if u_size u =? 0 then None
  else match checked_add 64 (u_base u) (u_size u) with Some e => Some (u_base u, e - 1) | None => None end.
Definition u_contains (addr : Z) (u : umod) : bool :=
  match u_range u with Some (lo, hi) => (lo <=? addr) && (addr <=? hi) | None => false end.
(* modules_at_address *)
Definition u_hits (addr : Z) (l : list umod) : list umod := filter (u_contains addr) l.

(* MinidumpUnloadedModuleList::read rejects the WHOLE stream when one entry has size 0 or base + size > u64::MAX
   (`return Err(Error::ModuleReadFailure)`), and the processor takes a stream that cannot be read for an empty list
   (processor.rs: `Err(_) => MinidumpUnloadedModuleList::new()`) *)
Definition u_bad (u : umod) : bool := (u_size u =? 0) || (U64MAX - u_base u <? u_size u).
Definition unloaded_list_read (raw : list umod) : list umod := if existsb u_bad raw then [] else raw.

(* the loop body: `frame.instruction - unloaded.raw.base_of_image` is a plain `-` on u64 (a trap in debug builds, a wrap in
   release builds if it could underflow: ProofsUnloaded.frame_offsets_no_panic shows it cannot for a module that contains
   the address) *)
Definition TAG_UNLOADED_OFFSET : Z := 1301.
Fixpoint offsets_loop (p : profile) (addr : Z) (hits : list umod) (m : list (bytes * list Z)) : outcome (list (bytes * list Z)) :=
  match hits with
  | [] => Ret m
  | u :: t => do off <- chk_sub p 64 TAG_UNLOADED_OFFSET addr (u_base u);
              offsets_loop p addr t (map_upsert bytes_ltb (u_name u) off m)
  end.
Definition frame_offsets (p : profile) (perm : list umod -> list umod) (addr : Z) (l : list umod) : outcome (list (bytes * list Z)) :=
  offsets_loop p addr (perm (u_hits addr l)) [].

(* what the printers emit for one frame: the entries in the map's iteration order, the offsets in the set's *)
Definition render_unloaded {N} (iter_map : list (N * list Z) -> list (N * list Z)) (iter_set : list Z -> list Z)
  (m : list (N * list Z)) : list (N * list Z) :=
  map (fun e => (fst e, iter_set (snd e))) (iter_map m).
(* BTreeMap / BTreeSet: ascending = the list as it is *)
Definition render_unloaded_btree {N} (m : list (N * list Z)) : list (N * list Z) := render_unloaded (fun x => x) (fun x => x) m.

(* ---- the evil-json certificates from the parsed JSON object (round 5, second pass)
   `serde_json::from_str::<HashMap<String, Vec<String>>>(..)`: the members of the object in file order are inserted one after
   the other, a repeated certificate name REPLACES the earlier member (serde's map visitor: HashMap::insert).  Then the code
   collects the map in ITS iteration order (the parameter), sorts and folds (C13/Model.cert_of). *)
Section CertPipeline.
Context {C M : Type} (ceqb : C -> C -> bool).
Fixpoint hm_insert (c : C) (ms : list M) (m : list (C * list M)) : list (C * list M) :=
  match m with
  | [] => [(c, ms)]
  | (c', ms') :: t => if ceqb c c' then (c', ms) :: t else (c', ms') :: hm_insert c ms t
  end.
Definition hm_of_members (members : list (C * list M)) : list (C * list M) :=
  fold_left (fun m e => hm_insert (fst e) (snd e) m) members [].
(* the member of the JSON object that counts for a name: the last one written *)
Definition last_member (c : C) (members : list (C * list M)) : option (list M) :=
  fold_left (fun acc e => if ceqb c (fst e) then Some (snd e) else acc) members None.
Fixpoint hm_get (c : C) (m : list (C * list M)) : option (list M) :=
  match m with [] => None | (c', ms) :: t => if ceqb c c' then Some ms else hm_get c t end.
End CertPipeline.

Definition cert_pipeline (perm : list (bytes * list bytes) -> list (bytes * list bytes))
  (members : list (bytes * list bytes)) (module : bytes) : option bytes :=
  cert_of bytes_eqb bytes_ltb (perm (hm_of_members bytes_eqb members)) module.

(* ---- the proc_limits array of print_json with EVERYTHING it emits per entry (name, soft, hard, unit), not only the names
   (C13/Model.limits_json): C03's parser, the HashMap in an arbitrary iteration order, the sort by name, any formatter *)
Definition limits_render {R} (fmt : bytes * (limit * limit * bytes) -> R) (perm : list entry -> list entry) (data : bytes) : outcome (list R) :=
  do l <- limits_from data;
  Ret (render bytes_ltb fmt (map (fun e : entry => let '(n, s, h, u) := e in (n, (s, h, u))) (perm (to_map l)))).

(* ---- process_state.rs calculate_heuristics: `for (_, addr) in context.valid_registers() { if near(addr) { nearby += 1 }
   if !poison && repeated(addr) { if poison_byte(addr) { poison = true } } }` — the loop over the valid registers of the crashing
   context, for arbitrary predicates (round 5, second pass) *)
Definition register_scan (near pois : Z -> bool) (iter : list Z) : nat * bool :=
  fold_left (fun (acc : nat * bool) a => ((if near a then S (fst acc) else fst acc), (if negb (snd acc) && pois a then true else snd acc))) iter (O, false).

(* ---- processor.rs check_for_bitflips: possible_bit_flips = the candidates of the crashing address, then for every register of
   the crashing instruction (a BTreeSet<&str> that op_analysis filled operand by operand: [inserted] in that order) the
   candidates of its value — `get_register` may have nothing for a name ([cands] = [] then) *)
Definition bitflip_candidates {K B} (kltb : K -> K -> bool) (cands : K -> list B) (base : list B) (inserted : list K) : list B :=
  base ++ flat_map cands (oset_of_list kltb inserted).
(* the variant of seeded change C13-2 in the model's terms: the registers go through a hash container whose iteration order
   [iter] decides the order of the candidates *)
Definition bitflip_candidates_hash {K B} (iter : list K -> list K) (cands : K -> list B) (base : list B) (regs : list K) : list B :=
  base ++ flat_map cands (iter regs).
