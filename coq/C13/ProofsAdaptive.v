(* C13/ProofsAdaptive.v — the adaptive walks refine C12's fixed-list model on the configuration [fixed c atasks]
   (every task's list := the path its tree takes under the supplier's answers), for EVERY schedule. *)
From Coq Require Import Lia.
From RM Require Import C12.Model C12.Proofs C13.Sched C13.ProofsSched C13.Adaptive.

Section WithConfig.
Context {F : Type}.
Variable c : config.
Variable d : F.
Variable atasks : list (@atask F).
Let c' := fixed c atasks.
Let oc := outc c.

(* every cached value is the supplier's answer *)
Definition VOK (s : shared) : Prop := forall k o, value s k = Some o -> o = oc k.

Lemma VOK_complete t k s : VOK s -> VOK (complete c' t k s).
Proof.
  intros H k0 o. cbn [complete value]. unfold upd. destruct (Nat.eqb k0 k) eqn:E.
  - apply Nat.eqb_eq in E. subst k0. intros X. inversion X. reflexivity.
  - apply H.
Qed.
Lemma VOK_begin t k s : VOK s -> VOK (begin_call t k s).
Proof. intros H. exact H. Qed.
Lemma VOK_hit t k o s : VOK s -> VOK (hit t k o s).
Proof. intros H. exact H. Qed.

(* one poll of a task: the adaptive step IS C12's step on the path; the value at the end of the tree is kept *)
Lemma aadvance_sim t : forall (a : @atask F) ph s, VOK s ->
  advance c' t (apath oc a) ph s =
    (apath oc (fst (fst (aadvance c t a ph s))), snd (fst (aadvance c t a ph s)), snd (aadvance c t a ph s)) /\
  VOK (snd (aadvance c t a ph s)) /\
  aeval oc (fst (fst (aadvance c t a ph s))) = aeval oc a.
Proof.
  induction a as [f|k cont IH]; intros ph s HV.
  - cbn. repeat split; auto.
  - cbn [apath aeval]. fold oc.
    assert (Hs : susp c' k = susp c k) by reflexivity.
    assert (Hc : forall s0, complete c' t k s0 = complete c t k s0) by reflexivity.
    destruct ph as [| |[|m]].
    + cbn [advance aadvance]. destruct (lock s k) eqn:EL.
      * cbn. repeat split; auto.
      * destruct (value s k) as [o|] eqn:EV.
        -- pose proof (HV k o EV) as Ho. subst o. apply IH. apply VOK_hit. exact HV.
        -- rewrite Hs. destruct (susp c k).
           ++ rewrite <- Hc. apply IH. apply VOK_complete. apply VOK_begin. exact HV.
           ++ cbn. repeat split; auto.
    + cbn [advance aadvance]. destruct (lock s k) eqn:EL.
      * cbn. repeat split; auto.
      * destruct (value s k) as [o|] eqn:EV.
        -- pose proof (HV k o EV) as Ho. subst o. apply IH. apply VOK_hit. exact HV.
        -- rewrite Hs. destruct (susp c k).
           ++ rewrite <- Hc. apply IH. apply VOK_complete. apply VOK_begin. exact HV.
           ++ cbn. repeat split; auto.
    + cbn [advance aadvance]. rewrite <- Hc. apply IH. apply VOK_complete. exact HV.
    + cbn. repeat split; auto.
Qed.

(* the simulation relation between the adaptive system and C12's system on [c'] *)
Definition R (sa : @astate F) (s : state) : Prop :=
  ash sa = sh s /\
  (forall t, pcs s t = (apath oc (fst (apcs sa t)), snd (apcs sa t))) /\
  VOK (sh s) /\
  (forall t, aeval oc (fst (apcs sa t)) = aeval oc (nth t atasks (ADone d))).

Lemma R_init : R (ainit d atasks) (init c').
Proof.
  unfold R, ainit, init. cbn. repeat split.
  - intros t. unfold c', fixed. cbn [tasks].
    change (@nil key) with (apath oc (@ADone F d)). rewrite map_nth. reflexivity.
  - intros k o X. discriminate.
Qed.

Lemma R_poll t sa s : R sa s -> R (apoll c t sa) (poll c' t s).
Proof.
  intros [Hsh [Hp [HV He]]]. unfold apoll, poll.
  rewrite (Hp t). destruct (apcs sa t) as [a ph] eqn:Ea. cbn [fst snd].
  rewrite Hsh. rewrite <- Hsh in HV.
  destruct (aadvance_sim t a ph (ash sa) HV) as [A [B C]].
  rewrite Hsh in A. rewrite A. rewrite Hsh in B, C.
  destruct (aadvance c t a ph (sh s)) as [[a' ph'] s'] eqn:Eadv. cbn [fst snd] in *.
  unfold R. cbn [ash sh apcs pcs]. repeat split.
  - intros t0. unfold upd. destruct (Nat.eqb t0 t); [reflexivity|apply Hp].
  - exact B.
  - intros t0. unfold upd. destruct (Nat.eqb t0 t) eqn:E.
    + apply Nat.eqb_eq in E. subst t0. cbn [fst]. rewrite C. specialize (He t). rewrite Ea in He. exact He.
    + apply He.
Qed.

Lemma R_run sched : R (arun c d atasks sched) (run c' sched).
Proof.
  unfold arun, run, run_from.
  assert (G : forall l sa s, R sa s -> R (fold_left (fun s t => apoll c t s) l sa) (fold_left (fun s t => poll c' t s) l s)).
  { induction l as [|t l IH]; intros sa s H; cbn [fold_left]; [exact H|]. apply IH. apply R_poll. exact H. }
  apply G. apply R_init.
Qed.

(* ---- consequences *)
Lemma apath_nil_done (a : @atask F) : apath oc a = [] <-> exists f, a = ADone f.
Proof.
  destruct a as [f|k cont]; cbn; split; intros H.
  - exists f. reflexivity.
  - reflexivity.
  - discriminate.
  - destruct H as [f H]. discriminate.
Qed.

Lemma ntasks_fixed : ntasks c' = length atasks.
Proof. unfold ntasks, c', fixed. cbn [tasks]. apply map_length. Qed.

Lemma forallb_pointwise (f g : nat -> bool) (l : list nat) : (forall x, f x = g x) -> forallb f l = forallb g l.
Proof. intros H. induction l as [|x l IH]; cbn; [reflexivity|]. rewrite H, IH. reflexivity. Qed.

Lemma adone_all_done sched :
  aall_done (length atasks) (arun c d atasks sched) = all_done c' (run c' sched).
Proof.
  unfold aall_done, all_done. rewrite ntasks_fixed.
  destruct (R_run sched) as [_ [Hp _]].
  apply forallb_pointwise. intros t. unfold atask_done, task_done. rewrite (Hp t). cbn [fst].
  destruct (fst (apcs (arun c d atasks sched) t)); reflexivity.
Qed.

(* a finished walk returned the value at the end of the path that the supplier's answers select: a function of the
   tree and of [outc] alone — no schedule in it *)
Lemma aresult_determined sched t f :
  aresult (arun c d atasks sched) t = Some f -> f = aeval oc (nth t atasks (ADone d)).
Proof.
  destruct (R_run sched) as [_ [_ [_ He]]]. unfold aresult. specialize (He t).
  destruct (fst (apcs (arun c d atasks sched) t)) as [g|k cont]; intros X; inversion X. subst. exact He.
Qed.

Lemma aprocess_determined sched :
  aall_done (length atasks) (arun c d atasks sched) = true ->
  aprocess_threads c d atasks sched = map (fun a => Some (aeval oc a)) atasks.
Proof.
  intros Hd. unfold aprocess_threads.
  assert (E : forall t, t < length atasks ->
              aresult (arun c d atasks sched) t = Some (aeval oc (nth t atasks (ADone d)))).
  { intros t Ht. unfold aall_done in Hd. rewrite forallb_forall in Hd.
    assert (Hin : In t (seq 0 (length atasks))) by (apply in_seq; lia).
    specialize (Hd t Hin). unfold atask_done in Hd.
    pose proof (aresult_determined sched t) as X. unfold aresult in *.
    destruct (fst (apcs (arun c d atasks sched) t)) as [g|k cont]; [|discriminate].
    rewrite (X g eq_refl). reflexivity. }
  clear Hd. revert E. generalize (arun c d atasks sched). intros sa E.
  assert (G : forall (l : list (@atask F)) n, (forall i, i < length l -> aresult sa (n + i) = Some (aeval oc (nth i l (ADone d)))) ->
              map (aresult sa) (seq n (length l)) = map (fun a => Some (aeval oc a)) l).
  { induction l as [|a l IH]; intros n H; cbn; [reflexivity|].
    f_equal.
    - specialize (H 0). cbn in H. rewrite Nat.add_0_r in H. apply H. lia.
    - apply IH. intros i Hi. specialize (H (S i)). cbn in H. rewrite Nat.add_succ_r in H. apply H. lia. }
  apply (G atasks 0). intros i Hi. cbn. apply E. exact Hi.
Qed.

(* the answers every adaptive thread received, the supplier log and the stats map are those of C12's run on [c'] *)
Lemma ash_is_fixed_run sched : ash (arun c d atasks sched) = sh (run c' sched).
Proof. destruct (R_run sched) as [H _]. exact H. Qed.

End WithConfig.

(* schedule independence of the adaptive walks, all in one statement *)
Lemma adaptive_threads_independent {F} (c : config) (d : F) (atasks : list (@atask F)) s1 s2 :
  aall_done (length atasks) (arun c d atasks s1) = true ->
  aall_done (length atasks) (arun c d atasks s2) = true ->
  aprocess_threads c d atasks s1 = aprocess_threads c d atasks s2.
Proof. intros H1 H2. rewrite (aprocess_determined c d atasks s1 H1), (aprocess_determined c d atasks s2 H2). reflexivity. Qed.

Lemma adaptive_stats_independent {F} (c : config) (d : F) (atasks : list (@atask F)) s1 s2 leafname :
  leaf_injective (fixed c atasks) ->
  aall_done (length atasks) (arun c d atasks s1) = true ->
  aall_done (length atasks) (arun c d atasks s2) = true ->
  stats (ash (arun c d atasks s1)) leafname = stats (ash (arun c d atasks s2)) leafname.
Proof.
  intros HL H1 H2. rewrite (adone_all_done c d atasks) in H1, H2.
  rewrite !ash_is_fixed_run.
  exact (stats_independent (fixed c atasks) s1 s2 leafname HL H1 H2).
Qed.

(* the answer log of every adaptive thread at quiescence: its path, each key with the supplier's answer *)
Lemma adaptive_answers {F} (c : config) (d : F) (atasks : list (@atask F)) sched t :
  aall_done (length atasks) (arun c d atasks sched) = true -> t < length atasks ->
  results (ash (arun c d atasks sched)) t =
    map (fun k => (k, outc c k)) (apath (outc c) (nth t atasks (ADone d))).
Proof.
  intros H Ht. rewrite (adone_all_done c d atasks) in H. rewrite ash_is_fixed_run.
  rewrite (results_determined (fixed c atasks) sched t H). unfold fixed. cbn [tasks outc].
  change (@nil key) with (apath (outc c) (@ADone F d)). rewrite map_nth. reflexivity.
Qed.

(* the refinement, in one statement: shared Symbolizer state, every task's position and quiescence coincide with
   C12's run on the selected paths, poll for poll *)
Lemma adaptive_refines {F} (c : config) (d : F) (atasks : list (@atask F)) sched :
  ash (arun c d atasks sched) = sh (run (fixed c atasks) sched) /\
  (forall t, pcs (run (fixed c atasks) sched) t =
             (apath (outc c) (fst (apcs (arun c d atasks sched) t)), snd (apcs (arun c d atasks sched) t))) /\
  aall_done (length atasks) (arun c d atasks sched) = all_done (fixed c atasks) (run (fixed c atasks) sched).
Proof.
  destruct (R_run c d atasks sched) as [A [B _]].
  split; [exact A|]. split; [exact B|]. apply adone_all_done.
Qed.

(* the rendered `modules` stats fields after adaptive walks = the function of the configuration that C13/Sched.v specifies,
   taken at the selected paths *)
Lemma adaptive_render_modules {F} (c : config) (d : F) (atasks : list (@atask F)) sched mods :
  leaf_injective (fixed c atasks) ->
  aall_done (length atasks) (arun c d atasks sched) = true ->
  map (fun k => module_fields (stats (ash (arun c d atasks sched)) (leaf c k))) mods = modules_spec (fixed c atasks) mods.
Proof.
  intros HL H. rewrite (adone_all_done c d atasks) in H. rewrite ash_is_fixed_run.
  rewrite <- (render_modules_spec (fixed c atasks) sched mods HL H). reflexivity.
Qed.
