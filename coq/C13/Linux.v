(* C13/Linux.v — the Linux key/value text streams on the way to the report, and the collection of the
   per-thread walks.  Definitions only.

   Mirrors:
     minidump/src/minidump.rs  linux_list_iter (1268-1291): lines().filter_map(split_once(sep)) with both halves
        trimmed of ASCII whitespace and of one pair of surrounding double quotes; strings.rs
        trim_ascii_whitespace / split_once / lines
     minidump-processor/src/process_state.rs  impl From<MinidumpLinuxLsbRelease> for LinuxStandardBase (86-106):
        a fold over the lines IN FILE ORDER, every recognised key overwrites its field (last wins); the key -> field
        table is regenerated from the match arms (Gen/C13Sites.v lsb_aliases);  LinuxProcStatus::from (113-123):
        the FIRST `Pid` line, parse::<u32>() or 0;  print (582-588) the `Linux ...` line; print_json (971-976)
     minidump-processor/src/processor.rs  get_microcode_version (423-436): the FIRST `microcode` line,
        strip_prefix 0x, u64::from_str_radix(16);  into_process_state (1143-1216): the walks mutate their own
        slot of state.threads in place (iter_mut) under join_all
   [lsb_from_map] is the variant that first collects the lines into a HashMap and folds the map in its
   iteration order (an arbitrary permutation): refuted in Properties.v. *)
From RM Require Export Base.Word C03.Model.
From RM Require Export Gen.C13Sites.
Open Scope list_scope.
Open Scope Z_scope.

(* ASCII constants (checked against their spelling in Properties.v: c13_constants_spelled) *)
Definition N_ID : bytes := [105; 100].
Definition N_RELEASE : bytes := [114; 101; 108; 101; 97; 115; 101].
Definition N_CODENAME : bytes := [99; 111; 100; 101; 110; 97; 109; 101].
Definition N_DESCRIPTION : bytes := [100; 101; 115; 99; 114; 105; 112; 116; 105; 111; 110].
Definition K_PID : bytes := [80; 105; 100].
Definition K_MICROCODE : bytes := [109; 105; 99; 114; 111; 99; 111; 100; 101].
Definition T_LINUX : bytes := [76; 105; 110; 117; 120; 32].

(* u8::is_ascii_whitespace: U+0020, \t, \n, \x0C, \r  (not \x0B) *)
Definition is_ascii_ws (c : Z) : bool := (c =? 32) || (c =? 9) || (c =? 10) || (c =? 12) || (c =? 13).
Fixpoint trim_start_a (l : bytes) : bytes :=
  match l with [] => [] | c :: t => if is_ascii_ws c then trim_start_a t else l end.
Definition trim_a (l : bytes) : bytes := rev (trim_start_a (rev (trim_start_a l))).

(* strip_quotes: trim, then remove one pair of surrounding double quotes (a lone quote stays) *)
Definition strip_quotes (l : bytes) : bytes :=
  let t := trim_a l in
  match t with
  | 34 :: r => match rev r with 34 :: r' => rev r' | _ => t end
  | _ => t
  end.

Fixpoint split_once (sep : Z) (acc : bytes) (l : bytes) : option (bytes * bytes) :=
  match l with
  | [] => None
  | c :: t => if c =? sep then Some (rev acc, t) else split_once sep (c :: acc) t
  end.

Definition kv := (bytes * bytes)%type.
Definition kv_iter (sep : Z) (data : bytes) : list kv :=
  flat_map (fun line => match split_once sep [] line with
                        | Some (k, v) => [(strip_quotes k, strip_quotes v)]
                        | None => [] end) (split_on 10 [] data).

(* ---- LinuxStandardBase::from *)
Inductive fld := FId | FRelease | FCodename | FDescription.
Definition fld_eqb (a b : fld) : bool :=
  match a, b with FId, FId | FRelease, FRelease | FCodename, FCodename | FDescription, FDescription => true | _, _ => false end.
Definition fld_of_name (s : bytes) : option fld :=
  if bytes_eqb s N_ID then Some FId else if bytes_eqb s N_RELEASE then Some FRelease
  else if bytes_eqb s N_CODENAME then Some FCodename else if bytes_eqb s N_DESCRIPTION then Some FDescription else None.
(* the match: the first arm one of whose patterns equals the key *)
Definition field_of_key (k : bytes) : option fld :=
  match find (fun e : list bytes * bytes => existsb (fun a => bytes_eqb a k) (fst e)) lsb_alias_bytes with
  | Some e => fld_of_name (snd e)
  | None => None
  end.

Definition lsb := fld -> bytes.
Definition lsb_default : lsb := fun _ => [].
Definition lsb_set (f : fld) (v : bytes) (l : lsb) : lsb := fun g => if fld_eqb g f then v else l g.
Definition lsb_step (acc : lsb) (e : kv) : lsb :=
  match field_of_key (fst e) with Some f => lsb_set f (snd e) acc | None => acc end.
Definition lsb_fold (lines : list kv) : lsb := fold_left lsb_step lines lsb_default.
Definition lsb_from (data : bytes) : lsb := lsb_fold (kv_iter 61 data).

(* what the fold must compute: the value of the last line whose key feeds the field *)
Fixpoint last_value (f : fld) (lines : list kv) (acc : bytes) : bytes :=
  match lines with
  | [] => acc
  | e :: t => last_value f t (match field_of_key (fst e) with
                              | Some g => if fld_eqb f g then snd e else acc
                              | None => acc end)
  end.
Definition lsb_spec (lines : list kv) : lsb := fun f => last_value f lines [].

(* the HashMap variant: insert every line (a repeated key keeps its slot, last value wins), then fold the map
   in its iteration order [perm] *)
Fixpoint map_insert (k v : bytes) (m : list kv) : list kv :=
  match m with
  | [] => [(k, v)]
  | (k', v') :: t => if bytes_eqb k k' then (k, v) :: t else (k', v') :: map_insert k v t
  end.
Definition to_kv_map (lines : list kv) : list kv := fold_left (fun m e => map_insert (fst e) (snd e) m) lines [].
Definition lsb_from_map (perm : list kv -> list kv) (lines : list kv) : lsb := lsb_fold (perm (to_kv_map lines)).

(* print: Linux {id} {release} - {codename} ({description}) *)
Definition lsb_text_line (l : lsb) : bytes :=
  T_LINUX ++ l FId ++ [32] ++ l FRelease ++ [32; 45; 32] ++ l FCodename ++ [32; 40] ++ l FDescription ++ [41].
Definition lsb_json (l : lsb) : list bytes := [l FId; l FRelease; l FCodename; l FDescription].

(* ---- LinuxProcStatus::from: first `Pid`, parse::<u32>() or 0 *)
Fixpoint parse_dec (bound : Z) (acc : Z) (l : bytes) : option Z :=
  match l with
  | [] => Some acc
  | c :: t => if (48 <=? c) && (c <=? 57)
              then let acc' := acc * 10 + (c - 48) in if acc' <? bound then parse_dec bound acc' t else None
              else None
  end.
Definition parse_u32 (l : bytes) : option Z :=
  match l with
  | [] => None
  | 43 :: t => match t with [] => None | _ => parse_dec (2 ^ 32) 0 t end
  | _ => parse_dec (2 ^ 32) 0 l
  end.
Definition first_value (key : bytes) (lines : list kv) : option bytes :=
  match find (fun e : kv => bytes_eqb (fst e) key) lines with Some e => Some (snd e) | None => None end.
Definition pid_from (data : bytes) : Z :=
  match first_value K_PID (kv_iter 58 data) with
  | Some v => match parse_u32 v with Some n => n | None => 0 end
  | None => 0
  end.

(* ---- get_microcode_version: first `microcode`, 0x prefix, hex u64 *)
Definition hex_digit (c : Z) : option Z :=
  if (48 <=? c) && (c <=? 57) then Some (c - 48)
  else if (97 <=? c) && (c <=? 102) then Some (c - 87)
  else if (65 <=? c) && (c <=? 70) then Some (c - 55) else None.
Fixpoint parse_hex (acc : Z) (l : bytes) : option Z :=
  match l with
  | [] => Some acc
  | c :: t => match hex_digit c with
              | Some d => let acc' := acc * 16 + d in if acc' <? two64 then parse_hex acc' t else None
              | None => None end
  end.
Definition parse_hex_u64 (l : bytes) : option Z :=
  match l with
  | [] => None
  | 43 :: t => match t with [] => None | _ => parse_hex 0 t end
  | _ => parse_hex 0 l
  end.
Definition microcode_from (data : bytes) : option Z :=
  match first_value K_MICROCODE (kv_iter 58 data) with
  | Some (48 :: 120 :: t) => parse_hex_u64 t
  | _ => None
  end.

(* ---- the per-thread walks under join_all(state.threads.iter_mut()...): future i only ever touches slot i.
   An event (i, f) is one piece of progress of future i (one poll between two suspensions): it transforms
   slot i.  A schedule is any interleaving of the events. *)
Section InPlace.
Context {A : Type}.
Fixpoint upd_slot (i : nat) (f : A -> A) (l : list A) : list A :=
  match l, i with
  | [], _ => []
  | x :: t, O => f x :: t
  | x :: t, S j => x :: upd_slot j f t
  end.
Definition run_events (evs : list (nat * (A -> A))) (l : list A) : list A :=
  fold_left (fun l e => upd_slot (fst e) (snd e) l) evs l.
Definition events_of (i : nat) (evs : list (nat * (A -> A))) : list (A -> A) :=
  map snd (filter (fun e => Nat.eqb (fst e) i) evs).
Definition apply_all (fs : list (A -> A)) (x : A) : A := fold_left (fun x f => f x) fs x.
Fixpoint mapi_from {B} (n : nat) (f : nat -> A -> B) (l : list A) : list B :=
  match l with [] => [] | x :: t => f n x :: mapi_from (S n) f t end.
End InPlace.

(* the other way to collect: every walk returns its stack, the results are gathered as they complete
   (stream::iter(..).buffer_unordered(n).collect()) *)
Definition collect_unordered {A} (res : nat -> A) (completion : list nat) : list A := map res completion.
