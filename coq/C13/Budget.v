(* C13/Budget.v — what a per-thread future does between the end of its walk_stack and its completion, when that
   step touches state shared by all the futures of into_process_state (round 5).
   minidump-processor/src/processor.rs into_process_state: the closure body of the join_all is
        walk_stack(..).await;  <post-walk statements>;  stack
   with no await after walk_stack (pinned: Gen/C13Sites.v walk_future_steps), so the post-walk statements of future i
   run as ONE atomic step at the moment walk i finishes: [post s i frames] = (shared state afterwards, the frames
   future i leaves in slot i).  The order in which these steps run is the completion order of the walks — the
   supplier's schedule, not the thread index.  Definitions only. *)
From RM Require Export C13.Model.
Close Scope Z_scope.
Open Scope nat_scope.

Section Post.
Context {S F : Type}.
Variable post : S -> nat -> F -> S * F.

(* [comp]: the indices of the walks in the order they finish; [out]: the slots of state.threads *)
Fixpoint finish (frames : nat -> F) (s : S) (comp : list nat) (out : nat -> option F) : S * (nat -> option F) :=
  match comp with
  | [] => (s, out)
  | i :: rest => finish frames (fst (post s i (frames i))) rest (updf out i (snd (post s i (frames i))))
  end.
Definition finish_threads (n : nat) (frames : nat -> F) (s : S) (comp : list nat) : list (option F) :=
  map (snd (finish frames s comp (fun _ => None))) (seq 0 n).

(* the post-walk steps of two different futures commute: same shared state afterwards, same frames for both *)
Definition posts_commute : Prop :=
  forall s i j f g, i <> j ->
    let a := post s i f in let b := post (fst a) j g in
    let a' := post s j g in let b' := post (fst a') i f in
    fst b = fst b' /\ snd a = snd b' /\ snd b = snd a'.
(* the post-walk step does not write shared state at all (today's code: every capture is a shared `&` to data that
   nobody mutates, the Symbolizer is only used inside walk_stack, the stat reporter never reaches the report) *)
Definition post_readonly : Prop := forall s i f, fst (post s i f) = s.
End Post.

(* ---- instances *)
(* seeded C13-8 (and every "per-dump budget charged when the walk finishes"): what is left of the budget is taken by
   the walks first come, first served; a thread that finds too little keeps max(left, 1) frames *)
Definition budget_post {A} (left : nat) (i : nat) (frames : list A) : nat * list A :=
  (left - length frames, if Nat.ltb left (length frames) then firstn (Nat.max left 1) frames else frames).
(* the stat reporter's inc_processed_threads: mutates shared state, commutes, leaves the frames alone *)
Definition counter_post {A} (count : nat) (i : nat) (frames : A) : nat * A := (S count, frames).
(* the budget charged in thread-list order after the join (what a deterministic bound looks like): [comp] is not used *)
Definition budget_by_index {A} (n left : nat) (frames : nat -> list A) : list (option (list A)) :=
  finish_threads budget_post n frames left (seq 0 n).
