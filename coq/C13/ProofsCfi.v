(* C13/ProofsCfi.v — the caller's registers after walk_with_stack_cfi are a function of the written rules alone
   (sorted by name: yes, for every walker, aliases or not; sorted by a sequence number that is not unique: no). *)
From Coq Require Import Lia Sorting.Permutation.
From RM Require Import C13.Model C13.Proofs C13.Cfi.
Close Scope Z_scope.
Open Scope nat_scope.

Section Cfi.
Context {K E W : Type} (keqb : K -> K -> bool).
Hypothesis keqb_spec : forall a b, keqb a b = true <-> a = b.

Lemma map_insert_keys {V} k (v : V) m k' :
  In k' (map fst (map_insert keqb k v m)) -> k' = k \/ In k' (map fst m).
Proof.
  induction m as [|[k0 v0] t IH]; cbn [map_insert map fst].
  - intros [H|[]]. left. symmetry. exact H.
  - destruct (keqb k k0) eqn:Ek; cbn [map fst].
    + apply keqb_spec in Ek. subst k0. intros [H|H]; [left; symmetry; exact H|right; right; exact H].
    + intros [H|H]; [right; left; exact H|]. destruct (IH H) as [X|X]; [left; exact X|right; right; exact X].
Qed.

Lemma map_insert_nodup {V} k (v : V) m : NoDup (map fst m) -> NoDup (map fst (map_insert keqb k v m)).
Proof.
  induction m as [|[k0 v0] t IH]; cbn [map_insert map fst]; intros H.
  - constructor; [intros []|constructor].
  - inversion H as [|? ? Hn Ht]; subst. destruct (keqb k k0) eqn:Ek; cbn [map fst].
    + apply keqb_spec in Ek. subst k0. constructor; assumption.
    + constructor; [|apply IH; exact Ht].
      intros Hin. destruct (map_insert_keys k v t k0 Hin) as [X|X]; [|contradiction].
      subst k0. assert (keqb k k = true) by (apply keqb_spec; reflexivity). congruence.
Qed.

Lemma fold_insert_nodup {V} (f : list (K * V) -> K * E -> V) : forall written m, NoDup (map fst m) ->
  NoDup (map fst (fold_left (fun m r => map_insert keqb (fst r) (f m r) m) written m)).
Proof.
  induction written as [|r t IH]; intros m H; cbn [fold_left]; [exact H|]. apply IH. apply map_insert_nodup. exact H.
Qed.

Lemma cfi_map_nodup (written : list (K * E)) : NoDup (map fst (cfi_map keqb written)).
Proof. unfold cfi_map. apply (fold_insert_nodup (fun _ r => snd r)). constructor. Qed.

(* HashMap::get after the inserts: the LAST written rule of the register *)
Fixpoint lookup {V} (k : K) (m : list (K * V)) : option V :=
  match m with [] => None | (k', v) :: t => if keqb k k' then Some v else lookup k t end.

Lemma lookup_insert {V} k (v : V) m k' :
  lookup k' (map_insert keqb k v m) = if keqb k' k then Some v else lookup k' m.
Proof.
  induction m as [|[k0 v0] t IH]; cbn [map_insert lookup].
  - reflexivity.
  - destruct (keqb k k0) eqn:Ek; cbn [lookup].
    + apply keqb_spec in Ek. subst k0. destruct (keqb k' k); reflexivity.
    + rewrite IH. destruct (keqb k' k0) eqn:E0; [|reflexivity].
      destruct (keqb k' k) eqn:E1; [|reflexivity].
      apply keqb_spec in E0, E1. subst. assert (keqb k0 k0 = true) by (apply keqb_spec; reflexivity). congruence.
Qed.

Lemma cfi_map_last_wins (written : list (K * E)) k :
  lookup k (cfi_map keqb written) = lookup k (rev written).
Proof.
  induction written as [|[k0 e0] t IH] using rev_ind; [reflexivity|].
  unfold cfi_map. rewrite fold_left_app. cbn [fold_left fst snd]. fold (cfi_map keqb t).
  rewrite lookup_insert, rev_app_distr. cbn [rev app lookup]. rewrite IH. reflexivity.
Qed.

Section Sorted.
Variable ltb : K -> K -> bool.
Hypothesis ltb_irrefl : forall a, ltb a a = false.
Hypothesis ltb_trans : forall a b c, ltb a b = true -> ltb b c = true -> ltb a c = true.
Hypothesis ltb_total : forall a b, ltb a b = false -> ltb b a = false -> a = b.

Lemma walk_cfi_order_independent (step : K -> E -> W -> W) (iter1 iter2 : list (K * E) -> list (K * E)) written w :
  Permutation (iter1 (cfi_map keqb written)) (cfi_map keqb written) ->
  Permutation (iter2 (cfi_map keqb written)) (cfi_map keqb written) ->
  walk_cfi keqb ltb step iter1 written w = walk_cfi keqb ltb step iter2 written w.
Proof.
  intros P1 P2. unfold walk_cfi. f_equal.
  apply (sort_perm_invariant ltb ltb_irrefl ltb_trans ltb_total).
  - eapply Permutation_trans; [exact P1|apply Permutation_sym; exact P2].
  - eapply Permutation_NoDup; [apply Permutation_map; apply Permutation_sym; exact P1|apply cfi_map_nodup].
Qed.
End Sorted.
End Cfi.

(* ---- the sequence-number variant: INIT `x29: 1`, delta `x29: 2 fp: 3`, fp (name 129) and x29 (name 29) one register *)
Definition arm64_slot (name : nat) : nat := if Nat.eqb name 129 then 29 else name.

Lemma walk_cfi_seq_depends :
  let written := [(29, 1); (29, 2); (129, 3)] in
  map snd (cfi_map_seq Nat.eqb written) = [(1, 2); (1, 3)] /\
  walk_cfi_seq Nat.eqb (alias_step arm64_slot) (fun m => m) written (fun _ => None) 29 = Some 3 /\
  walk_cfi_seq Nat.eqb (alias_step arm64_slot) (@rev _) written (fun _ => None) 29 = Some 2.
Proof. cbv zeta. repeat split. Qed.

Lemma nat_ltb_irrefl a : Nat.ltb a a = false.
Proof. apply Nat.ltb_irrefl. Qed.
Lemma nat_ltb_trans a b c : Nat.ltb a b = true -> Nat.ltb b c = true -> Nat.ltb a c = true.
Proof. rewrite !Nat.ltb_lt. lia. Qed.
Lemma nat_ltb_total a b : Nat.ltb a b = false -> Nat.ltb b a = false -> a = b.
Proof. rewrite !Nat.ltb_ge. lia. Qed.

(* ---- the arm64 instance that the Q cases compare with the real unwinder: no hypothesis left *)
From RM Require Import C13.ProofsLimits.
Lemma bytes_eqb_spec a b : bytes_eqb a b = true <-> a = b.
Proof. split; [apply bytes_eqb_true|intros ->; apply bytes_eqb_refl]. Qed.

Lemma arch_walk_order_independent (t : arch_tables) (iter1 iter2 : list (bytes * option Z) -> list (bytes * option Z)) written callee :
  Permutation (iter1 (cfi_map bytes_eqb written)) (cfi_map bytes_eqb written) ->
  Permutation (iter2 (cfi_map bytes_eqb written)) (cfi_map bytes_eqb written) ->
  arch_walk t iter1 written callee = arch_walk t iter2 written callee.
Proof.
  intros P1 P2. unfold arch_walk.
  exact (walk_cfi_order_independent bytes_eqb bytes_eqb_spec bytes_ltb bytes_ltb_irrefl bytes_ltb_trans bytes_ltb_total
           (arch_step t) iter1 iter2 written (arch_forwarded t callee) P1 P2).
Qed.

Lemma a64_walk_order_independent (iter1 iter2 : list (bytes * option Z) -> list (bytes * option Z)) written callee :
  Permutation (iter1 (cfi_map bytes_eqb written)) (cfi_map bytes_eqb written) ->
  Permutation (iter2 (cfi_map bytes_eqb written)) (cfi_map bytes_eqb written) ->
  a64_walk iter1 written callee = a64_walk iter2 written callee.
Proof. exact (arch_walk_order_independent a64_tables iter1 iter2 written callee). Qed.

(* ---- MultiSymbolProvider::stats: what a lookup in the merged map returns does not depend on the iteration order of any
   provider's map: the last provider (in Vec order) that has the key decides *)
Section Merge.
Context {K V : Type} (keqb : K -> K -> bool).
Hypothesis keqb_spec : forall a b, keqb a b = true <-> a = b.

Lemma lookup_fold_insert : forall (l m : list (K * V)) k,
  lookup keqb k (fold_left (fun m r => map_insert keqb (fst r) (snd r) m) l m) =
  match lookup keqb k (rev l) with Some v => Some v | None => lookup keqb k m end.
Proof.
  induction l as [|[k0 v0] t IH] using rev_ind; intros m k; [reflexivity|].
  rewrite fold_left_app. cbn [fold_left fst snd]. rewrite (lookup_insert keqb keqb_spec).
  rewrite rev_app_distr. cbn [rev app lookup]. destruct (keqb k k0); [reflexivity|apply IH].
Qed.

Lemma lookup_app (l1 l2 : list (K * V)) k :
  lookup keqb k (l1 ++ l2) = match lookup keqb k l1 with Some v => Some v | None => lookup keqb k l2 end.
Proof. induction l1 as [|[k0 v0] t IH]; cbn [app lookup]; [reflexivity|]. destruct (keqb k k0); [reflexivity|exact IH]. Qed.

Lemma lookup_not_in (l : list (K * V)) k : ~ In k (map fst l) -> lookup keqb k l = None.
Proof.
  induction l as [|[k0 v0] t IH]; cbn [lookup map fst]; intros H; [reflexivity|].
  destruct (keqb k k0) eqn:E; [apply keqb_spec in E; subst; exfalso; apply H; left; reflexivity|].
  apply IH. intros X. apply H. right. exact X.
Qed.

(* a map has one entry per key: looking a key up does not depend on the order its entries are listed in *)
Lemma lookup_perm (l l' : list (K * V)) k :
  Permutation l l' -> NoDup (map fst l) -> lookup keqb k l = lookup keqb k l'.
Proof.
  induction 1 as [|[k0 v0] l l' HP IH|[k1 v1] [k2 v2] l|l l' l'' H1 IH1 H2 IH2]; intros ND.
  - reflexivity.
  - cbn [lookup]. inversion ND; subst. destruct (keqb k k0); [reflexivity|apply IH; assumption].
  - cbn [lookup]. cbn [map fst] in ND. inversion ND as [|? ? Hn ND']; subst.
    destruct (keqb k k1) eqn:E1; destruct (keqb k k2) eqn:E2; try reflexivity.
    apply keqb_spec in E1, E2. subst. exfalso. apply Hn. left. reflexivity.
  - rewrite IH1 by assumption. apply IH2. eapply Permutation_NoDup; [apply Permutation_map; exact H1|exact ND].
Qed.

Lemma lookup_rev (l : list (K * V)) k : NoDup (map fst l) -> lookup keqb k (rev l) = lookup keqb k l.
Proof. intros ND. symmetry. apply lookup_perm; [apply Permutation_rev|exact ND]. Qed.

(* the merged map, as a function: the last provider that knows the key *)
Fixpoint merged_spec (maps : list (list (K * V))) (k : K) : option V :=
  match maps with
  | [] => None
  | m :: rest => match merged_spec rest k with Some v => Some v | None => lookup keqb k m end
  end.

Lemma merge_stats_spec : forall (maps : list (list (K * V))) k,
  Forall (fun m => NoDup (map fst m)) maps ->
  lookup keqb k (merge_stats keqb maps) = merged_spec maps k.
Proof.
  intros maps k HF. unfold merge_stats. rewrite lookup_fold_insert. cbn [lookup].
  induction HF as [|m rest Hm HF IH]; [reflexivity|].
  cbn [concat merged_spec]. rewrite rev_app_distr, lookup_app.
  destruct (lookup keqb k (rev (concat rest))) as [v|] eqn:E.
  - rewrite <- IH. reflexivity.
  - rewrite <- IH. rewrite (lookup_rev m k Hm). destruct (lookup keqb k m); reflexivity.
Qed.

Lemma merge_stats_order_independent (maps its1 its2 : list (list (K * V))) k :
  Forall (fun m => NoDup (map fst m)) maps ->
  Forall2 (@Permutation _) its1 maps -> Forall2 (@Permutation _) its2 maps ->
  lookup keqb k (merge_stats keqb its1) = lookup keqb k (merge_stats keqb its2).
Proof.
  intros HF P1 P2.
  assert (G : forall its, Forall2 (@Permutation _) its maps ->
              Forall (fun m => NoDup (map fst m)) its /\ merged_spec its k = merged_spec maps k).
  { clear P1 P2. intros its P. induction P as [|i m its' maps' Him P IH]; [split; [constructor|reflexivity]|].
    inversion HF as [|? ? Hm HF']; subst. destruct (IH HF') as [A B].
    assert (Hi : NoDup (map fst i)) by (eapply Permutation_NoDup; [apply Permutation_map; apply Permutation_sym; exact Him|exact Hm]).
    split; [constructor; assumption|]. cbn [merged_spec]. rewrite B. rewrite (lookup_perm i m k Him Hi). reflexivity. }
  destruct (G its1 P1) as [A1 B1]. destruct (G its2 P2) as [A2 B2].
  rewrite (merge_stats_spec its1 k A1), (merge_stats_spec its2 k A2), B1, B2. reflexivity.
Qed.
End Merge.
