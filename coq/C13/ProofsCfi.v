(* C13/ProofsCfi.v — the caller's registers after walk_with_stack_cfi are a function of the written rules alone
   (sorted by name: yes, for every walker, aliases or not; sorted by a sequence number that is not unique: no). *)
From Coq Require Import Lia Sorting.Permutation.
From RM Require Import C13.Model C13.Proofs C13.Cfi.
Close Scope Z_scope.
Open Scope nat_scope.

Section Cfi.
Context {K E W : Type} (keqb : K -> K -> bool).
Hypothesis keqb_spec : forall a b, keqb a b = true <-> a = b.

Lemma map_insert_keys {V} k (v : V) m k' :
  In k' (map fst (map_insert keqb k v m)) -> k' = k \/ In k' (map fst m).
Proof.
  induction m as [|[k0 v0] t IH]; cbn [map_insert map fst].
  - intros [H|[]]. left. symmetry. exact H.
  - destruct (keqb k k0) eqn:Ek; cbn [map fst].
    + apply keqb_spec in Ek. subst k0. intros [H|H]; [left; symmetry; exact H|right; right; exact H].
    + intros [H|H]; [right; left; exact H|]. destruct (IH H) as [X|X]; [left; exact X|right; right; exact X].
Qed.

Lemma map_insert_nodup {V} k (v : V) m : NoDup (map fst m) -> NoDup (map fst (map_insert keqb k v m)).
Proof.
  induction m as [|[k0 v0] t IH]; cbn [map_insert map fst]; intros H.
  - constructor; [intros []|constructor].
  - inversion H as [|? ? Hn Ht]; subst. destruct (keqb k k0) eqn:Ek; cbn [map fst].
    + apply keqb_spec in Ek. subst k0. constructor; assumption.
    + constructor; [|apply IH; exact Ht].
      intros Hin. destruct (map_insert_keys k v t k0 Hin) as [X|X]; [|contradiction].
      subst k0. assert (keqb k k = true) by (apply keqb_spec; reflexivity). congruence.
Qed.

Lemma fold_insert_nodup {V} (f : list (K * V) -> K * E -> V) : forall written m, NoDup (map fst m) ->
  NoDup (map fst (fold_left (fun m r => map_insert keqb (fst r) (f m r) m) written m)).
Proof.
  induction written as [|r t IH]; intros m H; cbn [fold_left]; [exact H|]. apply IH. apply map_insert_nodup. exact H.
Qed.

Lemma cfi_map_nodup (written : list (K * E)) : NoDup (map fst (cfi_map keqb written)).
Proof. unfold cfi_map. apply (fold_insert_nodup (fun _ r => snd r)). constructor. Qed.

(* HashMap::get after the inserts: the LAST written rule of the register *)
Fixpoint lookup {V} (k : K) (m : list (K * V)) : option V :=
  match m with [] => None | (k', v) :: t => if keqb k k' then Some v else lookup k t end.

Lemma lookup_insert {V} k (v : V) m k' :
  lookup k' (map_insert keqb k v m) = if keqb k' k then Some v else lookup k' m.
Proof.
  induction m as [|[k0 v0] t IH]; cbn [map_insert lookup].
  - reflexivity.
  - destruct (keqb k k0) eqn:Ek; cbn [lookup].
    + apply keqb_spec in Ek. subst k0. destruct (keqb k' k); reflexivity.
    + rewrite IH. destruct (keqb k' k0) eqn:E0; [|reflexivity].
      destruct (keqb k' k) eqn:E1; [|reflexivity].
      apply keqb_spec in E0, E1. subst. assert (keqb k0 k0 = true) by (apply keqb_spec; reflexivity). congruence.
Qed.

Lemma cfi_map_last_wins (written : list (K * E)) k :
  lookup k (cfi_map keqb written) = lookup k (rev written).
Proof.
  induction written as [|[k0 e0] t IH] using rev_ind; [reflexivity|].
  unfold cfi_map. rewrite fold_left_app. cbn [fold_left fst snd]. fold (cfi_map keqb t).
  rewrite lookup_insert, rev_app_distr. cbn [rev app lookup]. rewrite IH. reflexivity.
Qed.

Section Sorted.
Variable ltb : K -> K -> bool.
Hypothesis ltb_irrefl : forall a, ltb a a = false.
Hypothesis ltb_trans : forall a b c, ltb a b = true -> ltb b c = true -> ltb a c = true.
Hypothesis ltb_total : forall a b, ltb a b = false -> ltb b a = false -> a = b.

Lemma walk_cfi_order_independent (step : K -> E -> W -> W) (iter1 iter2 : list (K * E) -> list (K * E)) written w :
  Permutation (iter1 (cfi_map keqb written)) (cfi_map keqb written) ->
  Permutation (iter2 (cfi_map keqb written)) (cfi_map keqb written) ->
  walk_cfi keqb ltb step iter1 written w = walk_cfi keqb ltb step iter2 written w.
Proof.
  intros P1 P2. unfold walk_cfi. f_equal.
  apply (sort_perm_invariant ltb ltb_irrefl ltb_trans ltb_total).
  - eapply Permutation_trans; [exact P1|apply Permutation_sym; exact P2].
  - eapply Permutation_NoDup; [apply Permutation_map; apply Permutation_sym; exact P1|apply cfi_map_nodup].
Qed.
End Sorted.
End Cfi.

(* ---- the sequence-number variant: INIT `x29: 1`, delta `x29: 2 fp: 3`, fp (name 129) and x29 (name 29) one register *)
Definition arm64_slot (name : nat) : nat := if Nat.eqb name 129 then 29 else name.

Lemma walk_cfi_seq_depends :
  let written := [(29, 1); (29, 2); (129, 3)] in
  map snd (cfi_map_seq Nat.eqb written) = [(1, 2); (1, 3)] /\
  walk_cfi_seq Nat.eqb (alias_step arm64_slot) (fun m => m) written (fun _ => None) 29 = Some 3 /\
  walk_cfi_seq Nat.eqb (alias_step arm64_slot) (@rev _) written (fun _ => None) 29 = Some 2.
Proof. cbv zeta. repeat split. Qed.

Lemma nat_ltb_irrefl a : Nat.ltb a a = false.
Proof. apply Nat.ltb_irrefl. Qed.
Lemma nat_ltb_trans a b c : Nat.ltb a b = true -> Nat.ltb b c = true -> Nat.ltb a c = true.
Proof. rewrite !Nat.ltb_lt. lia. Qed.
Lemma nat_ltb_total a b : Nat.ltb a b = false -> Nat.ltb b a = false -> a = b.
Proof. rewrite !Nat.ltb_ge. lia. Qed.

(* ---- the arm64 instance that the Q cases compare with the real unwinder: no hypothesis left *)
From RM Require Import C13.ProofsLimits.
Lemma bytes_eqb_spec a b : bytes_eqb a b = true <-> a = b.
Proof. split; [apply bytes_eqb_true|intros ->; apply bytes_eqb_refl]. Qed.

Lemma a64_walk_order_independent (iter1 iter2 : list (bytes * option Z) -> list (bytes * option Z)) written callee :
  Permutation (iter1 (cfi_map bytes_eqb written)) (cfi_map bytes_eqb written) ->
  Permutation (iter2 (cfi_map bytes_eqb written)) (cfi_map bytes_eqb written) ->
  a64_walk iter1 written callee = a64_walk iter2 written callee.
Proof.
  intros P1 P2. unfold a64_walk.
  exact (walk_cfi_order_independent bytes_eqb bytes_eqb_spec bytes_ltb bytes_ltb_irrefl bytes_ltb_trans bytes_ltb_total
           a64_step iter1 iter2 written (a64_forwarded callee) P1 P2).
Qed.
