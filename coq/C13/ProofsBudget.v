(* C13/ProofsBudget.v — the thread list after the post-walk steps is the same for every completion order iff those
   steps commute; read-only steps do, a first-come-first-served budget does not. *)
From Coq Require Import Lia Sorting.Permutation.
From RM Require Import C13.Model C13.Budget.
Close Scope Z_scope.
Open Scope nat_scope.

Section Post.
Context {S F : Type}.
Variable post : S -> nat -> F -> S * F.
Variable frames : nat -> F.

Lemma finish_ext : forall comp s o1 o2, (forall j, o1 j = o2 j) ->
  fst (finish post frames s comp o1) = fst (finish post frames s comp o2) /\
  forall j, snd (finish post frames s comp o1) j = snd (finish post frames s comp o2) j.
Proof.
  induction comp as [|i rest IH]; intros s o1 o2 H; cbn [finish].
  - split; [reflexivity|exact H].
  - apply IH. intros j. unfold updf. destruct (Nat.eqb j i); [reflexivity|apply H].
Qed.

Lemma finish_perm : posts_commute post -> forall c1 c2, Permutation c1 c2 -> NoDup c1 ->
  forall s o1 o2, (forall j, o1 j = o2 j) ->
  fst (finish post frames s c1 o1) = fst (finish post frames s c2 o2) /\
  forall j, snd (finish post frames s c1 o1) j = snd (finish post frames s c2 o2) j.
Proof.
  intros HC c1 c2 HP. induction HP as [|x l l' HP IH|x y l|l l' l'' HP1 IH1 HP2 IH2]; intros ND s o1 o2 H.
  - cbn. split; [reflexivity|exact H].
  - cbn [finish]. inversion ND; subst. apply IH; [assumption|].
    intros j. unfold updf. destruct (Nat.eqb j x); [reflexivity|apply H].
  - cbn [finish]. inversion ND as [|? ? Hn ND']; subst.
    assert (Hxy : y <> x) by (intros E; apply Hn; left; symmetry; exact E).
    destruct (HC s y x (frames y) (frames x) Hxy) as [A [B C]]. cbv zeta in A, B, C.
    rewrite A. apply finish_ext. intros j. unfold updf.
    destruct (Nat.eqb j x) eqn:Ex; destruct (Nat.eqb j y) eqn:Ey.
    + apply Nat.eqb_eq in Ex, Ey. subst. contradiction.
    + rewrite C. reflexivity.
    + rewrite B. reflexivity.
    + apply H.
  - destruct (IH1 ND s o1 o2 H) as [A B].
    assert (ND' : NoDup l') by (eapply Permutation_NoDup; eassumption).
    destruct (IH2 ND' s o2 o2 (fun j => eq_refl)) as [A' B'].
    split; [congruence|]. intros j. rewrite B. apply B'.
Qed.

(* every completion order of the n walks gives the same thread list (and the same shared state at the end) *)
Lemma finish_threads_commute n s c1 c2 :
  posts_commute post -> Permutation c1 (seq 0 n) -> Permutation c2 (seq 0 n) ->
  finish_threads post n frames s c1 = finish_threads post n frames s c2 /\
  fst (finish post frames s c1 (fun _ => None)) = fst (finish post frames s c2 (fun _ => None)).
Proof.
  intros HC P1 P2.
  assert (P : Permutation c1 c2) by (eapply Permutation_trans; [exact P1|apply Permutation_sym; exact P2]).
  assert (ND : NoDup c1) by (eapply Permutation_NoDup; [apply Permutation_sym; exact P1|apply seq_NoDup]).
  destruct (finish_perm HC c1 c2 P ND s (fun _ => None) (fun _ => None) (fun j => eq_refl)) as [A B].
  split; [|exact A]. unfold finish_threads. apply map_ext. exact B.
Qed.

Lemma readonly_commute : post_readonly post -> posts_commute post.
Proof.
  intros HR s i j f g Hij. cbv zeta. rewrite (HR s i f), (HR s j g), (HR s i f). repeat split; reflexivity.
Qed.

(* closed form for read-only post-walk steps: slot i = future i's own step on its own frames *)
Lemma finish_readonly : post_readonly post -> forall comp s out,
  fst (finish post frames s comp out) = s /\
  forall j, snd (finish post frames s comp out) j =
            if in_dec Nat.eq_dec j comp then Some (snd (post s j (frames j))) else out j.
Proof.
  intros HR. induction comp as [|i rest IH]; intros s out; cbn [finish].
  - split; [reflexivity|]. intros j. destruct (in_dec Nat.eq_dec j []) as [[]|]; reflexivity.
  - rewrite (HR s i (frames i)). destruct (IH s (updf out i (snd (post s i (frames i))))) as [A B]. split; [exact A|].
    intros j. rewrite B. unfold updf.
    destruct (in_dec Nat.eq_dec j rest) as [Hin|Hin]; destruct (in_dec Nat.eq_dec j (i :: rest)) as [Hin'|Hin'].
    + reflexivity.
    + exfalso. apply Hin'. right. exact Hin.
    + destruct Hin' as [E|E]; [subst; rewrite Nat.eqb_refl; reflexivity|contradiction].
    + destruct (Nat.eqb j i) eqn:E; [|reflexivity]. apply Nat.eqb_eq in E. subst. exfalso. apply Hin'. left. reflexivity.
Qed.

Lemma finish_threads_readonly n s comp :
  post_readonly post -> (forall i, i < n -> In i comp) ->
  finish_threads post n frames s comp = map (fun i => Some (snd (post s i (frames i)))) (seq 0 n).
Proof.
  intros HR Hc. unfold finish_threads. apply map_ext_in. intros j Hj. apply in_seq in Hj.
  destruct (finish_readonly HR comp s (fun _ => None)) as [_ B]. rewrite B.
  destruct (in_dec Nat.eq_dec j comp) as [|Hn]; [reflexivity|]. exfalso. apply Hn. apply Hc. lia.
Qed.
End Post.

(* the reporter's counter commutes *)
Lemma counter_commutes {A} : posts_commute (@counter_post A).
Proof. intros s i j f g _. cbv. repeat split; reflexivity. Qed.

(* the first-come-first-served budget does not: budget 3, two threads with 2 frames each *)
Lemma budget_depends :
  finish_threads budget_post 2 (fun _ => [7; 7]) 3 [0; 1] = [Some [7; 7]; Some [7]] /\
  finish_threads budget_post 2 (fun _ => [7; 7]) 3 [1; 0] = [Some [7]; Some [7; 7]].
Proof. split; reflexivity. Qed.

Lemma budget_not_commute : ~ posts_commute (@budget_post nat).
Proof.
  intros H. destruct (H 3 0 1 [7; 7] [7; 7] ltac:(discriminate)) as [_ [B _]]. cbv in B. discriminate.
Qed.
