(* C13/ProofsUnloaded.v — the per-frame unloaded-module map does not depend on the order in which the overlapping
   modules are visited; with hash containers it would.  The evil-json certificate pipeline from the JSON members. *)
From Coq Require Import Lia Sorting.Permutation.
From RM Require Import C13.Model C13.Proofs C13.ProofsLimits C13.Unloaded.
Open Scope Z_scope.

(* ---- BTreeSet<u64>::insert *)
Lemma set_insert_comm x y l : set_insert x (set_insert y l) = set_insert y (set_insert x l).
Proof.
  induction l as [|z t IH]; cbn [set_insert].
  - destruct (Z.ltb_spec y x), (Z.ltb_spec x y); cbn [set_insert];
      repeat match goal with |- context [?a <? ?b] => destruct (Z.ltb_spec a b) end; try lia; try reflexivity.
    assert (x = y) by lia. subst. reflexivity.
  - destruct (Z.ltb_spec y z), (Z.ltb_spec z y), (Z.ltb_spec x z), (Z.ltb_spec z x); try lia; cbn [set_insert];
      repeat match goal with |- context [?a <? ?b] => destruct (Z.ltb_spec a b) end; try lia; try reflexivity;
      try (rewrite IH; reflexivity).
    all: try (assert (x = y) by lia; subst; reflexivity).
Qed.

Lemma set_insert_in x y l : In y (set_insert x l) <-> y = x \/ In y l.
Proof.
  induction l as [|z t IH]; cbn [set_insert In].
  - intuition.
  - destruct (Z.ltb_spec x z); [cbn [In]; intuition|].
    destruct (Z.ltb_spec z x); cbn [In].
    + rewrite IH. intuition.
    + assert (x = z) by lia. subst. intuition.
Qed.

Fixpoint zsorted (l : list Z) : Prop :=
  match l with [] => True | x :: t => (forall y, In y t -> x < y) /\ zsorted t end.
Lemma set_insert_sorted x l : zsorted l -> zsorted (set_insert x l).
Proof.
  induction l as [|z t IH]; cbn [set_insert zsorted]; intros H.
  - split; [intros ? []|exact I].
  - destruct H as [Hz Ht]. destruct (Z.ltb_spec x z).
    + cbn [zsorted]. split; [|split; assumption].
      intros y [<-|Hy]; [assumption|]. specialize (Hz _ Hy). lia.
    + destruct (Z.ltb_spec z x); cbn [zsorted].
      * split; [|apply IH; exact Ht]. intros y Hy. apply set_insert_in in Hy. destruct Hy as [->|Hy]; [assumption|apply Hz; exact Hy].
      * split; assumption.
Qed.

Lemma zsorted_ext (l1 : list Z) : forall l2, zsorted l1 -> zsorted l2 -> (forall x, In x l1 <-> In x l2) -> l1 = l2.
Proof.
  induction l1 as [|a t IH]; intros [|b u] H1 H2 E.
  - reflexivity.
  - exfalso. apply (proj2 (E b)). left. reflexivity.
  - exfalso. apply (proj1 (E a)). left. reflexivity.
  - destruct H1 as [Ha Ht]. destruct H2 as [Hb Hu].
    assert (a = b).
    { destruct (proj1 (E a) (or_introl eq_refl)) as [->|A]; [reflexivity|].
      destruct (proj2 (E b) (or_introl eq_refl)) as [->|B]; [reflexivity|].
      specialize (Hb _ A). specialize (Ha _ B). lia. }
    subst b. f_equal. apply IH; [exact Ht|exact Hu|]. intros x. split; intros Hx.
    + destruct (proj1 (E x) (or_intror Hx)) as [<-|X]; [specialize (Ha _ Hx); lia|exact X].
    + destruct (proj2 (E x) (or_intror Hx)) as [<-|X]; [specialize (Hb _ Hx); lia|exact X].
Qed.

Section OrderedMapFacts.
Context {K : Type} (kltb : K -> K -> bool).
Hypothesis ltb_irrefl : forall a, kltb a a = false.
Hypothesis ltb_trans : forall a b c, kltb a b = true -> kltb b c = true -> kltb a c = true.
Hypothesis ltb_total : forall a b, kltb a b = false -> kltb b a = false -> a = b.

Let asym := ltb_asym kltb ltb_irrefl ltb_trans.

Inductive tri_spec (a b : K) : Prop :=
| TriLt : kltb a b = true -> kltb b a = false -> tri_spec a b
| TriEq : a = b -> tri_spec a b
| TriGt : kltb a b = false -> kltb b a = true -> tri_spec a b.
Lemma tri a b : tri_spec a b.
Proof.
  destruct (kltb a b) eqn:E1.
  - apply TriLt; [exact E1|apply asym; exact E1].
  - destruct (kltb b a) eqn:E2.
    + apply TriGt; assumption.
    + apply TriEq. apply ltb_total; assumption.
Qed.

(* rewrite every comparison that is known, derive the ones that follow by transitivity *)
Ltac known :=
  repeat match goal with
  | H : kltb ?a ?b = _ |- context [kltb ?a ?b] => rewrite H
  | |- context [kltb ?a ?a] => rewrite (ltb_irrefl a)
  end.
Ltac derive :=
  repeat match goal with
  | H1 : kltb ?a ?b = true, H2 : kltb ?b ?c = true |- _ =>
      lazymatch goal with
      | _ : kltb a c = true |- _ => fail
      | _ => pose proof (ltb_trans _ _ _ H1 H2); pose proof (asym _ _ (ltb_trans _ _ _ H1 H2))
      end
  end.

Lemma upsert_comm k1 x1 k2 x2 (m : list (K * list Z)) :
  map_upsert kltb k1 x1 (map_upsert kltb k2 x2 m) = map_upsert kltb k2 x2 (map_upsert kltb k1 x1 m).
Proof.
  induction m as [|[k s] t IH]; cbn [map_upsert].
  - destruct (tri k1 k2) as [A B | -> | A B]; cbn [map_upsert]; known; cbn [set_insert]; try reflexivity.
    destruct (Z.ltb_spec x1 x2), (Z.ltb_spec x2 x1); try lia; try reflexivity.
    assert (x1 = x2) by lia. subst. reflexivity.
  - destruct (tri k1 k) as [A1 B1 | -> | A1 B1]; destruct (tri k2 k) as [A2 B2 | -> | A2 B2]; known; cbn [map_upsert]; known.
    + (* both in front of k *)
      destruct (tri k1 k2) as [A B | -> | A B]; known; cbn [map_upsert]; known; try reflexivity.
      cbn [set_insert].
      destruct (Z.ltb_spec x1 x2), (Z.ltb_spec x2 x1); try lia; try reflexivity.
      assert (x1 = x2) by lia. subst. reflexivity.
    + reflexivity.
    + derive. known. reflexivity.
    + reflexivity.
    + rewrite set_insert_comm. reflexivity.
    + reflexivity.
    + derive. known. reflexivity.
    + reflexivity.
    + rewrite IH. reflexivity.
Qed.

(* ---- BTreeSet<K> for any strict total order *)
Lemma oset_insert_comm x y (l : list K) : oset_insert kltb x (oset_insert kltb y l) = oset_insert kltb y (oset_insert kltb x l).
Proof.
  induction l as [|z t IH]; cbn [oset_insert].
  - destruct (tri x y) as [A B | -> | A B]; known; cbn [oset_insert]; known; reflexivity.
  - destruct (tri x z) as [A1 B1 | -> | A1 B1]; destruct (tri y z) as [A2 B2 | -> | A2 B2]; known; cbn [oset_insert]; known.
    + destruct (tri x y) as [A B | -> | A B]; known; cbn [oset_insert]; known; reflexivity.
    + reflexivity.
    + derive. known. reflexivity.
    + reflexivity.
    + reflexivity.
    + reflexivity.
    + derive. known. reflexivity.
    + reflexivity.
    + rewrite IH. reflexivity.
Qed.

Lemma oset_of_list_perm (l1 l2 : list K) : Permutation l1 l2 -> oset_of_list kltb l1 = oset_of_list kltb l2.
Proof.
  unfold oset_of_list. intros HP. generalize (@nil K). revert HP.
  induction 1 as [|x l l' Hp IH|x y l|l l' l'' H1 IH1 H2 IH2]; intros s; cbn [fold_left].
  - reflexivity.
  - apply IH.
  - rewrite oset_insert_comm. reflexivity.
  - rewrite IH1. apply IH2.
Qed.

Fixpoint osorted (l : list K) : Prop :=
  match l with [] => True | x :: t => (forall y, In y t -> kltb x y = true) /\ osorted t end.

Lemma oset_insert_in x y (l : list K) : In y (oset_insert kltb x l) <-> y = x \/ In y l.
Proof.
  induction l as [|z t IH]; cbn [oset_insert In].
  - intuition.
  - destruct (tri x z) as [A B | -> | A B]; known; cbn [In]; [intuition|intuition|].
    rewrite IH. intuition.
Qed.

Lemma oset_insert_sorted x (l : list K) : osorted l -> osorted (oset_insert kltb x l).
Proof.
  induction l as [|z t IH]; cbn [oset_insert osorted]; intros H.
  - split; [intros ? []|exact I].
  - destruct H as [Hz Ht]. destruct (tri x z) as [A B | -> | A B]; known; cbn [osorted].
    + split; [|split; assumption]. intros y [<-|Hy]; [exact A|]. eapply ltb_trans; [exact A|apply Hz; exact Hy].
    + split; assumption.
    + split; [|apply IH; exact Ht]. intros y Hy. apply oset_insert_in in Hy. destruct Hy as [->|Hy]; [exact B|apply Hz; exact Hy].
Qed.

Lemma oset_of_list_spec (l : list K) : osorted (oset_of_list kltb l) /\ forall x, In x (oset_of_list kltb l) <-> In x l.
Proof.
  unfold oset_of_list.
  assert (G : forall s, osorted s -> osorted (fold_left (fun s x => oset_insert kltb x s) l s) /\
                         forall x, In x (fold_left (fun s x => oset_insert kltb x s) l s) <-> In x l \/ In x s).
  { induction l as [|a t IH]; intros s Hs; cbn [fold_left In].
    - split; [exact Hs|intuition].
    - destruct (IH _ (oset_insert_sorted a s Hs)) as [S M]. split; [exact S|]. intros x. rewrite M, oset_insert_in. intuition. }
  destruct (G [] I) as [S M]. split; [exact S|]. intros x. rewrite M. cbn [In]. intuition.
Qed.

Lemma fold_upsert_swap (e : K * Z) (l : list (K * Z)) : forall m,
  fold_left (fun m e => map_upsert kltb (fst e) (snd e) m) l (map_upsert kltb (fst e) (snd e) m)
  = map_upsert kltb (fst e) (snd e) (fold_left (fun m e => map_upsert kltb (fst e) (snd e) m) l m).
Proof.
  induction l as [|a t IH]; intros m; cbn [fold_left]; [reflexivity|].
  rewrite upsert_comm. apply IH.
Qed.

Lemma fold_upsert_perm (l1 l2 : list (K * Z)) : Permutation l1 l2 -> forall m,
  fold_left (fun m e => map_upsert kltb (fst e) (snd e) m) l1 m
  = fold_left (fun m e => map_upsert kltb (fst e) (snd e) m) l2 m.
Proof.
  induction 1 as [|x l l' Hp IH|x y l|l l' l'' H1 IH1 H2 IH2]; intros m; cbn [fold_left].
  - reflexivity.
  - apply IH.
  - rewrite upsert_comm. reflexivity.
  - rewrite IH1. apply IH2.
Qed.

Lemma map_of_pairs_perm (l1 l2 : list (K * Z)) : Permutation l1 l2 -> map_of_pairs kltb l1 = map_of_pairs kltb l2.
Proof. intros H. unfold map_of_pairs. apply fold_upsert_perm. exact H. Qed.

(* ---- the invariant that makes "iterate the BTreeMap" = "read the list": names strictly ascending, every offsets list
   strictly ascending; and what the map contains *)
Fixpoint ksorted (m : list (K * list Z)) : Prop :=
  match m with [] => True | (k, s) :: t => (forall e, In e t -> kltb k (fst e) = true) /\ zsorted s /\ ksorted t end.

Lemma upsert_keys k x (m : list (K * list Z)) e : In e (map_upsert kltb k x m) -> fst e = k \/ exists e', In e' m /\ fst e' = fst e.
Proof.
  induction m as [|[k' s] t IH]; cbn [map_upsert].
  - intros [<-|[]]. left. reflexivity.
  - destruct (kltb k k') eqn:E1.
    + intros [<-|H]; [left; reflexivity|]. right. exists e. split; [exact H|reflexivity].
    + destruct (kltb k' k) eqn:E2.
      * intros [<-|H]; [right; exists (k', s); split; [left; reflexivity|reflexivity]|].
        destruct (IH H) as [?|[e' [? ?]]]; [left; assumption|right; exists e'; split; [right; assumption|assumption]].
      * intros [<-|H]; [right; exists (k', s); split; [left; reflexivity|reflexivity]|].
        right. exists e. split; [right; exact H|reflexivity].
Qed.

Lemma upsert_sorted k x (m : list (K * list Z)) : ksorted m -> ksorted (map_upsert kltb k x m).
Proof.
  induction m as [|[k' s] t IH]; cbn [map_upsert ksorted].
  - intros _. split; [intros ? []|]. split; [cbn; split; [intros ? []|exact I]|exact I].
  - intros [Hk [Hs Ht]]. destruct (kltb k k') eqn:E1.
    + cbn [ksorted]. split; [|split; [cbn; split; [intros ? []|exact I]|split; [exact Hk|split; assumption]]].
      intros e [<-|He]; [exact E1|]. eapply ltb_trans; [exact E1|apply Hk; exact He].
    + destruct (kltb k' k) eqn:E2; cbn [ksorted].
      * split; [|split; [exact Hs|apply IH; exact Ht]].
        intros e He. destruct (upsert_keys _ _ _ _ He) as [->|[e' [He' <-]]]; [exact E2|apply Hk; exact He'].
      * split; [exact Hk|]. split; [apply set_insert_sorted; exact Hs|exact Ht].
Qed.

Lemma map_of_pairs_sorted (l : list (K * Z)) : ksorted (map_of_pairs kltb l).
Proof.
  unfold map_of_pairs. assert (H : ksorted (@nil (K * list Z))) by exact I. revert H. generalize (@nil (K * list Z)).
  induction l as [|e t IH]; intros m Hm; cbn [fold_left]; [exact Hm|]. apply IH. apply upsert_sorted. exact Hm.
Qed.

(* membership: offset x is listed under name k  iff  the pair (k, x) was inserted *)
Definition listed (m : list (K * list Z)) (k : K) (x : Z) : Prop := exists s, In (k, s) m /\ In x s.

Lemma upsert_listed k x (m : list (K * list Z)) k0 x0 : ksorted m ->
  (listed (map_upsert kltb k x m) k0 x0 <-> (k0 = k /\ x0 = x) \/ listed m k0 x0).
Proof.
  unfold listed. induction m as [|[k' s] t IH]; cbn [map_upsert ksorted].
  - intros _. split.
    + intros [s0 [[E|[]] Hx]]. inversion E; subst. destruct Hx as [<-|[]]. left. split; reflexivity.
    + intros [[-> ->]|[s0 [[] _]]]. exists [x]. split; [left; reflexivity|left; reflexivity].
  - intros [Hk [Hs Ht]]. destruct (kltb k k') eqn:E1.
    + split.
      * intros [s0 [[E|H] Hx]].
        -- inversion E; subst. destruct Hx as [<-|[]]. left. split; reflexivity.
        -- right. exists s0. split; assumption.
      * intros [[-> ->]|[s0 [H Hx]]]; [exists [x]; split; [left; reflexivity|left; reflexivity]|exists s0; split; [right; exact H|exact Hx]].
    + destruct (kltb k' k) eqn:E2.
      * specialize (IH Ht). split.
        -- intros [s0 [[E|H] Hx]].
           ++ inversion E; subst. right. exists s0. split; [left; reflexivity|exact Hx].
           ++ destruct (proj1 IH (ex_intro _ s0 (conj H Hx))) as [?|[s1 [H1 Hx1]]]; [left; assumption|right; exists s1; split; [right; exact H1|exact Hx1]].
        -- intros [Heq|[s0 [[E|H] Hx]]].
           ++ destruct (proj2 IH (or_introl Heq)) as [s1 [H1 Hx1]]. exists s1. split; [right; exact H1|exact Hx1].
           ++ inversion E; subst. exists s0. split; [left; reflexivity|exact Hx].
           ++ destruct (proj2 IH (or_intror (ex_intro _ s0 (conj H Hx)))) as [s1 [H1 Hx1]]. exists s1. split; [right; exact H1|exact Hx1].
      * assert (k = k') by (apply ltb_total; assumption). subst k'. split.
        -- intros [s0 [[E|H] Hx]].
           ++ inversion E; subst. apply set_insert_in in Hx. destruct Hx as [->|Hx]; [left; split; reflexivity|].
              right. exists s. split; [left; reflexivity|exact Hx].
           ++ right. exists s0. split; [right; exact H|exact Hx].
        -- intros [[-> ->]|[s0 [[E|H] Hx]]].
           ++ exists (set_insert x s). split; [left; reflexivity|apply set_insert_in; left; reflexivity].
           ++ inversion E; subst. exists (set_insert x s0). split; [left; reflexivity|apply set_insert_in; right; exact Hx].
           ++ exists s0. split; [right; exact H|exact Hx].
Qed.

Lemma map_of_pairs_listed (l : list (K * Z)) k x : listed (map_of_pairs kltb l) k x <-> In (k, x) l.
Proof.
  unfold map_of_pairs.
  assert (G : forall m, ksorted m ->
             (listed (fold_left (fun m e => map_upsert kltb (fst e) (snd e) m) l m) k x <-> In (k, x) l \/ listed m k x)).
  { induction l as [|e t IH]; intros m Hm; cbn [fold_left In].
    - intuition.
    - rewrite (IH _ (upsert_sorted _ _ _ Hm)). rewrite (upsert_listed _ _ _ _ _ Hm). destruct e as [k1 x1]; cbn [fst snd].
      split.
      + intros [H|[[-> ->]|H]]; [left; right; exact H|left; left; reflexivity|right; exact H].
      + intros [[E|H]|H]; [inversion E; subst; right; left; split; reflexivity|left; exact H|right; right; exact H]. }
  rewrite (G [] I). split; [intros [H|[s [[] _]]]; exact H|intros H; left; exact H].
Qed.

(* no empty entry: or_insert_with(new) is always followed by insert *)
Lemma upsert_nonempty k x (m : list (K * list Z)) : (forall e, In e m -> snd e <> []) -> forall e, In e (map_upsert kltb k x m) -> snd e <> [].
Proof.
  induction m as [|[k' s] t IH]; cbn [map_upsert]; intros Hm e.
  - intros [<-|[]]. discriminate.
  - destruct (kltb k k'); [intros [<-|H]; [discriminate|apply Hm; exact H]|].
    destruct (kltb k' k).
    + intros [<-|H]; [apply (Hm (k', s)); left; reflexivity|]. apply IH; [intros; apply Hm; right; assumption|exact H].
    + intros [<-|H]; [|apply Hm; right; exact H]. cbn [snd]. destruct s as [|z s']; cbn [set_insert]; [discriminate|].
      destruct (x <? z); [discriminate|]. destruct (z <? x); discriminate.
Qed.

(* a map in this form is determined by what it lists: two strictly sorted maps without empty entries that list the same
   (name, offset) pairs are the same list *)
Lemma ksorted_ext (m1 : list (K * list Z)) : forall m2, ksorted m1 -> ksorted m2 ->
  (forall e, In e m1 -> snd e <> []) -> (forall e, In e m2 -> snd e <> []) ->
  (forall k x, listed m1 k x <-> listed m2 k x) -> m1 = m2.
Proof.
  induction m1 as [|[k1 s1] t1 IH]; intros [|[k2 s2] t2] S1 S2 N1 N2 E.
  - reflexivity.
  - exfalso. specialize (N2 (k2, s2) (or_introl eq_refl)). cbn [snd] in N2. destruct s2 as [|x s2]; [congruence|].
    destruct (proj2 (E k2 x)) as [s [[] _]]. exists (x :: s2). split; [left; reflexivity|left; reflexivity].
  - exfalso. specialize (N1 (k1, s1) (or_introl eq_refl)). cbn [snd] in N1. destruct s1 as [|x s1]; [congruence|].
    destruct (proj1 (E k1 x)) as [s [[] _]]. exists (x :: s1). split; [left; reflexivity|left; reflexivity].
  - destruct S1 as [H1 [Z1 T1]]. destruct S2 as [H2 [Z2 T2]].
    assert (HK : k1 = k2).
    { pose proof (N1 (k1, s1) (or_introl eq_refl)) as X1. pose proof (N2 (k2, s2) (or_introl eq_refl)) as X2. cbn [snd] in X1, X2.
      destruct s1 as [|x1 s1]; [congruence|]. destruct s2 as [|x2 s2]; [congruence|].
      destruct (proj1 (E k1 x1)) as [s [[A|A] _]]; [exists (x1 :: s1); split; left; reflexivity|inversion A; reflexivity|].
      destruct (proj2 (E k2 x2)) as [s' [[B|B] _]]; [exists (x2 :: s2); split; left; reflexivity|inversion B; reflexivity|].
      pose proof (H2 _ A) as L1. pose proof (H1 _ B) as L2. cbn [fst] in L1, L2.
      rewrite (asym _ _ L1) in L2. discriminate. }
    subst k2.
    assert (HS : s1 = s2).
    { apply zsorted_ext; [exact Z1|exact Z2|]. intros x. split; intros Hx.
      - destruct (proj1 (E k1 x)) as [s [[A|A] Hs]]; [exists s1; split; [left; reflexivity|exact Hx]|inversion A; subst; exact Hs|].
        pose proof (H2 _ A) as L. cbn [fst] in L. rewrite ltb_irrefl in L. discriminate.
      - destruct (proj2 (E k1 x)) as [s [[A|A] Hs]]; [exists s2; split; [left; reflexivity|exact Hx]|inversion A; subst; exact Hs|].
        pose proof (H1 _ A) as L. cbn [fst] in L. rewrite ltb_irrefl in L. discriminate. }
    subst s2. f_equal. apply IH; [exact T1|exact T2|intros; apply N1; right; assumption|intros; apply N2; right; assumption|].
    intros k x. split; intros [s [Hin Hx]].
    + destruct (proj1 (E k x)) as [s' [[A|A] Hs']]; [exists s; split; [right; exact Hin|exact Hx]| |exists s'; split; assumption].
      inversion A; subst. pose proof (H1 _ Hin) as L. cbn [fst] in L. rewrite ltb_irrefl in L. discriminate.
    + destruct (proj2 (E k x)) as [s' [[A|A] Hs']]; [exists s; split; [right; exact Hin|exact Hx]| |exists s'; split; assumption].
      inversion A; subst. pose proof (H2 _ Hin) as L. cbn [fst] in L. rewrite ltb_irrefl in L. discriminate.
Qed.

Lemma map_of_pairs_nonempty (l : list (K * Z)) : forall e, In e (map_of_pairs kltb l) -> snd e <> [].
Proof.
  unfold map_of_pairs. assert (H : forall e, In e (@nil (K * list Z)) -> snd e <> []) by (intros ? []). revert H.
  generalize (@nil (K * list Z)). induction l as [|a t IH]; intros m Hm; cbn [fold_left]; [exact Hm|].
  apply IH. apply upsert_nonempty. exact Hm.
Qed.
End OrderedMapFacts.

(* ---- the loop of the walk future *)
(* base_of_image is a u64 *)
Definition umods_wf (l : list umod) : Prop := forall u, In u l -> 0 <= u_base u.

Lemma u_contains_bounds addr u : 0 <= u_base u -> u_contains addr u = true ->
  u_base u <= addr /\ addr - u_base u < 2 ^ 64 /\ addr < u_base u + u_size u.
Proof.
  intros Hb. unfold u_contains, u_range. destruct (u_size u =? 0); [discriminate|]. unfold checked_add.
  destruct (u_base u + u_size u <? 2 ^ 64) eqn:E; [|discriminate].
  rewrite andb_true_iff, !Z.leb_le. apply Z.ltb_lt in E. lia.
Qed.

Lemma offsets_loop_closed p addr hits : (forall u, In u hits -> 0 <= u_base u /\ u_contains addr u = true) -> forall m,
  offsets_loop p addr hits m
  = Ret (fold_left (fun m e => map_upsert bytes_ltb (fst e) (snd e) m) (map (fun u => (u_name u, addr - u_base u)) hits) m).
Proof.
  intros Hh. induction hits as [|u t IH]; intros m; cbn [offsets_loop map fold_left]; [reflexivity|].
  destruct (Hh u (or_introl eq_refl)) as [Hb Hc].
  destruct (u_contains_bounds addr u Hb Hc) as [H1 [H2 _]].
  unfold chk_sub, chk.
  assert (E : (0 <=? addr - u_base u) && (addr - u_base u <? 2 ^ 64) = true).
  { rewrite andb_true_iff, Z.leb_le, Z.ltb_lt. lia. }
  rewrite E. cbn [obind fst snd]. apply IH. intros u' Hu'. apply Hh. right. exact Hu'.
Qed.

Lemma unloaded_list_read_wf raw : umods_wf raw -> umods_wf (unloaded_list_read raw).
Proof. unfold unloaded_list_read. destruct (existsb u_bad raw); [intros _ u []|intros H; exact H]. Qed.

(* after the reader every module has a range: the None branches of memory_range are dead *)
Lemma unloaded_list_read_ranges raw u : umods_wf raw -> In u (unloaded_list_read raw) ->
  u_range u = Some (u_base u, u_base u + u_size u - 1).
Proof.
  unfold unloaded_list_read. destruct (existsb u_bad raw) eqn:E; [intros _ []|]. intros Hw Hu.
  assert (B : u_bad u = false).
  { destruct (u_bad u) eqn:B; [|reflexivity]. assert (X : existsb u_bad raw = true) by (apply existsb_exists; exists u; split; assumption). congruence. }
  unfold u_bad in B. apply orb_false_iff in B. destruct B as [B1 B2]. unfold u_range, checked_add. rewrite B1.
  apply Z.ltb_ge in B2. unfold U64MAX in B2.
  destruct (u_base u + u_size u <? 2 ^ 64) eqn:E2; [reflexivity|]. apply Z.ltb_ge in E2. change (2 ^ 64) with 18446744073709551616 in E2. lia.
Qed.

Definition hit_pairs (addr : Z) (l : list umod) : list (bytes * Z) := map (fun u => (u_name u, addr - u_base u)) (u_hits addr l).

Lemma frame_offsets_closed p perm addr l : (forall h, Permutation (perm h) h) -> umods_wf l ->
  frame_offsets p perm addr l = Ret (map_of_pairs bytes_ltb (hit_pairs addr l)).
Proof.
  intros Hp Hw. unfold frame_offsets. rewrite offsets_loop_closed.
  - f_equal. unfold map_of_pairs, hit_pairs.
    apply (fold_upsert_perm bytes_ltb bytes_ltb_irrefl bytes_ltb_trans bytes_ltb_total).
    apply Permutation_map. apply Hp.
  - intros u Hu. apply (Permutation_in _ (Hp _)) in Hu. unfold u_hits in Hu. apply filter_In in Hu.
    split; [apply Hw; exact (proj1 Hu)|exact (proj2 Hu)].
Qed.

Lemma frame_offsets_order_independent p1 p2 perm1 perm2 addr l :
  (forall h, Permutation (perm1 h) h) -> (forall h, Permutation (perm2 h) h) -> umods_wf l ->
  frame_offsets p1 perm1 addr l = frame_offsets p2 perm2 addr l.
Proof. intros H1 H2 Hw. rewrite !frame_offsets_closed by assumption. reflexivity. Qed.

Lemma hit_pairs_in addr l n x : In (n, x) (hit_pairs addr l) <-> exists u, In u l /\ u_contains addr u = true /\ u_name u = n /\ x = addr - u_base u.
Proof.
  unfold hit_pairs, u_hits. rewrite in_map_iff. split.
  - intros [u [E Hu]]. apply filter_In in Hu. inversion E; subst. exists u. intuition.
  - intros [u [Hu [Hc [<- ->]]]]. exists u. split; [reflexivity|apply filter_In; split; assumption].
Qed.

(* two frames (of one dump or of two) whose overlapping modules give the same SET of (name, offset) pairs get the same map *)
Lemma frame_offsets_same_pairs p1 p2 perm1 perm2 addr1 addr2 l1 l2 :
  (forall h, Permutation (perm1 h) h) -> (forall h, Permutation (perm2 h) h) -> umods_wf l1 -> umods_wf l2 ->
  (forall n x, In (n, x) (hit_pairs addr1 l1) <-> In (n, x) (hit_pairs addr2 l2)) ->
  frame_offsets p1 perm1 addr1 l1 = frame_offsets p2 perm2 addr2 l2.
Proof.
  intros H1 H2 W1 W2 E. rewrite !frame_offsets_closed by assumption. f_equal.
  apply (ksorted_ext bytes_ltb bytes_ltb_irrefl bytes_ltb_trans).
  - apply map_of_pairs_sorted. exact bytes_ltb_trans.
  - apply map_of_pairs_sorted. exact bytes_ltb_trans.
  - apply map_of_pairs_nonempty.
  - apply map_of_pairs_nonempty.
  - intros k x. rewrite !(map_of_pairs_listed bytes_ltb bytes_ltb_trans bytes_ltb_total). apply E.
Qed.

(* ---- with hash containers in place of the ordered ones the printers depend on the iteration order *)
Lemma render_unloaded_hash_depends :
  render_unloaded (fun x => x) (fun x => x) [(1, [10]); (2, [20])] <> render_unloaded (@rev _) (fun x => x) [(1, [10]); (2, [20])].
Proof. cbn. discriminate. Qed.
Lemma render_unloaded_hashset_depends :
  render_unloaded (fun x => x) (fun x => x) [(1, [10; 20])] <> render_unloaded (fun x => x) (@rev _) [(1, [10; 20])].
Proof. cbn. discriminate. Qed.

(* ---- evil-json certificates from the JSON members *)
Section CertPipelineFacts.
Context {C M : Type} (ceqb : C -> C -> bool).
Hypothesis ceqb_spec : forall a b, ceqb a b = true <-> a = b.

Lemma hm_insert_keys c ms (m : list (C * list M)) :
  map fst (hm_insert ceqb c ms m) = if existsb (ceqb c) (map fst m) then map fst m else map fst m ++ [c].
Proof.
  induction m as [|[c' ms'] t IH]; cbn [hm_insert map existsb fst]; [reflexivity|].
  destruct (ceqb c c') eqn:E; cbn [map fst orb]; [reflexivity|]. rewrite IH.
  destruct (existsb (ceqb c) (map fst t)); reflexivity.
Qed.

Lemma hm_insert_nodup c ms (m : list (C * list M)) : NoDup (map fst m) -> NoDup (map fst (hm_insert ceqb c ms m)).
Proof.
  intros H. rewrite hm_insert_keys. destruct (existsb (ceqb c) (map fst m)) eqn:E; [exact H|].
  assert (Hc : ~ In c (map fst m)).
  { intros Hx. assert (X : existsb (ceqb c) (map fst m) = true).
    { apply existsb_exists. exists c. split; [exact Hx|apply ceqb_spec; reflexivity]. }
    congruence. }
  clear E. induction (map fst m) as [|a t IH]; cbn [app].
  - repeat constructor. intros [].
  - inversion H; subst. constructor.
    + intros Hin. apply in_app_or in Hin. destruct Hin as [Hin|[<-|[]]]; [contradiction|]. apply Hc. left. reflexivity.
    + apply IH; [assumption|]. intros Hin. apply Hc. right. exact Hin.
Qed.

Lemma hm_of_members_nodup (members : list (C * list M)) : NoDup (map fst (hm_of_members ceqb members)).
Proof.
  unfold hm_of_members. assert (H : NoDup (map fst (@nil (C * list M)))) by constructor. revert H.
  generalize (@nil (C * list M)). induction members as [|e t IH]; intros m Hm; cbn [fold_left]; [exact Hm|].
  apply IH. apply hm_insert_nodup. exact Hm.
Qed.

Lemma ceqb_refl c : ceqb c c = true.
Proof. apply ceqb_spec. reflexivity. Qed.

Lemma hm_get_insert c ms (m : list (C * list M)) c' :
  hm_get ceqb c' (hm_insert ceqb c ms m) = if ceqb c' c then Some ms else hm_get ceqb c' m.
Proof.
  induction m as [|[k v] t IH]; cbn [hm_insert hm_get]; [reflexivity|].
  destruct (ceqb c k) eqn:E; cbn [hm_get].
  - apply ceqb_spec in E. subst k. destruct (ceqb c' c); reflexivity.
  - rewrite IH. destruct (ceqb c' k) eqn:E2; [|reflexivity].
    apply ceqb_spec in E2. subst k. destruct (ceqb c' c) eqn:E3; [|reflexivity].
    apply ceqb_spec in E3. subst c'. rewrite ceqb_refl in E. discriminate.
Qed.

Lemma hm_get_of_members (members : list (C * list M)) c :
  hm_get ceqb c (hm_of_members ceqb members) = last_member ceqb c members.
Proof.
  unfold hm_of_members, last_member.
  assert (G : forall m acc, hm_get ceqb c m = acc ->
             hm_get ceqb c (fold_left (fun m e => hm_insert ceqb (fst e) (snd e) m) members m)
             = fold_left (fun acc e => if ceqb c (fst e) then Some (snd e) else acc) members acc).
  { induction members as [|e t IH]; intros m acc H; cbn [fold_left]; [exact H|].
    apply IH. rewrite hm_get_insert. rewrite H. reflexivity. }
  apply G. reflexivity.
Qed.

Lemma hm_get_in (m : list (C * list M)) c ms : NoDup (map fst m) -> (In (c, ms) m <-> hm_get ceqb c m = Some ms).
Proof.
  induction m as [|[k v] t IH]; cbn [hm_get In map fst]; intros Hn.
  - split; [intros []|discriminate].
  - inversion Hn as [|? ? Hk Ht]; subst. destruct (ceqb c k) eqn:E.
    + apply ceqb_spec in E. subst k. split.
      * intros [A|A]; [inversion A; reflexivity|]. exfalso. apply Hk. apply in_map_iff. exists (c, ms). split; [reflexivity|exact A].
      * intros A. inversion A. left. reflexivity.
    + rewrite <- (IH Ht). split; [intros [A|A]; [inversion A; subst; rewrite ceqb_refl in E; discriminate|exact A]|intros A; right; exact A].
Qed.

Lemma hm_of_members_in (members : list (C * list M)) c ms :
  In (c, ms) (hm_of_members ceqb members) <-> last_member ceqb c members = Some ms.
Proof. rewrite (hm_get_in _ _ _ (hm_of_members_nodup members)). rewrite hm_get_of_members. reflexivity. Qed.
End CertPipelineFacts.

(* ---- closed form of the certificate fold: the GREATEST certificate (in the sort order) that lists the module *)
Section CertClosedForm.
Context {C M : Type} (meqb : M -> M -> bool) (cltb : C -> C -> bool).
Hypothesis cltb_irrefl : forall a, cltb a a = false.
Hypothesis cltb_trans : forall a b c, cltb a b = true -> cltb b c = true -> cltb a c = true.

Fixpoint csorted (l : list (C * list M)) : Prop :=
  match l with [] => True | x :: t => (forall y, In y t -> cltb (fst y) (fst x) = false) /\ csorted t end.

Lemma insert_key_in (e : C * list M) l y : In y (insert_key cltb e l) <-> y = e \/ In y l.
Proof.
  induction l as [|x t IH]; cbn [insert_key In]; [intuition|].
  destruct (cltb (fst e) (fst x)); cbn [In]; [intuition|]. rewrite IH. intuition.
Qed.

Lemma insert_key_csorted (e : C * list M) l : csorted l -> csorted (insert_key cltb e l).
Proof.
  induction l as [|x t IH]; cbn [insert_key csorted]; intros H.
  - split; [intros ? []|exact I].
  - destruct H as [Hx Ht]. destruct (cltb (fst e) (fst x)) eqn:E; cbn [csorted].
    + split; [|split; assumption]. intros y [<-|Hy].
      * apply (ltb_asym cltb cltb_irrefl cltb_trans). exact E.
      * destruct (cltb (fst y) (fst e)) eqn:E2; [|reflexivity].
        rewrite <- (Hx y Hy). symmetry. eapply cltb_trans; eassumption.
    + split; [|apply IH; exact Ht]. intros y Hy. apply insert_key_in in Hy. destruct Hy as [->|Hy]; [exact E|apply Hx; exact Hy].
Qed.

Lemma sort_by_key_csorted (l : list (C * list M)) : csorted (sort_by_key cltb l) /\ forall y, In y (sort_by_key cltb l) <-> In y l.
Proof.
  induction l as [|e t [IS IM]]; cbn [sort_by_key fold_right]; [split; [exact I|intuition]|].
  fold (sort_by_key cltb t). split; [apply insert_key_csorted; exact IS|].
  intros y. rewrite insert_key_in, IM. cbn [In]. intuition.
Qed.

Lemma last_cert_csorted x : forall (l : list (C * list M)) acc, csorted l ->
  (last_cert meqb x l acc = acc /\ forall e, In e l -> existsb (meqb x) (snd e) = false) \/
  (exists c ms, last_cert meqb x l acc = Some c /\ In (c, ms) l /\ existsb (meqb x) ms = true /\
                forall e, In e l -> existsb (meqb x) (snd e) = true -> cltb c (fst e) = false).
Proof.
  induction l as [|[c1 ms1] t IH]; intros acc Hs; cbn [last_cert].
  - left. split; [reflexivity|intros ? []].
  - destruct Hs as [Hx Ht]. destruct (existsb (meqb x) ms1) eqn:E.
    + right. destruct (IH (Some c1) Ht) as [[R N]|[c [ms [R [Hin [L G]]]]]].
      * exists c1, ms1. split; [exact R|]. split; [left; reflexivity|]. split; [exact E|].
        intros e [<-|He] Le; [apply cltb_irrefl|]. rewrite (N e He) in Le. discriminate.
      * exists c, ms. split; [exact R|]. split; [right; exact Hin|]. split; [exact L|].
        intros e [<-|He] Le; [exact (Hx (c, ms) Hin)|apply G; assumption].
    + destruct (IH acc Ht) as [[R N]|[c [ms [R [Hin [L G]]]]]].
      * left. split; [exact R|]. intros e [<-|He]; [exact E|apply N; exact He].
      * right. exists c, ms. split; [exact R|]. split; [right; exact Hin|]. split; [exact L|].
        intros e [<-|He] Le; [cbn [snd] in Le; congruence|apply G; assumption].
Qed.

Lemma cert_greatest_wins (iter : list (C * list M)) x :
  match cert_of meqb cltb iter x with
  | None => forall e, In e iter -> existsb (meqb x) (snd e) = false
  | Some c => (exists ms, In (c, ms) iter /\ existsb (meqb x) ms = true) /\
              forall e, In e iter -> existsb (meqb x) (snd e) = true -> cltb c (fst e) = false
  end.
Proof.
  unfold cert_of. destruct (sort_by_key_csorted iter) as [S Mem].
  destruct (last_cert_csorted x (sort_by_key cltb iter) None S) as [[R N]|[c [ms [R [Hin [L G]]]]]]; rewrite R.
  - intros e He. apply N. apply Mem. exact He.
  - split; [exists ms; split; [apply Mem; exact Hin|exact L]|]. intros e He Le. apply G; [apply Mem; exact He|exact Le].
Qed.
End CertClosedForm.

Lemma bytes_eqb_iff a : forall b, bytes_eqb a b = true <-> a = b.
Proof.
  induction a as [|x a IH]; intros [|y b]; cbn [bytes_eqb]; try (split; [discriminate|discriminate]); [split; reflexivity|].
  rewrite andb_true_iff, Z.eqb_eq, IH. split; [intros [-> ->]; reflexivity|intros E; inversion E; split; reflexivity].
Qed.

(* the certificate a module gets, from the members of the JSON object alone: the greatest name whose LAST member lists the module *)
Lemma cert_pipeline_spec perm members x : (forall m, Permutation (perm m) m) ->
  match cert_pipeline perm members x with
  | None => forall c ms, last_member bytes_eqb c members = Some ms -> existsb (bytes_eqb x) ms = false
  | Some c => (exists ms, last_member bytes_eqb c members = Some ms /\ existsb (bytes_eqb x) ms = true) /\
              forall c' ms', last_member bytes_eqb c' members = Some ms' -> existsb (bytes_eqb x) ms' = true -> bytes_ltb c c' = false
  end.
Proof.
  intros Hp. unfold cert_pipeline.
  pose proof (cert_greatest_wins bytes_eqb bytes_ltb bytes_ltb_irrefl bytes_ltb_trans (perm (hm_of_members bytes_eqb members)) x) as G.
  assert (Mem : forall c ms, In (c, ms) (perm (hm_of_members bytes_eqb members)) <-> last_member bytes_eqb c members = Some ms).
  { intros c ms. rewrite <- (hm_of_members_in bytes_eqb bytes_eqb_iff). split; apply Permutation_in; [apply Hp|apply Permutation_sym, Hp]. }
  destruct (cert_of bytes_eqb bytes_ltb (perm (hm_of_members bytes_eqb members)) x) as [c|].
  - destruct G as [[ms [Hin L]] Gr]. split; [exists ms; split; [apply Mem; exact Hin|exact L]|].
    intros c' ms' Hl Le. apply (Gr (c', ms')); [apply Mem; exact Hl|exact Le].
  - intros c ms Hl. apply (G (c, ms)). apply Mem. exact Hl.
Qed.

Lemma cert_pipeline_order_independent perm1 perm2 members x :
  (forall m, Permutation (perm1 m) m) -> (forall m, Permutation (perm2 m) m) ->
  cert_pipeline perm1 members x = cert_pipeline perm2 members x.
Proof.
  intros H1 H2. unfold cert_pipeline.
  apply (cert_order_independent bytes_eqb bytes_ltb bytes_ltb_irrefl bytes_ltb_trans bytes_ltb_total (hm_of_members bytes_eqb members)).
  - apply hm_of_members_nodup. exact bytes_eqb_iff.
  - apply H1.
  - apply H2.
Qed.

Lemma limits_render_order_independent {R} (fmt : bytes * (limit * limit * bytes) -> R) (p1 p2 : list entry -> list entry) data :
  (forall m, Permutation (p1 m) m) -> (forall m, Permutation (p2 m) m) ->
  limits_render fmt p1 data = limits_render fmt p2 data.
Proof.
  intros H1 H2. unfold limits_render. destruct (limits_from data) as [l| | |]; cbn; try reflexivity.
  f_equal.
  apply (render_order_independent bytes_ltb bytes_ltb_irrefl bytes_ltb_trans bytes_ltb_total _ (map conv_entry (to_map l))).
  - rewrite map_map. erewrite map_ext; [apply to_map_names_distinct|].
    intros [[[n s] h] u]. reflexivity.
  - apply Permutation_map. apply H1.
  - apply Permutation_map. apply H2.
Qed.

(* ---- the register scan of calculate_heuristics is a count and an any *)
Lemma register_scan_closed near pois iter : register_scan near pois iter = (length (filter near iter), existsb pois iter).
Proof.
  unfold register_scan.
  assert (G : forall n p, fold_left (fun (acc : nat * bool) a => ((if near a then S (fst acc) else fst acc), (if negb (snd acc) && pois a then true else snd acc))) iter (n, p)
                          = ((n + length (filter near iter))%nat, p || existsb pois iter)).
  { induction iter as [|a t IH]; intros n p; cbn [fold_left filter existsb length fst snd].
    - rewrite Nat.add_0_r, orb_false_r. reflexivity.
    - rewrite IH. destruct (near a), p, (pois a); cbn [length negb andb orb]; f_equal; lia. }
  rewrite G. reflexivity.
Qed.

Lemma register_scan_perm near pois i1 i2 : Permutation i1 i2 -> register_scan near pois i1 = register_scan near pois i2.
Proof.
  intros H. rewrite !register_scan_closed. f_equal.
  - apply Permutation_length. clear pois. induction H as [|x l l' Hp IH|x y l|l l' l'' H1 IH1 H2 IH2]; cbn [filter].
    + apply perm_nil.
    + destruct (near x); [apply perm_skip|]; exact IH.
    + destruct (near x), (near y); try apply perm_swap; apply Permutation_refl.
    + eapply Permutation_trans; eassumption.
  - apply existsb_perm. exact H.
Qed.
