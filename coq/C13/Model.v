(* C13/Model.v — rendering with explicit iteration-order parameters, and the join of the
   per-thread walks by index.  Definitions only.

   Mirrors:
     minidump-processor/src/process_state.rs  LinuxProcLimits.limits : HashMap<String, _> (154),
        print_json "proc_limits" (978-992): collect the entries, sort_by name, emit
        (`_v0`: the code before fix 1b3b3b2 emitted them in iteration order);
        json_registers / CallStack::print print_registers (509-527; minidump-unwind lib.rs 385-413):
        the validity HashSet is only *queried*, the walk is over general_purpose_registers()
     minidump-processor/src/evil.rs (56-66)   ModuleSignatureInfo: certificates folded into a
        module -> certificate map (`_v0`: in HashMap order; after fix 824bddc: sorted)
     minidump-processor/src/processor.rs (1143-1216)  futures_util::future::join_all over the
        per-thread walks: outputs are stored by index as the sub-futures complete
   A HashMap / HashSet is an association list / list with distinct keys; "iteration order" is
   any permutation of it (the parameter the theorems quantify over). *)
From RM Require Export Base.Word C03.Model.
Open Scope Z_scope.

Section Render.
Context {K V R : Type} (ltb : K -> K -> bool).

(* slice::sort_by(|a, b| a.0.cmp(b.0)) — modelled as insertion sort; with distinct keys every
   comparison sort produces the same list (c13_sort_perm_invariant) *)
Fixpoint insert_key (e : K * V) (l : list (K * V)) : list (K * V) :=
  match l with
  | [] => [e]
  | x :: t => if ltb (fst e) (fst x) then e :: x :: t else x :: insert_key e t
  end.
Definition sort_by_key (l : list (K * V)) : list (K * V) := fold_right insert_key [] l.

(* [iter] = the entries in the order the HashMap's iterator yields them *)
Definition render_v0 (fmt : K * V -> R) (iter : list (K * V)) : list R := map fmt iter.
Definition render (fmt : K * V -> R) (iter : list (K * V)) : list R := map fmt (sort_by_key iter).
End Render.

(* evil.rs: for (cert, modules) in certs { for m in modules { map.insert(m, cert) } }; later wins.
   [lookup] is what print / print_json read: cert_info.get(module) *)
Section Certs.
Context {C M : Type} (meqb : M -> M -> bool) (cltb : C -> C -> bool).
Fixpoint last_cert (m : M) (certs : list (C * list M)) (acc : option C) : option C :=
  match certs with
  | [] => acc
  | (c, ms) :: t => last_cert m t (if existsb (meqb m) ms then Some c else acc)
  end.
Definition cert_of_v0 (iter : list (C * list M)) (m : M) : option C := last_cert m iter None.
Definition cert_of (iter : list (C * list M)) (m : M) : option C :=
  last_cert m (sort_by_key cltb iter) None.
End Certs.

(* registers: for reg in general_purpose_registers() { if valid.contains(reg) { emit } } *)
Definition emit_registers {K} (eqb : K -> K -> bool) (valid_iter : list K) (order : list K) : list K :=
  filter (fun r => existsb (eqb r) valid_iter) order.

(* join_all: sub-future i stores its output in slot i when it completes; the result is the
   slots in index order ([completion] = the order in which the sub-futures finish) *)
Definition updf {A} (f : nat -> option A) (i : nat) (v : A) : nat -> option A :=
  fun j => if Nat.eqb j i then Some v else f j.
Definition join_all {A} (n : nat) (res : nat -> A) (completion : list nat) : list (option A) :=
  map (fold_left (fun f i => updf f i (res i)) completion (fun _ => None)) (seq 0 n).
(* the wrong join, for contrast: outputs in completion order *)
Definition join_by_completion {A} (res : nat -> A) (completion : list nat) : list (option A) :=
  map (fun i => Some (res i)) completion.

(* the proc_limits part of print_json, from the stream bytes: C03's parser, the HashMap in an
   arbitrary iteration order [perm], then the sort *)
Definition limits_json (perm : list entry -> list entry) (data : bytes) : outcome (list bytes) :=
  do l <- limits_from data;
  Ret (render bytes_ltb (fun e : bytes * (limit * limit * bytes) => fst e)
         (map (fun e : entry => let '(n, s, h, u) := e in (n, (s, h, u))) (perm (to_map l)))).
