(* C13/Driver.v — correspondence entry point: the "proc_limits" names of print_json for a limits
   stream, with the HashMap iterated in reverse insertion order (any order gives the same). *)
From RM Require Import C13.Model C13.Linux.
Open Scope Z_scope.
Definition run_limits_json (data : bytes) : option (list bytes) :=
  match limits_json (@rev entry) data with Ret l => Some l | _ => None end.

(* E cases: cert_subject of each module after folding the evil-json certificates (the HashMap iterated in
   reverse order of the case, then sorted by the code) *)
Definition run_certs (certs : list (bytes * list bytes)) (mods : list bytes) : list (option bytes) :=
  map (cert_of bytes_eqb bytes_ltb (rev certs)) mods.

(* L cases: what print_json / print report from the lsb-release, /proc/self/status and /proc/cpuinfo streams *)
Definition run_linux (lsbdata status cpuinfo : bytes) : (list bytes * bytes) * (Z * option Z) :=
  let l := lsb_from lsbdata in ((lsb_json l, lsb_text_line l), (pid_from status, microcode_from cpuinfo)).

(* Q cases: the general registers of the CFI caller frame of an arm64 thread whose module has the STACK CFI rules
   [written] (INIT line first, then the delta lines; constants or failing expressions), the HashMap iterated in reverse:
   (value if valid) for each name of [observe] *)
From RM Require Import C13.Cfi.
Definition run_cfi_rules (written : list (bytes * option Z)) (callee : list (bytes * Z)) (observe : list bytes) : list (option Z) :=
  let cal := fun x => match find (fun e : bytes * Z => bytes_eqb x (fst e)) callee with Some e => snd e | None => 0 end in
  let regs := a64_walk (@rev _) written cal in
  map (fun n => match a64_memoize n with Some r => regs r | None => None end) observe.
