(* C13/Driver.v — correspondence entry point: the "proc_limits" entries (name, soft, hard, unit) of print_json for a limits
   stream, with the HashMap iterated in reverse insertion order (any order gives the same). *)
From RM Require Import C13.Model C13.Linux.
Open Scope Z_scope.
From RM Require Import C13.Unloaded.
Definition run_limits_json (data : bytes) : option (list (bytes * (limit * limit * bytes))) :=
  match limits_render (fun e => e) (@rev entry) data with Ret l => Some l | _ => None end.

(* E cases: cert_subject of each module after folding the evil-json certificates: the members of the JSON object in file order
   (a repeated name replaces the earlier member), the resulting HashMap iterated in reverse order, then sorted by the code *)
From RM Require Import C13.Unloaded.
Definition run_certs (certs : list (bytes * list bytes)) (mods : list bytes) : list (option bytes) :=
  map (cert_pipeline (@rev _) certs) mods.

(* U cases: frames[0].unloaded_modules of a thread whose instruction pointer is [addr], for each address: the stream as the
   reader accepts it (all or nothing), the overlapping
   unloaded modules visited in REVERSE list order (any order gives the same map: c13_unloaded_offsets_order_independent) *)
Definition run_unloaded (mods : list ((bytes * Z) * Z)) (addrs : list Z) : list (option (list (bytes * list Z))) :=
  let l := unloaded_list_read (map (fun e : (bytes * Z) * Z => {| u_name := fst (fst e); u_base := snd (fst e); u_size := snd e |}) mods) in
  map (fun a => match frame_offsets Debug (@rev _) a l with Ret m => Some (render_unloaded_btree m) | _ => None end) addrs.

(* L cases: what print_json / print report from the lsb-release, /proc/self/status and /proc/cpuinfo streams *)
Definition run_linux (lsbdata status cpuinfo : bytes) : (list bytes * bytes) * (Z * option Z) :=
  let l := lsb_from lsbdata in ((lsb_json l, lsb_text_line l), (pid_from status, microcode_from cpuinfo)).

(* Q cases: the general registers of the CFI caller frame of an arm64 thread whose module has the STACK CFI rules
   [written] (INIT line first, then the delta lines; constants or failing expressions), the HashMap iterated in reverse:
   (value if valid) for each name of [observe] *)
From RM Require Import C13.Cfi.
Definition run_cfi_rules (arm : bool) (written : list (bytes * option Z)) (callee : list (bytes * Z)) (observe : list bytes) : list (option Z) :=
  let t := if arm then arm_tables else a64_tables in
  let cal := fun x => match find (fun e : bytes * Z => bytes_eqb x (fst e)) callee with Some e => snd e | None => 0 end in
  let regs := arch_walk t (@rev _) written cal in
  map (fun n => match arch_memoize t n with Some r => regs r | None => None end) observe.

(* A cases: adaptive walks on the real Symbolizer under an explicit poll schedule (then round-robin rounds until every walk is
   over): per task its result and its answer log, the supplier's call log, the stats entry of every key, the counters *)
From RM Require Import C13.Adaptive.
Definition a_nat_of_z (x : Z) : nat := Z.to_nat x.
Definition a_z_of_nat (n : nat) : Z := Z.of_nat n.
Definition a_cfg (scripts : list (nat * C12.Model.outcome)) : C12.Model.config :=
  {| C12.Model.tasks := [];
     C12.Model.susp := fun k => fst (nth k scripts (O, C12.Model.ONotFound));
     C12.Model.outc := fun k => snd (nth k scripts (O, C12.Model.ONotFound));
     C12.Model.leaf := fun k => k |}.
Fixpoint a_rounds (c : C12.Model.config) (n fuel : nat) (s : @astate nat) : @astate nat :=
  match fuel with
  | O => s
  | S f => if aall_done n s then s else a_rounds c n f (fold_left (fun s t => apoll c t s) (seq 0 n) s)
  end.
(* a tree node of the case: look key k up, continue with [ok] if the symbols were loaded (fill_symbol = Ok), else with [err] *)
Definition a_ask (k : nat) (ok err : @atask nat) : @atask nat :=
  AAsk k (fun o => match o with C12.Model.OOk => ok | _ => err end).
Definition a_done (v : nat) : @atask nat := ADone v.
Definition run_adaptive (scripts : list (nat * C12.Model.outcome)) (trees : list (@atask nat)) (sched : list nat) (fuel : nat)
  : (list (option nat) * list (list (nat * C12.Model.outcome))) * (list nat * (list (option C12.Model.outcome) * (nat * nat))) :=
  let c := a_cfg scripts in
  let n := length trees in
  let s := a_rounds c n fuel (arun c O trees sched) in
  ((map (aresult s) (seq 0 n), map (C12.Model.results (ash s)) (seq 0 n)),
   (C12.Model.calls (ash s), (map (C12.Model.stats (ash s)) (seq 0 (length scripts)), (C12.Model.req (ash s), C12.Model.proc (ash s))))).

(* B cases: the source registers of the register-derived entries of crash_info.possible_bit_flips, in array order (every register of
   the case yields at least one candidate): the registers of the memory operand, inserted in operand order, read out of the BTreeSet *)
Definition run_bitflip_sources (regs : list bytes) : list bytes := oset_of_list bytes_ltb regs.
