(* C13/Properties.v — property theorems only (partial: the logic cores of determinism). *)
From Coq Require Import Lia Sorting.Permutation String.
From RM Require Import C13.Model C13.Proofs C13.Linux C13.ProofsLinux C13.ProofsLimits C13.Sites.
From RM Require C12.Model C12.Proofs C13.Sched C13.ProofsSched.
From RM Require Import C13.Adaptive C13.ProofsAdaptive C13.Budget C13.ProofsBudget C13.Cfi C13.ProofsCfi C13.Process C13.ProofsProcess.
From RM Require Import C13.Unloaded C13.ProofsUnloaded.
Open Scope string_scope.
Open Scope list_scope.
Open Scope Z_scope.

(* ---- rendering does not depend on hash iteration order *)
(* proc_limits (after fix 1b3b3b2): for any strict total order on the names, any two iteration
   orders of one map (distinct keys) render identically *)
Theorem c13_render_order_independent :
  forall (K V R : Type) (ltb : K -> K -> bool),
  (forall a, ltb a a = false) ->
  (forall a b c, ltb a b = true -> ltb b c = true -> ltb a c = true) ->
  (forall a b, ltb a b = false -> ltb b a = false -> a = b) ->
  forall (fmt : K * V -> R) (m i1 i2 : list (K * V)),
  NoDup (map fst m) -> Permutation i1 m -> Permutation i2 m ->
  render ltb fmt i1 = render ltb fmt i2.
Proof. intros K V R ltb Hi Ht Hto. exact (@render_order_independent K V ltb Hi Ht Hto R). Qed.
Print Assumptions c13_render_order_independent.

(* ... instantiated at the order actually used: String's bytewise order *)
Theorem c13_limits_json_order_independent :
  forall (V R : Type) (fmt : bytes * V -> R) (m i1 i2 : list (bytes * V)),
  NoDup (map fst m) -> Permutation i1 m -> Permutation i2 m ->
  render bytes_ltb fmt i1 = render bytes_ltb fmt i2.
Proof.
  intros V R. exact (@render_order_independent bytes V bytes_ltb bytes_ltb_irrefl bytes_ltb_trans bytes_ltb_total R).
Qed.
Print Assumptions c13_limits_json_order_independent.

(* F-C13a: before the fix the array was emitted in iteration order *)
Theorem c13_render_refuted :
  exists (m i1 i2 : list (Z * Z)), NoDup (map fst m) /\ Permutation i1 m /\ Permutation i2 m /\
    render_v0 (fun e => fst e) i1 <> render_v0 (fun e => fst e) i2.
Proof.
  exists [(1, 10); (2, 20)], [(1, 10); (2, 20)], [(2, 20); (1, 10)].
  split; [repeat constructor; cbn; intuition discriminate|].
  split; [apply Permutation_refl|]. split; [apply perm_swap|]. exact render_v0_depends.
Qed.
Print Assumptions c13_render_refuted.

(* evil-json certificates (after fix 824bddc) *)
Theorem c13_cert_order_independent :
  forall (C M : Type) (meqb : M -> M -> bool) (cltb : C -> C -> bool),
  (forall a, cltb a a = false) ->
  (forall a b c, cltb a b = true -> cltb b c = true -> cltb a c = true) ->
  (forall a b, cltb a b = false -> cltb b a = false -> a = b) ->
  forall (m i1 i2 : list (C * list M)) (x : M),
  NoDup (map fst m) -> Permutation i1 m -> Permutation i2 m ->
  cert_of meqb cltb i1 x = cert_of meqb cltb i2 x.
Proof. exact @cert_order_independent. Qed.
Print Assumptions c13_cert_order_independent.

(* F-C13d: before the fix the certificate reported for a module listed twice depended on the order *)
Theorem c13_cert_refuted :
  exists (i1 i2 : list (Z * list Z)) x, Permutation i1 i2 /\ NoDup (map fst i1) /\
    cert_of_v0 Z.eqb i1 x <> cert_of_v0 Z.eqb i2 x.
Proof.
  exists [(1, [7]); (2, [7])], [(2, [7]); (1, [7])], 7.
  split; [apply perm_swap|]. split; [repeat constructor; cbn; intuition discriminate|]. exact cert_v0_depends.
Qed.
Print Assumptions c13_cert_refuted.

(* registers are emitted in the fixed order of general_purpose_registers(), whatever the
   iteration order of the validity HashSet *)
Theorem c13_registers_order_independent :
  forall (K : Type) (eqb : K -> K -> bool) (v1 v2 order : list K),
  Permutation v1 v2 -> emit_registers eqb v1 order = emit_registers eqb v2 order.
Proof. exact @emit_registers_order_independent. Qed.
Print Assumptions c13_registers_order_independent.

(* ---- the per-thread walks *)
(* join_all returns the outputs by index, in whatever order the sub-futures complete *)
Theorem c13_join_by_index :
  forall (A : Type) (n : nat) (res : nat -> A) (completion : list nat),
  (forall i, (i < n)%nat -> In i completion) ->
  join_all n res completion = map (fun i => Some (res i)) (seq 0 n).
Proof. exact @join_by_index. Qed.
Print Assumptions c13_join_by_index.

(* every thread's symbol answers, hence its frames (any function [walk] of them), are the same
   under every schedule that lets all walks finish — from C12's invariant (every requester of a
   key sees the supplier's one answer) *)
Theorem c13_stacks_schedule_independent :
  forall (F : Type) (c : C12.Model.config) (walk : C12.Model.task -> list (C12.Model.key * C12.Model.outcome) -> F)
         (s1 s2 : list C12.Model.task),
  C12.Model.all_done c (C12.Model.run c s1) = true -> C12.Model.all_done c (C12.Model.run c s2) = true ->
  C13.Sched.process_threads walk c s1 = C13.Sched.process_threads walk c s2.
Proof. intros F c walk s1 s2. exact (C13.ProofsSched.threads_independent c walk s1 s2). Qed.
Print Assumptions c13_stacks_schedule_independent.

(* ---- the symbol stats snapshot, keyed by leaf name *)
Theorem c13_stats_independent :
  forall (c : C12.Model.config) (s1 s2 : list C12.Model.task) (leafname : nat),
  C13.Sched.leaf_injective c ->
  C12.Model.all_done c (C12.Model.run c s1) = true -> C12.Model.all_done c (C12.Model.run c s2) = true ->
  C13.Sched.stats_snapshot c s1 leafname = C13.Sched.stats_snapshot c s2 leafname.
Proof. exact C13.ProofsSched.stats_independent. Qed.
Print Assumptions c13_stats_independent.

(* ... and the rendered "modules" array of print_json (loaded_symbols, missing_symbols, corrupt_symbols per
   module, looked up under the leaf name) is the same for all finishing schedules, and equals a function
   of the configuration alone *)
Theorem c13_modules_json_independent :
  forall (c : C12.Model.config) (s1 s2 : list C12.Model.task) (mods : list C12.Model.key),
  C13.Sched.leaf_injective c ->
  C12.Model.all_done c (C12.Model.run c s1) = true -> C12.Model.all_done c (C12.Model.run c s2) = true ->
  C13.Sched.render_modules c s1 mods = C13.Sched.render_modules c s2 mods.
Proof. exact C13.ProofsSched.render_modules_independent. Qed.
Print Assumptions c13_modules_json_independent.

Theorem c13_modules_json_determined :
  forall (c : C12.Model.config) (sched : list C12.Model.task) (mods : list C12.Model.key),
  C13.Sched.leaf_injective c -> C12.Model.all_done c (C12.Model.run c sched) = true ->
  C13.Sched.render_modules c sched mods = C13.Sched.modules_spec c mods.
Proof. exact C13.ProofsSched.render_modules_spec. Qed.
Print Assumptions c13_modules_json_determined.

(* F-C13c: without "distinct module keys have distinct leaf names" the last completion wins *)
Theorem c13_stats_refuted :
  exists (c : C12.Model.config) (s1 s2 : list C12.Model.task) (leafname : nat),
  C12.Model.all_done c (C12.Model.run c s1) = true /\ C12.Model.all_done c (C12.Model.run c s2) = true /\
  C13.Sched.stats_snapshot c s1 leafname <> C13.Sched.stats_snapshot c s2 leafname.
Proof.
  exists C13.ProofsSched.same_leaf_cfg, [0%nat; 1%nat], [1%nat; 0%nat], 0%nat.
  destruct C13.ProofsSched.stats_depends_on_schedule as [A [B [C D]]].
  split; [exact A|]. split; [exact B|]. rewrite C, D. discriminate.
Qed.
Print Assumptions c13_stats_refuted.

(* ---- the proc_limits pipeline from the stream bytes (round 4): C03's parser, collect() into the HashMap (names stay
   distinct: a repeated name replaces the earlier entry), ANY iteration order of that map, the sort — the rendered array
   is the same.  No NoDup hypothesis is left: it is proved of the map the code builds (to_map_names_distinct) *)
Theorem c13_limits_pipeline_order_independent :
  forall (p1 p2 : list entry -> list entry) (data : bytes),
  (forall m, Permutation (p1 m) m) -> (forall m, Permutation (p2 m) m) ->
  limits_json p1 data = limits_json p2 data.
Proof. exact limits_json_order_independent. Qed.
Print Assumptions c13_limits_pipeline_order_independent.

(* ---- Linux key/value streams (round 4) *)
(* LinuxStandardBase::from is a fold over the lines in file order: every field of the result is the value of the
   LAST line whose key is one of the field's spellings (the spellings are regenerated from the match arms,
   Gen/C13Sites.v lsb_aliases) — a function of the line list, with no iteration-order parameter; so are the JSON
   lsb_release object and the text line built from it *)
Theorem c13_lsb_last_wins :
  forall (lines : list kv) (f : fld), lsb_fold lines f = lsb_spec lines f.
Proof. exact lsb_fold_last_wins. Qed.
Print Assumptions c13_lsb_last_wins.

Theorem c13_lsb_report_determined :
  forall (lines : list kv),
  lsb_json (lsb_fold lines) = lsb_json (lsb_spec lines) /\ lsb_text_line (lsb_fold lines) = lsb_text_line (lsb_spec lines).
Proof.
  intros lines. unfold lsb_json, lsb_text_line. rewrite !lsb_fold_last_wins. split; reflexivity.
Qed.
Print Assumptions c13_lsb_report_determined.

(* the variant that de-duplicates the lines into a HashMap first and folds the MAP: two iteration orders of one
   map (distinct keys), two reports — the two spellings of one field are different keys *)
Theorem c13_lsb_map_refuted :
  exists (lines : list kv) (p1 p2 : list kv -> list kv) (f : fld),
  (forall m, Permutation (p1 m) m) /\ (forall m, Permutation (p2 m) m) /\ NoDup (map fst (to_kv_map lines)) /\
  lsb_from_map p1 lines f <> lsb_from_map p2 lines f.
Proof.
  exists lsb_conflict, (fun m => m), (@rev kv), FId.
  split; [intros m; apply Permutation_refl|]. split; [intros m; apply Permutation_sym, Permutation_rev|].
  split; [exact lsb_conflict_keys_distinct|exact lsb_from_map_depends].
Qed.
Print Assumptions c13_lsb_map_refuted.

(* Pid (LinuxProcStatus::from) and microcode (get_microcode_version) take the FIRST line with the key, whatever follows *)
Theorem c13_first_line_wins :
  forall (key : bytes) (l1 : list kv) (v : bytes) (l2 l2' : list kv),
  (forall e, In e l1 -> bytes_eqb (fst e) key = false) ->
  first_value key (l1 ++ (key, v) :: l2) = Some v /\ first_value key (l1 ++ (key, v) :: l2) = first_value key (l1 ++ (key, v) :: l2').
Proof.
  intros key l1 v l2 l2' H.
  rewrite !(first_value_first key l1 v _ H (bytes_eqb_refl key)). split; reflexivity.
Qed.
Print Assumptions c13_first_line_wins.

(* ---- the per-thread walks in place (round 4) *)
(* join_all over state.threads.iter_mut(): every piece of progress of future i transforms slot i only.  For ANY
   two interleavings with the same per-thread event sequences (in particular: any completion order, any number of
   suspensions in between) the final thread list is the same ... *)
Theorem c13_walks_in_place_interleaving_independent :
  forall (A : Type) (e1 e2 : list (nat * (A -> A))) (threads : list A),
  (forall i, events_of i e1 = events_of i e2) -> run_events e1 threads = run_events e2 threads.
Proof. exact @run_events_interleaving. Qed.
Print Assumptions c13_walks_in_place_interleaving_independent.

(* ... namely: slot i = thread i's own steps applied to thread i's initial stack, in thread-list order *)
Theorem c13_walks_in_place_closed_form :
  forall (A : Type) (evs : list (nat * (A -> A))) (threads : list A),
  run_events evs threads = mapi_from 0 (fun i x => apply_all (events_of i evs) x) threads.
Proof. exact @run_events_closed_form. Qed.
Print Assumptions c13_walks_in_place_closed_form.

(* join_all's result for every completion permutation *)
Theorem c13_join_all_permutations :
  forall (A : Type) (n : nat) (res : nat -> A) (completion : list nat),
  Permutation completion (seq 0 n) -> join_all n res completion = map (fun i => Some (res i)) (seq 0 n).
Proof. exact @join_all_permutation. Qed.
Print Assumptions c13_join_all_permutations.

(* collecting the stacks as the walks complete (buffer_unordered(..).collect()) is NOT a function of the thread list *)
Theorem c13_collect_unordered_refuted :
  exists (res : nat -> nat) (c1 c2 : list nat), Permutation c1 c2 /\ collect_unordered res c1 <> collect_unordered res c2.
Proof.
  exists (fun i => i), [0%nat; 1%nat], [1%nat; 0%nat]. split; [apply perm_swap|exact collect_unordered_depends].
Qed.
Print Assumptions c13_collect_unordered_refuted.

(* ---- every hash-container iteration / future combinator of the source is one the theorems above cover *)
Theorem c13_hash_sites_modelled : RM.Gen.C13Sites.hash_iteration_sites = map fst modelled_hash_sites.
Proof. reflexivity. Qed.
Print Assumptions c13_hash_sites_modelled.

Theorem c13_concurrency_sites_modelled : RM.Gen.C13Sites.concurrency_sites = map fst modelled_concurrency_sites.
Proof. reflexivity. Qed.
Print Assumptions c13_concurrency_sites_modelled.

Theorem c13_shared_state_sites_modelled : RM.Gen.C13Sites.shared_state_sites = map fst modelled_shared_state_sites.
Proof. reflexivity. Qed.
Print Assumptions c13_shared_state_sites_modelled.

(* ---- round 5: ADAPTIVE walks (the next lookup is chosen from the answers received so far) *)
(* for EVERY schedule, finished or not, the adaptive system is C12's fixed-list system on the paths that the supplier's
   answers select: same Symbolizer state (slots, counters, supplier log, stats map, every thread's answer log), same
   position of every task, same quiescence *)
Theorem c13_adaptive_refines_fixed_model :
  forall (F : Type) (c : C12.Model.config) (d : F) (atasks : list (@atask F)) (sched : list C12.Model.task),
  ash (arun c d atasks sched) = C12.Model.sh (C12.Model.run (fixed c atasks) sched) /\
  (forall t, C12.Model.pcs (C12.Model.run (fixed c atasks) sched) t =
             (apath (C12.Model.outc c) (fst (apcs (arun c d atasks sched) t)), snd (apcs (arun c d atasks sched) t))) /\
  aall_done (length atasks) (arun c d atasks sched) =
    C12.Model.all_done (fixed c atasks) (C12.Model.run (fixed c atasks) sched).
Proof. intros F c d atasks sched. exact (adaptive_refines c d atasks sched). Qed.
Print Assumptions c13_adaptive_refines_fixed_model.

(* what every adaptive walk returns, under every schedule that lets all walks finish: the value at the end of the path
   that the supplier's answers select — a function of the tree and of the answers, with no schedule in it *)
Theorem c13_adaptive_walks_determined :
  forall (F : Type) (c : C12.Model.config) (d : F) (atasks : list (@atask F)) (sched : list C12.Model.task),
  aall_done (length atasks) (arun c d atasks sched) = true ->
  aprocess_threads c d atasks sched = map (fun a => Some (aeval (C12.Model.outc c) a)) atasks.
Proof. intros F c d atasks sched. exact (aprocess_determined c d atasks sched). Qed.
Print Assumptions c13_adaptive_walks_determined.

Theorem c13_adaptive_walks_schedule_independent :
  forall (F : Type) (c : C12.Model.config) (d : F) (atasks : list (@atask F)) (s1 s2 : list C12.Model.task),
  aall_done (length atasks) (arun c d atasks s1) = true -> aall_done (length atasks) (arun c d atasks s2) = true ->
  aprocess_threads c d atasks s1 = aprocess_threads c d atasks s2.
Proof. intros F c d atasks s1 s2. exact (adaptive_threads_independent c d atasks s1 s2). Qed.
Print Assumptions c13_adaptive_walks_schedule_independent.

(* the answers an adaptive thread received: exactly its path, each key with the supplier's answer *)
Theorem c13_adaptive_answers_determined :
  forall (F : Type) (c : C12.Model.config) (d : F) (atasks : list (@atask F)) (sched : list C12.Model.task) (t : nat),
  aall_done (length atasks) (arun c d atasks sched) = true -> (t < length atasks)%nat ->
  C12.Model.results (ash (arun c d atasks sched)) t =
    map (fun k => (k, C12.Model.outc c k)) (apath (C12.Model.outc c) (nth t atasks (ADone d))).
Proof. intros F c d atasks sched t. exact (adaptive_answers c d atasks sched t). Qed.
Print Assumptions c13_adaptive_answers_determined.

(* the stats snapshot after adaptive walks (which modules were asked for now depends on the answers) *)
Theorem c13_adaptive_stats_independent :
  forall (F : Type) (c : C12.Model.config) (d : F) (atasks : list (@atask F)) (s1 s2 : list C12.Model.task) (leafname : nat),
  C13.Sched.leaf_injective (fixed c atasks) ->
  aall_done (length atasks) (arun c d atasks s1) = true -> aall_done (length atasks) (arun c d atasks s2) = true ->
  C12.Model.stats (ash (arun c d atasks s1)) leafname = C12.Model.stats (ash (arun c d atasks s2)) leafname.
Proof. intros F c d atasks s1 s2 leafname. exact (adaptive_stats_independent c d atasks s1 s2 leafname). Qed.
Print Assumptions c13_adaptive_stats_independent.

(* ... and the rendered "modules" stats fields of print_json after adaptive walks *)
Theorem c13_adaptive_modules_json_determined :
  forall (F : Type) (c : C12.Model.config) (d : F) (atasks : list (@atask F)) (sched : list C12.Model.task) (mods : list C12.Model.key),
  C13.Sched.leaf_injective (fixed c atasks) ->
  aall_done (length atasks) (arun c d atasks sched) = true ->
  map (fun k => C13.Sched.module_fields (C12.Model.stats (ash (arun c d atasks sched)) (C12.Model.leaf c k))) mods =
    C13.Sched.modules_spec (fixed c atasks) mods.
Proof. intros F c d atasks sched mods. exact (adaptive_render_modules c d atasks sched mods). Qed.
Print Assumptions c13_adaptive_modules_json_determined.

(* ---- round 5: what a future does after its walk_stack, on state shared by all the futures (C13/Budget.v) *)
(* if the post-walk steps of different futures commute, every completion order of the n walks leaves the same thread
   list and the same shared state *)
Theorem c13_post_walk_commuting_independent :
  forall (S F : Type) (post : S -> nat -> F -> S * F) (frames : nat -> F) (n : nat) (s : S) (c1 c2 : list nat),
  posts_commute post -> Permutation c1 (seq 0 n) -> Permutation c2 (seq 0 n) ->
  finish_threads post n frames s c1 = finish_threads post n frames s c2 /\
  fst (finish post frames s c1 (fun _ => None)) = fst (finish post frames s c2 (fun _ => None)).
Proof. intros S F post frames n s c1 c2. exact (finish_threads_commute post frames n s c1 c2). Qed.
Print Assumptions c13_post_walk_commuting_independent.

(* today's code: the post-walk statements write nothing shared (c13_walk_future_* below): slot i = future i's own step
   on its own frames, for every completion order that contains every index *)
Theorem c13_post_walk_readonly_independent :
  forall (S F : Type) (post : S -> nat -> F -> S * F) (frames : nat -> F) (n : nat) (s : S) (comp : list nat),
  post_readonly post -> (forall i, (i < n)%nat -> In i comp) ->
  finish_threads post n frames s comp = map (fun i => Some (snd (post s i (frames i)))) (seq 0 n).
Proof. intros S F post frames n s comp. exact (finish_threads_readonly post frames n s comp). Qed.
Print Assumptions c13_post_walk_readonly_independent.

(* seeded C13-8 and its class: a per-dump budget that the walks charge as they FINISH hands the truncation to whichever
   walk finishes later — two completion orders, two thread lists; the budget steps do not commute *)
Theorem c13_frame_budget_refuted :
  (exists (frames : nat -> list nat) (left : nat) (c1 c2 : list nat),
     Permutation c1 (seq 0 2) /\ Permutation c2 (seq 0 2) /\
     finish_threads budget_post 2 frames left c1 <> finish_threads budget_post 2 frames left c2) /\
  ~ posts_commute (@budget_post nat).
Proof.
  split; [|exact budget_not_commute].
  exists (fun _ => [7; 7]%nat), 3%nat, [0; 1]%nat, [1; 0]%nat.
  split; [apply Permutation_refl|]. split; [apply perm_swap|].
  destruct budget_depends as [A B]. rewrite A, B. discriminate.
Qed.
Print Assumptions c13_frame_budget_refuted.

(* ---- round 5: the per-thread part of into_process_state as one system: adaptive walks over the shared Symbolizer, the
   post-walk step of each future run in the poll in which its walk finishes, results read by index.  The schedule decides
   how the lookups interleave AND in which order the walks finish; when the post-walk steps commute, neither shows *)
Theorem c13_process_schedule_independent :
  forall (F S : Type) (post : S -> nat -> F -> S * F) (c : C12.Model.config) (d : F) (atasks : list (@atask F)) (s0 : S)
         (s1 s2 : list C12.Model.task),
  posts_commute post ->
  pall_finished (length atasks) (process post c d atasks s0 s1) = true ->
  pall_finished (length atasks) (process post c d atasks s0 s2) = true ->
  pthreads (length atasks) (process post c d atasks s0 s1) = pthreads (length atasks) (process post c d atasks s0 s2) /\
  pshared (process post c d atasks s0 s1) = pshared (process post c d atasks s0 s2).
Proof. intros F S post c d atasks s0 s1 s2. exact (process_independent post c d atasks s0 s1 s2). Qed.
Print Assumptions c13_process_schedule_independent.

(* today's code (read-only post-walk statements): thread i of the report = future i's own post-walk step applied to the
   value at the end of the path that the supplier's answers select in its tree — for every schedule that finishes *)
Theorem c13_process_determined :
  forall (F S : Type) (post : S -> nat -> F -> S * F) (c : C12.Model.config) (d : F) (atasks : list (@atask F)) (s0 : S)
         (sched : list C12.Model.task),
  post_readonly post ->
  pall_finished (length atasks) (process post c d atasks s0 sched) = true ->
  pthreads (length atasks) (process post c d atasks s0 sched) =
    map (fun i => Some (snd (post s0 i (aeval (C12.Model.outc c) (nth i atasks (ADone d)))))) (seq 0 (length atasks)).
Proof. intros F S post c d atasks s0 sched. exact (process_readonly post c d atasks s0 sched). Qed.
Print Assumptions c13_process_determined.

(* ... and with the first-come-first-served budget the same system gives two thread lists for two schedules *)
Theorem c13_process_budget_refuted :
  exists (c : C12.Model.config) (atasks : list (@atask (list nat))) (s1 s2 : list C12.Model.task),
  pall_finished 2 (process budget_post c [] atasks 3%nat s1) = true /\
  pall_finished 2 (process budget_post c [] atasks 3%nat s2) = true /\
  pthreads 2 (process budget_post c [] atasks 3%nat s1) <> pthreads 2 (process budget_post c [] atasks 3%nat s2).
Proof.
  exists {| C12.Model.tasks := []; C12.Model.susp := fun k => match k with O => 2%nat | _ => 0%nat end;
            C12.Model.outc := fun _ => C12.Model.OOk; C12.Model.leaf := fun k => k |},
         [AAsk 0%nat (fun _ => ADone [7; 7]%nat); AAsk 1%nat (fun _ => ADone [8; 8]%nat)],
         [0; 0; 0; 1]%nat, [0; 1; 0; 0]%nat.
  split; [vm_compute; reflexivity|]. split; [vm_compute; reflexivity|]. vm_compute. discriminate.
Qed.
Print Assumptions c13_process_budget_refuted.

(* ---- round 5: the order in which walk_with_stack_cfi applies the general-register rules *)
(* whatever the walker does with a (name, rule) pair — aliases (x29/fp), failed rules that clear a register — the caller's
   registers are the same for every iteration order of the rule HashMap, because the rules are sorted by name and the
   map has one rule per name (cfi_map_nodup, proved of the map parse_cfi_exprs builds) *)
Theorem c13_cfi_rule_order_independent :
  forall (K E W : Type) (keqb ltb : K -> K -> bool),
  (forall a b, keqb a b = true <-> a = b) ->
  (forall a, ltb a a = false) ->
  (forall a b c, ltb a b = true -> ltb b c = true -> ltb a c = true) ->
  (forall a b, ltb a b = false -> ltb b a = false -> a = b) ->
  forall (step : K -> E -> W -> W) (iter1 iter2 : list (K * E) -> list (K * E)) (written : list (K * E)) (w : W),
  Permutation (iter1 (cfi_map keqb written)) (cfi_map keqb written) ->
  Permutation (iter2 (cfi_map keqb written)) (cfi_map keqb written) ->
  walk_cfi keqb ltb step iter1 written w = walk_cfi keqb ltb step iter2 written w.
Proof.
  intros K E W keqb ltb Hk Hi Ht Hto step iter1 iter2 written w.
  exact (walk_cfi_order_independent keqb Hk ltb Hi Ht Hto step iter1 iter2 written w).
Qed.
Print Assumptions c13_cfi_rule_order_independent.

(* ... instantiated at the arm64 walker that the Q cases compare with the real unwinder (register and alias tables
   regenerated from CONTEXT_ARM64, bytewise name order): no hypothesis left *)
Theorem c13_cfi_arm64_order_independent :
  forall (iter1 iter2 : list (bytes * option Z) -> list (bytes * option Z)) (written : list (bytes * option Z)) (callee : bytes -> Z),
  Permutation (iter1 (cfi_map bytes_eqb written)) (cfi_map bytes_eqb written) ->
  Permutation (iter2 (cfi_map bytes_eqb written)) (cfi_map bytes_eqb written) ->
  a64_walk iter1 written callee = a64_walk iter2 written callee.
Proof. exact a64_walk_order_independent. Qed.
Print Assumptions c13_cfi_arm64_order_independent.

(* ... and at the arm (32-bit) walker: r11/fp, r13/sp, r14/lr, r15/pc are pairs of names of one register, values that do not fit
   32 bits are rejected *)
Theorem c13_cfi_arm_order_independent :
  forall (iter1 iter2 : list (bytes * option Z) -> list (bytes * option Z)) (written : list (bytes * option Z)) (callee : bytes -> Z),
  Permutation (iter1 (cfi_map bytes_eqb written)) (cfi_map bytes_eqb written) ->
  Permutation (iter2 (cfi_map bytes_eqb written)) (cfi_map bytes_eqb written) ->
  arm_walk iter1 written callee = arm_walk iter2 written callee.
Proof. exact (arch_walk_order_independent arm_tables). Qed.
Print Assumptions c13_cfi_arm_order_independent.

(* the rule that is applied for a register is the LAST one written for it (INIT line first, then the delta lines) *)
Theorem c13_cfi_last_rule_wins :
  forall (K E : Type) (keqb : K -> K -> bool), (forall a b, keqb a b = true <-> a = b) ->
  forall (written : list (K * E)) (k : K),
  lookup keqb k (cfi_map keqb written) = lookup keqb k (rev written).
Proof. intros K E keqb Hk written k. exact (cfi_map_last_wins keqb Hk written k). Qed.
Print Assumptions c13_cfi_last_rule_wins.

(* seeded C13-7 and its class: a sort key that is not unique (seq = map size: a re-definition shares its number with the
   next new register) leaves tied rules in iteration order; with INIT `x29: 1`, delta `x29: 2 fp: 3` the caller's x29 is 3
   under one iteration order and 2 under the other *)
Theorem c13_cfi_seq_order_refuted :
  exists (written : list (nat * nat)) (iter1 iter2 : list (nat * (nat * nat)) -> list (nat * (nat * nat))),
  (forall m, Permutation (iter1 m) m) /\ (forall m, Permutation (iter2 m) m) /\
  walk_cfi_seq Nat.eqb (alias_step arm64_slot) iter1 written (fun _ => None) 29%nat <>
  walk_cfi_seq Nat.eqb (alias_step arm64_slot) iter2 written (fun _ => None) 29%nat.
Proof.
  exists [(29, 1); (29, 2); (129, 3)]%nat, (fun m => m), (@rev _).
  split; [intros m; apply Permutation_refl|]. split; [intros m; apply Permutation_sym; apply Permutation_rev|].
  destruct walk_cfi_seq_depends as [_ [A B]]. rewrite A, B. discriminate.
Qed.
Print Assumptions c13_cfi_seq_order_refuted.

(* ---- round 5: MultiSymbolProvider::stats (`for p in providers { result.extend(p.stats()) }`, site class MapIntoMap): what a
   lookup in the merged map returns is the entry of the LAST provider (Vec order) that has the key — whatever the iteration
   order of each provider's own map *)
Theorem c13_multi_provider_stats_order_independent :
  forall (K V : Type) (keqb : K -> K -> bool), (forall a b, keqb a b = true <-> a = b) ->
  forall (maps its1 its2 : list (list (K * V))) (k : K),
  Forall (fun m => NoDup (map fst m)) maps ->
  Forall2 (@Permutation _) its1 maps -> Forall2 (@Permutation _) its2 maps ->
  lookup keqb k (merge_stats keqb its1) = lookup keqb k (merge_stats keqb its2) /\
  lookup keqb k (merge_stats keqb its1) = merged_spec keqb maps k.
Proof.
  intros K V keqb Hk maps its1 its2 k HF P1 P2. split.
  - exact (merge_stats_order_independent keqb Hk maps its1 its2 k HF P1 P2).
  - assert (P0 : Forall2 (@Permutation _) maps maps).
    { clear. induction maps; constructor; [apply Permutation_refl|assumption]. }
    rewrite (merge_stats_order_independent keqb Hk maps its1 maps k HF P1 P0).
    exact (merge_stats_spec keqb Hk maps k HF).
Qed.
Print Assumptions c13_multi_provider_stats_order_independent.

(* ---- round 5: every cell writable through a shared reference, and everything the per-thread future shares with its
   siblings, is one of the enumerated, classified sites *)
Theorem c13_interior_mutable_sites_modelled :
  RM.Gen.C13Sites.interior_mutable_sites = map fst modelled_interior_mutable_sites.
Proof. reflexivity. Qed.
Print Assumptions c13_interior_mutable_sites_modelled.

Theorem c13_walk_future_captures_modelled :
  RM.Gen.C13Sites.walk_future_captures = map fst modelled_walk_future_captures.
Proof. reflexivity. Qed.
Print Assumptions c13_walk_future_captures_modelled.

(* the statements of the future in order; exactly one of them awaits (walk_stack), none after it touches a cell *)
Definition ends_with (suffix s : string) : bool :=
  String.eqb (substring (String.length s - String.length suffix) (String.length suffix) s) suffix.
Theorem c13_walk_future_steps_modelled :
  RM.Gen.C13Sites.walk_future_steps = map fst modelled_walk_future_steps /\
  RM.Gen.C13Sites.walk_future_interior_mutations = [] /\
  (* exactly one statement of the generated list awaits, it is the walk_stack call, and nothing that awaits follows it *)
  map (fun t => substring 0 11 (snd t)) (filter (fun t => ends_with "|awaits" (snd t)) RM.Gen.C13Sites.walk_future_steps) = ["walk_stack("] /\
  map snd (filter (fun e => match snd e with SymbolizerC12 => true | _ => false end) modelled_walk_future_steps) = [SymbolizerC12] /\
  forallb (fun e => match snd e with OwnSlotOnly | ReporterOnly | SymbolizerC12 => true | _ => false end) modelled_walk_future_steps = true.
Proof. repeat split. Qed.
Print Assumptions c13_walk_future_steps_modelled.

(* the unwinder awaits nothing but its own async fns and the three SymbolProvider methods: a walk can be suspended only inside
   a symbol lookup (the premise of the adaptive model) *)
Theorem c13_walk_awaits_modelled :
  RM.Gen.C13Sites.walk_await_callees = map fst modelled_walk_await_callees /\
  forallb (fun e : string * site_class => match snd e with
             | SymbolizerC12 => existsb (String.eqb (fst e)) ["fill_symbol"; "walk_frame"; "get_file_path"]
             | WalkInternal => existsb (String.eqb (fst e)) RM.Gen.C13Sites.unwinder_async_fns
             | _ => false end) modelled_walk_await_callees = true.
Proof. split; reflexivity. Qed.
Print Assumptions c13_walk_awaits_modelled.

(* the ASCII constants of the model are the words they stand for, and the byte table is the string table *)
Theorem c13_constants_spelled :
  N_ID = bytes_of_string "id" /\ N_RELEASE = bytes_of_string "release" /\ N_CODENAME = bytes_of_string "codename" /\
  N_DESCRIPTION = bytes_of_string "description" /\ K_PID = bytes_of_string "Pid" /\ K_MICROCODE = bytes_of_string "microcode" /\
  T_LINUX = bytes_of_string "Linux " /\
  RM.Gen.C13Sites.lsb_alias_bytes = map (fun e => (map bytes_of_string (fst e), bytes_of_string (snd e))) RM.Gen.C13Sites.lsb_aliases.
Proof. repeat split. Qed.
Print Assumptions c13_constants_spelled.

(* ---- non-vacuity *)
Example c13_nonvacuous_render :
  render Z.ltb (fun e : Z * Z => snd e) [(3, 30); (1, 10); (2, 20)] = [10; 20; 30] /\
  render Z.ltb (fun e : Z * Z => snd e) [(2, 20); (3, 30); (1, 10)] = [10; 20; 30].
Proof. split; reflexivity. Qed.

Example c13_nonvacuous_join :
  join_all 3 (fun i => (10 * i)%nat) [2%nat; 0%nat; 1%nat] = [Some 0%nat; Some 10%nat; Some 20%nat] /\
  join_by_completion (fun i => (10 * i)%nat) [2%nat; 0%nat; 1%nat] = [Some 20%nat; Some 0%nat; Some 10%nat].
Proof. split; reflexivity. Qed.

(* three threads sharing two modules with distinct leaf names, supplier suspending: two very
   different schedules finish and agree *)
Example c13_nonvacuous_sched :
  let c := {| C12.Model.tasks := [[0; 1]; [1; 0]; [0]]%nat;
              C12.Model.susp := fun k => match k with O => 2%nat | _ => 1%nat end;
              C12.Model.outc := fun k => match k with O => C12.Model.OOk | _ => C12.Model.OParse end;
              C12.Model.leaf := fun k => k |} in
  let s1 := [0; 0; 0; 0; 1; 1; 1; 2; 2]%nat in
  let s2 := [2; 1; 0; 2; 1; 0; 2; 1; 0; 2; 1; 0; 2; 1; 0]%nat in
  C12.Model.all_done c (C12.Model.run c s1) = true /\ C12.Model.all_done c (C12.Model.run c s2) = true /\
  C13.Sched.leaf_injective c /\
  C13.Sched.process_threads (fun _ l => l) c s1 = C13.Sched.process_threads (fun _ l => l) c s2 /\
  C13.Sched.stats_snapshot c s1 1%nat = Some C12.Model.OParse.
Proof.
  cbv zeta. split; [vm_compute; reflexivity|]. split; [vm_compute; reflexivity|].
  split; [intros k1 k2 _ _ H; exact H|]. split; vm_compute; reflexivity.
Qed.

(* an lsb-release stream with both spellings of the id, quoted and padded values: the last line wins *)
Example c13_nonvacuous_lsb :
  let data := (bytes_of_string "DISTRIB_ID=Ubuntu" ++ [10] ++ bytes_of_string "DISTRIB_RELEASE = 22.04 " ++ [10] ++
               bytes_of_string "junk line" ++ [10] ++ [73; 68; 61; 34] ++ bytes_of_string "ubuntu" ++ [34; 10])%list in
  lsb_json (lsb_from data) = [bytes_of_string "ubuntu"; bytes_of_string "22.04"; []; []] /\
  lsb_text_line (lsb_from data) = bytes_of_string "Linux ubuntu 22.04 -  ()" /\
  field_of_key (bytes_of_string "PRETTY_NAME") = Some FDescription.
Proof. vm_compute. repeat split. Qed.

(* three threads, two very different interleavings of the same per-thread steps *)
Example c13_nonvacuous_in_place :
  let a := (fun x => x + 1) in let b := (fun x => x * 2) in
  let e1 := [(0%nat, a); (0%nat, b); (1%nat, b); (2%nat, a); (2%nat, a)] in
  let e2 := [(2%nat, a); (1%nat, b); (0%nat, a); (2%nat, a); (0%nat, b)] in
  run_events e1 [10; 20; 30] = [22; 40; 32] /\ run_events e2 [10; 20; 30] = [22; 40; 32] /\
  collect_unordered (fun i => nth i [22; 40; 32] 0) [2%nat; 0%nat; 1%nat] = [32; 22; 40].
Proof. repeat split. Qed.

(* two adaptive walks: thread 0 asks for module 0 and, depending on the answer, for module 1 or module 2; thread 1 asks for
   module 2, then 0.  The supplier suspends; two very different schedules finish and agree; module 1 is never asked for *)
Example c13_nonvacuous_adaptive :
  let c := {| C12.Model.tasks := []; C12.Model.susp := fun k => match k with O => 2%nat | _ => 1%nat end;
              C12.Model.outc := fun k => match k with O => C12.Model.OOk | _ => C12.Model.ONotFound end;
              C12.Model.leaf := fun k => k |} in
  let a0 := AAsk 0%nat (fun o => match o with
                                 | C12.Model.OOk => AAsk 2%nat (fun o2 => ADone (if C12.Model.stat_loaded o2 then 11 else 12))
                                 | _ => AAsk 1%nat (fun _ => ADone 13) end) in
  let a1 := AAsk 2%nat (fun _ => AAsk 0%nat (fun o => ADone (if C12.Model.stat_loaded o then 21 else 22))) in
  let s1 := [0; 0; 0; 0; 0; 1; 1; 1]%nat in
  let s2 := [1; 0; 1; 0; 1; 0; 1; 0; 1; 0; 1; 0]%nat in
  aall_done 2 (arun c 0 [a0; a1] s1) = true /\ aall_done 2 (arun c 0 [a0; a1] s2) = true /\
  aprocess_threads c 0 [a0; a1] s1 = [Some 12; Some 21] /\ aprocess_threads c 0 [a0; a1] s2 = [Some 12; Some 21] /\
  C12.Model.tasks (fixed c [a0; a1]) = [[0; 2]; [2; 0]]%nat /\
  C12.Model.stats (ash (arun c 0 [a0; a1] s2)) 1%nat = None /\
  C12.Model.calls (ash (arun c 0 [a0; a1] s1)) <> C12.Model.calls (ash (arun c 0 [a0; a1] s2)).
Proof. cbv zeta. repeat split; try (vm_compute; reflexivity). vm_compute. discriminate. Qed.

(* three walks finishing in two different orders: the read-only post-walk step (mark the frames of thread i with i) gives
   one thread list, the first-come-first-served budget gives two *)
Example c13_nonvacuous_post_walk :
  let frames := (fun i : nat => repeat i (2 + i))%nat in
  let ro := (fun (s : nat) (i : nat) (f : list nat) => (s, i :: f)) in
  post_readonly ro /\
  finish_threads ro 3 frames 5%nat [2; 0; 1]%nat = finish_threads ro 3 frames 5%nat [0; 1; 2]%nat /\
  finish_threads ro 3 frames 5%nat [2; 0; 1]%nat = [Some [0; 0; 0]; Some [1; 1; 1; 1]; Some [2; 2; 2; 2; 2]]%nat /\
  finish_threads budget_post 3 frames 5%nat [2; 0; 1]%nat = [Some [0]; Some [1]; Some [2; 2; 2; 2]]%nat /\
  finish_threads budget_post 3 frames 5%nat [0; 1; 2]%nat = [Some [0; 0]; Some [1; 1; 1]; Some [2]]%nat.
Proof. cbv zeta. split; [intros s i f; reflexivity|]. repeat split. Qed.

(* INIT `fp: 10 x19: 11 lr: 12`, delta `fp: 13 x29: 14` (names as numbers, fp = 129 and x29 = 29 one register): sorted by
   name x29 is applied before fp whatever the map's iteration order *)
Example c13_nonvacuous_cfi :
  let written := [(129, 10); (19, 11); (130, 12); (129, 13); (29, 14)]%nat in
  cfi_map Nat.eqb written = [(129, 13); (19, 11); (130, 12); (29, 14)]%nat /\
  walk_cfi Nat.eqb Nat.ltb (alias_step arm64_slot) (fun m => m) written (fun _ => None) 29%nat = Some 13%nat /\
  walk_cfi Nat.eqb Nat.ltb (alias_step arm64_slot) (@rev _) written (fun _ => None) 29%nat = Some 13%nat.
Proof. cbv zeta. repeat split. Qed.

(* INIT `fp: 10 x19: 11`, delta `fp: 13 x29: 14 x31: 5 x19: <fails>`: fp and x29 are one register and x29 is applied last
   (name order), the failed x19 rule un-forwards x19, x20 is inherited from the callee, x31 is not a register *)
Example c13_nonvacuous_cfi_arm64 :
  let b := bytes_of_string in
  let written := [(b "fp", Some 10); (b "x19", Some 11); (b "fp", Some 13); (b "x29", Some 14); (b "x31", Some 5); (b "x19", None)] in
  let callee := (fun _ : bytes => 77) in
  a64_walk (fun m => m) written callee (b "fp") = Some 14 /\ a64_walk (@rev _) written callee (b "fp") = Some 14 /\
  a64_walk (@rev _) written callee (b "x19") = None /\ a64_walk (@rev _) written callee (b "x20") = Some 77 /\
  a64_walk (@rev _) written callee (b "lr") = None /\ a64_memoize (b "x30") = Some (b "lr") /\ a64_memoize (b "x31") = None /\
  arm_walk (@rev _) [(b "r11", Some 5); (b "fp", Some 6); (b "r4", Some 4294967296); (b "r14", Some 9)] callee (b "fp") = Some 5 /\
  arm_walk (@rev _) [(b "r11", Some 5); (b "fp", Some 6); (b "r4", Some 4294967296); (b "r14", Some 9)] callee (b "r4") = None /\
  arm_walk (@rev _) [(b "r11", Some 5); (b "fp", Some 6); (b "r4", Some 4294967296); (b "r14", Some 9)] callee (b "lr") = Some 9.
Proof. vm_compute. repeat split. Qed.

(* the whole per-thread system on two adaptive walks whose modules answer after 2 and 0 suspensions, with the reporter's
   counter as post-walk step: thread 1 finishes first under s2, the thread list and the counter do not care *)
Example c13_nonvacuous_process :
  let c := {| C12.Model.tasks := []; C12.Model.susp := fun k => match k with O => 2%nat | _ => 0%nat end;
              C12.Model.outc := fun _ => C12.Model.OOk; C12.Model.leaf := fun k => k |} in
  let atasks := [AAsk 0%nat (fun _ => ADone [7; 7]%nat); AAsk 1%nat (fun _ => ADone [8; 8]%nat)] in
  let s1 := [0; 0; 0; 1]%nat in let s2 := [0; 1; 0; 0]%nat in
  posts_commute (@counter_post (list nat)) /\
  pall_finished 2 (process counter_post c [] atasks 0%nat s1) = true /\
  pall_finished 2 (process counter_post c [] atasks 0%nat s2) = true /\
  pthreads 2 (process counter_post c [] atasks 0%nat s2) = [Some [7; 7]; Some [8; 8]]%nat /\
  pshared (process counter_post c [] atasks 0%nat s2) = 2%nat /\
  pthreads 2 (process budget_post c [] atasks 3%nat s1) = [Some [7; 7]; Some [8]]%nat /\
  pthreads 2 (process budget_post c [] atasks 3%nat s2) = [Some [7]; Some [8; 8]]%nat.
Proof. cbv zeta. split; [exact counter_commutes|]. repeat split; vm_compute; reflexivity. Qed.

(* two providers, the second one knows module 2 as well: its entry wins for 2, the first provider's for 1 *)
Example c13_nonvacuous_merge :
  let maps := [[(1, 10); (2, 20)]; [(2, 21); (3, 31)]]%nat in
  lookup Nat.eqb 2%nat (merge_stats Nat.eqb maps) = Some 21%nat /\
  lookup Nat.eqb 2%nat (merge_stats Nat.eqb [[(2, 20); (1, 10)]; [(3, 31); (2, 21)]]%nat) = Some 21%nat /\
  lookup Nat.eqb 1%nat (merge_stats Nat.eqb maps) = Some 10%nat /\ lookup Nat.eqb 4%nat (merge_stats Nat.eqb maps) = None.
Proof. cbv zeta. repeat split. Qed.

(* ==== round 5, second pass ==== *)
(* ---- the per-frame map of overlapping UNLOADED modules (processor.rs, the statements of the walk future after walk_stack;
   printed by print_json and CallStack::print).  BTreeMap<String, BTreeSet<u64>> built by entry().or_insert_with().insert():
   for every order in which modules_at_address yields the overlapping modules, in both build profiles, the map is the same,
   and the offset subtraction never traps *)
Theorem c13_unloaded_offsets_order_independent :
  forall (p1 p2 : profile) (perm1 perm2 : list umod -> list umod) (addr : Z) (l : list umod),
  (forall h, Permutation (perm1 h) h) -> (forall h, Permutation (perm2 h) h) -> umods_wf l ->
  frame_offsets p1 perm1 addr l = frame_offsets p2 perm2 addr l.
Proof. exact frame_offsets_order_independent. Qed.
Print Assumptions c13_unloaded_offsets_order_independent.

(* (l = the list the reader hands over: unloaded_list_read, all of the stream or nothing; it keeps umods_wf and gives every
   module a range: ProofsUnloaded.unloaded_list_read_wf / _ranges) *)

(* ... and it is determined by the SET of (name, instruction - base) pairs of the modules whose range contains the address:
   names strictly ascending, offsets of a name strictly ascending, no empty entry, offset x listed under name n iff some
   overlapping module named n has base addr - x.  (A strictly sorted list is determined by its members, so this fixes the
   bytes the printers emit; what they emit is the list read from the left: render_unloaded_btree.) *)
Theorem c13_unloaded_offsets_determined :
  forall (p : profile) (perm : list umod -> list umod) (addr : Z) (l : list umod),
  (forall h, Permutation (perm h) h) -> umods_wf l ->
  exists m, frame_offsets p perm addr l = Ret m /\
    ksorted bytes_ltb m /\ (forall e, In e m -> snd e <> []) /\
    forall n x, listed m n x <-> exists u, In u l /\ u_contains addr u = true /\ u_name u = n /\ x = addr - u_base u.
Proof.
  intros p perm addr l Hp Hw. exists (map_of_pairs bytes_ltb (hit_pairs addr l)).
  split; [apply frame_offsets_closed; assumption|].
  split; [apply (map_of_pairs_sorted bytes_ltb bytes_ltb_trans)|].
  split; [exact (map_of_pairs_nonempty bytes_ltb (hit_pairs addr l))|].
  intros n x. rewrite (map_of_pairs_listed bytes_ltb bytes_ltb_trans bytes_ltb_total). apply hit_pairs_in.
Qed.
Print Assumptions c13_unloaded_offsets_determined.

(* ... so the map IS a function of that set: two frames (of one dump or of two; any visiting orders, any profiles) whose overlapping
   modules give the same set of (name, instruction - base) pairs get the same map, byte for byte (ksorted_ext: a strictly sorted map
   without empty entries is determined by what it lists) *)
Theorem c13_unloaded_offsets_function_of_pair_set :
  forall (p1 p2 : profile) (perm1 perm2 : list umod -> list umod) (addr1 addr2 : Z) (l1 l2 : list umod),
  (forall h, Permutation (perm1 h) h) -> (forall h, Permutation (perm2 h) h) -> umods_wf l1 -> umods_wf l2 ->
  (forall n x, (exists u, In u l1 /\ u_contains addr1 u = true /\ u_name u = n /\ x = addr1 - u_base u) <->
               (exists u, In u l2 /\ u_contains addr2 u = true /\ u_name u = n /\ x = addr2 - u_base u)) ->
  frame_offsets p1 perm1 addr1 l1 = frame_offsets p2 perm2 addr2 l2.
Proof.
  intros p1 p2 perm1 perm2 addr1 addr2 l1 l2 H1 H2 W1 W2 E. apply frame_offsets_same_pairs; try assumption.
  intros n x. rewrite !hit_pairs_in. apply E.
Qed.
Print Assumptions c13_unloaded_offsets_function_of_pair_set.

(* what reaches the loop is all of the stream or nothing: one entry with size 0 or a range past u64::MAX and NO frame of the
   report lists an unloaded module (the reader's `return Err(ModuleReadFailure)`; compared on the U cases) *)
Theorem c13_unloaded_stream_all_or_nothing :
  forall (raw : list umod), umods_wf raw ->
  umods_wf (unloaded_list_read raw) /\
  (forall u, In u (unloaded_list_read raw) -> u_range u = Some (u_base u, u_base u + u_size u - 1)) /\
  (existsb u_bad raw = true -> forall p perm addr, (forall h, Permutation (perm h) h) -> frame_offsets p perm addr (unloaded_list_read raw) = Ret []) /\
  (existsb u_bad raw = false -> unloaded_list_read raw = raw).
Proof.
  intros raw Hw. split; [apply unloaded_list_read_wf; exact Hw|].
  split; [intros u Hu; apply (unloaded_list_read_ranges raw u Hw Hu)|].
  unfold unloaded_list_read. split; intros E; rewrite E; [|reflexivity].
  intros p perm addr Hp. unfold frame_offsets. cbn [u_hits filter].
  assert (X : perm (@nil umod) = []) by (apply Permutation_nil, Permutation_sym, Hp). rewrite X. reflexivity.
Qed.
Print Assumptions c13_unloaded_stream_all_or_nothing.

(* the contrast (mutation "StackFrame.unloaded_modules: HashMap", or a HashSet of offsets): the same printers over hash
   containers depend on the iteration order *)
Theorem c13_unloaded_hash_containers_refuted :
  (exists (m : list (Z * list Z)) (i1 i2 : list (Z * list Z) -> list (Z * list Z)),
     (forall x, Permutation (i1 x) x) /\ (forall x, Permutation (i2 x) x) /\
     render_unloaded i1 (fun s => s) m <> render_unloaded i2 (fun s => s) m) /\
  (exists (m : list (Z * list Z)) (j1 j2 : list Z -> list Z),
     (forall x, Permutation (j1 x) x) /\ (forall x, Permutation (j2 x) x) /\
     render_unloaded (fun x => x) j1 m <> render_unloaded (fun x => x) j2 m).
Proof.
  split.
  - exists [(1, [10]); (2, [20])], (fun x => x), (@rev _).
    split; [intros; apply Permutation_refl|]. split; [intros; apply Permutation_sym, Permutation_rev|]. exact render_unloaded_hash_depends.
  - exists [(1, [10; 20])], (fun x => x), (@rev _).
    split; [intros; apply Permutation_refl|]. split; [intros; apply Permutation_sym, Permutation_rev|]. exact render_unloaded_hashset_depends.
Qed.
Print Assumptions c13_unloaded_hash_containers_refuted.

(* non-vacuity: three unloaded modules, two of them with one name, all containing the address; visited forwards and
   backwards, debug and release *)
Example c13_nonvacuous_unloaded :
  let l := [ {| u_name := [98]; u_base := 4096; u_size := 8192 |}; {| u_name := [97]; u_base := 4352; u_size := 8192 |};
             {| u_name := [98]; u_base := 4608; u_size := 4096 |}; {| u_name := [99]; u_base := 0; u_size := 16 |} ] in
  umods_wf l /\ unloaded_list_read l = l /\
  unloaded_list_read ({| u_name := [100]; u_base := 4096; u_size := 0 |} :: l) = [] /\
  frame_offsets Debug (fun h => h) 5000 l = Ret [([97], [648]); ([98], [392; 904])] /\
  frame_offsets Release (@rev _) 5000 l = Ret [([97], [648]); ([98], [392; 904])].
Proof. cbn zeta. split; [intros u Hu; cbn in Hu; intuition (subst; cbn; lia)|]. repeat split; vm_compute; reflexivity. Qed.

(* ---- the evil-json certificates from the MEMBERS of the parsed JSON object (a repeated certificate name replaces the earlier
   member, as serde's HashMap visitor does): whatever iteration order the HashMap has, every module gets the same certificate.
   No NoDup hypothesis is left: it is proved of the map the members build (hm_of_members_nodup) *)
Theorem c13_cert_pipeline_order_independent :
  forall (perm1 perm2 : list (bytes * list bytes) -> list (bytes * list bytes)) (members : list (bytes * list bytes)) (module : bytes),
  (forall m, Permutation (perm1 m) m) -> (forall m, Permutation (perm2 m) m) ->
  cert_pipeline perm1 members module = cert_pipeline perm2 members module.
Proof. exact cert_pipeline_order_independent. Qed.
Print Assumptions c13_cert_pipeline_order_independent.

Example c13_nonvacuous_cert_pipeline :
  (* {"b": [m], "a": [m], "b": [x]}: the second "b" replaces the first, so "a" is the only certificate of m *)
  cert_pipeline (@rev _) [([98], [[109]]); ([97], [[109]]); ([98], [[120]])] [109] = Some [97] /\
  cert_pipeline (fun x => x) [([98], [[109]]); ([97], [[109]]); ([98], [[120]])] [109] = Some [97].
Proof. split; vm_compute; reflexivity. Qed.

(* ---- the proc_limits array with everything print_json emits per entry (name, soft, hard, unit; any formatter), from the stream
   bytes: the same for every iteration order of the HashMap (c13_limits_pipeline_order_independent was about the names) *)
Theorem c13_limits_entries_order_independent :
  forall (R : Type) (fmt : bytes * (limit * limit * bytes) -> R) (p1 p2 : list entry -> list entry) (data : bytes),
  (forall m, Permutation (p1 m) m) -> (forall m, Permutation (p2 m) m) ->
  limits_render fmt p1 data = limits_render fmt p2 data.
Proof. exact @limits_render_order_independent. Qed.
Print Assumptions c13_limits_entries_order_independent.

Example c13_nonvacuous_limits_entries :
  (* a stream whose second "Max open files" line replaces the first; the map iterated forwards and backwards *)
  let b := bytes_of_string in
  let nl := String (Ascii.ascii_of_nat 10) "" in
  let data := b ("Limit  Soft Limit  Hard Limit  Units" ++ nl ++ "Max open files  1024  4096  files" ++ nl ++
                 "Max cpu time  unlimited  unlimited  seconds" ++ nl ++ "Max open files  7  9  files" ++ nl)%string in
  limits_render (fun e => e) (@rev _) data =
    Ret [(b "Max cpu time", (Unlimited, Unlimited, b "seconds")); (b "Max open files", (Limited 7, Limited 9, b "files"))] /\
  limits_render (fun e => e) (fun m => m) data = limits_render (fun e => e) (@rev _) data.
Proof. cbv zeta. split; vm_compute; reflexivity. Qed.

(* closed form of the certificate fold (any iteration order, distinct names or not): the module gets the GREATEST certificate
   name, in the order the code sorts by, among the certificates that list it; none if no certificate lists it.  With a strict
   TOTAL order on the names this determines the certificate from the set of entries alone *)
Theorem c13_cert_greatest_wins :
  forall (C M : Type) (meqb : M -> M -> bool) (cltb : C -> C -> bool),
  (forall a, cltb a a = false) ->
  (forall a b c, cltb a b = true -> cltb b c = true -> cltb a c = true) ->
  forall (iter : list (C * list M)) (x : M),
  match cert_of meqb cltb iter x with
  | None => forall e, In e iter -> existsb (meqb x) (snd e) = false
  | Some c => (exists ms, In (c, ms) iter /\ existsb (meqb x) ms = true) /\
              forall e, In e iter -> existsb (meqb x) (snd e) = true -> cltb c (fst e) = false
  end.
Proof. intros C M meqb cltb Hi Ht. exact (@cert_greatest_wins C M meqb cltb Hi Ht). Qed.
Print Assumptions c13_cert_greatest_wins.

(* ... and from the MEMBERS of the JSON object, for every iteration order of the HashMap: the member that counts for a name is the last
   one written (last_member); the module gets the greatest name whose counting member lists it *)
Theorem c13_cert_pipeline_spec :
  forall (perm : list (bytes * list bytes) -> list (bytes * list bytes)) (members : list (bytes * list bytes)) (module : bytes),
  (forall m, Permutation (perm m) m) ->
  match cert_pipeline perm members module with
  | None => forall c ms, last_member bytes_eqb c members = Some ms -> existsb (bytes_eqb module) ms = false
  | Some c => (exists ms, last_member bytes_eqb c members = Some ms /\ existsb (bytes_eqb module) ms = true) /\
              forall c' ms', last_member bytes_eqb c' members = Some ms' -> existsb (bytes_eqb module) ms' = true -> bytes_ltb c c' = false
  end.
Proof. exact cert_pipeline_spec. Qed.
Print Assumptions c13_cert_pipeline_spec.

Example c13_nonvacuous_cert_greatest :
  cert_pipeline (@rev _) [([97], [[109]]); ([98], [[109]; [120]])] [109] = Some [98] /\
  cert_pipeline (fun x => x) [([98], [[109]; [120]]); ([97], [[109]])] [109] = Some [98] /\
  cert_pipeline (fun x => x) [([98], [[109]; [120]]); ([97], [[109]])] [121] = None.
Proof. repeat split; vm_compute; reflexivity. Qed.

(* ---- a BTreeSet of any strictly, totally ordered key (the register names check_for_bitflips walks; the offsets above): what
   an iteration yields is the strictly ascending list of the members, whatever the order of the inserts and however often a
   member was inserted *)
Theorem c13_ordered_set_order_independent :
  forall (K : Type) (kltb : K -> K -> bool),
  (forall a, kltb a a = false) ->
  (forall a b c, kltb a b = true -> kltb b c = true -> kltb a c = true) ->
  (forall a b, kltb a b = false -> kltb b a = false -> a = b) ->
  forall l1 l2 : list K, Permutation l1 l2 -> oset_of_list kltb l1 = oset_of_list kltb l2.
Proof. intros K kltb Hi Ht Hto. exact (@oset_of_list_perm K kltb Hi Ht Hto). Qed.
Print Assumptions c13_ordered_set_order_independent.

Theorem c13_ordered_set_determined :
  forall (K : Type) (kltb : K -> K -> bool),
  (forall a, kltb a a = false) ->
  (forall a b c, kltb a b = true -> kltb b c = true -> kltb a c = true) ->
  (forall a b, kltb a b = false -> kltb b a = false -> a = b) ->
  forall l : list K, osorted kltb (oset_of_list kltb l) /\ forall x, In x (oset_of_list kltb l) <-> In x l.
Proof. intros K kltb Hi Ht Hto. exact (@oset_of_list_spec K kltb Hi Ht Hto). Qed.
Print Assumptions c13_ordered_set_determined.

(* crash_info.possible_bit_flips: whatever order the operands of the crashing instruction contributed their registers in (and however
   often one register occurs), the array is the same; through a hash container it is not (seeded change C13-2) *)
Theorem c13_bitflip_candidates_order_independent :
  forall (K B : Type) (kltb : K -> K -> bool),
  (forall a, kltb a a = false) ->
  (forall a b c, kltb a b = true -> kltb b c = true -> kltb a c = true) ->
  (forall a b, kltb a b = false -> kltb b a = false -> a = b) ->
  forall (cands : K -> list B) (base : list B) (l1 l2 : list K), Permutation l1 l2 ->
  bitflip_candidates kltb cands base l1 = bitflip_candidates kltb cands base l2.
Proof.
  intros K B kltb Hi Ht Hto cands base l1 l2 H. unfold bitflip_candidates.
  rewrite (@oset_of_list_perm K kltb Hi Ht Hto l1 l2 H). reflexivity.
Qed.
Print Assumptions c13_bitflip_candidates_order_independent.

Theorem c13_bitflip_candidates_hash_refuted :
  exists (i1 i2 : list Z -> list Z) (regs : list Z),
    (forall x, Permutation (i1 x) x) /\ (forall x, Permutation (i2 x) x) /\
    bitflip_candidates_hash i1 (fun r => [r]) [] regs <> bitflip_candidates_hash i2 (fun r => [r]) [] regs.
Proof.
  exists (fun x => x), (@rev _), [1; 2].
  split; [intros; apply Permutation_refl|]. split; [intros; apply Permutation_sym, Permutation_rev|]. cbn. discriminate.
Qed.
Print Assumptions c13_bitflip_candidates_hash_refuted.

Example c13_nonvacuous_ordered_set :
  (* rcx, rax, rcx, rdx as byte strings *)
  oset_of_list bytes_ltb [[114; 99; 120]; [114; 97; 120]; [114; 99; 120]; [114; 100; 120]] = [[114; 97; 120]; [114; 99; 120]; [114; 100; 120]] /\
  oset_of_list bytes_ltb [[114; 100; 120]; [114; 99; 120]; [114; 97; 120]; [114; 99; 120]] = [[114; 97; 120]; [114; 99; 120]; [114; 100; 120]].
Proof. split; vm_compute; reflexivity. Qed.

(* ---- calculate_heuristics' loop over the valid registers of the crashing context (nearby_registers, poison_registers): a count
   and an any — the same for every order of the registers (the order is in fact fixed: MinidumpContext::valid_registers filters
   the REGISTERS slice; see Sites.PublicApiOnly for the HashSet iterator next to it) *)
Theorem c13_register_scan_order_independent :
  forall (near pois : Z -> bool) (i1 i2 : list Z), Permutation i1 i2 ->
  register_scan near pois i1 = register_scan near pois i2 /\
  register_scan near pois i1 = (length (filter near i1), existsb pois i1).
Proof. intros near pois i1 i2 H. split; [apply register_scan_perm; exact H|apply register_scan_closed]. Qed.
Print Assumptions c13_register_scan_order_independent.

Example c13_nonvacuous_register_scan :
  register_scan (fun a => a <? 10) (fun a => a =? 5) [1; 20; 5; 7] = (3%nat, true) /\
  register_scan (fun a => a <? 10) (fun a => a =? 5) [7; 5; 20; 1] = (3%nat, true).
Proof. split; vm_compute; reflexivity. Qed.

(* ---- every iteration over an ORDERED container and every field declared as one is an enumerated, classified site *)
Theorem c13_ordered_sites_modelled :
  RM.Gen.C13Sites.ordered_iteration_sites = map fst modelled_ordered_iteration_sites /\
  RM.Gen.C13Sites.ordered_container_fields = map fst modelled_ordered_container_fields.
Proof. split; reflexivity. Qed.
Print Assumptions c13_ordered_sites_modelled.

(* ... and the seven pieces of code that Model.cert_of and C13/Unloaded.v model read today exactly as they did when the model was written *)
Theorem c13_pinned_code_modelled :
  RM.Gen.C13Sites.pinned_model_code = map fst modelled_pinned_code.
Proof. reflexivity. Qed.
Print Assumptions c13_pinned_code_modelled.

(* ---- the thread_local print context is written by the printers themselves, first thing, and by nobody else; it is read only by
   Display for Address (compared on every oracle case: one state printed after dumps of both pointer widths were processed and
   printed on the same thread, and on a fresh OS thread, must give the bytes of the plain build-then-print run) *)
Theorem c13_print_context_set_by_printers :
  RM.Gen.C13Sites.print_context_sites = map fst modelled_print_context_sites.
Proof. reflexivity. Qed.
Print Assumptions c13_print_context_set_by_printers.
