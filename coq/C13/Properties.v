(* C13/Properties.v — property theorems only (partial: the logic cores of determinism). *)
From Coq Require Import Lia Sorting.Permutation.
From RM Require Import C13.Model C13.Proofs.
From RM Require C12.Model C12.Proofs C13.Sched C13.ProofsSched.
Open Scope Z_scope.

(* ---- rendering does not depend on hash iteration order *)
(* proc_limits (after fix 1b3b3b2): for any strict total order on the names, any two iteration
   orders of one map (distinct keys) render identically *)
Theorem c13_render_order_independent :
  forall (K V R : Type) (ltb : K -> K -> bool),
  (forall a, ltb a a = false) ->
  (forall a b c, ltb a b = true -> ltb b c = true -> ltb a c = true) ->
  (forall a b, ltb a b = false -> ltb b a = false -> a = b) ->
  forall (fmt : K * V -> R) (m i1 i2 : list (K * V)),
  NoDup (map fst m) -> Permutation i1 m -> Permutation i2 m ->
  render ltb fmt i1 = render ltb fmt i2.
Proof. intros K V R ltb Hi Ht Hto. exact (@render_order_independent K V ltb Hi Ht Hto R). Qed.
Print Assumptions c13_render_order_independent.

(* ... instantiated at the order actually used: String's bytewise order *)
Theorem c13_limits_json_order_independent :
  forall (V R : Type) (fmt : bytes * V -> R) (m i1 i2 : list (bytes * V)),
  NoDup (map fst m) -> Permutation i1 m -> Permutation i2 m ->
  render bytes_ltb fmt i1 = render bytes_ltb fmt i2.
Proof.
  intros V R. exact (@render_order_independent bytes V bytes_ltb bytes_ltb_irrefl bytes_ltb_trans bytes_ltb_total R).
Qed.
Print Assumptions c13_limits_json_order_independent.

(* F-C13a: before the fix the array was emitted in iteration order *)
Theorem c13_render_refuted :
  exists (m i1 i2 : list (Z * Z)), NoDup (map fst m) /\ Permutation i1 m /\ Permutation i2 m /\
    render_v0 (fun e => fst e) i1 <> render_v0 (fun e => fst e) i2.
Proof.
  exists [(1, 10); (2, 20)], [(1, 10); (2, 20)], [(2, 20); (1, 10)].
  split; [repeat constructor; cbn; intuition discriminate|].
  split; [apply Permutation_refl|]. split; [apply perm_swap|]. exact render_v0_depends.
Qed.
Print Assumptions c13_render_refuted.

(* evil-json certificates (after fix 824bddc) *)
Theorem c13_cert_order_independent :
  forall (C M : Type) (meqb : M -> M -> bool) (cltb : C -> C -> bool),
  (forall a, cltb a a = false) ->
  (forall a b c, cltb a b = true -> cltb b c = true -> cltb a c = true) ->
  (forall a b, cltb a b = false -> cltb b a = false -> a = b) ->
  forall (m i1 i2 : list (C * list M)) (x : M),
  NoDup (map fst m) -> Permutation i1 m -> Permutation i2 m ->
  cert_of meqb cltb i1 x = cert_of meqb cltb i2 x.
Proof. exact @cert_order_independent. Qed.
Print Assumptions c13_cert_order_independent.

(* F-C13d: before the fix the certificate reported for a module listed twice depended on the order *)
Theorem c13_cert_refuted :
  exists (i1 i2 : list (Z * list Z)) x, Permutation i1 i2 /\ NoDup (map fst i1) /\
    cert_of_v0 Z.eqb i1 x <> cert_of_v0 Z.eqb i2 x.
Proof.
  exists [(1, [7]); (2, [7])], [(2, [7]); (1, [7])], 7.
  split; [apply perm_swap|]. split; [repeat constructor; cbn; intuition discriminate|]. exact cert_v0_depends.
Qed.
Print Assumptions c13_cert_refuted.

(* registers are emitted in the fixed order of general_purpose_registers(), whatever the
   iteration order of the validity HashSet *)
Theorem c13_registers_order_independent :
  forall (K : Type) (eqb : K -> K -> bool) (v1 v2 order : list K),
  Permutation v1 v2 -> emit_registers eqb v1 order = emit_registers eqb v2 order.
Proof. exact @emit_registers_order_independent. Qed.
Print Assumptions c13_registers_order_independent.

(* ---- the per-thread walks *)
(* join_all returns the outputs by index, in whatever order the sub-futures complete *)
Theorem c13_join_by_index :
  forall (A : Type) (n : nat) (res : nat -> A) (completion : list nat),
  (forall i, (i < n)%nat -> In i completion) ->
  join_all n res completion = map (fun i => Some (res i)) (seq 0 n).
Proof. exact @join_by_index. Qed.
Print Assumptions c13_join_by_index.

(* every thread's symbol answers, hence its frames (any function [walk] of them), are the same
   under every schedule that lets all walks finish — from C12's invariant (every requester of a
   key sees the supplier's one answer) *)
Theorem c13_stacks_schedule_independent :
  forall (F : Type) (c : C12.Model.config) (walk : C12.Model.task -> list (C12.Model.key * C12.Model.outcome) -> F)
         (s1 s2 : list C12.Model.task),
  C12.Model.all_done c (C12.Model.run c s1) = true -> C12.Model.all_done c (C12.Model.run c s2) = true ->
  C13.Sched.process_threads walk c s1 = C13.Sched.process_threads walk c s2.
Proof. intros F c walk s1 s2. exact (C13.ProofsSched.threads_independent c walk s1 s2). Qed.
Print Assumptions c13_stacks_schedule_independent.

(* ---- the symbol stats snapshot, keyed by leaf name *)
Theorem c13_stats_independent :
  forall (c : C12.Model.config) (s1 s2 : list C12.Model.task) (leafname : nat),
  C13.Sched.leaf_injective c ->
  C12.Model.all_done c (C12.Model.run c s1) = true -> C12.Model.all_done c (C12.Model.run c s2) = true ->
  C13.Sched.stats_snapshot c s1 leafname = C13.Sched.stats_snapshot c s2 leafname.
Proof. exact C13.ProofsSched.stats_independent. Qed.
Print Assumptions c13_stats_independent.

(* ... and the rendered "modules" array of print_json (loaded_symbols, missing_symbols, corrupt_symbols per
   module, looked up under the leaf name) is the same for all finishing schedules, and equals a function
   of the configuration alone *)
Theorem c13_modules_json_independent :
  forall (c : C12.Model.config) (s1 s2 : list C12.Model.task) (mods : list C12.Model.key),
  C13.Sched.leaf_injective c ->
  C12.Model.all_done c (C12.Model.run c s1) = true -> C12.Model.all_done c (C12.Model.run c s2) = true ->
  C13.Sched.render_modules c s1 mods = C13.Sched.render_modules c s2 mods.
Proof. exact C13.ProofsSched.render_modules_independent. Qed.
Print Assumptions c13_modules_json_independent.

Theorem c13_modules_json_determined :
  forall (c : C12.Model.config) (sched : list C12.Model.task) (mods : list C12.Model.key),
  C13.Sched.leaf_injective c -> C12.Model.all_done c (C12.Model.run c sched) = true ->
  C13.Sched.render_modules c sched mods = C13.Sched.modules_spec c mods.
Proof. exact C13.ProofsSched.render_modules_spec. Qed.
Print Assumptions c13_modules_json_determined.

(* F-C13c: without "distinct module keys have distinct leaf names" the last completion wins *)
Theorem c13_stats_refuted :
  exists (c : C12.Model.config) (s1 s2 : list C12.Model.task) (leafname : nat),
  C12.Model.all_done c (C12.Model.run c s1) = true /\ C12.Model.all_done c (C12.Model.run c s2) = true /\
  C13.Sched.stats_snapshot c s1 leafname <> C13.Sched.stats_snapshot c s2 leafname.
Proof.
  exists C13.ProofsSched.same_leaf_cfg, [0%nat; 1%nat], [1%nat; 0%nat], 0%nat.
  destruct C13.ProofsSched.stats_depends_on_schedule as [A [B [C D]]].
  split; [exact A|]. split; [exact B|]. rewrite C, D. discriminate.
Qed.
Print Assumptions c13_stats_refuted.

(* ---- non-vacuity *)
Example c13_nonvacuous_render :
  render Z.ltb (fun e : Z * Z => snd e) [(3, 30); (1, 10); (2, 20)] = [10; 20; 30] /\
  render Z.ltb (fun e : Z * Z => snd e) [(2, 20); (3, 30); (1, 10)] = [10; 20; 30].
Proof. split; reflexivity. Qed.

Example c13_nonvacuous_join :
  join_all 3 (fun i => (10 * i)%nat) [2%nat; 0%nat; 1%nat] = [Some 0%nat; Some 10%nat; Some 20%nat] /\
  join_by_completion (fun i => (10 * i)%nat) [2%nat; 0%nat; 1%nat] = [Some 20%nat; Some 0%nat; Some 10%nat].
Proof. split; reflexivity. Qed.

(* three threads sharing two modules with distinct leaf names, supplier suspending: two very
   different schedules finish and agree *)
Example c13_nonvacuous_sched :
  let c := {| C12.Model.tasks := [[0; 1]; [1; 0]; [0]]%nat;
              C12.Model.susp := fun k => match k with O => 2%nat | _ => 1%nat end;
              C12.Model.outc := fun k => match k with O => C12.Model.OOk | _ => C12.Model.OParse end;
              C12.Model.leaf := fun k => k |} in
  let s1 := [0; 0; 0; 0; 1; 1; 1; 2; 2]%nat in
  let s2 := [2; 1; 0; 2; 1; 0; 2; 1; 0; 2; 1; 0; 2; 1; 0]%nat in
  C12.Model.all_done c (C12.Model.run c s1) = true /\ C12.Model.all_done c (C12.Model.run c s2) = true /\
  C13.Sched.leaf_injective c /\
  C13.Sched.process_threads (fun _ l => l) c s1 = C13.Sched.process_threads (fun _ l => l) c s2 /\
  C13.Sched.stats_snapshot c s1 1%nat = Some C12.Model.OParse.
Proof.
  cbv zeta. split; [vm_compute; reflexivity|]. split; [vm_compute; reflexivity|].
  split; [intros k1 k2 _ _ H; exact H|]. split; vm_compute; reflexivity.
Qed.
