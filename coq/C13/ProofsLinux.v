(* C13/ProofsLinux.v — the lsb-release fold is "last line wins" (a function of the file-ordered lines), the
   HashMap variant is not; in-place walks commute across threads; completion-ordered collection does not. *)
From Coq Require Import Lia Sorting.Permutation String Ascii.
From RM Require Import C13.Model C13.Proofs C13.Linux.
Open Scope string_scope.
Open Scope list_scope.
Open Scope Z_scope.

(* readable byte strings for witnesses and examples (not part of the extracted model) *)
Definition bytes_of_string (s : string) : bytes := map (fun a => Z.of_nat (nat_of_ascii a)) (list_ascii_of_string s).

Lemma fld_eqb_refl f : fld_eqb f f = true.
Proof. destruct f; reflexivity. Qed.
Lemma fld_eqb_eq a b : fld_eqb a b = true -> a = b.
Proof. destruct a, b; cbn; intros H; try reflexivity; discriminate. Qed.

(* ---- LinuxStandardBase::from *)
Lemma lsb_step_at acc e f :
  lsb_step acc e f = match field_of_key (fst e) with
                     | Some g => if fld_eqb f g then snd e else acc f
                     | None => acc f end.
Proof. unfold lsb_step. destruct (field_of_key (fst e)) as [g|]; reflexivity. Qed.

Lemma lsb_fold_from lines : forall acc f,
  fold_left lsb_step lines acc f = last_value f lines (acc f).
Proof.
  induction lines as [|e t IH]; intros acc f; cbn [fold_left last_value]; [reflexivity|].
  rewrite IH, lsb_step_at. reflexivity.
Qed.

Lemma lsb_fold_last_wins lines f : lsb_fold lines f = lsb_spec lines f.
Proof. unfold lsb_fold, lsb_spec. rewrite lsb_fold_from. reflexivity. Qed.

(* the value of a field after appending a line that feeds it is that line's value, whatever came before *)
Lemma last_value_app f l1 l2 acc : last_value f (l1 ++ l2) acc = last_value f l2 (last_value f l1 acc).
Proof. revert acc. induction l1 as [|e t IH]; intros acc; cbn [app last_value]; [reflexivity|]. apply IH. Qed.

Lemma lsb_fold_snoc lines k v f :
  field_of_key k = Some f -> lsb_fold (lines ++ [(k, v)]) f = v.
Proof.
  intros H. rewrite lsb_fold_last_wins. unfold lsb_spec. rewrite last_value_app. cbn [last_value fst snd].
  rewrite H, fld_eqb_refl. reflexivity.
Qed.

Definition lsb_conflict : list kv :=
  [(bytes_of_string "DISTRIB_ID", bytes_of_string "Ubuntu"); (bytes_of_string "ID", bytes_of_string "ubuntu")].

Lemma lsb_from_map_depends :
  lsb_from_map (fun m => m) lsb_conflict FId <> lsb_from_map (@rev kv) lsb_conflict FId.
Proof. vm_compute. discriminate. Qed.

Lemma lsb_conflict_keys_distinct : NoDup (map fst (to_kv_map lsb_conflict)).
Proof.
  vm_compute. constructor; [|constructor; [|constructor]]; cbn; [|tauto].
  intros [H|[]]. discriminate.
Qed.

(* first wins (Pid, microcode) *)
Lemma first_value_first key l1 v l2 :
  (forall e, In e l1 -> bytes_eqb (fst e) key = false) ->
  bytes_eqb key key = true ->
  first_value key (l1 ++ (key, v) :: l2) = Some v.
Proof.
  intros H R. unfold first_value. induction l1 as [|e t IH]; cbn [app find fst].
  - rewrite R. reflexivity.
  - rewrite (H e (or_introl eq_refl)). apply IH. intros e' He'. apply H. right. exact He'.
Qed.

(* ---- walks in place *)
Section InPlaceFacts.
Context {A : Type}.

Lemma nth_error_upd_same (f : A -> A) : forall l i, nth_error (upd_slot i f l) i = option_map f (nth_error l i).
Proof.
  induction l as [|x t IH]; intros [|i]; cbn [upd_slot nth_error option_map]; try reflexivity. apply IH.
Qed.

Lemma nth_error_upd_other (f : A -> A) : forall l i j, i <> j -> nth_error (upd_slot i f l) j = nth_error l j.
Proof.
  induction l as [|x t IH]; intros [|i] [|j] H; cbn [upd_slot nth_error]; try reflexivity; try congruence.
  apply IH. congruence.
Qed.

Lemma upd_slot_length (f : A -> A) : forall l i, length (upd_slot i f l) = length l.
Proof. induction l as [|x t IH]; intros [|i]; cbn [upd_slot length]; try reflexivity. rewrite IH. reflexivity. Qed.

Lemma option_map_comp (f : A -> A) (g : A -> A) o : option_map g (option_map f o) = option_map (fun x => g (f x)) o.
Proof. destruct o; reflexivity. Qed.

Lemma run_events_nth (evs : list (nat * (A -> A))) : forall l i,
  nth_error (run_events evs l) i = option_map (apply_all (events_of i evs)) (nth_error l i).
Proof.
  induction evs as [|[k f] t IH]; intros l i; unfold run_events in *; cbn [fold_left fst snd].
  - unfold events_of, apply_all. cbn. destruct (nth_error l i); reflexivity.
  - rewrite IH. unfold events_of. cbn [filter fst].
    destruct (Nat.eqb k i) eqn:E.
    + apply Nat.eqb_eq in E. subst k. rewrite nth_error_upd_same, option_map_comp. cbn [map snd].
      destruct (nth_error l i); reflexivity.
    + apply Nat.eqb_neq in E. rewrite nth_error_upd_other by exact E. reflexivity.
Qed.

Lemma nth_error_ext_eq : forall (l1 l2 : list A), (forall i, nth_error l1 i = nth_error l2 i) -> l1 = l2.
Proof.
  induction l1 as [|x t IH]; intros [|y u] H.
  - reflexivity.
  - specialize (H O). discriminate.
  - specialize (H O). discriminate.
  - pose proof (H O) as H0. cbn in H0. inversion H0; subst. f_equal. apply IH. intros i. exact (H (S i)).
Qed.

Lemma nth_error_mapi_from {B} (f : nat -> A -> B) : forall l n i,
  nth_error (mapi_from n f l) i = option_map (f (n + i)%nat) (nth_error l i).
Proof.
  induction l as [|x t IH]; intros n [|i]; cbn [mapi_from nth_error option_map]; try reflexivity.
  - rewrite Nat.add_0_r. reflexivity.
  - rewrite IH. replace (S n + i)%nat with (n + S i)%nat by lia. reflexivity.
Qed.

(* the final threads are: slot i = thread i's own events applied in their order — no other thread, no
   interleaving, no completion order appears *)
Lemma run_events_closed_form (evs : list (nat * (A -> A))) l :
  run_events evs l = mapi_from 0 (fun i x => apply_all (events_of i evs) x) l.
Proof.
  apply nth_error_ext_eq. intros i. rewrite run_events_nth, nth_error_mapi_from. reflexivity.
Qed.

Lemma run_events_interleaving (e1 e2 : list (nat * (A -> A))) l :
  (forall i, events_of i e1 = events_of i e2) -> run_events e1 l = run_events e2 l.
Proof.
  intros H. rewrite !run_events_closed_form. apply nth_error_ext_eq. intros i.
  rewrite !nth_error_mapi_from. rewrite H. reflexivity.
Qed.
End InPlaceFacts.

(* ---- collecting results as they complete *)
Lemma collect_unordered_depends :
  collect_unordered (fun i => i) [0%nat; 1%nat] <> collect_unordered (fun i => i) [1%nat; 0%nat].
Proof. cbn. discriminate. Qed.

Lemma join_all_permutation {A} n (res : nat -> A) completion :
  Permutation completion (seq 0 n) -> join_all n res completion = map (fun i => Some (res i)) (seq 0 n).
Proof.
  intros H. apply join_by_index. intros i Hi.
  eapply Permutation_in; [apply Permutation_sym; exact H|]. apply in_seq. lia.
Qed.
