(* C13/Sites.v — the iteration sites over hash containers and the future combinators that the C13 theorems
   cover, each with the reason it cannot make the report depend on hash seeds or completion order.
   Gen/C13Sites.v is regenerated from the source on every run (translate/c13_sites.py); C13/Properties proves
   the generated lists equal to the ones below (c13_hash_sites_modelled, c13_concurrency_sites_modelled), so a
   NEW iteration over a HashMap / HashSet on the way to the report, a sort that disappears, or another way of
   collecting the per-thread walks breaks a proof obligation.  Definitions only. *)
From Coq Require Import List String.
Import ListNotations.
Open Scope string_scope.

Inductive site_class :=
  | SortedBeforeEmit      (* collected into a Vec and sorted by key before anything is emitted: c13_render_order_independent /
                             c13_cert_order_independent *)
  | MapIntoMap            (* a map's entries are inserted into another map that is only ever looked up by key: the order
                             matters only when two providers report the same key (MultiSymbolProvider: one provider
                             reports stats; single-provider Symbolizer stats are c13_stats_independent) *)
  | SetBeforeUse          (* a thread_local cell that every printer sets from the report itself (set_print_context, first
                             statement of print_internal / print_json) before the only reader (Display for Address) can run in
                             the same synchronous call: no value survives from one report to the next *)
  | InPlaceByIndex.       (* join_all over iter_mut(): future i owns slot i, results are not collected at all:
                             c13_walks_in_place_interleaving_independent, c13_join_by_index *)

Definition modelled_hash_sites : list ((string * string * string) * site_class) := [
  (("processor/process_state.rs", "print_json",
    "letmutsorted=limits.limits.iter().collect::<Vec<_>>();sorted.sort_by(|a,b|a.0.cmp(b.0))"), SortedBeforeEmit);
  (("processor/evil.rs", "handle_evil",
    "letmutcerts=certs.into_iter().collect::<Vec<_>>();certs.sort()"), SortedBeforeEmit);
  (("unwind/symbols/mod.rs", "stats", "result.extend(p.stats())"), MapIntoMap);
  (("breakpad-symbols/sym_file/walker.rs", "walk_with_stack_cfi",
    "letmutexprs:Vec<_>=exprs.into_iter().collect();exprs.sort_unstable()"), SortedBeforeEmit)
].

Definition modelled_concurrency_sites : list ((string * string * string) * site_class) := [
  (("processor/processor.rs", "into_process_state",
    "futures_util::future::join_all(state.threads.iter_mut().zip(self.thread_list.threads.iter()).enumerate()"), InPlaceByIndex)
].

(* state that survives an evaluation / a walk / a report: any NEW cell of this kind (for instance a scratch buffer shared by
   the evaluations of different walks) has to be argued here before the check is green again *)
Definition modelled_shared_state_sites : list ((string * string * string) * site_class) := [
  (("processor/process_state.rs", "thread_local SERIALIZATION_CONTEXT", "RefCell<SerializationContext>"), SetBeforeUse)
].
