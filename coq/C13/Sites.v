(* C13/Sites.v — the iteration sites over hash containers and the future combinators that the C13 theorems
   cover, each with the reason it cannot make the report depend on hash seeds or completion order.
   Gen/C13Sites.v is regenerated from the source on every run (translate/c13_sites.py); C13/Properties proves
   the generated lists equal to the ones below (c13_hash_sites_modelled, c13_concurrency_sites_modelled), so a
   NEW iteration over a HashMap / HashSet on the way to the report, a sort that disappears, or another way of
   collecting the per-thread walks breaks a proof obligation.  Definitions only. *)
From Coq Require Import List String.
Import ListNotations.
Open Scope string_scope.

Inductive site_class :=
  | SortedBeforeEmit      (* collected into a Vec and sorted by key before anything is emitted: c13_render_order_independent /
                             c13_cert_order_independent *)
  | MapIntoMap            (* a map's entries are inserted into another map that is only ever looked up by key: the iteration
                             order of each provider's map is irrelevant, the last provider (Vec order) that has the key wins:
                             c13_multi_provider_stats_order_independent (single-provider Symbolizer stats: c13_stats_independent) *)
  | SetBeforeUse          (* a thread_local cell that every printer sets from the report itself (set_print_context, first
                             statement of print_internal / print_json) before the only reader (Display for Address) can run in
                             the same synchronous call: no value survives from one report to the next *)
  | SymbolizerC12         (* the Symbolizer shared by all the walks: per-key FutMutex slots in a CacheMap, the pending_stats
                             counters and the stats map behind std Mutexes.  This IS the C12 model ([shared]: lock / value / req /
                             proc / stats); what the walks get out of it is schedule independent: c13_stacks_schedule_independent,
                             c13_adaptive_walks_schedule_independent, c13_stats_independent, c13_adaptive_stats_independent *)
  | ReporterOnly          (* PendingProcessorStats behind options.stat_reporter: written by the walks (add_walked_frame,
                             inc_processed_threads), read only by whoever holds the reporter — never by the walks, never by
                             into_process_state after add_unwalked_result, never by a printer: not part of the report.  Its
                             writes commute anyway (c13_post_walk_commuting_independent, counter_post) *)
  | SharedImmutable       (* a `&` to data that nobody can write while the futures live (no cell inside: the scan of
                             interior_mutable_sites lists none in MinidumpMemoryList / MinidumpModuleList / SystemInfo /
                             MinidumpUnloadedModuleList / ProcessorOptions apart from the reporter) *)
  | OwnSlotOnly           (* a statement of future i that reads shared immutable data and writes only slot i (`stack`) or its
                             own locals: c13_walks_in_place_*, c13_post_walk_readonly_independent *)
  | WalkInternal          (* an async fn of the unwinder itself: awaiting it can only suspend where IT awaits, i.e. (by the same list)
                             finally in a SymbolProvider method *)
  | OrderedContainer      (* a BTreeMap / BTreeSet: iteration is ascending by key whatever the insertion order and whatever any hash seed;
                             the map built per frame from the overlapping unloaded modules is a function of the SET of (name, offset)
                             pairs: c13_unloaded_offsets_order_independent / _determined; with hash containers in their place the
                             printers depend on the iteration order: c13_unloaded_hash_containers_refuted *)
  | DumpOrderList         (* not a map at all: MinidumpUnloadedModuleList::iter() is the Vec of the stream in file order (the field
                             ProcessState.unloaded_modules has the same NAME as StackFrame.unloaded_modules; the scan is name based) *)
  | SupplierSide          (* state inside a SymbolSupplier (feature `http`): a per-file once-cell of the same type as the Symbolizer's
                             per-module cell.  The theorems take the supplier as a function key -> outcome (C12 config.outc): "the same
                             symbols" is the premise of the property, a supplier whose answers depend on timing is outside it *)
  | FeatureGatedProvider  (* the debuginfo SymbolProvider (feature `debuginfo-symbols`, off in every build the check runs): a map that is only
                             looked up by module key, one futures Mutex per module around a lookup-only SymbolMap, a scratch value per OS
                             thread.  Not covered by the theorems (they are about the breakpad Symbolizer); listed so that the enumeration
                             of cells is complete and a NEW cell there is noticed *)
  | PublicApiOnly         (* CpuContext::valid_registers(&self, valid) hands out the validity HashSet's own iterator for
                             MinidumpContextValidity::Some; its only caller in the workspace is registers(), with All (the fixed REGISTERS
                             slice).  What the processor iterates (calculate_heuristics) is MinidumpContext::valid_registers(): the fixed
                             register list filtered by membership — c13_registers_order_independent — and the loop over it is a count and
                             an any, which would not care about the order either: c13_register_scan_order_independent *)
  | InPlaceByIndex.       (* join_all over iter_mut(): future i owns slot i, results are not collected at all:
                             c13_walks_in_place_interleaving_independent, c13_join_by_index *)

Definition modelled_hash_sites : list ((string * string * string) * site_class) := [
  (("processor/process_state.rs", "print_json",
    "letmutsorted=limits.limits.iter().collect::<Vec<_>>();sorted.sort_by(|a,b|a.0.cmp(b.0))"), SortedBeforeEmit);
  (("processor/evil.rs", "handle_evil",
    "letmutcerts=certs.into_iter().collect::<Vec<_>>();certs.sort()"), SortedBeforeEmit);
  (("unwind/symbols/mod.rs", "stats", "result.extend(p.stats())"), MapIntoMap);
  (("breakpad-symbols/sym_file/walker.rs", "walk_with_stack_cfi",
    "letmutexprs:Vec<_>=exprs.into_iter().collect();exprs.sort_unstable()"), SortedBeforeEmit);
  (("minidump/context.rs", "valid_registers",
    "MinidumpContextValidity::All=>CpuRegistersInner::Slice(Self::REGISTERS.iter()),MinidumpContextValidity::Some(valid)=>CpuRegistersInner::Set(valid.iter()"), PublicApiOnly)
].

Definition modelled_concurrency_sites : list ((string * string * string) * site_class) := [
  (("processor/processor.rs", "into_process_state",
    "futures_util::future::join_all(state.threads.iter_mut().zip(self.thread_list.threads.iter()).enumerate()"), InPlaceByIndex)
].

(* state that survives an evaluation / a walk / a report: any NEW cell of this kind (for instance a scratch buffer shared by
   the evaluations of different walks) has to be argued here before the check is green again *)
Definition modelled_shared_state_sites : list ((string * string * string) * site_class) := [
  (("processor/process_state.rs", "thread_local SERIALIZATION_CONTEXT", "RefCell<SerializationContext>"), SetBeforeUse)
].

(* ---- round 5: state shared by the per-thread futures of into_process_state *)
(* every cell that can be written through a shared reference, static or not *)
Definition modelled_interior_mutable_sites : list ((string * string * string) * site_class) := [
  (("processor/processor.rs", "struct PendingProcessorStats.stats", "Arc<Mutex<PendingProcessorStatsInner>>"), ReporterOnly);
  (("breakpad-symbols/lib.rs", "struct CachedAsyncResult.inner", "FutMutex<Option<Arc<Result<T,E>>>>"), SymbolizerC12);
  (("breakpad-symbols/lib.rs", "default", "inner:FutMutex::new(None)"), SymbolizerC12);
  (("breakpad-symbols/lib.rs", "struct Symbolizer.symbols", "CacheMap<ModuleKey,CachedAsyncResult<SymbolFile,SymbolError>>"), SymbolizerC12);
  (("breakpad-symbols/lib.rs", "struct Symbolizer.pending_stats", "Mutex<PendingSymbolStats>"), SymbolizerC12);
  (("breakpad-symbols/lib.rs", "struct Symbolizer.stats", "Mutex<HashMap<String,SymbolStats>>"), SymbolizerC12);
  (("breakpad-symbols/lib.rs", "new", "symbols:CacheMap::default()"), SymbolizerC12);
  (("breakpad-symbols/lib.rs", "new", "pending_stats:Mutex::default()"), SymbolizerC12);
  (("breakpad-symbols/lib.rs", "new", "stats:Mutex::default()"), SymbolizerC12);
  (("breakpad-symbols/http.rs", "struct HttpSymbolSupplier.cached_file_paths", "CacheMap<FileKey,CachedAsyncResult<(PathBuf,Option<Url>),FileError>>"), SupplierSide);
  (("unwind/symbols/debuginfo.rs", "struct Impl.symbols", "HashMap<ModuleKey,Mutex<SymbolMap>>"), FeatureGatedProvider);
  (("unwind/symbols/debuginfo.rs", "new", "Mutex::new(sm)"), FeatureGatedProvider);
  (("unwind/symbols/debuginfo.rs", "struct PerThread.inner", "CacheMap<std::thread::ThreadId,UnsafeCell<T>>"), FeatureGatedProvider)
].

(* what the per-thread future `.map(|(i, (stack, thread))| async move { .. })` uses from outside itself *)
Definition modelled_walk_future_captures : list ((string * string * string) * site_class) := [
  (("processor/processor.rs", "into_process_state/walk future", "memory_list=let:&self.memory_list"), SharedImmutable);
  (("processor/processor.rs", "into_process_state/walk future", "options=let:&self.options"), ReporterOnly);
  (("processor/processor.rs", "into_process_state/walk future", "modules=let:&state.modules"), SharedImmutable);
  (("processor/processor.rs", "into_process_state/walk future", "system_info=let:&state.system_info"), SharedImmutable);
  (("processor/processor.rs", "into_process_state/walk future", "symbol_provider=param:&P"), SymbolizerC12);
  (("processor/processor.rs", "into_process_state/walk future", "unloaded_modules=let:&state.unloaded_modules"), SharedImmutable)
].

(* its statements in order.  Only walk_stack awaits: everything after it runs in one piece when the walk finishes (C13/Budget.v
   [post]); none of those statements writes anything shared except the reporter, so [post_readonly] is the instance that applies *)
Definition modelled_walk_future_steps : list ((string * string * string) * site_class) := [
  (("processor/processor.rs", "into_process_state/walk future", "letmutstack_memory=thread.stack_memory(memory_list);|uses:memory_list"), OwnSlotOnly);
  (("processor/processor.rs", "into_process_state/walk future", "letstack_ptr=stack.frames.first().map(|ctx_frame|ctx_frame.context.get_stack_pointer());|uses:"), OwnSlotOnly);
  (("processor/processor.rs", "into_process_state/walk future", "ifletSome(stack_ptr)=stack_ptr{letcontains_stack_ptr=stack_memory.as_ref().and_then(|memor|uses:memory_list"), OwnSlotOnly);
  (("processor/processor.rs", "into_process_state/walk future", "walk_stack(i,|frame_idx:usize,frame:&StackFrame|{ifletSome(reporter)=options.stat_reporter|uses:options,modules,system_info,symbol_provider|awaits"), SymbolizerC12);
  (("processor/processor.rs", "into_process_state/walk future", "forframein&mutstack.frames{ifframe.module.is_none(){letmutoffsets=BTreeMap::new();forunloa|uses:unloaded_modules"), OwnSlotOnly);
  (("processor/processor.rs", "into_process_state/walk future", "ifoptions.recover_function_args{arg_recovery::fill_arguments(stack,stack_memory);}|uses:options"), OwnSlotOnly);
  (("processor/processor.rs", "into_process_state/walk future", "ifletSome(reporter)=options.stat_reporter{reporter.inc_processed_threads();}|uses:options"), ReporterOnly);
  (("processor/processor.rs", "into_process_state/walk future", "stack|uses:"), OwnSlotOnly)
].

(* every function whose future the unwinder awaits (all `.await`s of minidump-unwind/src/{lib,amd64,arm,arm64,arm64_old,mips,x86}.rs and
   symbols/mod.rs).  fill_symbol / walk_frame / get_file_path are the SymbolProvider methods (Symbolizer: the first two begin with
   get_symbols(module).await — C12's lookups; get_file_path is forwarded to the supplier and touches no Symbolizer state); everything else
   is an async fn of the unwinder.  So a walk is suspended only inside symbol lookups and what it does next depends on the dump and on
   the answers: the premise of C13/Adaptive.v (a walk = a decision tree over lookup answers) *)
Definition modelled_walk_await_callees : list (string * site_class) := [
  ("fill_source_line_info", WalkInternal); ("fill_symbol", SymbolizerC12); ("get_caller_by_cfi", WalkInternal);
  ("get_caller_by_scan", WalkInternal); ("get_caller_by_scan32", WalkInternal); ("get_caller_by_scan64", WalkInternal);
  ("get_caller_frame", WalkInternal); ("get_file_path", SymbolizerC12); ("instruction_seems_valid", WalkInternal);
  ("instruction_seems_valid_by_symbols", WalkInternal); ("walk_frame", SymbolizerC12)
].

(* ---- round 5, second pass: iterations over ORDERED containers (BTreeMap / BTreeSet) on the way to the report, and the
   fields declared with such a type.  A field that changes to a HashMap / HashSet leaves this list and enters
   hash_iteration_sites: both theorems break *)
Definition modelled_ordered_iteration_sites : list ((string * string * string) * site_class) := [
  (("processor/processor.rs", "check_for_bitflips", "forregin&exception_details.instruction_registers"), OrderedContainer);
  (("processor/process_state.rs", "print_json", "frame.unloaded_modules.iter("), OrderedContainer);
  (("processor/process_state.rs", "print_json", "self.unloaded_modules.iter("), DumpOrderList);
  (("unwind/lib.rs", "print", "for(name,offsets)in&frame.unloaded_modules"), OrderedContainer)
].
Definition modelled_ordered_container_fields : list ((string * string * string) * site_class) := [
  (("processor/processor.rs", "struct ExceptionDetails.instruction_registers", "BTreeSet<&'staticstr>"), OrderedContainer);
  (("processor/op_analysis.rs", "struct OpAnalysis.registers", "BTreeSet<&'staticstr>"), OrderedContainer);
  (("unwind/lib.rs", "struct StackFrame.unloaded_modules", "BTreeMap<String,BTreeSet<u64>>"), OrderedContainer)
].

(* code that C13/Model.v and C13/Unloaded.v model, as written, each with the Gallina definition that stands for it: an edit to
   one of these seven pieces of code changes the generated text and breaks c13_pinned_code_modelled until the model is brought in line *)
Definition modelled_pinned_code : list ((string * string * string) * string) := [
  (("processor/evil.rs", "handle_evil",
    "{letmutcert_map=HashMap::new();letmutcerts=certs.into_iter().collect::<Vec<_>>();certs.sort();for(cert,modules)incerts{formoduleinmodules{cert_map.insert(module,cert.clone());}}cert_map}"),
   "Model.cert_of / last_cert (later insert wins) on Unloaded.hm_of_members");
  (("processor/processor.rs", "check_for_bitflips",
    "forregin&exception_details.instruction_registers{ifletSome(address)=context.get_register(reg){info.possible_bit_flips.extend(bitflip::try_bit_flips(address,Some(reg),bit_range,Some(context),&self.memory_info,memory_op,));}}"),
   "Unloaded.bitflip_candidates (flat_map over oset_of_list)");
  (("processor/processor.rs", "into_process_state/walk future",
    "ifframe.module.is_none(){letmutoffsets=BTreeMap::new();forunloadedinunloaded_modules.modules_at_address(frame.instruction){letoffset=frame.instruction-unloaded.raw.base_of_image;offsets.entry(unloaded.name.clone()).or_insert_with(BTreeSet::new).insert(offset);}frame.unloaded_modules=offsets;}"),
   "Unloaded.frame_offsets / offsets_loop (chk_sub, map_upsert)");
  (("processor/processor.rs", "new",
    "letunloaded_modules=matchdump.get_stream::<MinidumpUnloadedModuleList>(){Ok(module_list)=>module_list,Err(_)=>MinidumpUnloadedModuleList::new(),}"),
   "Unloaded.unloaded_list_read (the [] branch)");
  (("minidump/minidump.rs", "MinidumpUnloadedModuleList::modules_at_address",
    "{self.modules_by_addr.iter().filter(move|(range,_idx)|range.contains(address)).map(move|(_range,idx)|&self.modules[*idx])}"),
   "Unloaded.u_hits / u_contains");
  (("minidump/minidump.rs", "MinidumpUnloadedModule::memory_range",
    "{ifself.size()==0{returnNone;}Some(Range::new(self.base_address(),self.base_address().checked_add(self.size())?-1,))}"),
   "Unloaded.u_range");
  (("minidump/minidump.rs", "MinidumpUnloadedModuleList::read",
    "ifraw.size_of_image==0||raw.size_of_imageasu64>(u64::MAX-raw.base_of_image){returnErr(Error::ModuleReadFailure);}"),
   "Unloaded.u_bad / unloaded_list_read")
].

(* ---- the thread_local print context (SERIALIZATION_CONTEXT: the pointer width every printed address is formatted with).  It is
   per OS thread and outlives a report, so the ONLY reason the bytes of a report do not depend on what the printing thread did before
   (another dump of the other width; nothing at all, on a fresh thread) is that every public printer stores the width of ITS state as
   its first statement, before the single reader (Display for Address) can run in the same synchronous call.  A writer that is not
   a printer (the state builder, say) or a printer that no longer begins with the call changes this list (seeded change C13-9) *)
Definition modelled_print_context_sites : list ((string * string * string) * site_class) := [
  (("processor/process_state.rs", "print_internal", "call|first statement"), SetBeforeUse);
  (("processor/process_state.rs", "print_json", "call|first statement"), SetBeforeUse);
  (("processor/process_state.rs", "fmt", "read:SERIALIZATION_CONTEXT.with(|ctx|ctx.borrow().pointer_width.unwrap_or(PointerWidth::Unknown))"), SetBeforeUse);
  (("processor/process_state.rs", "set_print_context", "write:SERIALIZATION_CONTEXT.with(|ctx|{ctx.borrow_mut().pointer_width=Some(self.system_info.cpu.pointer_width());})"), SetBeforeUse)
].
