(* C13/Cfi.v — the ORDER in which walk_with_stack_cfi applies the general-register rules of a STACK CFI record (round 5).
   breakpad-symbols/src/sym_file/walker.rs:
     parse_cfi_exprs   every `REG: EXPR` of the INIT line and then of the delta lines goes into one HashMap,
                       a later rule for the same REG replacing the earlier one                              [cfi_map]
     walk_with_stack_cfi   .cfa and .ra are taken out; the remaining entries are collected from the HashMap (iteration
                       order = the parameter [iter]), sorted by register name, and applied one after the other: each rule
                       is evaluated against the walker and written to the caller's register it names — a walker may
                       treat two names as ONE register (arm64 x29/fp, x30/lr; arm r11/fp, r14/lr), a failed rule clears
                       it: [step] is an arbitrary state transformer per (name, rule)                        [walk_cfi]
   [walk_cfi_seq] is the variant "in written order" with seq = output.len() as the sort key (seeded C13-7): a rule that
   re-defines a register does not grow the map, so it shares its number with the next new register; tied entries stay
   in iteration order (sort_unstable_by_key promises nothing about ties; keeping them as they come is one allowed
   behaviour).  Definitions only. *)
From RM Require Export C13.Model.
Close Scope Z_scope.
Open Scope nat_scope.

(* HashMap::insert *)
Fixpoint map_insert {K V} (keqb : K -> K -> bool) (k : K) (v : V) (m : list (K * V)) : list (K * V) :=
  match m with
  | [] => [(k, v)]
  | (k', v') :: t => if keqb k k' then (k, v) :: t else (k', v') :: map_insert keqb k v t
  end.

Section Cfi.
Context {K E W : Type} (keqb : K -> K -> bool).

Definition cfi_map (written : list (K * E)) : list (K * E) :=
  fold_left (fun m r => map_insert keqb (fst r) (snd r) m) written [].

Definition apply_rules {V} (expr : V -> E) (step : K -> E -> W -> W) (rules : list (K * V)) (w : W) : W :=
  fold_left (fun w r => step (fst r) (expr (snd r)) w) rules w.

Definition walk_cfi (ltb : K -> K -> bool) (step : K -> E -> W -> W) (iter : list (K * E) -> list (K * E))
    (written : list (K * E)) (w : W) : W :=
  apply_rules (fun e => e) step (sort_by_key ltb (iter (cfi_map written))) w.

(* the variant keyed by a sequence number: seq = output.len() right before the insert *)
Definition cfi_map_seq (written : list (K * E)) : list (K * (nat * E)) :=
  fold_left (fun m r => map_insert keqb (fst r) (length m, snd r) m) written [].
(* sort_by_key(|(_, (seq, _))| seq): insertion by sequence number, ties left as the iterator produced them *)
Fixpoint insert_seq (e : K * (nat * E)) (l : list (K * (nat * E))) : list (K * (nat * E)) :=
  match l with
  | [] => [e]
  | x :: t => if Nat.leb (fst (snd e)) (fst (snd x)) then e :: x :: t else x :: insert_seq e t
  end.
Definition sort_by_seq (l : list (K * (nat * E))) : list (K * (nat * E)) := fold_right insert_seq [] l.
Definition walk_cfi_seq (step : K -> E -> W -> W) (iter : list (K * (nat * E)) -> list (K * (nat * E)))
    (written : list (K * E)) (w : W) : W :=
  apply_rules snd step (sort_by_seq (iter (cfi_map_seq written))) w.
End Cfi.

(* a walker with aliases: the register file is a function of the SLOT, [slot] maps names to slots *)
Definition alias_step (slot : nat -> nat) (name : nat) (v : nat) (regs : nat -> option nat) : nat -> option nat :=
  fun r => if Nat.eqb r (slot name) then Some v else regs r.

(* ---- the arm64 walker on top of [walk_cfi] (correspondence: Q cases).  Register names are byte strings; which names
   exist and which are aliases comes from the source (Gen/C13Sites.v: REGISTERS and the alias arms of
   CONTEXT_ARM64::memoize_register, CALLEE_SAVED_REGS of the arm64 unwinder).
   CfiStackWalker: caller_ctx = callee's context, caller_validity = the callee-saved registers that are valid in the callee;
   set_caller_register(name, v): memoize(name)? -> valid, value written; a failed rule or a rejected value:
   clear_caller_register(name): memoize(name) -> not valid any more.  The register file is keyed by the memoized name. *)
From RM Require Gen.C13Sites.
Open Scope Z_scope.

(* the tables of one architecture: REGISTERS, the alias arms of memoize_register, CALLEE_SAVED_REGS, the register width *)
Record arch_tables := { at_regs : list bytes; at_aliases : list (bytes * bytes); at_saved : list bytes; at_bits : Z }.
Definition a64_tables : arch_tables :=
  {| at_regs := RM.Gen.C13Sites.arm64_register_bytes; at_aliases := RM.Gen.C13Sites.arm64_alias_bytes;
     at_saved := RM.Gen.C13Sites.arm64_callee_saved_bytes; at_bits := 64 |}.
Definition arm_tables : arch_tables :=
  {| at_regs := RM.Gen.C13Sites.arm_register_bytes; at_aliases := RM.Gen.C13Sites.arm_alias_bytes;
     at_saved := RM.Gen.C13Sites.arm_callee_saved_bytes; at_bits := 32 |}.

Definition arch_memoize (t : arch_tables) (name : bytes) : option bytes :=
  match find (fun e : bytes * bytes => bytes_eqb name (fst e)) (at_aliases t) with
  | Some e => Some (snd e)
  | None => find (bytes_eqb name) (at_regs t)
  end.
Definition a64_regs := bytes -> option Z.            (* memoized name -> value, if valid *)
(* a rule: Some v = the expression evaluates to v; None = it fails.  A value that does not fit the register
   (C::Register::try_from fails: u32 on arm) is rejected by set_caller_register, and the register is cleared like after a failure *)
Definition arch_step (t : arch_tables) (name : bytes) (rule : option Z) (regs : a64_regs) : a64_regs :=
  match arch_memoize t name with
  | None => regs
  | Some r => let v := match rule with Some x => if x <? 2 ^ at_bits t then Some x else None | None => None end in
              fun x => if bytes_eqb x r then v else regs x
  end.
(* [callee]: the callee's registers (all valid: frame 0) *)
Definition arch_forwarded (t : arch_tables) (callee : bytes -> Z) : a64_regs :=
  fun x => if existsb (bytes_eqb x) (at_saved t) then Some (callee x) else None.
Definition arch_walk (t : arch_tables) (iter : list (bytes * option Z) -> list (bytes * option Z)) (written : list (bytes * option Z))
    (callee : bytes -> Z) : a64_regs :=
  walk_cfi bytes_eqb bytes_ltb (arch_step t) iter written (arch_forwarded t callee).
Definition a64_memoize := arch_memoize a64_tables.
Definition a64_step := arch_step a64_tables.
Definition a64_forwarded := arch_forwarded a64_tables.
Definition a64_walk := arch_walk a64_tables.
Definition arm_walk := arch_walk arm_tables.

(* ---- MultiSymbolProvider::stats (minidump-unwind/src/symbols/mod.rs): `for p in providers { result.extend(p.stats()) }`:
   the providers in Vec order, every provider's map in ITS iteration order ([iters]: one permutation per provider),
   every entry inserted into the result (a later one replaces an earlier one with the same leaf name) *)
Definition merge_stats {K V} (keqb : K -> K -> bool) (maps : list (list (K * V))) : list (K * V) :=
  fold_left (fun m r => map_insert keqb (fst r) (snd r) m) (concat maps) [].
