(* C13/Cfi.v — the ORDER in which walk_with_stack_cfi applies the general-register rules of a STACK CFI record (round 5).
   breakpad-symbols/src/sym_file/walker.rs:
     parse_cfi_exprs   every `REG: EXPR` of the INIT line and then of the delta lines goes into one HashMap,
                       a later rule for the same REG replacing the earlier one                              [cfi_map]
     walk_with_stack_cfi   .cfa and .ra are taken out; the remaining entries are collected from the HashMap (iteration
                       order = the parameter [iter]), sorted by register name, and applied one after the other: each rule
                       is evaluated against the walker and written to the caller's register it names — a walker may
                       treat two names as ONE register (arm64 x29/fp, x30/lr; arm r11/fp, r14/lr), a failed rule clears
                       it: [step] is an arbitrary state transformer per (name, rule)                        [walk_cfi]
   [walk_cfi_seq] is the variant "in written order" with seq = output.len() as the sort key (seeded C13-7): a rule that
   re-defines a register does not grow the map, so it shares its number with the next new register; tied entries stay
   in iteration order (sort_unstable_by_key promises nothing about ties; keeping them as they come is one allowed
   behaviour).  Definitions only. *)
From RM Require Export C13.Model.
Close Scope Z_scope.
Open Scope nat_scope.

(* HashMap::insert *)
Fixpoint map_insert {K V} (keqb : K -> K -> bool) (k : K) (v : V) (m : list (K * V)) : list (K * V) :=
  match m with
  | [] => [(k, v)]
  | (k', v') :: t => if keqb k k' then (k, v) :: t else (k', v') :: map_insert keqb k v t
  end.

Section Cfi.
Context {K E W : Type} (keqb : K -> K -> bool).

Definition cfi_map (written : list (K * E)) : list (K * E) :=
  fold_left (fun m r => map_insert keqb (fst r) (snd r) m) written [].

Definition apply_rules {V} (expr : V -> E) (step : K -> E -> W -> W) (rules : list (K * V)) (w : W) : W :=
  fold_left (fun w r => step (fst r) (expr (snd r)) w) rules w.

Definition walk_cfi (ltb : K -> K -> bool) (step : K -> E -> W -> W) (iter : list (K * E) -> list (K * E))
    (written : list (K * E)) (w : W) : W :=
  apply_rules (fun e => e) step (sort_by_key ltb (iter (cfi_map written))) w.

(* the variant keyed by a sequence number: seq = output.len() right before the insert *)
Definition cfi_map_seq (written : list (K * E)) : list (K * (nat * E)) :=
  fold_left (fun m r => map_insert keqb (fst r) (length m, snd r) m) written [].
(* sort_by_key(|(_, (seq, _))| seq): insertion by sequence number, ties left as the iterator produced them *)
Fixpoint insert_seq (e : K * (nat * E)) (l : list (K * (nat * E))) : list (K * (nat * E)) :=
  match l with
  | [] => [e]
  | x :: t => if Nat.leb (fst (snd e)) (fst (snd x)) then e :: x :: t else x :: insert_seq e t
  end.
Definition sort_by_seq (l : list (K * (nat * E))) : list (K * (nat * E)) := fold_right insert_seq [] l.
Definition walk_cfi_seq (step : K -> E -> W -> W) (iter : list (K * (nat * E)) -> list (K * (nat * E)))
    (written : list (K * E)) (w : W) : W :=
  apply_rules snd step (sort_by_seq (iter (cfi_map_seq written))) w.
End Cfi.

(* a walker with aliases: the register file is a function of the SLOT, [slot] maps names to slots *)
Definition alias_step (slot : nat -> nat) (name : nat) (v : nat) (regs : nat -> option nat) : nat -> option nat :=
  fun r => if Nat.eqb r (slot name) then Some v else regs r.
