(* Base/Word.v — machine words, overflow-checked arithmetic, the outcome monad.
   Definitions only (no proofs): this file is extracted. *)
From Coq Require Export ZArith List Bool.
Export ListNotations.
Open Scope Z_scope.

Inductive outcome (A : Type) : Type :=
| Ret (a : A)            (* normal return *)
| Fail                   (* graceful None / Err *)
| Panic (tag : Z)        (* unwrap, index, overflow trap, unreachable!, ... *)
| OutOfFuel.             (* model loop ran out of its explicit fuel *)
Arguments Ret {A} a.
Arguments Fail {A}.
Arguments Panic {A} tag.
Arguments OutOfFuel {A}.

Definition obind {A B} (x : outcome A) (f : A -> outcome B) : outcome B :=
  match x with Ret a => f a | Fail => Fail | Panic t => Panic t | OutOfFuel => OutOfFuel end.
Notation "'do' x <- e ; k" := (obind e (fun x => k)) (at level 200, x ident, e at level 100, k at level 200).

Definition of_option {A} (o : option A) : outcome A :=
  match o with Some a => Ret a | None => Fail end.

Inductive profile := Debug | Release.

Definition two32 : Z := 4294967296.
Definition two64 : Z := 18446744073709551616.
Definition U32MAX : Z := 4294967295.
Definition U64MAX : Z := 18446744073709551615.

Definition wrap32 (x : Z) : Z := x mod two32.
Definition wrap64 (x : Z) : Z := x mod two64.
Definition wrapw (w : Z) (x : Z) : Z := x mod (2 ^ w).

(* Rust's default operators: trap in debug builds, wrap in release builds. *)
Definition chk (p : profile) (w : Z) (tag : Z) (x : Z) : outcome Z :=
  if (0 <=? x) && (x <? 2 ^ w) then Ret x
  else match p with Debug => Panic tag | Release => Ret (x mod 2 ^ w) end.
Definition chk_add p w tag a b := chk p w tag (a + b).
Definition chk_sub p w tag a b := chk p w tag (a - b).
Definition chk_mul p w tag a b := chk p w tag (a * b).

(* checked_*: None on overflow, both profiles *)
Definition checked_add (w a b : Z) : option Z :=
  let r := a + b in if r <? 2 ^ w then Some r else None.
Definition checked_sub (a b : Z) : option Z :=
  let r := a - b in if 0 <=? r then Some r else None.
Definition sat_add (w a b : Z) : Z := Z.min (a + b) (2 ^ w - 1).
Definition sat_sub (a b : Z) : Z := Z.max (a - b) 0.
