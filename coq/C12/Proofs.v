(* C12/Proofs.v — safety: the invariant of the lookup cache and what follows from it. *)
From Coq Require Import List Arith Bool Lia Permutation.
From RM Require Import C12.Model.
Import ListNotations.

(* ---------- small facts ---------- *)
Lemma upd_same : forall A (f : nat -> A) i v, upd f i v i = v.
Proof. intros. unfold upd. now rewrite Nat.eqb_refl. Qed.

Lemma upd_other : forall A (f : nat -> A) i v j, j <> i -> upd f i v j = f j.
Proof. intros A f i v j Hne. unfold upd. destruct (Nat.eqb_spec j i); [contradiction|reflexivity]. Qed.

Lemma upd_cases : forall A (f : nat -> A) i v j,
  (j = i /\ upd f i v j = v) \/ (j <> i /\ upd f i v j = f j).
Proof.
  intros A f i v j. destruct (Nat.eq_dec j i) as [E|N].
  - left. subst. split; [reflexivity|apply upd_same].
  - right. split; [assumption|now apply upd_other].
Qed.

Definition is_some {A} (o : option A) : bool := match o with Some _ => true | None => false end.

Lemma filter_flip : forall (l : list nat) (f g : nat -> bool) k,
  NoDup l -> In k l -> f k = false -> g k = true -> (forall x, x <> k -> g x = f x) ->
  length (filter g l) = S (length (filter f l)).
Proof.
  induction l as [|a l IH]; intros f g k Hnd Hin Hf Hg Hext; [destruct Hin|].
  inversion Hnd as [|a' l' Hnotin Hnd']; subst.
  destruct (Nat.eq_dec a k) as [E|N].
  - subst a. cbn [filter]. rewrite Hf, Hg. cbn [length]. f_equal.
    f_equal. apply filter_ext_in. intros x Hx. apply Hext. intro E; subst; contradiction.
  - destruct Hin as [E|Hin]; [contradiction|].
    cbn [filter]. rewrite (Hext a N).
    destruct (f a); cbn [length]; [f_equal|]; now apply (IH f g k).
Qed.

Lemma filter_same : forall (l : list nat) (f g : nat -> bool),
  (forall x, In x l -> g x = f x) -> length (filter g l) = length (filter f l).
Proof. intros l f g H. f_equal. now apply filter_ext_in. Qed.

Lemma NoDup_snoc : forall (l : list nat) x, NoDup l -> ~ In x l -> NoDup (l ++ [x]).
Proof.
  induction l as [|a l IH]; intros x Hnd Hx; cbn [app].
  - constructor; [intros []|constructor].
  - inversion Hnd; subst. constructor.
    + intros Hin. apply in_app_or in Hin. destruct Hin as [Hin|[E|[]]]; [contradiction|].
      subst. apply Hx. now left.
    + apply IH; [assumption|]. intro. apply Hx. now right.
Qed.

Lemma in_nth_concat : forall (l : list (list key)) t (k : key), In k (nth t l []) -> In k (concat l).
Proof.
  intros l t k H. destruct (Nat.lt_ge_cases t (length l)) as [Hlt|Hge].
  - apply in_concat. exists (nth t l []). split; [now apply nth_In|assumption].
  - rewrite nth_overflow in H by assumption. destruct H.
Qed.

Section WithConfig.
Variable c : config.

(* task h is inside the supplier call for key k (and therefore holds k's guard) *)
Definition holds (p : task -> list key * phase) (h : task) (k : key) : Prop :=
  exists rest m, p h = (k :: rest, Sup m).

Record Inv (p : task -> list key * phase) (s : shared) : Prop := {
  inv_lock    : forall k h, lock s k = Some h <-> holds p h k;
  inv_noval   : forall k h, lock s k = Some h -> value s k = None;
  inv_val     : forall k o, value s k = Some o -> o = outc c k;
  inv_calls   : forall k, In k (calls s) <-> (lock s k <> None \/ value s k <> None);
  inv_nodup   : NoDup (calls s);
  inv_caller  : forall k, In k (calls s) ->
                  (exists h, holds p h k) \/ (exists u o, In (k, o) (results s u));
  inv_res     : forall t k o, In (k, o) (results s t) -> value s k = Some o;
  inv_pos     : forall t, map fst (results s t) ++ fst (p t) = nth t (tasks c) [];
  inv_req     : req s = length (calls s);
  inv_proc    : proc s = length (filter (fun k => is_some (value s k)) (calls s))
}.

Lemma inv_creq : forall p s, Inv p s -> forall k, In k (calls s) -> In k (concat (tasks c)).
Proof.
  intros p s HI k Hk. destruct (inv_caller _ _ HI k Hk) as [(h & rest & m & Hh)|(u & o & R)].
  - apply (in_nth_concat _ h). rewrite <- (inv_pos _ _ HI h), Hh. apply in_or_app. right. now left.
  - apply (in_nth_concat _ u). rewrite <- (inv_pos _ _ HI u). apply in_or_app. left.
    apply in_map_iff. now exists (k, o).
Qed.

Lemma holds_ext : forall p p' h k, (forall x, p x = p' x) -> holds p h k -> holds p' h k.
Proof. intros p p' h k E (rest & m & H). exists rest, m. now rewrite <- E. Qed.

Lemma Inv_ext : forall p p' s, (forall x, p x = p' x) -> Inv p s -> Inv p' s.
Proof.
  intros p p' s E [H1 H2 H3 H4 H5 Hq H6 H7 H8 H9].
  assert (Hc : forall k, In k (calls s) -> (exists h, holds p' h k) \/ (exists u o, In (k, o) (results s u))).
  { intros k Hk. destruct (Hq k Hk) as [(h & Hh)|R]; [left; exists h; now apply (holds_ext p p')|now right]. }
  split; try assumption.
  - intros k h. rewrite H1. split; apply holds_ext; [assumption|]. intro x; symmetry; apply E.
  - intros t. rewrite <- E. apply H7.
Qed.

Lemma holds_upd : forall p t x h k,
  holds (upd p t x) h k <-> ((h = t /\ exists rest m, x = (k :: rest, Sup m)) \/ (h <> t /\ holds p h k)).
Proof.
  intros p t x h k. unfold holds.
  destruct (upd_cases _ p t x h) as [[E1 E2]|[E1 E2]]; rewrite E2; split.
  - intros H. left. now split.
  - intros [[_ H]|[N _]]; [assumption|contradiction].
  - intros H. right. now split.
  - intros [[E _]|[_ H]]; [contradiction|assumption].
Qed.

Definition not_sup (ph : phase) : Prop := match ph with Sup _ => False | _ => True end.

(* a task outside the supplier holds nothing; changing its non-Sup phase or its list is
   invisible to the lock part of the invariant *)
Lemma holds_upd_nosup : forall p t rem ph rem' ph' h k,
  p t = (rem, ph) -> not_sup ph -> not_sup ph' ->
  (holds (upd p t (rem', ph')) h k <-> holds p h k).
Proof.
  intros p t rem ph rem' ph' h k Hp Hn Hn'. rewrite holds_upd. split.
  - intros [[_ (rest & m & E)]|[_ H]]; [|assumption].
    inversion E; subst. destruct Hn'.
  - intros H. destruct (Nat.eq_dec h t) as [E|N]; [|right; now split].
    subst h. destruct H as (rest & m & E). rewrite Hp in E. inversion E; subst. destruct Hn.
Qed.

(* ---------- the five kinds of step ---------- *)

(* the supplier answers Pending once more *)
Lemma step_tick : forall p s t k rest m m',
  p t = (k :: rest, Sup m) -> Inv p s -> Inv (upd p t (k :: rest, Sup m')) s.
Proof.
  intros p s t k rest m m' Hp [H1 H2 H3 H4 H5 Hq H6 H7 H8 H9].
  assert (Hc : forall k0, In k0 (calls s) ->
            (exists h, holds (upd p t (k :: rest, Sup m')) h k0) \/ (exists u o, In (k0, o) (results s u))).
  { intros k0 Hk. destruct (Hq k0 Hk) as [(h & Hh)|R]; [left|now right].
    exists h. apply holds_upd. destruct (Nat.eq_dec h t) as [E|N]; [|right; now split].
    left. split; [assumption|]. subst h. destruct Hh as (r & m0 & E). rewrite Hp in E.
    inversion E; subst. now exists r, m'. }
  split; try assumption.
  - intros k' h. rewrite H1, holds_upd. split.
    + intros H. destruct (Nat.eq_dec h t) as [E|N]; [|right; now split].
      left. split; [assumption|]. subst h. destruct H as (r & m0 & E). rewrite Hp in E.
      inversion E; subst. now exists r, m'.
    + intros [[E (r & m0 & X)]|[_ H]]; [|assumption].
      inversion X; subst. now exists r, m.
  - intros t'. destruct (upd_cases _ p t (k :: rest, Sup m') t') as [[E1 E2]|[E1 E2]]; rewrite E2.
    + subst t'. specialize (H7 t). now rewrite Hp in H7.
    + apply H7.
Qed.

(* blocked on a held lock *)
Lemma step_wait : forall p s t k rest ph,
  p t = (k :: rest, ph) -> not_sup ph -> Inv p s -> Inv (upd p t (k :: rest, Wait)) s.
Proof.
  intros p s t k rest ph Hp Hn [H1 H2 H3 H4 H5 Hq H6 H7 H8 H9].
  assert (Hc : forall k0, In k0 (calls s) ->
            (exists h, holds (upd p t (k :: rest, Wait)) h k0) \/ (exists u o, In (k0, o) (results s u))).
  { intros k0 Hk. destruct (Hq k0 Hk) as [(h & Hh)|R]; [left|now right].
    exists h. now apply (holds_upd_nosup p t (k :: rest) ph). }
  split; try assumption.
  - intros k' h. rewrite H1. symmetry. now apply (holds_upd_nosup p t (k :: rest) ph).
  - intros t'. destruct (upd_cases _ p t (k :: rest, Wait) t') as [[E1 E2]|[E1 E2]]; rewrite E2.
    + subst t'. specialize (H7 t). now rewrite Hp in H7.
    + apply H7.
Qed.

Lemma app_cons_assoc : forall A (l : list A) x r, (l ++ [x]) ++ r = l ++ x :: r.
Proof. intros. now rewrite <- app_assoc. Qed.

(* the value is already there *)
Lemma step_hit : forall p s t k rest ph o,
  p t = (k :: rest, ph) -> not_sup ph -> value s k = Some o ->
  Inv p s -> Inv (upd p t (rest, Start)) (hit t k o s).
Proof.
  intros p s t k rest ph o Hp Hn Hv [H1 H2 H3 H4 H5 Hq H6 H7 H8 H9].
  assert (Hc : forall k0, In k0 (calls s) ->
            (exists h, holds (upd p t (rest, Start)) h k0) \/
            (exists u o0, In (k0, o0) (upd (results s) t (results s t ++ [(k, o)]) u))).
  { intros k0 Hk. destruct (Hq k0 Hk) as [(h & Hh)|(u & o0 & R)].
    - left. exists h. now apply (holds_upd_nosup p t (k :: rest) ph).
    - right. exists u, o0. destruct (upd_cases _ (results s) t (results s t ++ [(k, o)]) u) as [[E1 E2]|[E1 E2]]; rewrite E2.
      + subst u. apply in_or_app. now left.
      + assumption. }
  split; cbn [hit lock value calls req proc stats results]; try assumption.
  - intros k' h. rewrite H1. symmetry. now apply (holds_upd_nosup p t (k :: rest) ph).
  - intros t' k' o'. destruct (upd_cases _ (results s) t (results s t ++ [(k, o)]) t') as [[E1 E2]|[E1 E2]]; rewrite E2.
    + intros Hin. apply in_app_or in Hin. destruct Hin as [Hin|[Hin|[]]].
      * subst t'. now apply (H6 t).
      * inversion Hin; subst. assumption.
    + apply H6.
  - intros t'.
    destruct (upd_cases _ (results s) t (results s t ++ [(k, o)]) t') as [[E1 E2]|[E1 E2]]; rewrite E2;
    destruct (upd_cases _ p t (rest, Start) t') as [[F1 F2]|[F1 F2]]; rewrite F2; try contradiction.
    + subst t'. cbn [fst]. rewrite map_app. cbn [map fst]. rewrite app_cons_assoc.
      specialize (H7 t). now rewrite Hp in H7.
    + apply H7.
Qed.

(* guard acquired, nothing cached: the supplier is called *)
Lemma step_begin : forall p s t k rest ph m,
  p t = (k :: rest, ph) -> not_sup ph -> lock s k = None -> value s k = None ->
  Inv p s -> Inv (upd p t (k :: rest, Sup m)) (begin_call t k s).
Proof.
  intros p s t k rest ph m Hp Hn Hl Hv [H1 H2 H3 H4 H5 Hq H6 H7 H8 H9].
  assert (Hc : forall k0, In k0 (calls s ++ [k]) ->
            (exists h, holds (upd p t (k :: rest, Sup m)) h k0) \/ (exists u o, In (k0, o) (results s u))).
  { intros k0 Hk. apply in_app_or in Hk. destruct Hk as [Hk|[E|[]]].
    - destruct (Hq k0 Hk) as [(h & Hh)|R]; [left|now right].
      exists h. apply holds_upd. right. split; [|assumption].
      intro; subst h. destruct Hh as (r & m0 & E). rewrite Hp in E. inversion E; subst. destruct Hn.
    - subst k0. left. exists t. apply holds_upd. left. split; [reflexivity|]. now exists rest, m. }
  split; cbn [begin_call lock value calls req proc stats results]; try assumption.
  - intros k' h. rewrite holds_upd.
    destruct (upd_cases _ (lock s) k (Some t) k') as [[E1 E2]|[E1 E2]]; rewrite E2.
    + subst k'. split.
      * intros E. inversion E; subst. left. split; [reflexivity|]. now exists rest, m.
      * intros [[E _]|[N H]]; [now subst|].
        apply H1 in H. rewrite Hl in H. discriminate.
    + rewrite H1. split.
      * intros H. destruct (Nat.eq_dec h t) as [E|N]; [|right; now split].
        subst h. destruct H as (r & m0 & E). rewrite Hp in E. inversion E; subst. destruct Hn.
      * intros [[_ (r & m0 & E)]|[_ H]]; [|assumption]. inversion E; subst. contradiction.
  - intros k' h. destruct (upd_cases _ (lock s) k (Some t) k') as [[E1 E2]|[E1 E2]]; rewrite E2.
    + subst k'. intros _. assumption.
    + apply H2.
  - intros k'. rewrite in_app_iff, H4. cbn [In].
    destruct (upd_cases _ (lock s) k (Some t) k') as [[E1 E2]|[E1 E2]]; rewrite E2.
    + subst k'. split; [intros _; left; discriminate|intros _; right; now left].
    + split.
      * intros [H|[E|[]]]; [assumption|]. now subst.
      * intros H. now left.
  - apply NoDup_snoc; [assumption|].
    intros Hx. apply H4 in Hx. rewrite Hl, Hv in Hx. destruct Hx as [X|X]; now apply X.
  - intros t'. destruct (upd_cases _ p t (k :: rest, Sup m) t') as [[E1 E2]|[E1 E2]]; rewrite E2.
    + subst t'. specialize (H7 t). now rewrite Hp in H7.
    + apply H7.
  - rewrite app_length. cbn [length]. lia.
  - rewrite filter_app, app_length. cbn [filter]. rewrite Hv. cbn [is_some length]. lia.
Qed.

(* the supplier answers: value stored, guard released, result returned *)
Lemma step_complete : forall p s t k rest m,
  p t = (k :: rest, Sup m) -> Inv p s -> Inv (upd p t (rest, Start)) (complete c t k s).
Proof.
  intros p s t k rest m Hp [H1 H2 H3 H4 H5 Hq H6 H7 H8 H9].
  assert (Hl : lock s k = Some t) by (apply H1; now exists rest, m).
  assert (Hv : value s k = None) by (now apply (H2 k t)).
  assert (Hc : forall k0, In k0 (calls s) ->
            (exists h, holds (upd p t (rest, Start)) h k0) \/
            (exists u o, In (k0, o) (upd (results s) t (results s t ++ [(k, outc c k)]) u))).
  { assert (Hmono : forall u k0 o, In (k0, o) (results s u) ->
                      In (k0, o) (upd (results s) t (results s t ++ [(k, outc c k)]) u)).
    { intros u k0 o R. destruct (upd_cases _ (results s) t (results s t ++ [(k, outc c k)]) u) as [[E1 E2]|[E1 E2]]; rewrite E2.
      - subst u. apply in_or_app. now left.
      - assumption. }
    intros k0 Hk. destruct (Hq k0 Hk) as [(h & Hh)|(u & o & R)].
    - destruct (Nat.eq_dec h t) as [E|N].
      + subst h. destruct Hh as (r & m0 & E). rewrite Hp in E. inversion E; subst.
        right. exists t, (outc c k0). rewrite upd_same. apply in_or_app. right. now left.
      + left. exists h. apply holds_upd. right. now split.
    - right. exists u, o. now apply Hmono. }
  split; cbn [complete lock value calls req proc stats results]; try assumption.
  - intros k' h. rewrite holds_upd.
    destruct (upd_cases _ (lock s) k None k') as [[E1 E2]|[E1 E2]]; rewrite E2.
    + subst k'. split; [discriminate|].
      intros [[_ (r & m0 & E)]|[N H]]; [inversion E|].
      apply H1 in H. rewrite Hl in H. inversion H; subst. contradiction.
    + rewrite H1. split.
      * intros H. destruct (Nat.eq_dec h t) as [E|N]; [|right; now split].
        subst h. destruct H as (r & m0 & E). rewrite Hp in E. inversion E; subst. contradiction.
      * intros [[_ (r & m0 & E)]|[_ H]]; [inversion E|assumption].
  - intros k' h. destruct (upd_cases _ (lock s) k None k') as [[E1 E2]|[E1 E2]]; rewrite E2; [discriminate|].
    intros H. rewrite upd_other by assumption. now apply (H2 k' h).
  - intros k' o. destruct (upd_cases _ (value s) k (Some (outc c k)) k') as [[E1 E2]|[E1 E2]]; rewrite E2.
    + subst k'. intros E. now inversion E.
    + apply H3.
  - intros k'. rewrite H4.
    destruct (upd_cases _ (lock s) k None k') as [[E1 E2]|[E1 E2]]; rewrite E2.
    + subst k'. rewrite upd_same. split; [intros _; right; discriminate|intros _; left; rewrite Hl; discriminate].
    + now rewrite upd_other by assumption.
  - intros t' k' o.
    destruct (upd_cases _ (results s) t (results s t ++ [(k, outc c k)]) t') as [[E1 E2]|[E1 E2]]; rewrite E2.
    + intros Hin. apply in_app_or in Hin. destruct Hin as [Hin|[Hin|[]]].
      * subst t'. apply H6 in Hin. destruct (Nat.eq_dec k' k) as [E|N].
        -- subst k'. rewrite Hv in Hin. discriminate.
        -- now rewrite upd_other.
      * inversion Hin; subst. apply upd_same.
    + intros Hin. apply H6 in Hin. destruct (Nat.eq_dec k' k) as [E|N].
      * subst k'. rewrite Hv in Hin. discriminate.
      * now rewrite upd_other.
  - intros t'.
    destruct (upd_cases _ (results s) t (results s t ++ [(k, outc c k)]) t') as [[E1 E2]|[E1 E2]]; rewrite E2;
    destruct (upd_cases _ p t (rest, Start) t') as [[F1 F2]|[F1 F2]]; rewrite F2; try contradiction.
    + subst t'. cbn [fst]. rewrite map_app. cbn [map fst]. rewrite app_cons_assoc.
      specialize (H7 t). now rewrite Hp in H7.
    + apply H7.
  - rewrite H9. symmetry.
    apply (filter_flip (calls s) (fun k0 => is_some (value s k0))
                       (fun k0 => is_some (upd (value s) k (Some (outc c k)) k0)) k).
    + assumption.
    + apply H4. left. rewrite Hl. discriminate.
    + now rewrite Hv.
    + now rewrite upd_same.
    + intros x Hx. now rewrite upd_other.
Qed.

(* ---------- one poll, any schedule ---------- *)
Lemma upd_upd : forall A (f : nat -> A) i v w x, upd (upd f i v) i w x = upd f i w x.
Proof. intros. unfold upd. destruct (Nat.eqb x i); reflexivity. Qed.

Lemma upd_id : forall A (f : nat -> A) i x, upd f i (f i) x = f x.
Proof. intros. unfold upd. destruct (Nat.eqb_spec x i); [now subst|reflexivity]. Qed.

Lemma advance_inv : forall t rem ph s p rem' ph' s',
  p t = (rem, ph) -> Inv p s -> advance c t rem ph s = (rem', ph', s') ->
  Inv (upd p t (rem', ph')) s'.
Proof.
  intros t rem. induction rem as [|k rest IH]; intros ph s p rem' ph' s' Hp HI Hadv.
  - cbn [advance] in Hadv. inversion Hadv; subst.
    apply (Inv_ext p); [|assumption]. intro x. rewrite <- Hp. symmetry. apply upd_id.
  - assert (Hcont : forall s0 p0, p0 t = (rest, Start) -> Inv p0 s0 ->
              advance c t rest Start s0 = (rem', ph', s') ->
              (forall x, upd p0 t (rem', ph') x = upd p t (rem', ph') x) ->
              Inv (upd p t (rem', ph')) s').
    { intros s0 p0 Hp0 HI0 Ha Hx. apply (Inv_ext (upd p0 t (rem', ph'))); [assumption|].
      now apply (IH Start s0 p0). }
    cbn [advance] in Hadv.
    assert (Hnosup : not_sup ph ->
      match lock s k with
      | Some _ => (k :: rest, Wait, s)
      | None =>
          match value s k with
          | Some o => advance c t rest Start (hit t k o s)
          | None =>
              match susp c k with
              | 0 => advance c t rest Start (complete c t k (begin_call t k s))
              | S m => (k :: rest, Sup m, begin_call t k s)
              end
          end
      end = (rem', ph', s') -> Inv (upd p t (rem', ph')) s').
    { intros Hn Ha.
      destruct (lock s k) as [h|] eqn:Hl.
      - inversion Ha; subst. now apply (step_wait p s' t k rest ph).
      - destruct (value s k) as [o|] eqn:Hv.
        + apply (Hcont (hit t k o s) (upd p t (rest, Start))); try assumption.
          * apply upd_same.
          * now apply (step_hit p s t k rest ph o).
          * intro x. apply upd_upd.
        + destruct (susp c k) as [|m] eqn:Hs.
          * pose proof (step_begin p s t k rest ph 0 Hp Hn Hl Hv HI) as HI1.
            apply (Hcont (complete c t k (begin_call t k s)) (upd (upd p t (k :: rest, Sup 0)) t (rest, Start))); try assumption.
            -- apply upd_same.
            -- apply (step_complete _ _ t k rest 0); [apply upd_same|assumption].
            -- intro x. now rewrite !upd_upd.
          * inversion Ha; subst. now apply (step_begin p s t k rest ph m). }
    destruct ph as [| |[|m]].
    + now apply Hnosup.
    + now apply Hnosup.
    + apply (Hcont (complete c t k s) (upd p t (rest, Start))); try assumption.
      * apply upd_same.
      * now apply (step_complete p s t k rest 0).
      * intro x. apply upd_upd.
    + inversion Hadv; subst. now apply (step_tick p s' t k rest (S m) m).
Qed.

Definition SInv (s : state) : Prop := Inv (pcs s) (sh s).

Lemma poll_inv : forall t s, SInv s -> SInv (poll c t s).
Proof.
  intros t s HI. unfold poll, SInv.
  destruct (pcs s t) as [rem ph] eqn:Hp.
  destruct (advance c t rem ph (sh s)) as [[rem' ph'] s'] eqn:Ha.
  cbn [pcs sh]. now apply (advance_inv t rem ph (sh s)).
Qed.

Lemma init_inv : SInv (init c).
Proof.
  unfold SInv, init. cbn [pcs sh].
  split; cbn [lock value calls req proc stats results]; try (intros; discriminate); try reflexivity.
  - intros k h. split; [discriminate|]. intros (rest & m & E). inversion E.
  - intros k. split; [intros []|]. intros [H|H]; now apply H.
  - constructor.
  - intros k [].
  - intros t k o [].
Qed.

Lemma run_from_inv : forall sched s, SInv s -> SInv (run_from c s sched).
Proof.
  induction sched as [|t sched IH]; intros s HI; [assumption|].
  cbn [run_from fold_left]. apply IH. now apply poll_inv.
Qed.

Lemma run_inv : forall sched, SInv (run c sched).
Proof. intros. apply run_from_inv, init_inv. Qed.

(* ---------- consequences ---------- *)
Lemma at_most_once : forall sched k, supplier_calls (run c sched) k <= 1.
Proof.
  intros sched k. unfold supplier_calls.
  pose proof (inv_nodup _ _ (run_inv sched)) as H.
  rewrite (NoDup_count_occ Nat.eq_dec) in H. apply H.
Qed.

Lemma same_outcome : forall sched t i k o,
  task_result (run c sched) t i = Some (k, o) ->
  o = outc c k /\ nth_error (nth t (tasks c) []) i = Some k.
Proof.
  intros sched t i k o H. unfold task_result in H.
  pose proof (run_inv sched) as HI. split.
  - apply (inv_val _ _ HI). apply (inv_res _ _ HI t). now apply nth_error_In with i.
  - rewrite <- (inv_pos _ _ HI t).
    assert (Hm : nth_error (map fst (results (sh (run c sched)) t)) i = Some k).
    { rewrite nth_error_map, H. reflexivity. }
    rewrite nth_error_app1; [assumption|]. apply nth_error_Some. rewrite Hm. discriminate.
Qed.

Lemma all_done_rem : forall s, all_done c s = true -> forall t, t < ntasks c -> fst (pcs s t) = [].
Proof.
  intros s H t Ht. unfold all_done in H. rewrite forallb_forall in H.
  specialize (H t). unfold task_done in H. destruct (fst (pcs s t)); [reflexivity|].
  assert (In t (seq 0 (ntasks c))) by (apply in_seq; lia). now apply H in H0.
Qed.

Lemma rem_nil_beyond : forall s t, SInv s -> ntasks c <= t -> fst (pcs s t) = [].
Proof.
  intros s t HI Ht. pose proof (inv_pos _ _ HI t) as H.
  rewrite (nth_overflow (tasks c) []) in H by assumption.
  now apply app_eq_nil in H.
Qed.

Lemma results_complete : forall sched t,
  all_done c (run c sched) = true -> map fst (results (sh (run c sched)) t) = nth t (tasks c) [].
Proof.
  intros sched t Hd. pose proof (run_inv sched) as HI.
  rewrite <- (inv_pos _ _ HI t).
  assert (E : fst (pcs (run c sched) t) = []).
  { destruct (Nat.lt_ge_cases t (ntasks c)); [now apply all_done_rem|now apply rem_nil_beyond]. }
  rewrite E. now rewrite app_nil_r.
Qed.

(* at quiescence nobody is inside the supplier, hence no lock is held *)
Lemma quiescent_unlocked : forall s, SInv s -> all_done c s = true -> forall k, lock (sh s) k = None.
Proof.
  intros s HI Hd k. destruct (lock (sh s) k) as [h|] eqn:E; [|reflexivity].
  apply (inv_lock _ _ HI) in E. destruct E as (rest & m & E).
  assert (X : fst (pcs s h) = []).
  { destruct (Nat.lt_ge_cases h (ntasks c)); [now apply all_done_rem|now apply rem_nil_beyond]. }
  rewrite E in X. discriminate.
Qed.


Lemma filter_len_le : forall (l : list nat) f, length (filter f l) <= length l.
Proof. induction l as [|a l IH]; intros f; cbn [filter length]; [lia|]. specialize (IH f). destruct (f a); cbn [length]; lia. Qed.

Lemma filter_all : forall (l : list nat) f, (forall x, In x l -> f x = true) -> filter f l = l.
Proof.
  induction l as [|a l IH]; intros f H; [reflexivity|].
  cbn [filter]. rewrite (H a (or_introl eq_refl)). f_equal. apply IH. intros x Hx. apply H. now right.
Qed.

Lemma requested_called : forall s, SInv s -> all_done c s = true ->
  forall k, In k (concat (tasks c)) -> In k (calls (sh s)).
Proof.
  intros s HI Hd k Hk. apply in_concat in Hk. destruct Hk as (l & Hl & Hkl).
  destruct (In_nth _ _ [] Hl) as (t & Ht & Hnth).
  assert (E : map fst (results (sh s) t) = nth t (tasks c) []).
  { rewrite <- (inv_pos _ _ HI t). rewrite (all_done_rem s Hd t Ht). now rewrite app_nil_r. }
  rewrite Hnth in E. rewrite <- E in Hkl. apply in_map_iff in Hkl.
  destruct Hkl as ([k' o] & Ek & Hin). cbn [fst] in Ek. subst k'.
  apply (inv_calls _ _ HI). right. rewrite (inv_res _ _ HI t k o Hin). discriminate.
Qed.

Lemma counters_bounded : forall sched,
  processed (run c sched) <= requested (run c sched) /\ requested (run c sched) <= distinct_keys c.
Proof.
  intros sched. pose proof (run_inv sched) as HI. unfold processed, requested, distinct_keys.
  rewrite (inv_proc _ _ HI), (inv_req _ _ HI). split.
  - apply filter_len_le.
  - apply NoDup_incl_length; [apply (inv_nodup _ _ HI)|].
    intros k Hk. apply nodup_In. now apply (inv_creq _ _ HI).
Qed.

Lemma counters_quiescent : forall sched, all_done c (run c sched) = true ->
  requested (run c sched) = distinct_keys c /\ processed (run c sched) = distinct_keys c.
Proof.
  intros sched Hd. pose proof (run_inv sched) as HI. unfold processed, requested, distinct_keys.
  assert (Hlen : length (calls (sh (run c sched))) = length (nodup Nat.eq_dec (concat (tasks c)))).
  { apply Permutation_length. apply NoDup_Permutation.
    - apply (inv_nodup _ _ HI).
    - apply NoDup_nodup.
    - intros k. rewrite nodup_In. split; [apply (inv_creq _ _ HI)|now apply requested_called]. }
  rewrite (inv_proc _ _ HI), (inv_req _ _ HI). split; [assumption|].
  rewrite filter_all; [assumption|].
  intros k Hk. apply (inv_calls _ _ HI) in Hk.
  rewrite (quiescent_unlocked _ HI Hd k) in Hk.
  destruct Hk as [X|X]; [now elim X|]. destruct (value (sh (run c sched)) k); [reflexivity|now elim X].
Qed.

(* at quiescence every requested key was fetched exactly once *)
Lemma exactly_once_quiescent : forall sched k, all_done c (run c sched) = true ->
  In k (concat (tasks c)) -> supplier_calls (run c sched) k = 1.
Proof.
  intros sched k Hd Hk. pose proof (run_inv sched) as HI. unfold supplier_calls.
  apply NoDup_count_occ'; [apply (inv_nodup _ _ HI)|now apply requested_called].
Qed.

End WithConfig.
