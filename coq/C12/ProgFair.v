(* C12/ProgFair.v — fairness implies termination at INSTRUCTION granularity (round 5): if every window of T
   consecutive instruction steps of the schedule contains every task, all tasks of the canonical program have finished
   after T * imu(initial state) steps.  (A window in which nobody progresses leaves the shared state unchanged, so the
   task that was not waiting for a held lock at its beginning is still not waiting when its turn comes.) *)
From RM Require Import C12.Model C12.Progress C12.ProgModel C12.ProgProofs C12.ProgFine C12.ProgCount C12.ProgMeasure
  C12.ProgExec.
From Coq Require Import Lia.

Lemma sum_zero_inv : forall m (f : nat -> nat) t, sum_upto m f = 0 -> t < m -> f t = 0.
Proof.
  induction m as [|m IH]; intros f t H Ht; [lia|]. cbn in H.
  destruct (Nat.eq_dec t m) as [->|Hne]; [lia|]. apply IH; lia.
Qed.

Section Fair.
Variable pc : pconfig.
Local Notation c := (cfg pc).
Local Notation n := (length (ptasks pc)).
Local Notation ks := (allkeys pc).

Definition RS (s : pstate) : Prop := GI c ks s /\ (forall u, n <= u -> fst (fst (ppcs s u)) = []).
Definition prun_steps (s : pstate) (ms : list task) : pstate := fold_left (fun s t => pmstep canon c t s) ms s.

Lemma rs_step : forall s t, RS s -> RS (pmstep canon c t s).
Proof. intros s t [G R]. split; [apply gi_pmstep; exact G|apply pmstep_range; exact R]. Qed.
Lemma rs_steps : forall ms s, RS s -> RS (prun_steps s ms).
Proof. induction ms as [|t r IH]; intros s H; cbn; [exact H|]. apply IH. apply rs_step. exact H. Qed.
Lemma rs_init : RS (pinit pc).
Proof. split; [apply gi_init|]. intros u Hu. cbn. apply nth_overflow. exact Hu. Qed.

Lemma step_cases : forall s t, RS s ->
  (imu c n (pmstep canon c t s) < imu c n s) \/
  (imu c n (pmstep canon c t s) = imu c n s /\ psh (pmstep canon c t s) = psh s /\
   (blocked s t = true \/ ptask_done s t = true)).
Proof.
  intros s t [G R].
  destruct (tmu_step c ks s t G) as [A B].
  destruct (Nat.lt_ge_cases t n) as [Ht|Ht].
  - pose proof (imu_split c n t s Ht) as Sp.
    destruct (blocked s t) eqn:Hb.
    + destruct (A eq_refl) as [A1 A2]. right. split; [lia|]. split; [exact A2|left; reflexivity].
    + destruct (ptask_done s t) eqn:Hd.
      * right. unfold ptask_done in Hd. unfold pmstep. destruct (ppcs s t) as [[rem kont] l]. cbn in Hd.
        destruct rem; [|discriminate]. split; [reflexivity|]. split; [reflexivity|right; reflexivity].
      * left. specialize (B eq_refl eq_refl). lia.
  - right. pose proof (R t Ht) as Rt. unfold pmstep, ptask_done. destruct (ppcs s t) as [[rem kont] l]. cbn in Rt. subst rem.
    split; [reflexivity|]. split; [reflexivity|right; reflexivity].
Qed.

Lemma steps_le : forall ms s, RS s -> imu c n (prun_steps s ms) <= imu c n s.
Proof.
  induction ms as [|t r IH]; intros s H; [cbn; lia|].
  change (prun_steps s (t :: r)) with (prun_steps (pmstep canon c t s) r).
  pose proof (IH _ (rs_step s t H)). destruct (step_cases s t H) as [X|[X _]]; lia.
Qed.

Lemma blocked_same : forall s s' t, ppcs s' t = ppcs s t -> psh s' = psh s -> blocked s' t = blocked s t.
Proof. intros s s' t H1 H2. unfold blocked. rewrite H1, H2. reflexivity. Qed.

Lemma round_progress : forall r s t, RS s -> blocked s t = false -> ptask_done s t = false -> In t r ->
  imu c n (prun_steps s r) < imu c n s.
Proof.
  induction r as [|a r IH]; intros s t H Hb Hd Hin; [contradiction|].
  change (prun_steps s (a :: r)) with (prun_steps (pmstep canon c a s) r).
  pose proof (steps_le r _ (rs_step s a H)) as Hle.
  destruct (step_cases s a H) as [X|(X1 & X2 & X3)]; [lia|].
  assert (a <> t). { intro E. subst a. destruct X3 as [X3|X3]; congruence. }
  destruct Hin as [E|Hin]; [contradiction|].
  assert (P1 : ppcs (pmstep canon c a s) t = ppcs s t) by (apply pmstep_other; auto).
  specialize (IH (pmstep canon c a s) t (rs_step s a H)).
  rewrite (blocked_same _ _ _ P1 X2) in IH. unfold ptask_done in IH, Hd. rewrite P1 in IH.
  specialize (IH Hb Hd Hin). lia.
Qed.

Lemma no_deadlock_gen : forall s, RS s -> pall_done pc s = false ->
  exists t, t < n /\ ptask_done s t = false /\ blocked s t = false.
Proof.
  intros s [G R] Hd. unfold pall_done in Hd.
  destruct (forallb_false_ex _ _ Hd) as (t0 & Hin & Hnd).
  assert (Hlt : t0 < n) by (apply in_seq in Hin; lia).
  destruct (blocked s t0) eqn:Hb; [|exists t0; auto].
  unfold blocked in Hb. destruct (ppcs s t0) as [[rem kont] l] eqn:E.
  destruct rem as [|[e k] rest]; [discriminate|]. destruct kont as [|i more]; [discriminate|].
  destruct i; try discriminate. destruct (lock (psh s) k) as [u|] eqn:Hl; [|discriminate].
  apply (gi_lock _ _ _ G) in Hl. destruct Hl as [U1 U2].
  exists u. split; [|split].
  - destruct (Nat.lt_ge_cases u n) as [A|A]; [exact A|].
    pose proof (R u A) as Ru. unfold tkey in U1. rewrite Ru in U1. discriminate.
  - unfold ptask_done. unfold tkey in U1. destruct (fst (fst (ppcs s u))); [discriminate|reflexivity].
  - unfold blocked. destruct (ppcs s u) as [[rem' kont'] l']. unfold tcls in U2. cbn in U2.
    destruct rem' as [|[e' k'] r']; [reflexivity|]. destruct kont' as [|i' m']; [reflexivity|].
    destruct i'; try reflexivity. cbn in U2. discriminate.
Qed.

Lemma wi_pos : forall k f i, 1 <= wi c k f i.
Proof. intros k f i. destruct i; cbn; try lia. destruct e; lia. Qed.

Lemma imu_zero_done : forall s, RS s -> imu c n s = 0 -> pall_done pc s = true.
Proof.
  intros s [G R] H. unfold pall_done. apply forallb_forall. intros t Hin. apply in_seq in Hin.
  unfold ptask_done. destruct (fst (fst (ppcs s t))) eqn:E; [reflexivity|]. exfalso.
  assert (Z : tmu c (ppcs s t) = 0) by (apply (sum_zero_inv n (fun u => tmu c (ppcs s u)) t H); lia).
  pose proof (gi_local _ _ _ G t) as L. destruct (ppcs s t) as [[rem kont] ll]. cbn in E. subst rem.
  destruct l as [e k]. cbn in L, Z. destruct L as [->|(Hin2 & _)].
  - cbn in Z. unfold w0 in Z. destruct e; cbn in Z; lia.
  - destruct kont as [|i more]; [destruct (is_file e); cbn in Hin2; intuition discriminate|].
    cbn in Z. unfold wt, wl in Z. cbn in Z. pose proof (wi_pos k (fcls ll) i). lia.
Qed.

Lemma done_imu_zero : forall s, RS s -> pall_done pc s = true -> imu c n s = 0.
Proof.
  intros s [G R] H. unfold imu. apply sum_zero. intros u Hu.
  unfold pall_done in H. rewrite forallb_forall in H.
  assert (Hin : In u (seq 0 n)) by (apply in_seq; lia). specialize (H u Hin). unfold ptask_done in H.
  destruct (ppcs s u) as [[rem kont] l]. cbn in H. destruct rem; [reflexivity|discriminate].
Qed.

Lemma steps_app : forall s l1 l2, prun_steps s (l1 ++ l2) = prun_steps (prun_steps s l1) l2.
Proof. intros. unfold prun_steps. apply fold_left_app. Qed.

Lemma rounds_measure : forall rounds s, RS s -> Forall (covers n) rounds ->
  imu c n (prun_steps s (concat rounds)) <= imu c n s - length rounds.
Proof.
  induction rounds as [|r rs IH]; intros s H Hf.
  - cbn. lia.
  - inversion Hf as [|r' rs' Hr Hrs]; subst. cbn [concat length]. rewrite steps_app.
    specialize (IH (prun_steps s r) (rs_steps r s H) Hrs).
    pose proof (steps_le r s H) as Hle.
    destruct (Nat.eq_dec (imu c n s) 0) as [Z|NZ]; [lia|].
    destruct (pall_done pc s) eqn:Hd.
    + apply (done_imu_zero s H) in Hd. contradiction.
    + destruct (no_deadlock_gen s H Hd) as (t & Ht & Hnd & Hnb).
      pose proof (round_progress r s t H Hnb Hnd (Hr t Ht)). lia.
Qed.

Theorem pm_fair_finishes : forall T ms,
  fair n T ms -> T * imu c n (pinit pc) <= length ms -> pall_done pc (pmrun canon pc ms) = true.
Proof.
  intros T ms Hfair Hlen.
  assert (Hfair' : fair (ntasks c) T ms) by (rewrite ntasks_cfg; exact Hfair).
  destruct (fair_chunks c T (imu c n (pinit pc)) ms Hfair' Hlen) as (rounds & Hc & Hl & Hf).
  rewrite ntasks_cfg in Hf.
  pose proof (rounds_measure rounds (pinit pc) rs_init Hf) as H. rewrite Hl, Hc in H.
  assert (Z : imu c n (prun_steps (pinit pc) (firstn (T * imu c n (pinit pc)) ms)) = 0) by lia.
  change (pmrun canon pc ms) with (prun_steps (pinit pc) ms).
  rewrite <- (firstn_skipn (T * imu c n (pinit pc)) ms). rewrite steps_app.
  set (s1 := prun_steps (pinit pc) (firstn (T * imu c n (pinit pc)) ms)) in *.
  assert (R1 : RS s1) by (apply rs_steps, rs_init).
  apply imu_zero_done; [apply rs_steps; exact R1|].
  pose proof (steps_le (skipn (T * imu c n (pinit pc)) ms) s1 R1). lia.
Qed.
End Fair.

From RM Require Import C12.ProgSource Gen.C12Program.
Lemma src_pm_fair_finishes : forall (pc : pconfig) (T : nat) (ms : list task),
  fair (length (ptasks pc)) T ms -> T * imu (cfg pc) (length (ptasks pc)) (pinit pc) <= length ms ->
  pall_done pc (pmrun src_program pc ms) = true.
Proof. rewrite src_is_canon. exact pm_fair_finishes. Qed.

(* the bound is the measure of the initial state: 17 / 17 / 18 / 10 instructions per fill_symbol / walk_frame /
   get_symbol_at_address / locate_file lookup plus the scripted suspensions of its key *)
Lemma imu_two_fill : imu (cfg two_fill) 2 (pinit two_fill) = 34.
Proof. reflexivity. Qed.
