(* C12/DropModel.v — BEYOND THE PROPERTY'S QUANTIFIER (C12 excludes cancellation): a requester
   that is waiting for a slot's lock is dropped.  futures-util 0.3.31 lock/mutex.rs:
     impl Drop for MutexLockFuture: if the future has not acquired the mutex,
         mutex.remove_waker(self.wait_key, true)
     remove_waker(key, wake_another): remove the Waiter; if it was Woken and wake_another,
         wake the first remaining waiter
   Only a task in phase [Wait] may be dropped here.  (Dropping the task that holds the guard
   inside the supplier releases the lock with nothing stored, so the next waiter calls the
   supplier again: "at most once" then fails by design — that is the cancellation the
   property excludes.)  A dropped task's unfinished lookups disappear: the configuration is
   truncated to what the task completed.  Definitions only. *)
From RM Require Export C12.WakeModel.

Fixpoint set_nth {A} (l : list A) (i : nat) (v : A) : list A :=
  match l, i with
  | [], _ => []
  | _ :: r, O => v :: r
  | a :: r, S j => a :: set_nth r j v
  end.

Definition truncate (c : config) (t : task) (done : list key) : config :=
  {| tasks := set_nth (tasks c) t done; susp := susp c; outc := outc c; leaf := leaf c |}.

Definition wdrop (c : config) (t : task) (w : wstate) : config * wstate :=
  match pcs (base w) t with
  | (k :: rest, Wait) =>
      let x1 := unregister t (ext w) in
      let x2 := match wk (ext w) t with
                | Some (_, _, true) => wake (ntasks c) k x1      (* it had been woken: pass the wake-up on *)
                | _ => x1
                end in
      (truncate c t (map fst (results (sh (base w)) t)),
       {| base := {| pcs := upd (pcs (base w)) t ([], Start); sh := sh (base w) |}; ext := x2 |})
  | _ => (c, w)
  end.

Inductive event := EPoll (t : task) | EDrop (t : task).

Definition estep (cw : config * wstate) (e : event) : config * wstate :=
  match e with
  | EPoll t => (fst cw, wpoll (fst cw) t (snd cw))
  | EDrop t => wdrop (fst cw) t (snd cw)
  end.

Definition erun (c : config) (evs : list event) : config * wstate :=
  fold_left estep evs (c, winit c).

(* wake-driven executor with drops: a pick p < 100 polls the (p mod #runnable)-th runnable task;
   a pick 100 + u drops task u if it is waiting for a lock (otherwise the pick is skipped) *)
Fixpoint dexec (c : config) (fuel : nat) (picks : list nat) (w : wstate) (trace : list nat)
  : config * wstate * list nat * wstatus :=
  match fuel with
  | O => (c, w, trace, if all_done c (base w) then WDone else WFuel)
  | S f =>
      match picks with
      | p :: ps =>
          if Nat.leb 100 p then
            let u := p - 100 in
            match pcs (base w) u with
            | (_ :: _, Wait) =>
                let '(c', w') := wdrop c u w in dexec c' f ps w' (trace ++ [p])
            | _ => dexec c f ps w trace
            end
          else if all_done c (base w) then (c, w, trace, WDone)
          else match runnable c w with
               | [] => (c, w, trace, WLost)
               | r :: rs =>
                   let t := nth (Nat.modulo p (length (r :: rs))) (r :: rs) r in
                   dexec c f ps (wpoll c t w) (trace ++ [t])
               end
      | [] =>
          if all_done c (base w) then (c, w, trace, WDone)
          else match runnable c w with
               | [] => (c, w, trace, WLost)
               | r :: rs => dexec c f [] (wpoll c r w) (trace ++ [r])
               end
      end
  end.
