(* C12/StatsProofs.v — the `stats` map (Symbolizer::stats, what the processor copies into ProcessState.symbol_stats)
   in every reachable state of the poll-level model (round 5, second pass):
   an entry of the map is the classification of the supplier's single answer for SOME module with that leaf name whose
   lookup has completed, and every module whose lookup has completed has an entry under its leaf name.  (Which module
   of a shared leaf name wins depends on the schedule — last finisher — and is C13's subject.) *)
From RM Require Import C12.Model C12.Proofs.
From Coq Require Import Lia.

Section Stats.
Variable c : config.

Record StInv (s : shared) : Prop := {
  st_sound : forall lf o, stats s lf = Some o ->
               exists k, leaf c k = lf /\ value s k <> None /\ o = outc c k;
  st_complete : forall k, value s k <> None -> stats s (leaf c k) <> None
}.

Lemma st_hit : forall t k o s, StInv s -> StInv (hit t k o s).
Proof. intros t k o s [A B]. constructor; cbn; assumption. Qed.

Lemma st_begin : forall t k s, StInv s -> StInv (begin_call t k s).
Proof. intros t k s [A B]. constructor; cbn; assumption. Qed.

Lemma st_complete_step : forall t k s, StInv s -> StInv (complete c t k s).
Proof.
  intros t k s [A B]. constructor; cbn [complete stats value].
  - intros lf o H. unfold upd in H. destruct (Nat.eqb lf (leaf c k)) eqn:E.
    + apply Nat.eqb_eq in E. inversion H; subst. exists k. split; [reflexivity|]. split; [|reflexivity].
      rewrite upd_same. discriminate.
    + destruct (A lf o H) as (k' & L & V & O). exists k'. split; [exact L|]. split; [|exact O].
      unfold upd. destruct (Nat.eqb k' k); [discriminate|exact V].
  - intros k' V. unfold upd. destruct (Nat.eqb (leaf c k') (leaf c k)) eqn:E; [discriminate|].
    apply B. unfold upd in V. destruct (Nat.eqb k' k) eqn:E2; [|exact V].
    apply Nat.eqb_eq in E2. subst. rewrite Nat.eqb_refl in E. discriminate.
Qed.

Lemma advance_st : forall t rem ph s, StInv s -> StInv (snd (advance c t rem ph s)).
Proof.
  intros t rem. induction rem as [|k rest IH]; intros ph s H; [exact H|].
  cbn [advance].
  assert (G : StInv (snd (match lock s k with
      | Some _ => (k :: rest, Wait, s)
      | None => match value s k with
                | Some o => advance c t rest Start (hit t k o s)
                | None => match susp c k with
                          | O => advance c t rest Start (complete c t k (begin_call t k s))
                          | S m => (k :: rest, Sup m, begin_call t k s)
                          end
                end
      end))).
  { destruct (lock s k); [exact H|]. destruct (value s k) as [o|].
    - apply IH. apply st_hit. exact H.
    - destruct (susp c k).
      + apply IH. apply st_complete_step. apply st_begin. exact H.
      + cbn. apply st_begin. exact H. }
  destruct ph as [| |[|m]]; try exact G.
  - apply IH. apply st_complete_step. exact H.
  - exact H.
Qed.

Lemma poll_st : forall t s, StInv (sh s) -> StInv (sh (poll c t s)).
Proof.
  intros t s H. unfold poll. destruct (pcs s t) as [rem ph].
  pose proof (advance_st t rem ph (sh s) H) as X.
  destruct (advance c t rem ph (sh s)) as [[rem' ph'] s']. exact X.
Qed.

Lemma run_st : forall sched, StInv (sh (run c sched)).
Proof.
  intro sched. unfold run.
  assert (G : forall s, StInv (sh s) -> StInv (sh (run_from c s sched))).
  { induction sched as [|t r IH]; intros s H; [exact H|]. cbn [run_from fold_left]. apply IH. apply poll_st. exact H. }
  apply G. constructor; cbn; [intros; discriminate|intros k V; contradiction].
Qed.

(* every entry of the stats map classifies the supplier's single answer for a REQUESTED module with that leaf name
   whose lookup has completed *)
Lemma stats_sound : forall sched lf o, stats (sh (run c sched)) lf = Some o ->
  exists k, In k (concat (tasks c)) /\ leaf c k = lf /\ o = outc c k /\ value (sh (run c sched)) k = Some o.
Proof.
  intros sched lf o H. destruct (st_sound _ (run_st sched) lf o H) as (k & L & V & O).
  pose proof (run_inv c sched) as I. unfold SInv in I.
  destruct (value (sh (run c sched)) k) as [o'|] eqn:E; [|contradiction].
  exists k. split; [|split; [exact L|split; [exact O|]]].
  - apply (inv_creq c _ _ I). apply (inv_calls c _ _ I). right. rewrite E. discriminate.
  - rewrite O, E. f_equal. apply (inv_val c _ _ I k o' E).
Qed.

(* a finished lookup's module has an entry under its leaf name, in every state (mid-run included) *)
Lemma stats_has_finished : forall sched t i k o, task_result (run c sched) t i = Some (k, o) ->
  stats (sh (run c sched)) (leaf c k) <> None.
Proof.
  intros sched t i k o H. apply (st_complete _ (run_st sched)).
  pose proof (run_inv c sched) as I. unfold SInv in I.
  rewrite (inv_res c _ _ I t k o); [discriminate|]. unfold task_result in H. apply nth_error_In with i. exact H.
Qed.
(* at quiescence every requested module has an entry under its leaf name *)
Lemma stats_complete_quiescent : forall sched k, all_done c (run c sched) = true -> In k (concat (tasks c)) ->
  stats (sh (run c sched)) (leaf c k) <> None.
Proof.
  intros sched k Hd Hk. apply (st_complete _ (run_st sched)).
  pose proof (run_inv c sched) as I.
  pose proof (requested_called c _ I Hd k Hk) as Hc.
  apply (inv_calls c _ _ I) in Hc. destruct Hc as [Hc|Hc]; [|exact Hc].
  exfalso. apply Hc. apply (quiescent_unlocked c _ I Hd).
Qed.
End Stats.
