(* C12/ProgCountMix.v — the pending counters under INSTRUCTION-level interleavings for ANY MIX of symbol lookups
   (fill_symbol / walk_frame / get_symbol_at_address) and file lookups (HttpSymbolSupplier::locate_file) in one
   configuration (round 5, second pass; C12/ProgCount.v is the symbol-only case).  [sk] classifies the slot keys: a
   configuration is [classified] when symbol lookups use keys with sk = true and file lookups keys with sk = false
   (Symbolizer.symbols and HttpSymbolSupplier.cached_file_paths are different maps).  The file closure touches neither
   counter, so with a t = 1 iff task t stands between `symbols_requested += 1` and the supplier call and b t = 1 iff
   it stands between the call of locate_symbols and `symbols_processed += 1`,
       requested = |symbol keys in the log| + sum a        processed + sum b = |symbol keys in the log|
   hence processed <= requested <= distinct symbol keys always, and all equal at quiescence. *)
From RM Require Import C12.Model C12.ProgModel C12.ProgProofs C12.ProgFine C12.ProgCount.
From Coq Require Import Lia Permutation.

Definition wbm (p : ptask) : nat :=
  match snd (fst p) with
  | ISupPoll :: _ => if fcls (snd p) then 0 else 1
  | IProcessedInc :: _ => 1
  | _ => 0
  end.
Definition okl (sk : key -> bool) (l : lookup) : Prop := sk (snd l) = negb (is_file (fst l)).
Definition classified (sk : key -> bool) (pc : pconfig) : Prop := Forall (Forall (okl sk)) (ptasks pc).
Definition symlog (sk : key -> bool) (s : pstate) : list key := filter sk (calls (psh s)).
Definition distinct_sym_keys (sk : key -> bool) (pc : pconfig) : nat :=
  length (nodup Nat.eq_dec (filter sk (concat (tasks (cfg pc))))).

Record MI (sk : key -> bool) (c : config) (n : nat) (s : pstate) : Prop := {
  mi_range : forall u, n <= u -> fst (fst (ppcs s u)) = [];
  mi_cls : forall u, Forall (okl sk) (fst (fst (ppcs s u)));
  mi_sub : forall k, In k (calls (psh s)) -> In k (concat (tasks c));
  mi_req : req (psh s) = length (symlog sk s) + sum_upto n (fun u => wa (ppcs s u));
  mi_proc : proc (psh s) + sum_upto n (fun u => wbm (ppcs s u)) = length (symlog sk s)
}.

Lemma pmstep_forall : forall (Q : lookup -> Prop) P c t s,
  (forall u, Forall Q (fst (fst (ppcs s u)))) ->
  forall u, Forall Q (fst (fst (ppcs (pmstep P c t s) u))).
Proof.
  intros Q P c t s H u. unfold pmstep.
  destruct (ppcs s t) as [[rem kont] l] eqn:E. destruct rem as [|[e k] rest]; [apply H|].
  assert (Ht : Forall Q ((e, k) :: rest)) by (specialize (H t); rewrite E in H; exact H).
  assert (Hr : Forall Q rest) by (inversion Ht; assumption).
  destruct (match kont with [] => (p_entry P e, l0) | _ :: _ => (kont, l) end) as [[|i more] li]; cbn [ppcs].
  - unfold upd. destruct (Nat.eqb u t); [exact Hr|apply H].
  - destruct (istep P c t k i more li (psh s)) as [[|x y] ? ?| ? ? ?|]; cbn [ppcs];
      unfold upd; destruct (Nat.eqb u t); try apply H; try exact Hr; exact Ht.
Qed.

Ltac mcnt_case E Hlt Hsk :=
  match goal with
  | |- context [upd (ppcs ?s) ?t ?p'] =>
      let A := fresh "A" in let B := fresh "B" in
      pose proof (sum_upd _ (ppcs s) t p' wa Hlt) as A; pose proof (sum_upd _ (ppcs s) t p' wbm Hlt) as B;
      rewrite E in A, B; cbn in A, B; unfold symlog in *; cbn; rewrite ?filter_app; cbn [filter]; rewrite ?Hsk;
      cbn; rewrite ?app_length; cbn; rewrite ?app_nil_r; lia
  end.

Lemma mi_pmstep : forall sk pc s t,
  GI (cfg pc) (allkeys pc) s -> MI sk (cfg pc) (length (ptasks pc)) s ->
  MI sk (cfg pc) (length (ptasks pc)) (pmstep canon (cfg pc) t s).
Proof.
  intros sk pc s t G C.
  assert (Hrange := pmstep_range canon (cfg pc) (length (ptasks pc)) t s (mi_range _ _ _ _ C)).
  assert (Hcls := pmstep_forall (okl sk) canon (cfg pc) t s (mi_cls _ _ _ _ C)).
  pose proof (mi_req _ _ _ _ C) as CR. pose proof (mi_proc _ _ _ _ C) as CP. pose proof (mi_sub _ _ _ _ C) as CS.
  constructor; [exact Hrange|exact Hcls| | |]; clear Hrange Hcls.
  all: unfold pmstep.
  all: destruct (ppcs s t) as [[rem kont] l] eqn:E.
  all: destruct rem as [|[e k] rest]; [assumption|].
  all: assert (Hlt : t < length (ptasks pc))
         by (destruct (Nat.lt_ge_cases t (length (ptasks pc))) as [A|A]; [exact A|];
             pose proof (mi_range _ _ _ _ C t A) as R; rewrite E in R; discriminate).
  all: assert (Hsk : sk k = negb (is_file e))
         by (pose proof (mi_cls _ _ _ _ C t) as R; rewrite E in R; inversion R; assumption).
  all: pose proof (key_requested pc s t e k rest kont l G E Hlt) as KR.
  all: pose proof (gi_local _ _ _ G t) as L0; rewrite E in L0; cbn in L0.
  all: destruct L0 as [->|(Hin & Hf & Hg & Hr & Hlk)].
  (* the lookup has not begun *)
  1, 3, 5: destruct e; cbn in Hsk; cbn;
    first [ exact CS | mcnt_case E Hlt Hsk ].
  (* inside a lookup *)
  all: destruct l as [g w f0 tk r ls lk]; cbn in Hf, Hg.
  all: destruct e; cbn in Hsk; cbn in Hin;
       repeat (destruct Hin as [<-|Hin]; [|]); try contradiction; cbn in Hf, Hg, Hr, Hlk; subst.
  all: try (specialize (Hr eq_refl); subst r).
  all: try (specialize (Hlk eq_refl); destruct lk as [lf|]; [|contradiction]).
  all: cbn.
  all: try (rewrite (gi_post _ _ _ G t k ltac:(rewrite E; reflexivity) ltac:(rewrite E; reflexivity))).
  all: try (match goal with |- context [lock (psh ?s0) ?k0] => destruct (lock (psh s0) k0) eqn:Hlock end).
  all: try (match goal with |- context [value (psh ?s0) ?k0] => destruct (value (psh s0) k0) eqn:Hval end).
  all: try (match goal with |- context [match ?n with O => _ | S _ => _ end] => is_var n; destruct n end).
  all: cbn.
  all: try exact CS.
  all: try solve [mcnt_case E Hlt Hsk].
  all: try solve [intros kk Hin2; apply in_app_or in Hin2; destruct Hin2 as [Hin2|[<-|[]]]; [exact (CS kk Hin2)|exact KR]].
Qed.

Lemma mi_init : forall sk pc, classified sk pc -> MI sk (cfg pc) (length (ptasks pc)) (pinit pc).
Proof.
  intros sk pc Hs. constructor; cbn.
  - intros u Hu. apply nth_overflow. exact Hu.
  - intro u. destruct (Nat.lt_ge_cases u (length (ptasks pc))) as [A|A].
    + unfold classified in Hs. rewrite Forall_forall in Hs. apply Hs. apply nth_In. exact A.
    + rewrite nth_overflow by exact A. constructor.
  - intros k [].
  - rewrite sum_zero; [reflexivity|]. intros; reflexivity.
  - rewrite sum_zero; [reflexivity|]. intros; reflexivity.
Qed.

Lemma pmrun_mi : forall sk pc ms, classified sk pc -> MI sk (cfg pc) (length (ptasks pc)) (pmrun canon pc ms).
Proof.
  intros sk pc ms Hs. unfold pmrun.
  generalize (gi_init pc) (mi_init sk pc Hs). generalize (pinit pc).
  induction ms as [|t r IH]; intros s G C; cbn; [exact C|].
  apply IH; [apply gi_pmstep; exact G|apply mi_pmstep; assumption].
Qed.

(* a task standing at the supplier call of the symbol closure is inside a symbol lookup *)
Lemma akeys_sym : forall sk pc s n k, GI (cfg pc) (allkeys pc) s -> MI sk (cfg pc) (length (ptasks pc)) s ->
  In k (akeys s n) -> sk k = true.
Proof.
  intros sk pc s n k G C H. unfold akeys in H. apply in_flat_map in H. destruct H as (u & _ & Hk).
  pose proof (gi_local _ _ _ G u) as L. pose proof (mi_cls _ _ _ _ C u) as Q.
  destruct (ppcs s u) as [[rem kont] l]. unfold akey in Hk.
  destruct rem as [|[e k'] r]; [contradiction|]. destruct kont as [|i m]; [contradiction|].
  destruct i; try contradiction. destruct Hk as [<-|[]].
  inversion Q as [|x y Q1 Q2]; subst. unfold okl in Q1. cbn in Q1. rewrite Q1.
  cbn in L. destruct L as [L|(Hin & _)]; [discriminate|].
  destruct e; try reflexivity. cbn in Hin.
  repeat (destruct Hin as [Hin|Hin]; [discriminate|]). contradiction.
Qed.

Section MixTheorems.
Variable sk : key -> bool.
Variable pc : pconfig.
Variable ms : list task.
Hypothesis Hcl : classified sk pc.
Local Notation s := (pmrun canon pc ms).

Lemma mix_processed_le_requested : proc (psh s) <= req (psh s).
Proof. pose proof (pmrun_mi sk pc ms Hcl) as C. pose proof (mi_req _ _ _ _ C). pose proof (mi_proc _ _ _ _ C). lia. Qed.

Lemma mix_requested_le_distinct : req (psh s) <= distinct_sym_keys sk pc.
Proof.
  pose proof (pmrun_mi sk pc ms Hcl) as C. pose proof (pmrun_gi pc ms) as G.
  rewrite (mi_req _ _ _ _ C). rewrite <- (akeys_len _ _ _ _ G). rewrite <- app_length.
  unfold distinct_sym_keys. apply NoDup_incl_length.
  - apply NoDup_app_disjoint; [apply NoDup_filter; apply (gi_nodup _ _ _ G)|apply (akeys_nodup _ _ _ _ G)|].
    intros k H1 H2. unfold symlog in H1. apply filter_In in H1. destruct H1 as [H1 _].
    destruct (akeys_in _ _ _ H2) as (u & _ & U1 & U2).
    destruct (gi_pre _ _ _ G u k U1 U2) as [_ X]. contradiction.
  - intros k Hk. apply nodup_In. apply filter_In. apply in_app_or in Hk. destruct Hk as [Hk|Hk].
    + unfold symlog in Hk. apply filter_In in Hk. destruct Hk as [Hk Hs]. split; [|exact Hs].
      apply (mi_sub _ _ _ _ C). exact Hk.
    + split; [|apply (akeys_sym sk pc s _ k G C Hk)].
      destruct (akeys_in _ _ _ Hk) as (u & Hu & U1 & _).
      destruct (ppcs s u) as [[rem kont] l] eqn:E. unfold tkey in U1. cbn in U1.
      destruct rem as [|[e k'] r]; [discriminate|]. inversion U1; subst.
      apply (key_requested pc s u e k r kont l G E Hu).
Qed.

Lemma mix_counters_quiescent :
  pall_done pc s = true -> req (psh s) = distinct_sym_keys sk pc /\ proc (psh s) = distinct_sym_keys sk pc.
Proof.
  intro Hd. pose proof (pmrun_mi sk pc ms Hcl) as C. pose proof (pmrun_gi pc ms) as G.
  assert (Hk : forall u, u < length (ptasks pc) -> snd (fst (ppcs s u)) = []).
  { intros u Hu. unfold pall_done in Hd. rewrite forallb_forall in Hd.
    assert (Hin : In u (seq 0 (length (ptasks pc)))) by (apply in_seq; lia).
    specialize (Hd u Hin). unfold ptask_done in Hd.
    pose proof (gi_local _ _ _ G u) as L. unfold local_ok in L.
    destruct (ppcs s u) as [[rem kont] l]. cbn in *. destruct rem; [exact L|discriminate]. }
  assert (Za : sum_upto (length (ptasks pc)) (fun u => wa (ppcs s u)) = 0).
  { apply sum_zero. intros u Hu. unfold wa. rewrite (Hk u Hu). reflexivity. }
  assert (Zb : sum_upto (length (ptasks pc)) (fun u => wbm (ppcs s u)) = 0).
  { apply sum_zero. intros u Hu. unfold wbm. rewrite (Hk u Hu). reflexivity. }
  pose proof (mi_req _ _ _ _ C) as R. pose proof (mi_proc _ _ _ _ C) as Q. rewrite Za in R. rewrite Zb in Q.
  assert (L : length (symlog sk s) = distinct_sym_keys sk pc).
  { unfold distinct_sym_keys, symlog. apply Permutation_length. apply NoDup_Permutation.
    - apply NoDup_filter. apply (gi_nodup _ _ _ G).
    - apply NoDup_nodup.
    - intro k. rewrite nodup_In. rewrite !filter_In. split; intros [A B]; (split; [|exact B]).
      + apply (mi_sub _ _ _ _ C). exact A.
      + pose proof (pm_exactly_once pc ms k Hd A) as X. unfold psupplier_calls in X.
        apply (count_occ_In Nat.eq_dec). lia. }
  lia.
Qed.
End MixTheorems.

From RM Require Import C12.ProgSource Gen.C12Program.
Lemma src_mix_counters_bounded : forall (sk : key -> bool) (pc : pconfig) (ms : list task), classified sk pc ->
  proc (psh (pmrun src_program pc ms)) <= req (psh (pmrun src_program pc ms)) /\
  req (psh (pmrun src_program pc ms)) <= distinct_sym_keys sk pc.
Proof.
  rewrite src_is_canon. intros sk pc ms H. split; [apply (mix_processed_le_requested sk)|apply mix_requested_le_distinct]; exact H.
Qed.

Lemma src_mix_counters_quiescent : forall (sk : key -> bool) (pc : pconfig) (ms : list task), classified sk pc ->
  pall_done pc (pmrun src_program pc ms) = true ->
  req (psh (pmrun src_program pc ms)) = distinct_sym_keys sk pc /\ proc (psh (pmrun src_program pc ms)) = distinct_sym_keys sk pc.
Proof. rewrite src_is_canon. exact mix_counters_quiescent. Qed.

(* poll-level runs are instruction-level runs (C12/ProgSteps.v): the same for whole polls *)
From RM Require Import C12.ProgSteps.
Lemma pall_done_eq : forall pc a b, (forall t, ppcs a t = ppcs b t) -> pall_done pc a = pall_done pc b.
Proof.
  intros pc a b H. unfold pall_done. induction (seq 0 (length (ptasks pc))) as [|t r IH]; [reflexivity|].
  cbn [forallb]. rewrite IH. unfold ptask_done. rewrite H. reflexivity.
Qed.

Lemma src_mix_poll_counters : forall (sk : key -> bool) (pc : pconfig) (sched : list task), classified sk pc ->
  proc (psh (prun src_program pc sched)) <= req (psh (prun src_program pc sched)) /\
  req (psh (prun src_program pc sched)) <= distinct_sym_keys sk pc /\
  (pall_done pc (prun src_program pc sched) = true ->
   req (psh (prun src_program pc sched)) = distinct_sym_keys sk pc /\
   proc (psh (prun src_program pc sched)) = distinct_sym_keys sk pc).
Proof.
  intros sk pc sched H. destruct (src_polls_are_instruction_schedules pc sched) as (ms & Ht & Hs).
  rewrite <- Hs. rewrite <- (pall_done_eq pc _ _ Ht).
  destruct (src_mix_counters_bounded sk pc ms H) as [A B]. repeat split; try assumption.
  - apply (src_mix_counters_quiescent sk pc ms H). assumption.
  - apply (src_mix_counters_quiescent sk pc ms H). assumption.
Qed.

(* non-vacuity: the mixed workload of C12/Properties.v (symbol slots 0 and 1, file slot 2) *)
Definition mix_pc : pconfig :=
  {| ptasks := [[(EFill, 0); (EFile, 2)]; [(EWalk, 0); (EAddr, 1)]; [(EFile, 2); (EFill, 1)]];
     pbase := {| tasks := []; susp := fun k => S k; outc := fun k => if Nat.eqb k 1 then OParse else OOk;
                 leaf := fun k => k |} |}.
Definition mix_sk (k : key) : bool := Nat.ltb k 2.
Lemma mix_classified : classified mix_sk mix_pc.
Proof. repeat constructor. Qed.
Lemma mix_example :
  distinct_sym_keys mix_sk mix_pc = 2 /\ distinct_keys (cfg mix_pc) = 3 /\
  let s := pmrun src_program mix_pc (concat (repeat [0; 1; 2] 40)) in
  pall_done mix_pc s = true /\ req (psh s) = 2 /\ proc (psh s) = 2 /\ length (calls (psh s)) = 3.
Proof. vm_compute. repeat split. Qed.
