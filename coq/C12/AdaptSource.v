(* C12/AdaptSource.v — adaptive requesters and the program regenerated from the Rust source (round 5, second pass):
   the interpreter of C12/ProgModel.v running Gen/C12Program.v on the unfolded lists (every lookup through fill_symbol)
   has, poll for poll, the shared state of the adaptive run: locks, remembered values, supplier log, results, counters, stats.
   Also: the stats theorems of C12/StatsProofs.v for the interpreter (symbol lookups). *)
From RM Require Import C12.Model C12.Proofs C12.StatsProofs C12.ProgModel C12.ProgProofs C12.ProgSource C12.AdaptModel
                       C12.AdaptProofs Gen.C12Program.

Definition fill_pc (N : nat) (ac : aconfig) : pconfig :=
  {| ptasks := map (map (fun k => (EFill, k))) (tasks (fixed_config N ac)); pbase := abase ac |}.

Lemma fill_pc_cfg : forall N ac, cfg (fill_pc N ac) = fixed_config N ac.
Proof.
  intros N ac. unfold cfg, fill_pc. cbn [ptasks pbase]. unfold fixed_config at 2. f_equal.
  rewrite map_map. cbn [fixed_config tasks]. rewrite map_map. apply map_ext. intro sg.
  rewrite map_map. cbn [snd]. apply map_id.
Qed.

Lemma fill_pc_sym : forall N ac, sym_only (fill_pc N ac).
Proof.
  intros N ac. unfold sym_only, fill_pc. cbn [ptasks]. apply Forall_forall. intros l Hl.
  apply in_map_iff in Hl. destruct Hl as (x & <- & _). apply Forall_forall. intros y Hy.
  apply in_map_iff in Hy. destruct Hy as (k & <- & _). reflexivity.
Qed.

Lemma adaptive_source : forall (N : nat) (ac : aconfig) (fuel : nat) (sched : list task),
  N < fuel -> Forall (fun sg => ends N (outc (abase ac)) sg [] = true) (astrats ac) ->
  sh_eq true (psh (prun src_program (fill_pc N ac) sched)) (ash (arun fuel ac sched)) /\
  pall_done (fill_pc N ac) (prun src_program (fill_pc N ac) sched) = aall_done ac (arun fuel ac sched).
Proof.
  intros N ac fuel sched H1 H2.
  pose proof (src_refines true (fill_pc N ac) sched (fun _ => fill_pc_sym N ac)) as Sim.
  destruct (adaptive_refines N ac fuel H1 H2 sched) as (E & _ & _ & D).
  split.
  - destruct Sim as (_ & _ & _ & S). rewrite fill_pc_cfg in S. rewrite E. exact S.
  - rewrite (pall_done_abs true _ _ _ Sim). rewrite fill_pc_cfg. symmetry. exact D.
Qed.

(* the stats map for the interpreter on the regenerated program (symbol lookups) *)
Lemma src_stats_sound : forall (pc : pconfig) (sched : list task) (lf : nat) (o : outcome), sym_only pc ->
  stats (psh (prun src_program pc sched)) lf = Some o ->
  exists k, In k (concat (tasks (cfg pc))) /\ leaf (pbase pc) k = lf /\ o = outc (pbase pc) k /\
            value (psh (prun src_program pc sched)) k = Some o.
Proof.
  intros pc sched lf o Hs H.
  destruct (src_refines true pc sched (fun _ => Hs)) as (_ & _ & _ & (_ & Hv & _ & _ & Hfull)).
  destruct (Hfull eq_refl) as (_ & _ & Hst). rewrite Hst in H.
  destruct (stats_sound (cfg pc) sched lf o H) as (k & A & B & C & D).
  exists k. rewrite Hv. repeat split; assumption.
Qed.

Lemma src_stats_complete : forall (pc : pconfig) (sched : list task) (k : key), sym_only pc ->
  pall_done pc (prun src_program pc sched) = true -> In k (concat (tasks (cfg pc))) ->
  stats (psh (prun src_program pc sched)) (leaf (pbase pc) k) <> None.
Proof.
  intros pc sched k Hs Hd Hk.
  pose proof (src_refines true pc sched (fun _ => Hs)) as Sim.
  rewrite (pall_done_abs true _ _ _ Sim) in Hd.
  destruct Sim as (_ & _ & _ & (_ & _ & _ & _ & Hfull)). destruct (Hfull eq_refl) as (_ & _ & Hst). rewrite Hst.
  apply (stats_complete_quiescent (cfg pc) sched k Hd Hk).
Qed.
