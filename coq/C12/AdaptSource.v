(* C12/AdaptSource.v — adaptive requesters and the program regenerated from the Rust source (round 5, second pass):
   the interpreter of C12/ProgModel.v running Gen/C12Program.v on the unfolded lists (every lookup through fill_symbol)
   has, poll for poll, the shared state of the adaptive run: locks, remembered values, supplier log, results, counters, stats.
   Also: the stats theorems of C12/StatsProofs.v for the interpreter (symbol lookups). *)
From RM Require Import C12.Model C12.Proofs C12.StatsProofs C12.ProgModel C12.ProgProofs C12.ProgSource C12.AdaptModel
                       C12.AdaptProofs Gen.C12Program.

Definition fill_pc (N : nat) (ac : aconfig) : pconfig :=
  {| ptasks := map (map (fun k => (EFill, k))) (tasks (fixed_config N ac)); pbase := abase ac |}.

Lemma fill_pc_cfg : forall N ac, cfg (fill_pc N ac) = fixed_config N ac.
Proof.
  intros N ac. unfold cfg, fill_pc. cbn [ptasks pbase]. unfold fixed_config at 2. f_equal.
  rewrite map_map. cbn [fixed_config tasks]. rewrite map_map. apply map_ext. intro sg.
  rewrite map_map. cbn [snd]. apply map_id.
Qed.

Lemma fill_pc_sym : forall N ac, sym_only (fill_pc N ac).
Proof.
  intros N ac. unfold sym_only, fill_pc. cbn [ptasks]. apply Forall_forall. intros l Hl.
  apply in_map_iff in Hl. destruct Hl as (x & <- & _). apply Forall_forall. intros y Hy.
  apply in_map_iff in Hy. destruct Hy as (k & <- & _). reflexivity.
Qed.

Lemma adaptive_source : forall (N : nat) (ac : aconfig) (fuel : nat) (sched : list task),
  N < fuel -> Forall (fun sg => ends N (outc (abase ac)) sg [] = true) (astrats ac) ->
  sh_eq true (psh (prun src_program (fill_pc N ac) sched)) (ash (arun fuel ac sched)) /\
  pall_done (fill_pc N ac) (prun src_program (fill_pc N ac) sched) = aall_done ac (arun fuel ac sched).
Proof.
  intros N ac fuel sched H1 H2.
  pose proof (src_refines true (fill_pc N ac) sched (fun _ => fill_pc_sym N ac)) as Sim.
  destruct (adaptive_refines N ac fuel H1 H2 sched) as (E & _ & _ & D).
  split.
  - destruct Sim as (_ & _ & _ & S). rewrite fill_pc_cfg in S. rewrite E. exact S.
  - rewrite (pall_done_abs true _ _ _ Sim). rewrite fill_pc_cfg. symmetry. exact D.
Qed.

(* the stats map for the interpreter on the regenerated program (symbol lookups) *)
Lemma src_stats_sound : forall (pc : pconfig) (sched : list task) (lf : nat) (o : outcome), sym_only pc ->
  stats (psh (prun src_program pc sched)) lf = Some o ->
  exists k, In k (concat (tasks (cfg pc))) /\ leaf (pbase pc) k = lf /\ o = outc (pbase pc) k /\
            value (psh (prun src_program pc sched)) k = Some o.
Proof.
  intros pc sched lf o Hs H.
  destruct (src_refines true pc sched (fun _ => Hs)) as (_ & _ & _ & (_ & Hv & _ & _ & Hfull)).
  destruct (Hfull eq_refl) as (_ & _ & Hst). rewrite Hst in H.
  destruct (stats_sound (cfg pc) sched lf o H) as (k & A & B & C & D).
  exists k. rewrite Hv. repeat split; assumption.
Qed.

Lemma src_stats_complete : forall (pc : pconfig) (sched : list task) (k : key), sym_only pc ->
  pall_done pc (prun src_program pc sched) = true -> In k (concat (tasks (cfg pc))) ->
  stats (psh (prun src_program pc sched)) (leaf (pbase pc) k) <> None.
Proof.
  intros pc sched k Hs Hd Hk.
  pose proof (src_refines true pc sched (fun _ => Hs)) as Sim.
  rewrite (pall_done_abs true _ _ _ Sim) in Hd.
  destruct Sim as (_ & _ & _ & (_ & _ & _ & _ & Hfull)). destruct (Hfull eq_refl) as (_ & _ & Hst). rewrite Hst.
  apply (stats_complete_quiescent (cfg pc) sched k Hd Hk).
Qed.

(* the same for ANY symbol entry points (fill_symbol / walk_frame / get_symbol_at_address per lookup): every configuration of
   the program whose key lists are the unfolded strategies *)
Lemma adaptive_source_any_entry : forall (N : nat) (ac : aconfig) (fuel : nat) (pc : pconfig) (sched : list task),
  N < fuel -> Forall (fun sg => ends N (outc (abase ac)) sg [] = true) (astrats ac) ->
  sym_only pc -> cfg pc = fixed_config N ac ->
  sh_eq true (psh (prun src_program pc sched)) (ash (arun fuel ac sched)) /\
  pall_done pc (prun src_program pc sched) = aall_done ac (arun fuel ac sched).
Proof.
  intros N ac fuel pc sched H1 H2 Hs Hc.
  pose proof (src_refines true pc sched (fun _ => Hs)) as Sim.
  destruct (adaptive_refines N ac fuel H1 H2 sched) as (E & _ & _ & D).
  split.
  - destruct Sim as (_ & _ & _ & S). rewrite Hc in S. rewrite E. exact S.
  - rewrite (pall_done_abs true _ _ _ Sim). rewrite Hc. symmetry. exact D.
Qed.

(* the processor: when the lookups of every thread walk are what adaptive strategies (the unwinder deciding from the
   answers it got) unfold to, the processor's run on the regenerated program and walker has the adaptive run's shared state *)
From RM Require Import C12.ProcModel C12.ProcProofs Gen.C12Processor.
Lemma adaptive_processor : forall (N : nat) (ac : aconfig) (fuel : nat) (d : dump) (sched : list task),
  N < fuel -> Forall (fun sg => ends N (outc (abase ac)) sg [] = true) (astrats ac) ->
  walk_ok d -> cfg (proc_pc src_walker d (abase ac)) = fixed_config N ac ->
  sh_eq true (psh (prun src_program (proc_pc src_walker d (abase ac)) sched)) (ash (arun fuel ac sched)) /\
  pall_done (proc_pc src_walker d (abase ac)) (prun src_program (proc_pc src_walker d (abase ac)) sched) =
    aall_done ac (arun fuel ac sched).
Proof.
  intros N ac fuel d sched H1 H2 Hok Hc.
  apply (adaptive_source_any_entry N ac fuel _ sched H1 H2); [|exact Hc].
  rewrite src_walker_is_canon. apply canon_sym_only. exact Hok.
Qed.

(* non-vacuity: two threads whose unwinder asks for module 0 and then, having got no symbols, scans into module 2 *)
Definition ex_strat2 : strat :=
  fun acc => match acc with
             | [] => Some 0 | [_] => Some 0
             | [_; (_, OOk)] => Some 1 | [_; _] => Some 2
             | [_; _; _] => Some 2
             | _ => None
             end.
Definition ex_ac2 : aconfig :=
  {| astrats := [ex_strat2; ex_strat2];
     abase := {| tasks := []; susp := fun k => 1; outc := fun k => if Nat.eqb k 0 then OParse else OOk; leaf := fun k => k |} |}.
Definition ex_dump2 : dump :=
  [ [ {| f_module := Some 0; f_caller := [(EWalk, 0)] |}; {| f_module := Some 2; f_caller := [(EWalk, 2)] |} ];
    [ {| f_module := Some 0; f_caller := [(EWalk, 0)] |}; {| f_module := Some 2; f_caller := [(EWalk, 2)] |} ] ].
Lemma ex_adaptive_processor :
  Forall (fun sg => ends 4 (outc (abase ex_ac2)) sg [] = true) (astrats ex_ac2) /\ walk_ok ex_dump2 /\
  cfg (proc_pc src_walker ex_dump2 (abase ex_ac2)) = fixed_config 4 ex_ac2.
Proof. split; [repeat constructor|]. split; [repeat constructor|]. reflexivity. Qed.
