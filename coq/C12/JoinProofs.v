(* C12/JoinProofs.v — join_all with a shared waker: every parent poll is one round-robin round of
   the plain model, the parent's bit is set whenever a child is unfinished, and the parent is
   polled at most work c times. *)
From Coq Require Import List Arith Bool Lia.
From RM Require Import C12.Model C12.WakeModel C12.JoinModel C12.Proofs C12.Progress C12.WakeProofs.
Import ListNotations.

(* x2 has at least the bits of x1 among tasks below m; same waiter entries *)
Definition le_upto (m : nat) (x1 x2 : wext) : Prop :=
  (forall u, wk x1 u = wk x2 u) /\ (forall k, slen x1 k = slen x2 k) /\
  (forall u, u < m -> flag x1 u = true -> flag x2 u = true).

Lemma first_waiter_ext : forall x1 x2 k ts best, (forall u, wk x1 u = wk x2 u) ->
  first_waiter x1 k ts best = first_waiter x2 k ts best.
Proof.
  intros x1 x2 k ts. induction ts as [|a ts IH]; intros best H; [reflexivity|].
  cbn [first_waiter]. rewrite (H a). now apply IH.
Qed.

Lemma le_wake : forall m n k x1 x2, le_upto m x1 x2 -> le_upto m (wake n k x1) (wake n k x2).
Proof.
  intros m n k x1 x2 (Hw & Hs & Hf). unfold wake.
  rewrite (first_waiter_ext x1 x2 k (seq 0 n) None Hw).
  destruct (first_waiter x2 k (seq 0 n) None) as [[u j]|]; [|now repeat split].
  rewrite (Hw u). destruct (wk x2 u) as [[[k' i] [|]]|]; try (now repeat split).
  split; [|split]; cbn [wk slen flag].
  - intros v. unfold upd. destruct (Nat.eqb v u); auto.
  - assumption.
  - intros v Hv. unfold upd. destruct (Nat.eqb v u); auto.
Qed.

Lemma le_set : forall m x1 x2 t b, le_upto m x1 x2 -> le_upto m (set_flag x1 t b) (set_flag x2 t b).
Proof.
  intros m x1 x2 t b (Hw & Hs & Hf). split; [|split]; cbn [set_flag wk slen flag]; auto.
  intros v Hv. unfold upd. destruct (Nat.eqb v t); auto.
Qed.

Lemma le_register : forall m x1 x2 t k, le_upto m x1 x2 -> le_upto m (register t k x1) (register t k x2).
Proof.
  intros m x1 x2 t k (Hw & Hs & Hf). unfold register. rewrite (Hw t).
  destruct (wk x2 t) as [[[k' i] w]|].
  - split; [|split]; cbn [wk slen flag]; auto. intros v. unfold upd. destruct (Nat.eqb v t); auto.
  - split; [|split]; cbn [wk slen flag]; auto.
    + intros v. unfold upd. rewrite (Hs k). destruct (Nat.eqb v t); auto.
    + intros v. unfold upd. rewrite (Hs k). destruct (Nat.eqb v k); auto.
Qed.

Lemma le_unregister : forall m x1 x2 t, le_upto m x1 x2 -> le_upto m (unregister t x1) (unregister t x2).
Proof.
  intros m x1 x2 t (Hw & Hs & Hf). split; [|split]; cbn [unregister wk slen flag]; auto.
  - intros v. unfold upd. destruct (Nat.eqb v t); auto.
  - intros k0. rewrite (Hw t). destruct (wk x2 t) as [[[k i] w]|]; auto.
    unfold upd. rewrite (Hs k). destruct (Nat.eqb k0 k); auto.
Qed.

Lemma le_wadvance : forall c n m t rem ph s x1 x2,
  le_upto m x1 x2 ->
  le_upto m (snd (wadvance c n t rem ph s x1)) (snd (wadvance c n t rem ph s x2)).
Proof.
  intros c n m t rem. induction rem as [|k rest IH]; intros ph s x1 x2 H; [assumption|].
  cbn [wadvance].
  destruct ph as [| |[|mm]];
    try (destruct (lock s k); [cbn [snd]; now apply le_register|];
         destruct (value s k); [apply IH; now apply le_wake, le_unregister|];
         destruct (susp c k); [apply IH; now apply le_wake, le_unregister|
                               cbn [snd]; now apply le_set, le_unregister]).
  - apply IH. now apply le_wake.
  - cbn [snd]. now apply le_set.
Qed.

(* the base part of a child poll does not depend on the bits, and is one poll of the plain model *)
Lemma jchild_base : forall c t w, base (jchild c t w) = poll c t (base w).
Proof.
  intros c t w. unfold jchild, poll. destruct (pcs (base w) t) as [rem ph].
  pose proof (wadvance_base c (ntasks c) t rem ph (sh (base w)) (ext w)) as H.
  destruct (wadvance c (ntasks c) t rem ph (sh (base w)) (ext w)) as [[[rem' ph'] s'] x'].
  cbn [fst] in H. rewrite <- H. reflexivity.
Qed.

Lemma jround_base : forall c ts w, base (jround c w ts) = run_from c (base w) ts.
Proof.
  intros c ts. induction ts as [|t ts IH]; intros w; [reflexivity|].
  cbn [jround run_from fold_left]. fold (jround c (jchild c t w) ts).
  fold (run_from c (poll c t (base w)) ts). now rewrite IH, jchild_base.
Qed.

Lemma jparent_base : forall c w, base (jparent c w) = run_from c (base w) (seq 0 (ntasks c)).
Proof. intros. unfold jparent. now rewrite jround_base. Qed.

(* one child: per-task executor (clears the child's bit) vs shared waker (does not) *)
Lemma child_sim : forall c j w1 w2,
  base w1 = base w2 -> le_upto j (ext w1) (ext w2) ->
  base (wpoll c j w1) = base (jchild c j w2) /\ le_upto (S j) (ext (wpoll c j w1)) (ext (jchild c j w2)).
Proof.
  intros c j w1 w2 Hb Hle. split; [now rewrite wpoll_base, jchild_base, Hb|].
  unfold wpoll, jchild. rewrite <- Hb. destruct (pcs (base w1) j) as [rem ph].
  assert (Hle' : le_upto (S j) (set_flag (ext w1) j false) (ext w2)).
  { destruct Hle as (Hw & Hs & Hf). split; [|split]; cbn [set_flag wk slen flag]; auto.
    intros u Hu. destruct (Nat.eq_dec u j) as [E|N].
    - subst u. rewrite upd_same. discriminate.
    - rewrite upd_other by assumption. apply Hf. lia. }
  pose proof (le_wadvance c (ntasks c) (S j) j rem ph (sh (base w1)) _ _ Hle') as H.
  destruct (wadvance c (ntasks c) j rem ph (sh (base w1)) (set_flag (ext w1) j false)) as [[[r1 p1] s1] x1'].
  destruct (wadvance c (ntasks c) j rem ph (sh (base w1)) (ext w2)) as [[[r2 p2] s2] x2'].
  cbn [ext]. exact H.
Qed.

Lemma round_sim : forall c m w1 w2,
  base w1 = base w2 -> le_upto 0 (ext w1) (ext w2) ->
  base (wrun_from c w1 (seq 0 m)) = base (jround c w2 (seq 0 m)) /\
  le_upto m (ext (wrun_from c w1 (seq 0 m))) (ext (jround c w2 (seq 0 m))).
Proof.
  intros c m. induction m as [|m IH]; intros w1 w2 Hb Hle; [now split|].
  rewrite seq_S. cbn [plus]. unfold wrun_from, jround. rewrite !fold_left_app. cbn [fold_left].
  destruct (IH w1 w2 Hb Hle) as (Hb' & Hle'). now apply child_sim.
Qed.

Lemma clear_all_le : forall x1, le_upto 0 x1 (clear_all x1).
Proof. intros. split; [|split]; cbn [clear_all wk slen]; auto. intros u Hu. lia. Qed.

Lemma round_robin_S : forall c r, round_robin c (S r) = round_robin c r ++ seq 0 (ntasks c).
Proof.
  intros c r. unfold round_robin. induction r as [|r IH]; [cbn; now rewrite app_nil_r|].
  cbn [repeat concat] in *. rewrite IH at 1. now rewrite app_assoc.
Qed.

Section Join.
Variable c : config.

(* [w2] is the shared-waker state after r parent polls; the per-task-waker run of the same r
   rounds has the same base and at most its bits *)
Definition JRel (r : nat) (w2 : wstate) : Prop :=
  base w2 = base (wrun c (round_robin c r)) /\
  (forall u, wk (ext (wrun c (round_robin c r))) u = wk (ext w2) u) /\
  (forall k, slen (ext (wrun c (round_robin c r))) k = slen (ext w2) k) /\
  (forall u, u < ntasks c -> flag (ext (wrun c (round_robin c r))) u = true -> flag (ext w2) u = true).

Lemma jrel_init : JRel 0 (winit c).
Proof. unfold JRel, round_robin. cbn [repeat concat]. unfold wrun. cbn [wrun_from fold_left]. auto. Qed.

Lemma jrel_step : forall r w2, JRel r w2 -> JRel (S r) (jparent c w2).
Proof.
  intros r w2 (Hb & Hw & Hs & _). unfold JRel. rewrite round_robin_S.
  unfold wrun. unfold wrun_from at 1 2 3 4. rewrite !fold_left_app.
  fold (wrun_from c (winit c) (round_robin c r)). fold (wrun c (round_robin c r)).
  set (w1 := wrun c (round_robin c r)) in *.
  fold (wrun_from c w1 (seq 0 (ntasks c))).
  unfold jparent.
  destruct (round_sim c (ntasks c) w1 {| base := base w2; ext := clear_all (ext w2) |}) as (Hb' & Hw' & Hs' & Hf').
  - cbn [base]. now symmetry.
  - split; [|split]; cbn [ext clear_all wk slen]; auto. intros u Hu. lia.
  - split; [now symmetry|]. split; [assumption|]. split; assumption.
Qed.

Lemma jrel_base : forall r w2, JRel r w2 -> base w2 = run c (round_robin c r).
Proof. intros r w2 (Hb & _). rewrite Hb. apply wrun_base. Qed.

(* the parent's bit is set whenever a child is unfinished *)
Lemma jrel_pbit : forall r w2, JRel r w2 -> all_done c (base w2) = false -> pbit c w2 = true.
Proof.
  intros r w2 HR Hd. pose proof (jrel_base r w2 HR) as Hbase.
  destruct HR as (Hb & Hw & Hs & Hf).
  unfold pbit. apply existsb_exists. rewrite Hbase in Hd.
  pose proof (no_lost_wakeup c (round_robin c r) Hd) as Hne.
  destruct (runnable c (wrun c (round_robin c r))) as [|t rs] eqn:Hr; [contradiction|].
  assert (Hin : In t (runnable c (wrun c (round_robin c r)))) by (rewrite Hr; now left).
  unfold runnable in Hin. apply filter_In in Hin. destruct Hin as [Hseq Hp].
  apply andb_prop in Hp. destruct Hp as [Hflag _].
  exists t. split; [assumption|]. apply Hf; [apply in_seq in Hseq; lia|assumption].
Qed.

Lemma covers_seq : forall n, covers n (seq 0 n).
Proof. intros n t Ht. apply in_seq. lia. Qed.

Lemma round_robin_done : forall r, work c <= r -> all_done c (run c (round_robin c r)) = true.
Proof.
  intros r Hr. unfold round_robin. apply finish_in_rounds.
  - apply Forall_forall. intros x Hx. apply repeat_spec in Hx. subst x. apply covers_seq.
  - now rewrite repeat_length.
Qed.

Lemma jexec_finishes : forall fuel r w2, JRel r w2 -> r <= work c -> work c <= r + fuel ->
  exists w' r', jexec c fuel w2 r = (w', r', WDone) /\ r' <= work c /\
                base w' = run c (round_robin c r') /\ all_done c (base w') = true.
Proof.
  induction fuel as [|f IH]; intros r w2 HR Hle Hf.
  - assert (Hd : all_done c (base w2) = true) by (rewrite (jrel_base r w2 HR); apply round_robin_done; lia).
    cbn [jexec]. rewrite Hd. exists w2, r. repeat split; auto. now apply jrel_base.
  - cbn [jexec]. destruct (all_done c (base w2)) eqn:Hd.
    + exists w2, r. repeat split; auto. now apply jrel_base.
    + assert (Hlt : r < work c).
      { destruct (Nat.lt_ge_cases r (work c)) as [H|H]; [assumption|].
        rewrite (jrel_base r w2 HR), (round_robin_done r H) in Hd. discriminate. }
      rewrite (jrel_pbit r w2 HR Hd).
      apply (IH (S r) (jparent c w2)); [now apply jrel_step|lia|lia].
Qed.

(* the statement used by Properties.v *)
Lemma join_all_ok : forall fuel, work c <= fuel ->
  exists w r, jexec c fuel (winit c) 0 = (w, r, WDone) /\ r <= work c /\
              base w = run c (round_robin c r) /\ all_done c (run c (round_robin c r)) = true.
Proof.
  intros fuel Hf. destruct (jexec_finishes fuel 0 (winit c) jrel_init) as (w & r & He & Hr & Hb & Hd); [lia|lia|].
  exists w, r. repeat split; auto. now rewrite <- Hb.
Qed.

End Join.
