(* C12/Driver.v — entry point of the correspondence run (extracted to OCaml).
   The harness polls the real futures in the order of the case's schedule and then
   round-robin until every task has finished; the model does the same. *)
From RM Require Import C12.Model C12.WakeModel C12.DropModel C12.JoinModel C12.FileModel.
From RM Require Import C12.ProgModel Gen.C12Program.

Definition script := (nat * outcome * nat)%type.     (* suspensions, answer, stats leaf id *)
Definition dflt : script := (0, ONotFound, 0).

Definition mk_config (ts : list (list key)) (scripts : list script) : config :=
  {| tasks := ts;
     susp := fun k => fst (fst (nth k scripts dflt));
     outc := fun k => snd (fst (nth k scripts dflt));
     leaf := fun k => snd (nth k scripts dflt) |}.

(* round-robin rounds until everything is done (bounded by [fuel] rounds) *)
Fixpoint drain (c : config) (fuel : nat) (s : state) (rounds : nat) : state * nat :=
  if all_done c s then (s, rounds)
  else match fuel with
       | O => (s, rounds)
       | S f => drain c f (run_from c s (seq 0 (ntasks c))) (S rounds)
       end.

Record c12_out := {
  o_mid_req : nat; o_mid_proc : nat; o_mid_done : nat;      (* after the explicit schedule *)
  o_log : list key;
  o_results : list (list (key * outcome));
  o_req : nat; o_proc : nat;
  o_stats : list (nat * outcome);                           (* leaf id, outcome class; by leaf id *)
  o_rounds : nat; o_hung : bool
}.

Definition stats_list (nleaf : nat) (f : nat -> option outcome) : list (nat * outcome) :=
  flat_map (fun l => match f l with Some o => [(l, o)] | None => [] end) (seq 0 nleaf).

Definition run_case (ts : list (list key)) (scripts : list script) (nleaf : nat) (sched : list task) : c12_out :=
  let c := mk_config ts scripts in
  let s1 := run c sched in
  let '(s2, rounds) := drain c (S (work c)) s1 0 in
  {| o_mid_req := requested s1; o_mid_proc := processed s1;
     o_mid_done := length (filter (task_done s1) (seq 0 (ntasks c)));
     o_log := calls (sh s2);
     o_results := map (fun t => results (sh s2) t) (seq 0 (ntasks c));
     o_req := requested s2; o_proc := processed s2;
     o_stats := stats_list nleaf (stats (sh s2));
     o_rounds := rounds; o_hung := negb (all_done c s2) |}.

(* round 5: modes 0, 5, 6, 7 and 2 run the INTERPRETER of C12/ProgModel.v on the program regenerated from the Rust
   source (Gen/C12Program.v); C12/Properties.v:c12_source_program_refines_model says it is [run] above, poll for poll.
   Lookup kinds of the cases: 0 fill_symbol, 1 walk_frame, 2 get_symbol_at_address, 3 get_file_path (a plain
   delegation to the mock supplier, no slot) followed by fill_symbol. *)
Definition entry_of (kind : nat) : entry := match kind with 1 => EWalk | 2 => EAddr | _ => EFill end.

Fixpoint pdrain (pc : pconfig) (fuel : nat) (s : pstate) (rounds : nat) : pstate * nat :=
  if pall_done pc s then (s, rounds)
  else match fuel with
       | O => (s, rounds)
       | S f => pdrain pc f (prun_from src_program pc s (seq 0 (length (ptasks pc)))) (S rounds)
       end.

Definition run_pcase (ts : list (list (nat * nat))) (scripts : list script) (nleaf : nat) (sched : list task) : c12_out :=
  let pc := {| ptasks := map (map (fun p => (entry_of (snd p), fst p))) ts; pbase := mk_config [] scripts |} in
  let n := length (ptasks pc) in
  let s1 := prun src_program pc sched in
  let '(s2, rounds) := pdrain pc (2 * S (work (cfg pc))) s1 0 in
  {| o_mid_req := req (psh s1); o_mid_proc := proc (psh s1);
     o_mid_done := length (filter (ptask_done s1) (seq 0 n));
     o_log := calls (psh s2);
     o_results := map (fun t => results (psh s2) t) (seq 0 n);
     o_req := req (psh s2); o_proc := proc (psh s2);
     o_stats := stats_list nleaf (stats (psh s2));
     o_rounds := rounds; o_hung := negb (pall_done pc s2) |}.

(* mode 1: wake-driven executor (the picks choose among the runnable tasks) *)
Record c12_wout := {
  w_trace : list task; w_lost : bool; w_fuel : bool;
  w_log : list key; w_results : list (list (key * outcome));
  w_req : nat; w_proc : nat; w_stats : list (nat * outcome)
}.

Definition run_wcase (ts : list (list key)) (scripts : list script) (nleaf : nat) (picks : list nat) : c12_wout :=
  let c := mk_config ts scripts in
  let '(w, trace, st) := wexec c (S (2 * work c + ntasks c)) picks (winit c) [] in
  let s2 := base w in
  {| w_trace := trace;
     w_lost := match st with WLost => true | _ => false end;
     w_fuel := match st with WFuel => true | _ => false end;
     w_log := calls (sh s2);
     w_results := map (fun t => results (sh s2) t) (seq 0 (ntasks c));
     w_req := requested s2; w_proc := processed s2;
     w_stats := stats_list nleaf (stats (sh s2)) |}.

(* mode 3: wake-driven executor with drops of waiting tasks (picks >= 100) *)
Definition run_dcase (ts : list (list key)) (scripts : list script) (nleaf : nat) (picks : list nat) : c12_wout :=
  let c := mk_config ts scripts in
  let '(c', w, trace, st) := dexec c (S (2 * work c + ntasks c) + length picks) picks (winit c) [] in
  let s2 := base w in
  {| w_trace := trace;
     w_lost := match st with WLost => true | _ => false end;
     w_fuel := match st with WFuel => true | _ => false end;
     w_log := calls (sh s2);
     w_results := map (fun t => results (sh s2) t) (seq 0 (ntasks c));
     w_req := requested s2; w_proc := processed s2;
     w_stats := stats_list nleaf (stats (sh s2)) |}.

(* mode 4: join_all with the parent's shared waker; w_trace carries the number of parent polls *)
Definition run_jcase (ts : list (list key)) (scripts : list script) (nleaf : nat) : c12_wout :=
  let c := mk_config ts scripts in
  let '(w, r, st) := jexec c (S (work c)) (winit c) 0 in
  let s2 := base w in
  {| w_trace := [r];
     w_lost := match st with WLost => true | _ => false end;
     w_fuel := match st with WFuel => true | _ => false end;
     w_log := calls (sh s2);
     w_results := map (fun t => results (sh s2) t) (seq 0 (ntasks c));
     w_req := requested s2; w_proc := processed s2;
     w_stats := stats_list nleaf (stats (sh s2)) |}.

(* mode 2: concurrent locate_file calls on one HttpSymbolSupplier with one symbol server;
   per file key: lookup exists, suspensions of the fetch, file present on the server *)
Definition fscript := (bool * nat * bool)%type.
Definition run_fcase (ts : list (list (nat * nat))) (fscripts : list fscript) : c12_wout :=
  let fc := {| ftasks := map (map (fun p => (fst p, fkind_of (snd p)))) ts;
               local_hit := fun _ => false;
               has_lookup := fun fk => fst (fst (nth (enc fk) fscripts (false, 0, false)));
               servers := [fun fk => (snd (fst (nth (enc fk) fscripts (false, 0, false))),
                                      snd (nth (enc fk) fscripts (false, 0, false)))] |} in
  let c := to_config fc in
  let '(s2, rounds) := drain c (S (work c)) (init c) 0 in
  {| w_trace := [rounds];
     w_lost := false;
     w_fuel := negb (all_done c s2);
     w_log := calls (sh s2);
     w_results := map (fun t => results (sh s2) t) (seq 0 (ntasks c));
     w_req := requested s2; w_proc := processed s2;
     w_stats := [] |}.

Definition run_pfcase (ts : list (list (nat * nat))) (fscripts : list fscript) : c12_wout :=
  let fc := {| ftasks := map (map (fun p => (fst p, fkind_of (snd p)))) ts;
               local_hit := fun _ => false;
               has_lookup := fun fk => fst (fst (nth (enc fk) fscripts (false, 0, false)));
               servers := [fun fk => (snd (fst (nth (enc fk) fscripts (false, 0, false))),
                                      snd (nth (enc fk) fscripts (false, 0, false)))] |} in
  let pc := {| ptasks := map (map (fun fk => (EFile, enc fk))) (ftasks fc); pbase := to_config fc |} in
  let '(s2, rounds) := pdrain pc (2 * S (work (cfg pc))) (pinit pc) 0 in
  {| w_trace := [rounds];
     w_lost := false;
     w_fuel := negb (pall_done pc s2);
     w_log := calls (psh s2);
     w_results := map (fun t => results (psh s2) t) (seq 0 (length (ptasks pc)));
     w_req := req (psh s2); w_proc := proc (psh s2);
     w_stats := [] |}.

(* mode 7 (round 5, second pass): the PROCESSOR model of C12/ProcModel.v on the walker regenerated from processor.rs /
   minidump-unwind (Gen/C12Processor.v).  The case's dump has one thread per task and one frame per lookup, each frame inside
   its module and outside the module's CFI ranges: walk_stack asks fill_symbol for the frame's module, get_caller_frame's CFI
   attempt asks walk_frame for the same module ([cfi_lookups] on the regenerated x86 get_caller_by_cfi) and then follows the
   frame pointer.  The answers per frame are the two
   identical ones of these lookups ([evens] keeps one); the stats are the snapshot of the LAST stats read of
   into_process_state (after the join_all). *)
From RM Require Import C12.ProcModel Gen.C12Processor.
Fixpoint evens {A : Type} (l : list A) : list A :=
  match l with
  | x :: r => x :: (match r with _ :: r' => evens r' | [] => [] end)
  | [] => []
  end.
Definition run_proccase (ts : list (list key)) (scripts : list script) (nleaf : nat) : c12_out :=
  let x86 := src_cfi_x86 in
  let d := map (map (fun k => {| f_module := Some k; f_caller := cfi_lookups x86 src_cfi_module (Some k) |})) ts in
  let base := mk_config [] scripts in
  let pc := proc_pc src_walker d base in
  match process src_program src_walker d base (S (work (cfg pc))) with
  | Some (s, snaps) =>
      {| o_mid_req := 0; o_mid_proc := 0; o_mid_done := length snaps;
         o_log := calls (psh s);
         o_results := map (fun t => evens (results (psh s) t)) (seq 0 (length ts));
         o_req := req (psh s); o_proc := proc (psh s);
         o_stats := stats_list nleaf (last snaps (fun _ => None));
         o_rounds := 0; o_hung := negb (pall_done pc s) |}
  | None =>
      {| o_mid_req := 0; o_mid_proc := 0; o_mid_done := 0; o_log := []; o_results := []; o_req := 0; o_proc := 0;
         o_stats := []; o_rounds := 0; o_hung := true |}
  end.

(* adaptive requesters (round 5, second pass; C12/AdaptModel.v): a row entry (k, alt) asks for module k when the task's previous
   lookup got symbols (or there was none), for module alt otherwise.  [unfold_rows] are the fixed lists of
   c12_adaptive_refines (every mode runs its model on them); [run_acase] runs the adaptive model itself (mode 0). *)
From RM Require Import C12.AdaptModel.
Definition strat_of (row : list (nat * nat)) : strat :=
  fun acc => match nth_error row (length acc) with
             | None => None
             | Some (k, alt) => Some (match last (map snd acc) OOk with OOk => k | _ => alt end)
             end.
Definition aconfig_of (rows : list (list (nat * nat))) (scripts : list script) : aconfig :=
  {| astrats := map strat_of rows; abase := mk_config [] scripts |}.
Definition maxlen (rows : list (list (nat * nat))) : nat := fold_right (fun r n => Nat.max (length r) n) 0 rows.
Definition unfold_rows (rows : list (list (nat * nat))) (scripts : list script) : list (list key) :=
  tasks (fixed_config (maxlen rows) (aconfig_of rows scripts)).
Fixpoint adrain (ac : aconfig) (fuel n : nat) (s : astate) (rounds : nat) : astate * nat :=
  if aall_done ac s then (s, rounds)
  else match n with
       | O => (s, rounds)
       | S m => adrain ac fuel m (fold_left (fun s t => apoll fuel ac t s) (seq 0 (length (astrats ac))) s) (S rounds)
       end.
Definition run_acase (rows : list (list (nat * nat))) (scripts : list script) (nleaf : nat) (sched : list task) : c12_out :=
  let ac := aconfig_of rows scripts in
  let N := maxlen rows in
  let n := length rows in
  let s1 := arun (S N) ac sched in
  let '(s2, rounds) := adrain ac (S N) (S (work (fixed_config N ac))) s1 0 in
  {| o_mid_req := req (ash s1); o_mid_proc := proc (ash s1);
     o_mid_done := length (filter (atask_done ac s1) (seq 0 n));
     o_log := calls (ash s2);
     o_results := map (fun t => results (ash s2) t) (seq 0 n);
     o_req := req (ash s2); o_proc := proc (ash s2);
     o_stats := stats_list nleaf (stats (ash s2));
     o_rounds := rounds; o_hung := negb (aall_done ac s2) |}.

(* glue for the OCaml driver (decimal text <-> nat goes through Coq's Z; see ocaml/zconv.ml) *)
From Coq Require Import ZArith.
Definition nat_of_z (x : Z) : nat := Z.to_nat x.
Definition z_of_nat (n : nat) : Z := Z.of_nat n.
