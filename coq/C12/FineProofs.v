(* C12/FineProofs.v — the invariant of Proofs.v is preserved by every micro step, so the safety half of C12 holds
   for interleavings finer than polls (multi-threaded executors); a poll is a sequence of micro steps; the
   observables at quiescence do not depend on the schedule. *)
From Coq Require Import List Arith Bool Lia Permutation.
From RM Require Import C12.Model C12.Proofs C12.Progress C12.FineModel.
Import ListNotations.

Section Fine.
Variable c : config.

Lemma mstep_inv : forall t s, SInv c s -> SInv c (mstep c t s).
Proof.
  intros t s HI. unfold SInv in *. unfold mstep.
  destruct (pcs s t) as [rem ph] eqn:Hp.
  destruct rem as [|k rest]; [assumption|].
  assert (Hnosup : not_sup ph ->
    Inv c (pcs match lock (sh s) k with
      | Some _ => {| pcs := upd (pcs s) t (k :: rest, Wait); sh := sh s |}
      | None =>
          match value (sh s) k with
          | Some o => {| pcs := upd (pcs s) t (rest, Start); sh := hit t k o (sh s) |}
          | None => {| pcs := upd (pcs s) t (k :: rest, Sup (susp c k)); sh := begin_call t k (sh s) |}
          end
      end)
      (sh match lock (sh s) k with
      | Some _ => {| pcs := upd (pcs s) t (k :: rest, Wait); sh := sh s |}
      | None =>
          match value (sh s) k with
          | Some o => {| pcs := upd (pcs s) t (rest, Start); sh := hit t k o (sh s) |}
          | None => {| pcs := upd (pcs s) t (k :: rest, Sup (susp c k)); sh := begin_call t k (sh s) |}
          end
      end)).
  { intros Hn. destruct (lock (sh s) k) as [h|] eqn:Hl; cbn [pcs sh].
    - now apply (step_wait c (pcs s) (sh s) t k rest ph).
    - destruct (value (sh s) k) as [o|] eqn:Hv; cbn [pcs sh].
      + now apply (step_hit c (pcs s) (sh s) t k rest ph o).
      + now apply (step_begin c (pcs s) (sh s) t k rest ph). }
  destruct ph as [| |[|m]].
  - now apply Hnosup.
  - now apply Hnosup.
  - cbn [pcs sh]. now apply (step_complete c (pcs s) (sh s) t k rest 0).
  - cbn [pcs sh]. now apply (step_tick c (pcs s) (sh s) t k rest (S m) m).
Qed.

Lemma mrun_from_inv : forall ms s, SInv c s -> SInv c (mrun_from c s ms).
Proof.
  induction ms as [|t ms IH]; intros s HI; [assumption|].
  cbn [mrun_from fold_left]. apply IH. now apply mstep_inv.
Qed.

Lemma mrun_inv : forall ms, SInv c (mrun c ms).
Proof. intros. apply mrun_from_inv, init_inv. Qed.

(* ---------- consequences of the invariant, for any state that satisfies it ---------- *)
Lemma inv_at_most_once : forall s k, SInv c s -> supplier_calls s k <= 1.
Proof.
  intros s k HI. unfold supplier_calls.
  pose proof (inv_nodup _ _ _ HI) as H.
  rewrite (NoDup_count_occ Nat.eq_dec) in H. apply H.
Qed.

Lemma inv_same_outcome : forall s t i k o, SInv c s ->
  task_result s t i = Some (k, o) ->
  o = outc c k /\ nth_error (nth t (tasks c) []) i = Some k.
Proof.
  intros s t i k o HI H. unfold task_result in H. split.
  - apply (inv_val _ _ _ HI). apply (inv_res _ _ _ HI t). now apply nth_error_In with i.
  - rewrite <- (inv_pos _ _ _ HI t).
    assert (Hm : nth_error (map fst (results (sh s) t)) i = Some k).
    { rewrite nth_error_map, H. reflexivity. }
    rewrite nth_error_app1; [assumption|]. apply nth_error_Some. rewrite Hm. discriminate.
Qed.

Lemma inv_counters_bounded : forall s, SInv c s ->
  processed s <= requested s /\ requested s <= distinct_keys c.
Proof.
  intros s HI. unfold processed, requested, distinct_keys.
  rewrite (inv_proc _ _ _ HI), (inv_req _ _ _ HI). split.
  - apply filter_len_le.
  - apply NoDup_incl_length; [apply (inv_nodup _ _ _ HI)|].
    intros k Hk. apply nodup_In. now apply (inv_creq c _ _ HI).
Qed.

Lemma inv_rem_nil : forall s t, SInv c s -> all_done c s = true -> fst (pcs s t) = [].
Proof.
  intros s t HI Hd.
  destruct (Nat.lt_ge_cases t (ntasks c)); [now apply (all_done_rem c)|now apply (rem_nil_beyond c)].
Qed.

Lemma inv_results_complete : forall s t, SInv c s -> all_done c s = true ->
  map fst (results (sh s) t) = nth t (tasks c) [].
Proof.
  intros s t HI Hd. rewrite <- (inv_pos _ _ _ HI t).
  rewrite (inv_rem_nil s t HI Hd). now rewrite app_nil_r.
Qed.

Lemma pairs_explicit : forall (f : key -> outcome) (l : list (key * outcome)),
  (forall k o, In (k, o) l -> o = f k) -> l = map (fun k => (k, f k)) (map fst l).
Proof.
  induction l as [|[k o] l IH]; intros H; [reflexivity|].
  cbn [map fst]. rewrite (H k o (or_introl eq_refl)). f_equal.
  apply IH. intros k' o' Hin. apply H. now right.
Qed.

(* at quiescence each task holds exactly: for each of its lookups, in order, the scripted answer of the key *)
Lemma inv_results_explicit : forall s t, SInv c s -> all_done c s = true ->
  results (sh s) t = map (fun k => (k, outc c k)) (nth t (tasks c) []).
Proof.
  intros s t HI Hd. rewrite <- (inv_results_complete s t HI Hd).
  apply pairs_explicit. intros k o Hin.
  apply (inv_val _ _ _ HI). now apply (inv_res _ _ _ HI t).
Qed.

Lemma inv_calls_perm : forall s, SInv c s -> all_done c s = true ->
  Permutation (calls (sh s)) (nodup Nat.eq_dec (concat (tasks c))).
Proof.
  intros s HI Hd. apply NoDup_Permutation.
  - apply (inv_nodup _ _ _ HI).
  - apply NoDup_nodup.
  - intros k. rewrite nodup_In. split; [apply (inv_creq c _ _ HI)|now apply (requested_called c)].
Qed.

Lemma inv_counters_quiescent : forall s, SInv c s -> all_done c s = true ->
  requested s = distinct_keys c /\ processed s = distinct_keys c.
Proof.
  intros s HI Hd. unfold processed, requested, distinct_keys.
  pose proof (Permutation_length (inv_calls_perm s HI Hd)) as Hlen.
  rewrite (inv_proc _ _ _ HI), (inv_req _ _ _ HI). split; [assumption|].
  rewrite filter_all; [assumption|].
  intros k Hk. apply (inv_calls _ _ _ HI) in Hk.
  rewrite (quiescent_unlocked c _ HI Hd k) in Hk.
  destruct Hk as [X|X]; [now elim X|]. destruct (value (sh s) k); [reflexivity|now elim X].
Qed.

Lemma inv_exactly_once : forall s k, SInv c s -> all_done c s = true ->
  In k (concat (tasks c)) -> supplier_calls s k = 1.
Proof.
  intros s k HI Hd Hk. unfold supplier_calls.
  apply NoDup_count_occ'; [apply (inv_nodup _ _ _ HI)|now apply (requested_called c)].
Qed.

Lemma inv_value_quiescent : forall s k, SInv c s -> all_done c s = true ->
  value (sh s) k = if in_dec Nat.eq_dec k (concat (tasks c)) then Some (outc c k) else None.
Proof.
  intros s k HI Hd. destruct (in_dec Nat.eq_dec k (concat (tasks c))) as [Hin|Hn].
  - pose proof (requested_called c s HI Hd k Hin) as Hc.
    apply (inv_calls _ _ _ HI) in Hc. rewrite (quiescent_unlocked c _ HI Hd k) in Hc.
    destruct Hc as [X|X]; [now elim X|].
    destruct (value (sh s) k) as [o|] eqn:E; [|now elim X].
    now rewrite (inv_val _ _ _ HI k o E).
  - destruct (value (sh s) k) as [o|] eqn:E; [|reflexivity].
    exfalso. apply Hn. apply (inv_creq c _ _ HI). apply (inv_calls _ _ _ HI). right. rewrite E. discriminate.
Qed.

(* ---------- schedule independence of everything a requester can observe at the end ---------- *)
Lemma quiescent_independent : forall s1 s2,
  SInv c s1 -> SInv c s2 -> all_done c s1 = true -> all_done c s2 = true ->
  (forall t, results (sh s1) t = results (sh s2) t) /\
  Permutation (calls (sh s1)) (calls (sh s2)) /\
  (forall k, value (sh s1) k = value (sh s2) k) /\
  requested s1 = requested s2 /\ processed s1 = processed s2.
Proof.
  intros s1 s2 H1 H2 D1 D2. repeat split.
  - intros t. now rewrite (inv_results_explicit s1 t H1 D1), (inv_results_explicit s2 t H2 D2).
  - eapply Permutation_trans; [apply (inv_calls_perm s1 H1 D1)|].
    apply Permutation_sym, (inv_calls_perm s2 H2 D2).
  - intros k. now rewrite (inv_value_quiescent s1 k H1 D1), (inv_value_quiescent s2 k H2 D2).
  - destruct (inv_counters_quiescent s1 H1 D1), (inv_counters_quiescent s2 H2 D2). congruence.
  - destruct (inv_counters_quiescent s1 H1 D1), (inv_counters_quiescent s2 H2 D2). congruence.
Qed.

(* ---------- a poll is a sequence of micro steps of the same task ---------- *)
Fixpoint iter (n : nat) (t : task) (s : state) : state :=
  match n with O => s | S m => iter m t (mstep c t s) end.

Lemma iter_mrun : forall n t s, iter n t s = mrun_from c s (repeat t n).
Proof. induction n as [|n IH]; intros t s; [reflexivity|]. cbn [iter repeat mrun_from fold_left]. apply IH. Qed.

Lemma state_eq_refl : forall s, state_eq s s.
Proof. intros s. split; [intro; reflexivity|reflexivity]. Qed.

Lemma state_eq_trans : forall a b d, state_eq a b -> state_eq b d -> state_eq a d.
Proof. intros a b d [H1 H2] [H3 H4]. split; [intro t; now rewrite H1|congruence]. Qed.

Lemma upd_ext : forall A (f g : nat -> A) i v, (forall x, f x = g x) -> forall x, upd f i v x = upd g i v x.
Proof. intros A f g i v H x. unfold upd. destruct (Nat.eqb x i); [reflexivity|apply H]. Qed.

Lemma mstep_eq : forall t a b, state_eq a b -> state_eq (mstep c t a) (mstep c t b).
Proof.
  intros t a b [Hp Hs]. unfold mstep. rewrite <- (Hp t), <- Hs.
  destruct (pcs a t) as [[|k rest] ph]; [now split|].
  assert (X : forall v sh', state_eq {| pcs := upd (pcs a) t v; sh := sh' |} {| pcs := upd (pcs b) t v; sh := sh' |}).
  { intros v sh'. split; cbn [pcs sh]; [now apply upd_ext|reflexivity]. }
  destruct ph as [| |[|m]]; try apply X;
    (destruct (lock (sh a) k); [apply X|]; destruct (value (sh a) k); apply X).
Qed.

Lemma iter_eq : forall n t a b, state_eq a b -> state_eq (iter n t a) (iter n t b).
Proof. induction n as [|n IH]; intros t a b H; [assumption|]. cbn [iter]. apply IH. now apply mstep_eq. Qed.

Lemma iter_add : forall n m t s, iter (n + m) t s = iter m t (iter n t s).
Proof. induction n as [|n IH]; intros m t s; [reflexivity|]. cbn [Nat.add iter]. apply IH. Qed.

Lemma advance_msteps : forall t rem ph p s rem' ph' s',
  p t = (rem, ph) -> advance c t rem ph s = (rem', ph', s') ->
  exists n, state_eq (iter n t {| pcs := p; sh := s |}) {| pcs := upd p t (rem', ph'); sh := s' |}.
Proof.
  intros t rem. induction rem as [|k rest IH]; intros ph p s rem' ph' s' Hp Ha.
  - cbn [advance] in Ha. inversion Ha; subst. exists 0. cbn [iter]. split; cbn [pcs sh]; [|reflexivity].
    intro x. rewrite <- Hp. symmetry. apply upd_id.
  - (* continuation: after one or two micro steps the task stands at (rest, Start) *)
    assert (Hcont : forall n0 s0, 
      state_eq (iter n0 t {| pcs := p; sh := s |}) {| pcs := upd p t (rest, Start); sh := s0 |} ->
      advance c t rest Start s0 = (rem', ph', s') ->
      exists n, state_eq (iter n t {| pcs := p; sh := s |}) {| pcs := upd p t (rem', ph'); sh := s' |}).
    { intros n0 s0 He Hadv.
      destruct (IH Start (upd p t (rest, Start)) s0 rem' ph' s' (upd_same _ _ _ _) Hadv) as (n1 & Hn1).
      exists (n0 + n1). rewrite iter_add.
      eapply state_eq_trans; [apply iter_eq, He|].
      eapply state_eq_trans; [apply Hn1|].
      split; cbn [pcs sh]; [intro x; apply upd_upd|reflexivity]. }
    cbn [advance] in Ha.
    assert (Hnosup : not_sup ph ->
      match lock s k with
      | Some _ => (k :: rest, Wait, s)
      | None =>
          match value s k with
          | Some o => advance c t rest Start (hit t k o s)
          | None =>
              match susp c k with
              | 0 => advance c t rest Start (complete c t k (begin_call t k s))
              | S m => (k :: rest, Sup m, begin_call t k s)
              end
          end
      end = (rem', ph', s') ->
      exists n, state_eq (iter n t {| pcs := p; sh := s |}) {| pcs := upd p t (rem', ph'); sh := s' |}).
    { intros Hn Hb.
      assert (M1 : mstep c t {| pcs := p; sh := s |} =
                   match lock s k with
                   | Some _ => {| pcs := upd p t (k :: rest, Wait); sh := s |}
                   | None => match value s k with
                             | Some o => {| pcs := upd p t (rest, Start); sh := hit t k o s |}
                             | None => {| pcs := upd p t (k :: rest, Sup (susp c k)); sh := begin_call t k s |}
                             end
                   end).
      { unfold mstep. cbn [pcs sh]. rewrite Hp. destruct ph as [| |m]; [reflexivity|reflexivity|now elim Hn]. }
      destruct (lock s k) as [h|] eqn:Hl.
      - inversion Hb; subst. exists 1. cbn [iter]. rewrite M1. apply state_eq_refl.
      - destruct (value s k) as [o|] eqn:Hv.
        + apply (Hcont 1 (hit t k o s)); [|assumption]. cbn [iter]. rewrite M1. apply state_eq_refl.
        + destruct (susp c k) as [|m] eqn:Hs.
          * apply (Hcont 2 (complete c t k (begin_call t k s))); [|assumption].
            cbn [iter]. rewrite M1. unfold mstep. cbn [pcs sh]. rewrite upd_same.
            split; cbn [pcs sh]; [intro x; apply upd_upd|reflexivity].
          * inversion Hb; subst. exists 2. cbn [iter]. rewrite M1. unfold mstep. cbn [pcs sh]. rewrite upd_same.
            split; cbn [pcs sh]; [intro x; apply upd_upd|reflexivity]. }
    destruct ph as [| |[|m]].
    + now apply Hnosup.
    + now apply Hnosup.
    + apply (Hcont 1 (complete c t k s)); [|assumption].
      cbn [iter]. unfold mstep. cbn [pcs sh]. rewrite Hp. apply state_eq_refl.
    + inversion Ha; subst. exists 1. cbn [iter]. unfold mstep. cbn [pcs sh]. rewrite Hp. apply state_eq_refl.
Qed.

Lemma poll_msteps : forall t s, exists n, state_eq (mrun_from c s (repeat t n)) (poll c t s).
Proof.
  intros t s. unfold poll.
  destruct (pcs s t) as [rem ph] eqn:Hp.
  destruct (advance c t rem ph (sh s)) as [[rem' ph'] s'] eqn:Ha.
  destruct (advance_msteps t rem ph (pcs s) (sh s) rem' ph' s' Hp Ha) as (n & Hn).
  exists n. rewrite <- iter_mrun. destruct s as [p0 s0]. exact Hn.
Qed.

Lemma mrun_from_eq : forall ms a b, state_eq a b -> state_eq (mrun_from c a ms) (mrun_from c b ms).
Proof.
  induction ms as [|t ms IH]; intros a b H; [assumption|].
  cbn [mrun_from fold_left]. apply IH. now apply mstep_eq.
Qed.

Lemma mrun_from_app : forall m1 m2 s, mrun_from c s (m1 ++ m2) = mrun_from c (mrun_from c s m1) m2.
Proof. intros. unfold mrun_from. apply fold_left_app. Qed.

(* every poll schedule is (up to the writing of the per-task function) a micro schedule *)
Lemma run_from_refines : forall sched s, exists ms, state_eq (mrun_from c s ms) (run_from c s sched).
Proof.
  induction sched as [|t sched IH]; intros s.
  - exists []. apply state_eq_refl.
  - cbn [run_from fold_left].
    destruct (poll_msteps t s) as (n & Hn).
    destruct (IH (poll c t s)) as (ms & Hms).
    exists (repeat t n ++ ms). rewrite mrun_from_app.
    eapply state_eq_trans; [apply mrun_from_eq, Hn|exact Hms].
Qed.

Lemma run_refines : forall sched, exists ms, state_eq (mrun c ms) (run c sched).
Proof. intros. apply run_from_refines. Qed.

(* ---------- the property's safety half over micro schedules ---------- *)
Lemma fine_safety : forall ms,
  (forall k, supplier_calls (mrun c ms) k <= 1) /\
  (forall t i k o, task_result (mrun c ms) t i = Some (k, o) ->
     o = outc c k /\ nth_error (nth t (tasks c) []) i = Some k) /\
  processed (mrun c ms) <= requested (mrun c ms) /\ requested (mrun c ms) <= distinct_keys c.
Proof.
  intros ms. pose proof (mrun_inv ms) as HI. split; [|split].
  - intro k. now apply inv_at_most_once.
  - intros t i k o. now apply inv_same_outcome.
  - now apply inv_counters_bounded.
Qed.

Lemma fine_quiescent : forall ms, all_done c (mrun c ms) = true ->
  (forall t, results (sh (mrun c ms)) t = map (fun k => (k, outc c k)) (nth t (tasks c) [])) /\
  (forall k, In k (concat (tasks c)) -> supplier_calls (mrun c ms) k = 1) /\
  requested (mrun c ms) = distinct_keys c /\ processed (mrun c ms) = distinct_keys c.
Proof.
  intros ms Hd. pose proof (mrun_inv ms) as HI. split; [|split].
  - intro t. now apply inv_results_explicit.
  - intros k Hk. now apply inv_exactly_once.
  - now apply inv_counters_quiescent.
Qed.

Lemma fine_independent : forall m1 m2,
  all_done c (mrun c m1) = true -> all_done c (mrun c m2) = true ->
  (forall t, results (sh (mrun c m1)) t = results (sh (mrun c m2)) t) /\
  Permutation (calls (sh (mrun c m1))) (calls (sh (mrun c m2))) /\
  (forall k, value (sh (mrun c m1)) k = value (sh (mrun c m2)) k) /\
  requested (mrun c m1) = requested (mrun c m2) /\ processed (mrun c m1) = processed (mrun c m2).
Proof. intros m1 m2 D1 D2. apply quiescent_independent; auto using mrun_inv. Qed.

Lemma poll_independent : forall s1 s2,
  all_done c (run c s1) = true -> all_done c (run c s2) = true ->
  (forall t, results (sh (run c s1)) t = results (sh (run c s2)) t) /\
  Permutation (calls (sh (run c s1))) (calls (sh (run c s2))) /\
  (forall k, value (sh (run c s1)) k = value (sh (run c s2)) k) /\
  requested (run c s1) = requested (run c s2) /\ processed (run c s1) = processed (run c s2).
Proof. intros s1 s2 D1 D2. apply quiescent_independent; auto using (run_inv c). Qed.

(* ---------- liveness over micro schedules: the measure never increases, an enabled task lowers it, and an
   enabled task exists while anybody is unfinished (Progress.en_exists holds in every invariant state) ---------- *)
Lemma mcost_nosup : forall rem ph, not_sup ph -> mcost c (rem, ph) = cost c rem + length rem.
Proof. intros [|k r] [| |m] H; try reflexivity; now elim H. Qed.

Lemma mstep_measure : forall t s, t < ntasks c ->
  mpotential c (mstep c t s) <= mpotential c s /\ (en c s t -> mpotential c (mstep c t s) < mpotential c s).
Proof.
  intros t s Hlt. unfold mpotential.
  assert (G : forall (v : list key * phase) (shx : shared),
    ((mcost c v <= mcost c (pcs s t))%nat ->
      (sum_upto (ntasks c) (fun x => mcost c (pcs {| pcs := upd (pcs s) t v; sh := shx |} x)) <=
       sum_upto (ntasks c) (fun x => mcost c (pcs s x)))%nat) /\
    ((mcost c v < mcost c (pcs s t))%nat ->
      (sum_upto (ntasks c) (fun x => mcost c (pcs {| pcs := upd (pcs s) t v; sh := shx |} x)) <
       sum_upto (ntasks c) (fun x => mcost c (pcs s x)))%nat)).
  { intros v shx. cbn [pcs].
    pose proof (sum_upto_upd_lt _ (mcost c) (pcs s) t v (ntasks c) Hlt) as Hsum. split; intro; lia. }
  unfold mstep. destruct (pcs s t) as [[|k rest] ph] eqn:Hp; rewrite ?Hp in G.
  - split; [lia|]. intros (_ & k & r & ph' & E & _). rewrite Hp in E. discriminate.
  - assert (Hnosup : not_sup ph -> mcost c (k :: rest, ph) = S (susp c k) + cost c rest + S (length rest)).
    { intros Hn. destruct ph; cbn [mcost cost length]; try lia. now elim Hn. }
    assert (Hen : en c s t -> (exists m, ph = Sup m) \/ lock (sh s) k = None).
    { intros (_ & k' & r' & ph' & E & H). rewrite Hp in E. inversion E; subst. exact H. }
    destruct ph as [| |[|m]].
    + destruct (lock (sh s) k) eqn:Hl.
      * split; [apply G; rewrite ?(mcost_nosup rest Start I); cbn [mcost cost length]; lia|]. intros He. destruct (Hen He) as [(m & X)|X]; discriminate.
      * destruct (value (sh s) k); split; try (intros _); apply G; rewrite ?(mcost_nosup rest Start I); cbn [mcost cost length]; lia.
    + destruct (lock (sh s) k) eqn:Hl.
      * split; [apply G; rewrite ?(mcost_nosup rest Start I); cbn [mcost cost length]; lia|]. intros He. destruct (Hen He) as [(m & X)|X]; discriminate.
      * destruct (value (sh s) k); split; try (intros _); apply G; rewrite ?(mcost_nosup rest Start I); cbn [mcost cost length]; lia.
    + split; try (intros _); apply G; rewrite ?(mcost_nosup rest Start I); cbn [mcost cost length]; lia.
    + split; try (intros _); apply G; rewrite ?(mcost_nosup rest Start I); cbn [mcost cost length]; lia.
Qed.

Lemma mstep_beyond : forall t s, SInv c s -> ntasks c <= t -> mstep c t s = s.
Proof.
  intros t s HI Ht. unfold mstep. pose proof (rem_nil_beyond c s t HI Ht) as E.
  destruct (pcs s t) as [[|k r] ph]; [reflexivity|discriminate].
Qed.

Lemma mstep_le : forall t s, SInv c s -> mpotential c (mstep c t s) <= mpotential c s.
Proof.
  intros t s HI. destruct (Nat.lt_ge_cases t (ntasks c)) as [H|H].
  - now apply mstep_measure.
  - rewrite mstep_beyond by assumption. lia.
Qed.

Lemma mpotential_init : mpotential c (init c) = work c + length (concat (tasks c)).
Proof.
  unfold mpotential, work, init, ntasks. cbn [pcs].
  assert (H : forall (l : list (list key)) n, n <= length l ->
    sum_upto n (fun t => mcost c (nth t l [], Start)) =
    sum_upto n (fun t => cost c (nth t l [])) + length (concat (firstn n l))).
  { intros l n. induction n as [|n IH]; intros Hn; [reflexivity|].
    cbn [sum_upto]. rewrite IH by lia.
    assert (E : firstn (S n) l = firstn n l ++ [nth n l []]).
    { clear IH. revert l Hn. induction n as [|n IHn]; intros [|a l] Hl; cbn [length] in Hl; try lia; [reflexivity|].
      cbn [firstn nth app]. f_equal. apply IHn. lia. }
    rewrite E, concat_app, app_length. cbn [concat]. rewrite app_nil_r.
    assert (M : mcost c (nth n l [], Start) = cost c (nth n l []) + length (nth n l [])).
    { destruct (nth n l []); reflexivity. }
    rewrite M. lia. }
  rewrite (H (tasks c) (length (tasks c)) (le_n _)). now rewrite firstn_all.
Qed.

Lemma mrun_from_le : forall ms s, SInv c s -> mpotential c (mrun_from c s ms) <= mpotential c s.
Proof.
  induction ms as [|t ms IH]; intros s HI; [cbn; lia|].
  cbn [mrun_from fold_left]. fold (mrun_from c (mstep c t s) ms).
  pose proof (IH (mstep c t s) (mstep_inv t s HI)). pose proof (mstep_le t s HI). lia.
Qed.

Lemma fine_progress : forall ms,
  (mpotential c (mrun c ms) <= work c + length (concat (tasks c))) /\
  (forall t, mpotential c (mstep c t (mrun c ms)) <= mpotential c (mrun c ms)) /\
  (all_done c (mrun c ms) = false ->
     exists t, t < ntasks c /\ mpotential c (mstep c t (mrun c ms)) < mpotential c (mrun c ms)).
Proof.
  intros ms. pose proof (mrun_inv ms) as HI. split; [|split].
  - rewrite <- mpotential_init. apply mrun_from_le, init_inv.
  - intro t. now apply mstep_le.
  - intros Hd. destruct (en_exists c _ HI Hd) as (t & Hen). exists t.
    split; [apply Hen|]. apply mstep_measure; [apply Hen|exact Hen].
Qed.

End Fine.
