(* C12/ProcProofs.v — the processor walks every thread through one symbolizer: each module once, one answer for every
   frame, counters = distinct modules, and the stats map it copies into the ProcessState afterwards is the quiescent one. *)
From RM Require Import C12.Model C12.Proofs C12.StatsProofs C12.ProgModel C12.ProgProofs C12.ProgSource C12.ProgExec
                       C12.JoinModel C12.ProcModel Gen.C12Program Gen.C12Processor.
From Coq Require Import Lia.

Lemma src_walker_is_canon : src_walker = canon_walker.
Proof. reflexivity. Qed.

Lemma canon_tasks : forall d, process_tasks canon_walker d = map canon_thread d.
Proof.
  intro d. unfold process_tasks. cbn [canon_walker w_process flat_map app]. rewrite app_nil_r.
  apply map_ext. intro th. unfold future_lookups. cbn [flat_map]. rewrite app_nil_r.
  unfold thread_lookups. cbn [canon_walker w_walk_stack flat_map]. rewrite app_nil_r.
  unfold canon_thread. apply flat_map_ext. intro f.
  unfold frame_lookups. cbn [flat_map]. rewrite app_nil_r.
  unfold fill_source_lookups. cbn [canon_walker w_fill_source flat_map]. rewrite app_nil_r.
  destruct (f_module f); [cbn [flat_map app]|]; reflexivity.
Qed.

Lemma canon_sym_only : forall d base, walk_ok d -> sym_only (proc_pc canon_walker d base).
Proof.
  intros d base H. unfold sym_only, proc_pc. cbn [ptasks]. rewrite canon_tasks.
  apply Forall_forall. intros l Hl. apply in_map_iff in Hl. destruct Hl as (th & <- & Hth).
  unfold walk_ok in H. rewrite Forall_forall in H. specialize (H th Hth). rewrite Forall_forall in H.
  apply Forall_forall. intros [e k] Hin. unfold canon_thread in Hin. apply in_flat_map in Hin.
  destruct Hin as (f & Hf & Hin). apply in_app_or in Hin. destruct Hin as [Hin|Hin].
  - destruct (f_module f); [|contradiction]. destruct Hin as [E|[]]. inversion E; subst. reflexivity.
  - specialize (H f Hf). rewrite Forall_forall in H. specialize (H _ Hin). cbn in H. cbn. destruct e; try reflexivity; contradiction.
Qed.

(* the module of every frame is looked up (fill_symbol) *)
Lemma canon_frame_module_requested : forall d base th f k, In th d -> In f th -> f_module f = Some k ->
  In k (concat (tasks (cfg (proc_pc canon_walker d base)))).
Proof.
  intros d base th f k Hth Hf Hm. unfold cfg, proc_pc. cbn [tasks ptasks]. rewrite canon_tasks.
  apply in_concat. exists (map snd (canon_thread th)). split.
  - apply in_map. apply in_map. exact Hth.
  - apply in_map_iff. exists (EFill, k). split; [reflexivity|]. unfold canon_thread. apply in_flat_map.
    exists f. split; [exact Hf|]. rewrite Hm. left. reflexivity.
Qed.

Section Processor.
Variable d : dump.
Variable base : config.
Variable fuel : nat.
Hypothesis Hok : walk_ok d.
Local Notation pc := (proc_pc src_walker d base).
Hypothesis Hfuel : work (cfg pc) <= fuel.

Lemma processor_once_per_module :
  exists (s : pstate) (r : nat) (after : snapshot),
    process src_program src_walker d base fuel = Some (s, [(fun _ => None); after]) /\
    after = stats (psh s) /\ s = prun src_program pc (round_robin (cfg pc) r) /\ r <= work (cfg pc) /\
    pall_done pc s = true /\
    (forall th f k, In th d -> In f th -> f_module f = Some k -> psupplier_calls s k = 1) /\
    (forall k, In k (concat (tasks (cfg pc))) -> psupplier_calls s k = 1) /\
    (forall k, psupplier_calls s k <= 1) /\
    (forall t, map fst (results (psh s) t) = map snd (nth t (ptasks pc) [])) /\
    (forall t i k o, ptask_result s t i = Some (k, o) -> o = outc base k) /\
    req (psh s) = distinct_keys (cfg pc) /\ proc (psh s) = distinct_keys (cfg pc) /\
    (forall lf o, after lf = Some o -> exists k, In k (concat (tasks (cfg pc))) /\ leaf base k = lf /\ o = outc base k) /\
    (forall k, In k (concat (tasks (cfg pc))) -> after (leaf base k) <> None).
Proof.
  destruct (src_join_all pc fuel Hfuel) as (w & r & He & Hr & Hd).
  assert (Hsym : sym_only pc) by (rewrite src_walker_is_canon; apply canon_sym_only; exact Hok).
  exists (prun src_program pc (round_robin (cfg pc) r)), r, (stats (psh (prun src_program pc (round_robin (cfg pc) r)))).
  pose proof (src_refines true pc (round_robin (cfg pc) r) (fun _ => Hsym)) as Sim.
  destruct Sim as (_ & _ & _ & (_ & _ & _ & _ & Hfull)). destruct (Hfull eq_refl) as (_ & _ & Hst).
  assert (Hdm : all_done (cfg pc) (run (cfg pc) (round_robin (cfg pc) r)) = true).
  { rewrite <- (pall_done_abs true pc _ _ (src_refines true pc (round_robin (cfg pc) r) (fun _ => Hsym))). exact Hd. }
  split; [|repeat split].
  - unfold process. rewrite src_walker_is_canon at 1. cbn [canon_walker w_process fold_left].
    rewrite He. cbn [app pinit psh stats]. reflexivity.
  - exact Hr.
  - exact Hd.
  - intros th f k Hth Hf Hm. apply src_exactly_once; [exact Hd|].
    rewrite src_walker_is_canon. apply (canon_frame_module_requested d base th f k Hth Hf Hm).
  - intros k Hk. apply src_exactly_once; assumption.
  - intro k. apply src_at_most_once.
  - intro t. apply src_results_complete. exact Hd.
  - intros t i k o H. apply (src_same_outcome pc _ t i k o H).
  - apply (src_counters pc _ Hsym Hd).
  - apply (src_counters pc _ Hsym Hd).
  - intros lf o H. rewrite Hst in H.
    destruct (stats_sound (cfg pc) _ lf o H) as (k & K1 & K2 & K3 & _). exists k. repeat split; assumption.
  - intros k Hk. rewrite Hst. apply (stats_complete_quiescent (cfg pc) _ k Hdm Hk).
Qed.
End Processor.

Lemma src_cfi_ok : src_cfi = canon_cfi /\ src_cfi_x86 = cfi_of x86_name src_cfi /\ src_cfi_module = CfiModuleOfCalleeInstruction /\
  forall a ops k, In (a, ops) src_cfi -> cfi_lookups ops src_cfi_module (Some k) = [(EWalk, k)] /\
                                         cfi_lookups ops src_cfi_module None = [].
Proof.
  split; [reflexivity|]. split; [reflexivity|]. split; [reflexivity|]. intros a ops k H.
  cbn in H. repeat (destruct H as [H|H]; [inversion H; subst; split; reflexivity|]). contradiction.
Qed.

Lemma src_provider_users_ok : src_provider_users = canon_provider_users.
Proof. reflexivity. Qed.

(* non-vacuity: three threads over three modules (module 1's symbol file is corrupt; modules 0 and 1 share a leaf name: the
   last finisher's classification is what the ProcessState gets), a frame without a module, a scan that asks for a third
   module; suppliers that suspend *)
Definition ex_dump : dump :=
  [ [ {| f_module := Some 0; f_caller := [(EWalk, 0)] |}; {| f_module := Some 1; f_caller := [(EWalk, 1)] |};
      {| f_module := None; f_caller := [] |} ];
    [ {| f_module := Some 1; f_caller := [(EWalk, 1); (EFill, 2); (EFill, 0)] |}; {| f_module := Some 0; f_caller := [] |} ];
    [ {| f_module := Some 0; f_caller := [(EWalk, 0)] |} ] ].
Definition ex_base : config :=
  {| tasks := []; susp := fun k => S k; outc := fun k => if Nat.eqb k 1 then OParse else OOk; leaf := fun k => k / 2 |}.
Lemma ex_dump_ok : walk_ok ex_dump.
Proof. repeat constructor. Qed.
Lemma ex_process :
  work (cfg (proc_pc src_walker ex_dump ex_base)) = 28 /\
  match process src_program src_walker ex_dump ex_base 28 with
  | Some (s, [before; after]) =>
      before 0 = None /\ after 0 = Some OParse /\ after 1 = Some OOk /\ after 2 = None /\
      calls (psh s) = [0; 1; 2] /\ req (psh s) = 3 /\ proc (psh s) = 3 /\
      results (psh s) 1 = [(1, OParse); (1, OParse); (2, OOk); (0, OOk); (0, OOk)]
  | _ => False
  end.
Proof. vm_compute. repeat split. Qed.

(* ---- the thread walks on a MULTI-THREADED executor: any instruction-level interleaving of the per-thread futures
   (minidump-stackwalk runs process_minidump on tokio's multi-threaded runtime; two processings of dumps on one symbolizer
   are polled by different workers).  Composition of the instruction-level theorems (C12/ProgFine.v, ProgCount.v, ProgFair.v,
   ProgStats.v) with the walker's task derivation. ---- *)
From RM Require Import C12.ProgFine C12.ProgCount C12.ProgMeasure C12.ProgFair C12.ProgStats.

Lemma processor_instr : forall (d : dump) (base : config) (ms : list task), walk_ok d ->
  (forall k, psupplier_calls (pmrun src_program (proc_pc src_walker d base) ms) k <= 1) /\
  (forall t i k o, ptask_result (pmrun src_program (proc_pc src_walker d base) ms) t i = Some (k, o) -> o = outc base k) /\
  proc (psh (pmrun src_program (proc_pc src_walker d base) ms)) <= req (psh (pmrun src_program (proc_pc src_walker d base) ms)) /\
  req (psh (pmrun src_program (proc_pc src_walker d base) ms)) <= distinct_keys (cfg (proc_pc src_walker d base)) /\
  (forall lf o, stats (psh (pmrun src_program (proc_pc src_walker d base) ms)) lf = Some o ->
     exists k, leaf base k = lf /\ o = outc base k /\ psupplier_calls (pmrun src_program (proc_pc src_walker d base) ms) k = 1) /\
  (pall_done (proc_pc src_walker d base) (pmrun src_program (proc_pc src_walker d base) ms) = true ->
     (forall th f k, In th d -> In f th -> f_module f = Some k ->
        psupplier_calls (pmrun src_program (proc_pc src_walker d base) ms) k = 1) /\
     (forall t, map fst (results (psh (pmrun src_program (proc_pc src_walker d base) ms)) t) =
                map snd (nth t (ptasks (proc_pc src_walker d base)) [])) /\
     req (psh (pmrun src_program (proc_pc src_walker d base) ms)) = distinct_keys (cfg (proc_pc src_walker d base)) /\
     proc (psh (pmrun src_program (proc_pc src_walker d base) ms)) = distinct_keys (cfg (proc_pc src_walker d base))) /\
  (forall T, fair (length (ptasks (proc_pc src_walker d base))) T ms ->
     T * imu (cfg (proc_pc src_walker d base)) (length (ptasks (proc_pc src_walker d base))) (pinit (proc_pc src_walker d base)) <= length ms ->
     pall_done (proc_pc src_walker d base) (pmrun src_program (proc_pc src_walker d base) ms) = true).
Proof.
  intros d base ms Hok.
  assert (Hsym : sym_only (proc_pc src_walker d base)) by (rewrite src_walker_is_canon; apply canon_sym_only; exact Hok).
  split; [intro k; apply src_pm_at_most_once|].
  split; [intros t i k o H; apply (src_pm_same_outcome (proc_pc src_walker d base) ms t i k o H)|].
  split; [apply (src_pm_processed_le_requested _ ms Hsym)|].
  split; [apply (src_pm_requested_le_distinct _ ms Hsym)|].
  split; [intros lf o H; apply (src_pm_stats_sound (proc_pc src_walker d base) ms lf o H)|].
  split.
  - intro Hd. split; [|split].
    + intros th f k Hth Hf Hm. apply src_pm_exactly_once; [exact Hd|].
      rewrite src_walker_is_canon. apply (canon_frame_module_requested d base th f k Hth Hf Hm).
    + intro t. apply src_pm_results_complete. exact Hd.
    + apply (src_pm_counters_quiescent _ ms Hsym Hd).
  - intros T Hf Hl. apply (src_pm_fair_finishes _ T ms Hf Hl).
Qed.
