(* C12/FileProgProofs.v — the regenerated body of locate_file_internal's closure means FileModel.file_script. *)
From RM Require Import C12.Model C12.FileModel C12.FileProg.
From Coq Require Import Lia.

Lemma servers_loop : forall (fk : fkey) (run : (fkey -> nat * bool) -> fst8 -> fres),
  (forall u n0, run u (n0, false) =
                if snd (u fk) then inl (n0 + fst (u fk), OOk) else inr (n0 + fst (u fk), false)) ->
  forall us n0,
  for_servers run us (n0, false) =
  (if snd (fetch_all us fk) then inl (n0 + fst (fetch_all us fk), OOk) else inr (n0 + fst (fetch_all us fk), false)).
Proof.
  intros fk run Hrun us. induction us as [|u r IH]; intro n0.
  - cbn. rewrite Nat.add_0_r. reflexivity.
  - cbn [for_servers fetch_all]. rewrite Hrun. destruct (u fk) as [n ok]. cbn [fst snd].
    destruct ok; [reflexivity|].
    fold (for_servers run). rewrite IH. destruct (fetch_all r fk) as [n' ok']. cbn [fst snd].
    rewrite Nat.add_assoc. reflexivity.
Qed.

Lemma canon_file_meaning : forall fc fk, file_meaning canon_file_body fc fk = Some (file_script fc fk).
Proof.
  intros fc fk. unfold file_meaning, canon_file_body, fexec_list, file_script.
  cbn [seqf fexec fst snd]. destruct (local_hit fc fk); [reflexivity|].
  destruct (has_lookup fc fk); [|reflexivity].
  rewrite (servers_loop fk).
  - destruct (fetch_all (servers fc) fk) as [n ok]. cbn [fst snd]. destruct ok; reflexivity.
  - intros u n0. cbn [fst snd]. destruct (u fk) as [n ok]. cbn [fst snd]. destruct ok; reflexivity.
Qed.

(* the regenerated statements (Gen/C12Program.src_file_body, translate/c12_program.py) *)
From RM Require Import C12.ProgModel C12.ProgProofs C12.ProgSource Gen.C12Program.
Lemma src_file_body_is_canon : src_file_body = canon_file_body.
Proof. reflexivity. Qed.

Lemma src_file_meaning : forall fc fk, file_meaning src_file_body fc fk = Some (file_script fc fk).
Proof. rewrite src_file_body_is_canon. exact canon_file_meaning. Qed.

(* what a locate_file requester observes is what the regenerated closure statements mean for its file key *)
Lemma src_files_outcome_is_closure_meaning : forall (fc : fconfig) (sched : list task) (t : task) (i : nat) (k : key) (o : outcome),
  ptask_result (prun src_program (pc_of_fc fc) sched) t i = Some (k, o) ->
  exists n, file_meaning src_file_body fc (dec k) = Some (n, o).
Proof.
  intros fc sched t i k o H. destruct (src_files_same_outcome fc sched t i k o H) as [E _].
  exists (fst (file_script fc (dec k))). rewrite src_file_meaning. rewrite E.
  destruct (file_script fc (dec k)); reflexivity.
Qed.

(* the body means something: dropping the early return of the fetch loop changes the answer *)
Definition noreturn_body : list fins :=
  [FLocalLookupReturn; FIfLookup [FForServers [FFetchAwait]; FCabCompiledOut]; FNotFound].
Definition one_server : fconfig :=
  {| ftasks := [[(0, KSym)]]; local_hit := fun _ => false; has_lookup := fun _ => true; servers := [fun _ => (2, true)] |}.
Lemma noreturn_differs :
  file_meaning noreturn_body one_server (0, KSym) = Some (2, ONotFound) /\
  file_meaning src_file_body one_server (0, KSym) = Some (2, OOk).
Proof. split; reflexivity. Qed.
