(* C12/ProgMeasure.v — progress measure at INSTRUCTION granularity (round 5): [imu] = an upper bound on the instruction
   steps the tasks still need.  A step of a task that is waiting for a held lock changes neither the measure nor the
   shared state; every other step of an unfinished task lowers the measure by at least one; while some task is
   unfinished, some unfinished task is not waiting for a held lock (ProgFine.pm_no_deadlock).  Hence no stuck state
   and no livelock: at most [imu (pinit pc)] progressing steps exist in any run.  (The fairness-to-termination bound
   is proved at poll granularity: c12_source_fair_schedule_finishes / c12_source_wake_driven_finishes.) *)
From RM Require Import C12.Model C12.ProgModel C12.ProgProofs C12.ProgFine C12.ProgCount.
From Coq Require Import Lia.

Section Measure.
Variable c : config.

Definition wclosure (k : key) (f : bool) : nat := if f then 2 + susp c k else 9 + susp c k.
Definition wget (k : key) (f : bool) : nat := 5 + wclosure k f.

Fixpoint wi (k : key) (f : bool) (i : instr) : nat :=
  match i with
  | IIfNone body => 1 + (fix go (b : list instr) := match b with [] => 0 | x :: r => wi k f x + go r end) body
  | IStoreCallAwait => 2 + wclosure k f
  | ISupplierAwait | IFileClosure => 2 + susp c k
  | IGetSymbolsAwait => 2 + wget k false
  | ILocateFileInternalAwait => 2 + wget k true
  | ICall EFile => 1 + (3 + wget k true)
  | ICall _ => 1 + (3 + wget k false)
  | _ => 1
  end.
Definition wl (k : key) (f : bool) (p : list instr) : nat := fold_right (fun i n => wi k f i + n) 0 p.

Definition w0 (lk : lookup) : nat := wl (snd lk) false (canon_entry (fst lk)).
Definition wt (k : key) (kont : list instr) (l : local) : nat :=
  wl k (fcls l) kont + match kont with ISupPoll :: _ => ticks l | _ => 0 end.
Definition tmu (p : ptask) : nat :=
  match p with
  | ([], _, _) => 0
  | (lk :: rest, [], _) => w0 lk + fold_right (fun x n => w0 x + n) 0 rest
  | ((_, k) :: rest, kont, l) => wt k kont l + fold_right (fun x n => w0 x + n) 0 rest
  end.
Definition imu (n : nat) (s : pstate) : nat := sum_upto n (fun t => tmu (ppcs s t)).

Lemma tmu_step : forall ks s t, GI c ks s ->
  (blocked s t = true -> tmu (ppcs (pmstep canon c t s) t) = tmu (ppcs s t) /\ psh (pmstep canon c t s) = psh s) /\
  (blocked s t = false -> ptask_done s t = false -> tmu (ppcs (pmstep canon c t s) t) < tmu (ppcs s t)).
Proof.
  intros ks s t G. unfold pmstep, blocked, ptask_done.
  destruct (ppcs s t) as [[rem kont] l] eqn:E.
  destruct rem as [|[e k] rest]; [split; [discriminate|intros _ X; discriminate]|].
  pose proof (gi_local _ _ _ G t) as L0. rewrite E in L0. cbn in L0.
  destruct L0 as [->|(Hin & Hf & Hg & Hr & Hlk)].
  - split; [discriminate|]. intros _ _. destruct e; cbn; rewrite upd_same; cbn; unfold w0; cbn; lia.
  - destruct l as [g w f0 tk r ls lk]. cbn in Hf, Hg.
    destruct e; cbn in Hin;
      repeat (destruct Hin as [<-|Hin]; [|]); try contradiction; cbn in Hf, Hg, Hr, Hlk; subst.
    all: try (specialize (Hr eq_refl); subst r).
    all: try (specialize (Hlk eq_refl); destruct lk as [lf|]; [|contradiction]).
    all: cbn.
    all: try (rewrite (gi_post _ _ _ G t k ltac:(rewrite E; reflexivity) ltac:(rewrite E; reflexivity))).
    all: try (match goal with |- context [lock (psh ?s0) ?k0] => destruct (lock (psh s0) k0) eqn:Hlock end).
    all: try (match goal with |- context [value (psh ?s0) ?k0] => destruct (value (psh s0) k0) eqn:Hval end).
    all: try (match goal with |- context [match ?n with O => _ | S _ => _ end] => is_var n; destruct n end).
    all: cbn; rewrite ?upd_same; cbn.
    all: split; [try discriminate; intros _; split; reflexivity | try discriminate; intros _ _; unfold wclosure, wget; cbn;
                first [lia | destruct rest as [|[? ?] ?]; cbn; lia]].
Qed.
End Measure.

Lemma pmstep_other : forall P c t s u, u <> t -> ppcs (pmstep P c t s) u = ppcs s u.
Proof.
  intros P c t s u Hne. unfold pmstep.
  destruct (ppcs s t) as [[rem kont] l]. destruct rem as [|[e k] rest]; [reflexivity|].
  destruct (match kont with [] => (p_entry P e, l0) | _ :: _ => (kont, l) end) as [[|i more] li]; cbn [ppcs].
  - apply upd_other. exact Hne.
  - destruct (istep P c t k i more li (psh s)) as [[|x y] ? ?| ? ? ?|]; cbn [ppcs]; apply upd_other; exact Hne.
Qed.

Lemma sum_ext : forall n (f g : nat -> nat), (forall u, f u = g u) -> sum_upto n f = sum_upto n g.
Proof. induction n; intros f g H; cbn; [reflexivity|]. rewrite (IHn f g H), H. reflexivity. Qed.

Lemma imu_split : forall c n t s, t < n ->
  imu c n (pmstep canon c t s) + tmu c (ppcs s t) = imu c n s + tmu c (ppcs (pmstep canon c t s) t).
Proof.
  intros c n t s Ht. unfold imu.
  rewrite (sum_ext n (fun u => tmu c (ppcs (pmstep canon c t s) u))
                     (fun u => tmu c (upd (ppcs s) t (ppcs (pmstep canon c t s) t) u))).
  - apply (sum_upd n (ppcs s) t (ppcs (pmstep canon c t s) t) (tmu c) Ht).
  - intro u. unfold upd. destruct (Nat.eqb u t) eqn:E.
    + apply Nat.eqb_eq in E. subst. reflexivity.
    + apply Nat.eqb_neq in E. rewrite pmstep_other by exact E. reflexivity.
Qed.

Section MeasureTheorems.
Variable pc : pconfig.
Variable ms : list task.
Local Notation s := (pmrun canon pc ms).
Local Notation n := (length (ptasks pc)).
Local Notation c := (cfg pc).

(* a step of a task waiting for a held lock changes neither the measure nor the shared state *)
Lemma pm_blocked_step : forall t, blocked s t = true ->
  imu c n (pmstep canon c t s) = imu c n s /\ psh (pmstep canon c t s) = psh s.
Proof.
  intros t Hb. destruct (tmu_step c _ s t (pmrun_gi pc ms)) as [A _]. destruct (A Hb) as [A1 A2]. split; [|exact A2].
  destruct (Nat.lt_ge_cases t n) as [Ht|Ht].
  - pose proof (imu_split c n t s Ht). lia.
  - unfold blocked in Hb. pose proof (pmrun_range canon pc ms t Ht) as R.
    destruct (ppcs s t) as [[rem kont] l]. cbn in R. subst rem. discriminate.
Qed.

(* every other step of an unfinished task lowers the measure *)
Lemma pm_progress_step : forall t, blocked s t = false -> ptask_done s t = false ->
  imu c n (pmstep canon c t s) < imu c n s.
Proof.
  intros t Hb Hd. destruct (tmu_step c _ s t (pmrun_gi pc ms)) as [_ A]. specialize (A Hb Hd).
  destruct (Nat.lt_ge_cases t n) as [Ht|Ht].
  - pose proof (imu_split c n t s Ht). lia.
  - unfold ptask_done in Hd. rewrite (pmrun_range canon pc ms t Ht) in Hd. discriminate.
Qed.

(* no step of any task increases it *)
Lemma pm_measure_monotone : forall t, imu c n (pmstep canon c t s) <= imu c n s.
Proof.
  intro t. destruct (blocked s t) eqn:Hb; [destruct (pm_blocked_step t Hb); lia|].
  destruct (ptask_done s t) eqn:Hd; [|pose proof (pm_progress_step t Hb Hd); lia].
  unfold ptask_done in Hd. unfold pmstep. destruct (ppcs s t) as [[rem kont] l]. cbn in Hd.
  destruct rem; [lia|discriminate].
Qed.
End MeasureTheorems.

(* the measure of the initial state: per lookup the instructions of a miss (17 for fill_symbol / walk_frame, 18
   through get_symbol_at_address, 10 for locate_file) plus the supplier's suspensions *)
Lemma w0_value : forall c k,
  w0 c (EFill, k) = 17 + susp c k /\ w0 c (EWalk, k) = 17 + susp c k /\ w0 c (EAddr, k) = 18 + susp c k /\
  w0 c (EFile, k) = 10 + susp c k.
Proof. intros. unfold w0, wl, wget, wclosure. cbn. repeat split; lia. Qed.

From RM Require Import C12.ProgSource Gen.C12Program.
Lemma src_pm_progress : forall (pc : pconfig) (ms : list task) (t : task),
  imu (cfg pc) (length (ptasks pc)) (pmstep src_program (cfg pc) t (pmrun src_program pc ms))
    <= imu (cfg pc) (length (ptasks pc)) (pmrun src_program pc ms) /\
  (blocked (pmrun src_program pc ms) t = true ->
     psh (pmstep src_program (cfg pc) t (pmrun src_program pc ms)) = psh (pmrun src_program pc ms)) /\
  (blocked (pmrun src_program pc ms) t = false -> ptask_done (pmrun src_program pc ms) t = false ->
     imu (cfg pc) (length (ptasks pc)) (pmstep src_program (cfg pc) t (pmrun src_program pc ms))
       < imu (cfg pc) (length (ptasks pc)) (pmrun src_program pc ms)).
Proof.
  rewrite src_is_canon. intros pc ms t. split; [apply pm_measure_monotone|]. split.
  - intro Hb. apply (pm_blocked_step pc ms t Hb).
  - apply pm_progress_step.
Qed.
