(* C12/ProgSteps.v — every poll of the interpreter is a sequence of instruction steps of the same task (round 5):
   the poll schedules of [prun] are a subset of the instruction schedules of [pmrun], so the instruction-level
   theorems of C12/ProgFine.v speak about every run the poll-level theorems speak about.  Generic in the program, for
   polls that do not get stuck (the canonical program never does: ProgProofs.p_never_stuck). *)
From RM Require Import C12.Model C12.ProgModel C12.ProgProofs.
From Coq Require Import Lia.

Definition pstate_eq (a b : pstate) : Prop := (forall t, ppcs a t = ppcs b t) /\ psh a = psh b.

Lemma pstate_eq_refl : forall s, pstate_eq s s.
Proof. intro s. split; [intro; reflexivity|reflexivity]. Qed.
Lemma pstate_eq_trans : forall a b d, pstate_eq a b -> pstate_eq b d -> pstate_eq a d.
Proof. intros a b d [A1 A2] [B1 B2]. split; [intro t; rewrite A1; apply B1|congruence]. Qed.

Section Steps.
Variable P : program.
Variable c : config.

Lemma upd_eq : forall (f g : task -> ptask) t v, (forall u, f u = g u) -> forall u, upd f t v u = upd g t v u.
Proof. intros f g t v H u. unfold upd. destruct (Nat.eqb u t); [reflexivity|apply H]. Qed.

Lemma pmstep_eq : forall t a b, pstate_eq a b -> pstate_eq (pmstep P c t a) (pmstep P c t b).
Proof.
  intros t a b [H1 H2]. unfold pmstep. rewrite <- (H1 t), <- H2.
  destruct (ppcs a t) as [[rem kont] l]. destruct rem as [|[e k] rest]; [split; assumption|].
  destruct (match kont with [] => (p_entry P e, l0) | _ :: _ => (kont, l) end) as [[|i more] li].
  - split; cbn; [apply upd_eq; exact H1|reflexivity].
  - destruct (istep P c t k i more li (psh a)) as [[|x y] l' s'|kont' l' s'|]; split; cbn;
      try (apply upd_eq; exact H1); try reflexivity.
Qed.

Fixpoint iter (n : nat) (t : task) (s : pstate) : pstate :=
  match n with O => s | S m => iter m t (pmstep P c t s) end.

Lemma iter_eq : forall n t a b, pstate_eq a b -> pstate_eq (iter n t a) (iter n t b).
Proof. induction n; intros t a b H; cbn; [exact H|]. apply IHn. apply pmstep_eq. exact H. Qed.

Lemma iter_add : forall n m t s, iter (n + m) t s = iter m t (iter n t s).
Proof. induction n; intros; cbn; [reflexivity|]. apply IHn. Qed.

Lemma run_instrs_nil : forall fuel t k l s, run_instrs fuel P c t k [] l s = RDone l s.
Proof. destruct fuel; reflexivity. Qed.

(* the instructions of one lookup executed in one poll; (kst, lst) is what the task has stored, (kont, l) what it
   executes ([] stored = the lookup has not begun: the entry point's program with fresh locals) *)
Definition eff (e : entry) (kst : list instr) (lst : local) : list instr * local :=
  match kst with [] => (p_entry P e, l0) | _ :: _ => (kst, lst) end.

Lemma run_instrs_steps : forall fuel t e k rest kst lst kont l pc0 s,
  eff e kst lst = (kont, l) -> kont <> [] ->
  match run_instrs fuel P c t k kont l s with
  | RDone _ s' =>
      exists n, pstate_eq (iter n t {| ppcs := upd pc0 t ((e, k) :: rest, kst, lst); psh := s |})
                          {| ppcs := upd pc0 t (rest, [], l0); psh := s' |}
  | RPend kont' l' s' =>
      exists n, pstate_eq (iter n t {| ppcs := upd pc0 t ((e, k) :: rest, kst, lst); psh := s |})
                          {| ppcs := upd pc0 t ((e, k) :: rest, kont', l'); psh := s' |}
  | RStuck => True
  end.
Proof.
  induction fuel as [|f IH]; intros t e k rest kst lst kont l pc0 s Heff Hne.
  - destruct kont; [contradiction|]. cbn. exact I.
  - destruct kont as [|i more]; [contradiction|]. cbn [run_instrs].
    assert (Step : pmstep P c t {| ppcs := upd pc0 t ((e, k) :: rest, kst, lst); psh := s |} =
                   match istep P c t k i more l s with
                   | SNext [] _ s' => {| ppcs := upd (upd pc0 t ((e, k) :: rest, kst, lst)) t (rest, [], l0); psh := s' |}
                   | SNext kont' l' s' | SPend kont' l' s' =>
                       {| ppcs := upd (upd pc0 t ((e, k) :: rest, kst, lst)) t ((e, k) :: rest, kont', l'); psh := s' |}
                   | SStuck => {| ppcs := upd (upd pc0 t ((e, k) :: rest, kst, lst)) t ((e, k) :: rest, [IAbort], l0); psh := s |}
                   end).
    { unfold pmstep. cbn [ppcs psh]. rewrite upd_same. unfold eff in Heff. rewrite Heff. reflexivity. }
    assert (Upd2' : forall a b s', pstate_eq {| ppcs := upd (upd pc0 t a) t b; psh := s' |} {| ppcs := upd pc0 t b; psh := s' |}).
    { intros a b s'. split; [|reflexivity]. intro u. cbn. unfold upd. destruct (Nat.eqb u t); reflexivity. }
    destruct (istep P c t k i more l s) as [kont' l' s'|kont' l' s'|] eqn:Ei.
    + destruct kont' as [|i' more'].
      * rewrite run_instrs_nil. exists 1. cbn [iter]. rewrite Step. apply Upd2'.
      * specialize (IH t e k rest (i' :: more') l' (i' :: more') l' pc0 s' eq_refl ltac:(discriminate)).
        destruct (run_instrs f P c t k (i' :: more') l' s') as [l2 s2|k2 l2 s2|]; [| |exact I].
        -- destruct IH as [n Hn]. exists (S n). cbn [iter]. rewrite Step.
           eapply pstate_eq_trans; [apply iter_eq, Upd2'|exact Hn].
        -- destruct IH as [n Hn]. exists (S n). cbn [iter]. rewrite Step.
           eapply pstate_eq_trans; [apply iter_eq, Upd2'|exact Hn].
    + exists 1. cbn [iter]. rewrite Step. destruct kont'; apply Upd2'.
    + exact I.
Qed.

(* one poll = some number of instruction steps of the polled task *)
Lemma padvance_steps : forall rem t kst lst pc0 s p' s',
  (rem = [] -> kst = [] /\ lst = l0) ->
  padvance P c t rem kst lst s = (p', s') -> snd (fst p') <> [IAbort] ->
  exists n, pstate_eq (iter n t {| ppcs := upd pc0 t (rem, kst, lst); psh := s |}) {| ppcs := upd pc0 t p'; psh := s' |}.
Proof.
  induction rem as [|[e k] rest IH]; intros t kst lst pc0 s p' s' Hnil Hp Hns.
  - cbn in Hp. inversion Hp; subst. destruct (Hnil eq_refl) as [-> ->]. exists 0. apply pstate_eq_refl.
  - cbn [padvance] in Hp.
    destruct (match kst with [] => (p_entry P e, l0) | _ :: _ => (kst, lst) end) as [kont l] eqn:Heff.
    destruct kont as [|i more].
    + (* an empty entry program *)
      rewrite run_instrs_nil in Hp.
      destruct (IH t [] l0 pc0 s p' s' (fun _ => conj eq_refl eq_refl) Hp Hns) as [n Hn].
      exists (S n). cbn [iter].
      assert (Step : pmstep P c t {| ppcs := upd pc0 t (@cons lookup (e, k) rest, kst, lst); psh := s |} =
                     {| ppcs := upd (upd pc0 t (@cons lookup (e, k) rest, kst, lst)) t (rest, [], l0); psh := s |}).
      { unfold pmstep. cbn [ppcs psh]. rewrite upd_same. rewrite Heff. reflexivity. }
      rewrite Step. eapply pstate_eq_trans; [apply iter_eq|exact Hn].
      split; [|reflexivity]. intro u. cbn. unfold upd. destruct (Nat.eqb u t); reflexivity.
    + pose proof (run_instrs_steps (pfuel P) t e k rest kst lst (i :: more) l pc0 s Heff ltac:(discriminate)) as R.
      destruct (run_instrs (pfuel P) P c t k (i :: more) l s) as [l2 s2|k2 l2 s2|].
      * destruct R as [n1 H1].
        destruct (IH t [] l0 pc0 s2 p' s' (fun _ => conj eq_refl eq_refl) Hp Hns) as [n2 H2].
        exists (n1 + n2). rewrite iter_add. eapply pstate_eq_trans; [apply iter_eq, H1|exact H2].
      * inversion Hp; subst. exact R.
      * inversion Hp; subst. cbn in Hns. contradiction.
Qed.

Lemma ppoll_steps : forall t s,
  (forall u, fst (fst (ppcs s u)) = [] -> ppcs s u = ([], [], l0)) ->
  snd (fst (ppcs (ppoll P c t s) t)) <> [IAbort] ->
  exists n, pstate_eq (iter n t s) (ppoll P c t s).
Proof.
  intros t s Hn Hns. unfold ppoll in *.
  destruct (ppcs s t) as [[rem kst] lst] eqn:E.
  destruct (padvance P c t rem kst lst (psh s)) as [p' s'] eqn:Ep.
  cbn [ppcs] in Hns. rewrite upd_same in Hns.
  destruct (padvance_steps rem t kst lst (ppcs s) (psh s) p' s') as [n H]; auto.
  - intros ->. specialize (Hn t). rewrite E in Hn. specialize (Hn eq_refl). inversion Hn. auto.
  - exists n. eapply pstate_eq_trans; [apply iter_eq|exact H].
    split; [|reflexivity]. intro u. cbn. unfold upd. destruct (Nat.eqb u t) eqn:Eq; [|reflexivity].
    apply Nat.eqb_eq in Eq. subst u. exact E.
Qed.
End Steps.

(* ---- whole runs of the canonical program ---- *)
Lemma iter_repeat : forall P c n t s, iter P c n t s = fold_left (fun s t => pmstep P c t s) (repeat t n) s.
Proof. induction n; intros; cbn; [reflexivity|]. apply IHn. Qed.

Lemma prun_snoc : forall P pc sched t, prun P pc (sched ++ [t]) = ppoll P (cfg pc) t (prun P pc sched).
Proof. intros. unfold prun, prun_from. rewrite fold_left_app. reflexivity. Qed.

Theorem polls_are_instruction_schedules : forall pc sched,
  exists ms, pstate_eq (pmrun canon pc ms) (prun canon pc sched).
Proof.
  intros pc sched. induction sched as [|t pre IH] using rev_ind.
  - exists []. apply pstate_eq_refl.
  - destruct IH as [ms Hms]. rewrite prun_snoc.
    destruct (ppoll_steps canon (cfg pc) t (prun canon pc pre)) as [n Hn].
    + intros u Hu. destruct (prun_refines false pc pre ltac:(discriminate)) as (_ & Hb & _).
      specialize (Hb u). destruct (ppcs (prun canon pc pre) u) as [[rem kont] l]. cbn in Hu. subst rem.
      cbn in Hb. inversion Hb. reflexivity.
    + rewrite <- prun_snoc. apply p_never_stuck.
    + exists (ms ++ repeat t n). unfold pmrun. rewrite fold_left_app. rewrite <- iter_repeat.
      eapply pstate_eq_trans; [apply iter_eq; exact Hms|exact Hn].
Qed.

From RM Require Import C12.ProgSource Gen.C12Program.
Lemma src_polls_are_instruction_schedules : forall (pc : pconfig) (sched : list task),
  exists ms, pstate_eq (pmrun src_program pc ms) (prun src_program pc sched).
Proof. rewrite src_is_canon. exact polls_are_instruction_schedules. Qed.
