(* C12/FileProofs.v — file keys are keys: the encoding is injective, and the closure of
   locate_file_internal only ever answers Ok or NotFound. *)
From Coq Require Import List Arith Bool Lia.
From RM Require Import C12.Model C12.FileModel C12.Proofs.
Import ListNotations.

Lemma dec_enc : forall fk, dec (enc fk) = fk.
Proof.
  intros [k kd]. unfold enc, dec. cbn [fst snd].
  assert (Hc : fkind_code kd < 3) by (destruct kd; cbn; lia).
  rewrite (Nat.mul_comm 3 k).
  rewrite Nat.div_add_l by lia. rewrite (Nat.div_small _ 3 Hc). rewrite Nat.add_0_r.
  rewrite Nat.add_comm, Nat.mod_add by lia. rewrite (Nat.mod_small _ 3 Hc).
  destruct kd; reflexivity.
Qed.

Lemma enc_inj : forall a b, enc a = enc b -> a = b.
Proof. intros a b H. rewrite <- (dec_enc a), <- (dec_enc b). now rewrite H. Qed.

Lemma file_script_answers : forall fc fk, snd (file_script fc fk) = OOk \/ snd (file_script fc fk) = ONotFound.
Proof.
  intros fc fk. unfold file_script. destruct (local_hit fc fk); [now left|].
  destruct (has_lookup fc fk); [|now right].
  destruct (fetch_all (servers fc) fk) as [n [|]]; [now left|now right].
Qed.

Lemma files_at_most_once : forall fc sched fk,
  supplier_calls (run (to_config fc) sched) (enc fk) <= 1.
Proof. intros. apply at_most_once. Qed.

Lemma files_same_outcome : forall fc sched t i fk o,
  task_result (run (to_config fc) sched) t i = Some (enc fk, o) ->
  o = snd (file_script fc fk) /\ (o = OOk \/ o = ONotFound) /\
  nth_error (nth t (ftasks fc) []) i = Some fk.
Proof.
  intros fc sched t i fk o H. destruct (same_outcome (to_config fc) sched t i (enc fk) o H) as [Ho Hn].
  cbn [to_config outc tasks] in Ho, Hn. rewrite dec_enc in Ho. split; [assumption|]. split.
  - rewrite Ho. apply file_script_answers.
  - change (@nil key) with (map enc []) in Hn. rewrite map_nth in Hn.
    rewrite nth_error_map in Hn. destruct (nth_error (nth t (ftasks fc) []) i) as [fk'|]; [|discriminate].
    cbn [option_map] in Hn. inversion Hn as [E]. apply enc_inj in E. now subst.
Qed.

Lemma files_total_calls : forall fc sched,
  length (calls (sh (run (to_config fc) sched))) <= distinct_keys (to_config fc).
Proof.
  intros fc sched. rewrite <- (inv_req _ _ _ (run_inv (to_config fc) sched)).
  apply (counters_bounded (to_config fc) sched).
Qed.
