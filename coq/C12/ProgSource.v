(* C12/ProgSource.v — the theorems of C12 for the interpreter running the program that translate/c12_program.py
   regenerates from the Rust source on every run (Gen/C12Program.v).  [src_is_canon] is the only place where the
   generated program meets the hand-written one: when an edit of CachedAsyncResult::get, of a closure or of an entry
   point changes the generated instruction lists, it fails and with it every lemma below (and the theorems of
   C12/Properties.v that are stated about [prun src_program]).
   The second half gives two programs the unchanged code does NOT have their meaning and proves that the
   interpreter refutes the property on them (a retry inside the closure; a non-waiting probe in walk_frame). *)
From RM Require Import C12.Model C12.ProgModel C12.ProgProofs Gen.C12Program.

Lemma src_is_canon : src_program = canon.
Proof. reflexivity. Qed.

Lemma src_refines : forall (full : bool) (pc : pconfig) (sched : list task),
  (full = true -> sym_only pc) -> psim full (prun src_program pc sched) (run (cfg pc) sched).
Proof. rewrite src_is_canon. exact prun_refines. Qed.

Lemma src_at_most_once : forall (pc : pconfig) (sched : list task) (k : key),
  psupplier_calls (prun src_program pc sched) k <= 1.
Proof. rewrite src_is_canon. exact p_at_most_once. Qed.

Lemma src_same_outcome : forall (pc : pconfig) (sched : list task) (t : task) (i : nat) (k : key) (o : outcome),
  ptask_result (prun src_program pc sched) t i = Some (k, o) ->
  o = outc (pbase pc) k /\ exists e, nth_error (nth t (ptasks pc) []) i = Some (e, k).
Proof. rewrite src_is_canon. exact p_same_outcome. Qed.

Lemma src_results_complete : forall (pc : pconfig) (sched : list task) (t : task),
  pall_done pc (prun src_program pc sched) = true ->
  map fst (results (psh (prun src_program pc sched)) t) = map snd (nth t (ptasks pc) []).
Proof. rewrite src_is_canon. exact p_results_complete. Qed.

Lemma src_exactly_once : forall (pc : pconfig) (sched : list task) (k : key),
  pall_done pc (prun src_program pc sched) = true -> In k (concat (tasks (cfg pc))) ->
  psupplier_calls (prun src_program pc sched) k = 1.
Proof. rewrite src_is_canon. exact p_exactly_once. Qed.

Lemma src_fair_finishes : forall (pc : pconfig) (sched : list task) (T : nat),
  fair (length (ptasks pc)) T sched -> T * work (cfg pc) <= length sched ->
  pall_done pc (prun src_program pc sched) = true.
Proof. rewrite src_is_canon. exact p_fair_finishes. Qed.

Lemma src_never_stuck : forall (pc : pconfig) (sched : list task) (t : task),
  snd (fst (ppcs (prun src_program pc sched) t)) <> [IAbort].
Proof. rewrite src_is_canon. exact p_never_stuck. Qed.

Lemma src_counters_bounded : forall (pc : pconfig) (sched : list task), sym_only pc ->
  proc (psh (prun src_program pc sched)) <= req (psh (prun src_program pc sched)) /\
  req (psh (prun src_program pc sched)) <= distinct_keys (cfg pc).
Proof. rewrite src_is_canon. exact p_counters_bounded. Qed.

Lemma src_counters : forall (pc : pconfig) (sched : list task), sym_only pc ->
  pall_done pc (prun src_program pc sched) = true ->
  req (psh (prun src_program pc sched)) = distinct_keys (cfg pc) /\
  proc (psh (prun src_program pc sched)) = distinct_keys (cfg pc).
Proof. rewrite src_is_canon. exact p_counters. Qed.

(* ---- HttpSymbolSupplier::locate_file as configurations of the same program ---- *)
From RM Require Import C12.FileModel.
Definition pc_of_fc (fc : fconfig) : pconfig :=
  {| ptasks := map (map (fun fk => (EFile, enc fk))) (ftasks fc); pbase := to_config fc |}.

Lemma src_files_at_most_once : forall (fc : fconfig) (sched : list task) (fk : fkey),
  psupplier_calls (prun src_program (pc_of_fc fc) sched) (enc fk) <= 1.
Proof. intros. apply src_at_most_once. Qed.

Lemma src_files_same_outcome : forall (fc : fconfig) (sched : list task) (t : task) (i : nat) (k : key) (o : outcome),
  ptask_result (prun src_program (pc_of_fc fc) sched) t i = Some (k, o) ->
  o = snd (file_script fc (dec k)) /\ (o = OOk \/ o = ONotFound).
Proof.
  intros fc sched t i k o H. destruct (src_same_outcome _ _ _ _ _ _ H) as [A _].
  cbn in A. split; [exact A|]. rewrite A. unfold file_script.
  destruct (local_hit fc (dec k)); [left; reflexivity|].
  destruct (has_lookup fc (dec k)); [|right; reflexivity].
  destruct (fetch_all (servers fc) (dec k)) as [n ok]. destruct ok; [left|right]; reflexivity.
Qed.

(* ---- the ways into the slots ---- *)
From Coq Require Import String.
Open Scope string_scope.
Definition canon_ways : list (string * string * list string) := [
  ("lib.rs", "get_symbol_at_address", ["fill_symbol("]);
  ("lib.rs", "fill_symbol", ["get_symbols("; "fill_symbol("]);
  ("lib.rs", "walk_frame", ["get_symbols("]);
  ("lib.rs", "get_symbols", ["cache_default("]);
  ("http.rs", "locate_file_internal", ["cache_default("]);
  ("http.rs", "locate_file", ["locate_file_internal("])
].
(* get_symbols is reached from fill_symbol and walk_frame only, fill_symbol from get_symbol_at_address, the file slots
   from HttpSymbolSupplier::locate_file only (its locate_symbols does not go through them: no nested slot locks);
   nobody looks at an async mutex without waiting *)
Lemma src_ways_ok : src_ways = canon_ways.
Proof. reflexivity. Qed.

(* ---- programs the unchanged code does not have ---- *)
(* a ParseError answer makes the closure ask the supplier again before the result is stored *)
Definition retry_program : program :=
  {| p_get := canon_get;
     p_sym_closure := [IRequestedInc; ISupplierAwait; IRetryIf OParse; IProcessedInc; IStatsNew; IStatsClassify;
                       ILeafKey; IStatsInsert; IReturnResult];
     p_file_closure := canon_file_closure; p_entry := canon_entry |}.
(* walk_frame looks at the slot with try_lock and gives up when it is locked *)
Definition probe_program : program :=
  {| p_get := canon_get; p_sym_closure := canon_sym_closure; p_file_closure := canon_file_closure;
     p_entry := fun e => match e with EWalk => [IProbeElseGet; IUseResult] | _ => canon_entry e end |}.
Definition one_parse : pconfig :=
  {| ptasks := [[(EFill, 0)]];
     pbase := {| tasks := []; susp := fun _ => 0; outc := fun _ => OParse; leaf := fun k => k |} |}.
Definition two_on_one : pconfig :=
  {| ptasks := [[(EFill, 0)]; [(EWalk, 0)]];
     pbase := {| tasks := []; susp := fun _ => 1; outc := fun _ => OOk; leaf := fun k => k |} |}.

Lemma retry_refuted :
  psupplier_calls (prun retry_program one_parse [0]) 0 = 2 /\
  pall_done one_parse (prun retry_program one_parse [0]) = true /\
  req (psh (prun retry_program one_parse [0])) = 1.
Proof. vm_compute. repeat split. Qed.

Lemma probe_refuted :
  let s := prun probe_program two_on_one [0; 1; 0] in
  pall_done two_on_one s = true /\ psupplier_calls s 0 = 1 /\
  ptask_result s 0 0 = Some (0, OOk) /\ ptask_result s 1 0 = Some (0, OMissing) /\ outc (pbase two_on_one) 0 = OOk.
Proof. vm_compute. repeat split. Qed.

(* the same schedule on the program of the source: both requesters get the supplier's single answer *)
Lemma probe_refuted_needs_the_probe :
  let s := prun src_program two_on_one [0; 1; 0; 1] in
  pall_done two_on_one s = true /\ psupplier_calls s 0 = 1 /\
  ptask_result s 0 0 = Some (0, OOk) /\ ptask_result s 1 0 = Some (0, OOk).
Proof. vm_compute. repeat split. Qed.
