(* C12/WakeModel.v — the same lookups, instrumented with wake-ups, for executors that poll a
   task only after its waker fired (tokio, FuturesUnordered; join_all of > 30 futures).
   Adds to C12/Model.v what futures-util 0.3.31 lock/mutex.rs keeps per mutex and per
   MutexLockFuture:
     waiters : Slab<Waiter>     Waiter = Waiting(waker) | Woken
     MutexLockFuture.wait_key   index of this future's Waiter (WAIT_KEY_NONE before the first
                                failed poll)
     MutexLockFuture::poll      try_lock; on success remove_waker(wait_key, false)
                                otherwise insert (first time) or register (Woken -> Waiting)
     MutexGuard::drop / unlock  if HAS_WAITERS: waiters.iter_mut().next() -> wake()
                                (Waiting(w) -> w.wake(), entry becomes Woken; Woken -> nothing)
   and the contract of the supplier future: when it answers Pending it has arranged for the
   task to be woken (the mock wakes immediately).
   A task waits for at most one mutex at a time, so the Waiter entries are stored per task:
   [wk u = Some (k, i, w)] = task u's MutexLockFuture for key k owns slab index i and its entry
   is Woken iff w.  Slab indices follow slab 0.4.9: [slen k] = (entries.len(), stack of vacant
   indices); insert takes the most recently vacated index, else appends; remove pushes the index.
   (Without drops all insertions into k's slab happen during the one supplier call for k and all
   removals after it, so indices simply increase; with C12/DropModel.v a waiter can leave while
   the guard is still held and a later waiter reuses its index — the poll traces of mode 3 showed
   exactly that.)  Definitions only. *)
From RM Require Export C12.Model.

Record wext := {
  wk   : task -> option (key * nat * bool);
  slen : key -> nat * list nat;
  flag : task -> bool            (* the executor's "woken since its last poll" bit *)
}.

Definition set_flag (x : wext) (t : task) (b : bool) : wext :=
  {| wk := wk x; slen := slen x; flag := upd (flag x) t b |}.

(* lowest-index Waiter of k's slab among tasks [ts]; [best] = best so far *)
Fixpoint first_waiter (x : wext) (k : key) (ts : list task) (best : option (task * nat)) : option (task * nat) :=
  match ts with
  | [] => best
  | u :: ts' =>
      let best' :=
        match wk x u with
        | Some (k', i, _) =>
            if Nat.eqb k' k then
              match best with
              | Some (_, j) => if Nat.ltb i j then Some (u, i) else best
              | None => Some (u, i)
              end
            else best
        | None => best
        end in
      first_waiter x k ts' best'
  end.

(* Mutex::unlock of k's mutex *)
Definition wake (n : nat) (k : key) (x : wext) : wext :=
  match first_waiter x k (seq 0 n) None with
  | Some (u, _) =>
      match wk x u with
      | Some (k', i, false) =>
          {| wk := upd (wk x) u (Some (k', i, true)); slen := slen x; flag := upd (flag x) u true |}
      | _ => x
      end
  | None => x
  end.

(* a poll of lock() that did not acquire *)
Definition register (t : task) (k : key) (x : wext) : wext :=
  match wk x t with
  | Some (k', i, _) => {| wk := upd (wk x) t (Some (k', i, false)); slen := slen x; flag := flag x |}
  | None =>
      {| wk := upd (wk x) t (Some (k, match snd (slen x k) with j :: _ => j | [] => fst (slen x k) end, false));
         slen := upd (slen x) k (match snd (slen x k) with
                                 | _ :: f => (fst (slen x k), f)
                                 | [] => (S (fst (slen x k)), [])
                                 end);
         flag := flag x |}
  end.

(* remove_waker(wait_key, _): the Waiter leaves the slab, its index becomes the next vacant one *)
Definition unregister (t : task) (x : wext) : wext :=
  {| wk := upd (wk x) t None;
     slen := match wk x t with
             | Some (k, i, _) => upd (slen x) k (fst (slen x k), i :: snd (slen x k))
             | None => slen x
             end;
     flag := flag x |}.

Fixpoint wadvance (c : config) (n : nat) (t : task) (rem : list key) (ph : phase) (s : shared) (x : wext)
  : list key * phase * shared * wext :=
  match rem with
  | [] => ([], ph, s, x)
  | k :: rest =>
      match ph with
      | Sup (S m) => (k :: rest, Sup m, s, set_flag x t true)
      | Sup O => wadvance c n t rest Start (complete c t k s) (wake n k x)
      | _ =>
          match lock s k with
          | Some _ => (k :: rest, Wait, s, register t k x)
          | None =>
              let x1 := unregister t x in
              match value s k with
              | Some o => wadvance c n t rest Start (hit t k o s) (wake n k x1)
              | None =>
                  let s1 := begin_call t k s in
                  match susp c k with
                  | O => wadvance c n t rest Start (complete c t k s1) (wake n k x1)
                  | S m => (k :: rest, Sup m, s1, set_flag x1 t true)
                  end
              end
          end
      end
  end.

Record wstate := { base : state; ext : wext }.

(* the executor clears the task's bit, then polls it *)
Definition wpoll (c : config) (t : task) (w : wstate) : wstate :=
  let '(rem, ph) := pcs (base w) t in
  let '(rem', ph', s', x') := wadvance c (ntasks c) t rem ph (sh (base w)) (set_flag (ext w) t false) in
  {| base := {| pcs := upd (pcs (base w)) t (rem', ph'); sh := s' |}; ext := x' |}.

(* every task is scheduled once at spawn *)
Definition winit (c : config) : wstate :=
  {| base := init c; ext := {| wk := fun _ => None; slen := fun _ => (0, []); flag := fun _ => true |} |}.

Definition wrun_from (c : config) (w : wstate) (sched : list task) : wstate :=
  fold_left (fun w t => wpoll c t w) sched w.
Definition wrun (c : config) (sched : list task) : wstate := wrun_from c (winit c) sched.

(* tasks a wake-driven executor may poll now *)
Definition runnable (c : config) (w : wstate) : list task :=
  filter (fun t => flag (ext w) t && negb (task_done (base w) t)) (seq 0 (ntasks c)).

(* wake-driven executor: each step polls one runnable task, chosen by the next pick;
   stops when everything is done, nothing is runnable (a lost wake-up) or fuel runs out *)
Inductive wstatus := WDone | WLost | WFuel.
Fixpoint wexec (c : config) (fuel : nat) (picks : list nat) (w : wstate) (trace : list task)
  : wstate * list task * wstatus :=
  if all_done c (base w) then (w, trace, WDone)
  else match runnable c w with
       | [] => (w, trace, WLost)
       | r :: rs =>
           match fuel with
           | O => (w, trace, WFuel)
           | S f =>
               let t := nth (Nat.modulo (hd 0 picks) (length (r :: rs))) (r :: rs) r in
               wexec c f (tl picks) (wpoll c t w) (trace ++ [t])
           end
       end.
