(* C12/AdaptModel.v — ADAPTIVE requesters (round 5, second pass).
   C12/Model.v gives every task a fixed list of lookups.  The real requesters are not like that: the unwinder decides which
   module to ask about next from what the previous lookups returned (a frame recovered through a module's CFI lies in
   another module than the one a frame-pointer walk or a stack scan would have found; without symbols the scan validates
   other candidates).  Here a task is a STRATEGY: a function from the answers it has received so far to its next lookup
   (None = finished).  [aadvance] is C12/Model.advance with "the rest of the list" replaced by "ask the strategy again,
   with the result just recorded".  C12/AdaptProofs.v shows that nothing is gained or lost: an adaptive run is, poll for
   poll, the run of the fixed lists obtained by unfolding every strategy along the supplier's scripted answers — so every
   theorem of C12 holds for adaptive requesters.  Definitions only. *)
From RM Require Export C12.Model.

Definition strat := list (key * outcome) -> option key.

Record aconfig := { astrats : list strat; abase : config }.
Definition astrat (ac : aconfig) (t : task) : strat := nth t (astrats ac) (fun _ => None).

(* [fuel] bounds the lookups of one poll (a strategy that never stops asking for remembered modules would never return
   Pending: not a future); the theorems take it larger than the strategies' depth *)
Fixpoint aadvance (fuel : nat) (c : config) (t : task) (sg : strat) (ph : phase) (s : shared) : phase * shared :=
  match fuel with
  | O => (ph, s)
  | S f =>
      match sg (results s t) with
      | None => (ph, s)
      | Some k =>
          match ph with
          | Sup (S m) => (Sup m, s)
          | Sup O => aadvance f c t sg Start (complete c t k s)
          | _ =>
              match lock s k with
              | Some _ => (Wait, s)
              | None =>
                  match value s k with
                  | Some o => aadvance f c t sg Start (hit t k o s)
                  | None =>
                      let s1 := begin_call t k s in
                      match susp c k with
                      | O => aadvance f c t sg Start (complete c t k s1)
                      | S m => (Sup m, s1)
                      end
                  end
              end
          end
      end
  end.

Record astate := { aph : task -> phase; ash : shared }.

Definition apoll (fuel : nat) (ac : aconfig) (t : task) (s : astate) : astate :=
  let '(ph', s') := aadvance fuel (abase ac) t (astrat ac t) (aph s t) (ash s) in
  {| aph := upd (aph s) t ph'; ash := s' |}.

Definition ainit : astate :=
  {| aph := fun _ => Start;
     ash := {| lock := fun _ => None; value := fun _ => None; calls := []; req := 0; proc := 0;
               stats := fun _ => None; results := fun _ => [] |} |}.

Definition arun (fuel : nat) (ac : aconfig) (sched : list task) : astate :=
  fold_left (fun s t => apoll fuel ac t s) sched ainit.

(* a task has finished when its strategy has nothing more to ask *)
Definition atask_done (ac : aconfig) (s : astate) (t : task) : bool :=
  match astrat ac t (results (ash s) t) with None => true | Some _ => false end.
Definition aall_done (ac : aconfig) (s : astate) : bool := forallb (atask_done ac s) (seq 0 (length (astrats ac))).

(* the lookups a strategy makes when every answer is the supplier's scripted one *)
Fixpoint unfold_strat (n : nat) (oc : key -> outcome) (sg : strat) (acc : list (key * outcome)) : list key :=
  match n with
  | O => []
  | S m => match sg acc with None => [] | Some k => k :: unfold_strat m oc sg (acc ++ [(k, oc k)]) end
  end.
(* ... and it stops within n lookups *)
Fixpoint ends (n : nat) (oc : key -> outcome) (sg : strat) (acc : list (key * outcome)) : bool :=
  match sg acc with
  | None => true
  | Some k => match n with O => false | S m => ends m oc sg (acc ++ [(k, oc k)]) end
  end.

Definition fixed_config (N : nat) (ac : aconfig) : config :=
  {| tasks := map (fun sg => unfold_strat N (outc (abase ac)) sg []) (astrats ac);
     susp := susp (abase ac); outc := outc (abase ac); leaf := leaf (abase ac) |}.
