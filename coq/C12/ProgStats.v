(* C12/ProgStats.v — the stats map under INSTRUCTION-level interleavings of the canonical program (round 5, second pass).
   `let mut stats = SymbolStats::default(); match &result {..}; let key = leafname(..); self.stats.lock().unwrap().insert(key, stats)`
   are four instructions between which other tasks run.  Invariant: a task standing after the classification carries
   lstat = the classification of its slot's scripted answer, a task standing at the insert also lkey = its module's leaf
   name; every entry of the shared map classifies the single answer of a module with that leaf name that is in the
   supplier log.  (The insert happens BEFORE the store into the slot: mid-run an entry may be there while the slot is
   still empty — a state no poll schedule has.) *)
From RM Require Import C12.Model C12.ProgModel C12.ProgProofs C12.ProgFine C12.ProgCount.
From Coq Require Import Lia.

Definition lstat_ok (c : config) (p : ptask) : Prop :=
  match p with
  | ((_, k) :: _, ILeafKey :: _, l) => lstat l = Some (outc c k)
  | ((_, k) :: _, IStatsInsert :: _, l) => lstat l = Some (outc c k) /\ lkey l = Some (leaf c k)
  | _ => True
  end.

Record SI (c : config) (s : pstate) : Prop := {
  si_local : forall t, lstat_ok c (ppcs s t);
  si_sound : forall lf o, stats (psh s) lf = Some o -> exists k, leaf c k = lf /\ o = outc c k /\ In k (calls (psh s))
}.

Lemma si_pmstep : forall pc s t,
  GI (cfg pc) (allkeys pc) s -> SI (cfg pc) s -> SI (cfg pc) (pmstep canon (cfg pc) t s).
Proof.
  intros pc s t G [SL SS].
  pose proof (SL t) as SLt.
  unfold pmstep.
  destruct (ppcs s t) as [[rem kont] l] eqn:E.
  destruct rem as [|[e k] rest]; [constructor; assumption|].
  pose proof (gi_local _ _ _ G t) as L0; rewrite E in L0; cbn in L0.
  assert (Oth : forall p' u, u <> t -> lstat_ok (cfg pc) (upd (ppcs s) t p' u)).
  { intros p' u Hu. unfold upd. destruct (Nat.eqb u t) eqn:Q; [apply Nat.eqb_eq in Q; contradiction|apply SL]. }
  assert (Loc : forall p' sh', lstat_ok (cfg pc) p' ->
            (forall lf o, stats sh' lf = Some o -> exists k0, leaf (cfg pc) k0 = lf /\ o = outc (cfg pc) k0 /\ In k0 (calls sh')) ->
            SI (cfg pc) {| ppcs := upd (ppcs s) t p'; psh := sh' |}).
  { intros p' sh' H1 H2. constructor; cbn [ppcs psh]; [|exact H2].
    intro u. destruct (Nat.eq_dec u t) as [->|Hu]; [rewrite upd_same; exact H1|apply Oth; exact Hu]. }
  assert (Grow : forall k',
            forall lf o, stats (psh s) lf = Some o ->
              exists k0, leaf (cfg pc) k0 = lf /\ o = outc (cfg pc) k0 /\ In k0 (calls (psh s) ++ [k'])).
  { intros k' lf o H. destruct (SS lf o H) as (k0 & A & B & C0). exists k0. repeat split; auto. apply in_or_app. left. exact C0. }
  destruct L0 as [->|(Hin & Hf & Hg & Hr & Hlk)].
  - (* the lookup has not begun *)
    destruct e; cbn; apply Loc; cbn; auto.
  - destruct l as [g w f0 tk r ls lk]; cbn in Hf, Hg.
    destruct e; cbn in Hin;
      repeat (destruct Hin as [<-|Hin]; [|]); try contradiction; cbn in Hf, Hg, Hr, Hlk, SLt; subst.
    all: try (specialize (Hr eq_refl); subst r).
    all: cbn.
    all: try (rewrite (gi_post _ _ _ G t k ltac:(rewrite E; reflexivity) ltac:(rewrite E; reflexivity))).
    all: try (match goal with |- context [lock (psh ?s0) ?k0] => destruct (lock (psh s0) k0) eqn:Hlock end).
    all: try (match goal with |- context [value (psh ?s0) ?k0] => destruct (value (psh s0) k0) eqn:Hval end).
    all: try (match goal with |- context [match ?n with O => _ | S _ => _ end] => is_var n; destruct n end).
    all: cbn.
    all: try solve [apply Loc; cbn; auto].
    all: try solve [constructor; cbn [ppcs psh]; [intro u; unfold upd; destruct (Nat.eqb u t); [exact I|apply SL]|exact SS]].
    all: try solve [apply Loc; cbn; auto; apply Grow].
    all: try solve [apply Loc; [destruct rest as [|[? ?] ?]; exact I|cbn; exact SS]].
    all: destruct SLt as [-> ->]; cbn; apply Loc; [cbn; exact I|].
    all: intros lf o H; cbn in H; unfold upd in H; destruct (Nat.eqb lf (leaf (pbase pc) k)) eqn:Q;
         [apply Nat.eqb_eq in Q; inversion H; subst; exists k; split; [reflexivity|]; split; [reflexivity|];
          cbn; apply (gi_mid _ _ _ G t k); rewrite E; reflexivity
         |destruct (SS lf o H) as (k0 & A & B & C0); exists k0; repeat split; auto].
Qed.

Lemma si_init : forall pc, SI (cfg pc) (pinit pc).
Proof.
  intro pc. constructor; cbn.
  - intro t. destruct (nth t (ptasks pc) []) as [|[? ?] ?]; exact I.
  - intros; discriminate.
Qed.

Lemma pmrun_si : forall pc ms, SI (cfg pc) (pmrun canon pc ms).
Proof.
  intros pc ms. unfold pmrun.
  generalize (gi_init pc) (si_init pc). generalize (pinit pc).
  induction ms as [|t r IH]; intros s G C; cbn; [exact C|].
  apply IH; [apply gi_pmstep; exact G|apply si_pmstep; assumption].
Qed.

(* every entry of the stats map classifies the supplier's single answer for a module with that leaf name that the
   supplier has been asked for (exactly once: c12_source_instr_at_most_once) — whatever the instruction-level interleaving *)
Lemma pm_stats_sound : forall pc ms lf o, stats (psh (pmrun canon pc ms)) lf = Some o ->
  exists k, leaf (pbase pc) k = lf /\ o = outc (pbase pc) k /\ psupplier_calls (pmrun canon pc ms) k = 1.
Proof.
  intros pc ms lf o H. destruct (si_sound _ _ (pmrun_si pc ms) lf o H) as (k & A & B & C).
  exists k. split; [exact A|]. split; [exact B|]. unfold psupplier_calls.
  apply NoDup_count_occ'; [apply (gi_nodup _ _ _ (pmrun_gi pc ms))|exact C].
Qed.

From RM Require Import C12.ProgSource Gen.C12Program.
Lemma src_pm_stats_sound : forall (pc : pconfig) (ms : list task) (lf : nat) (o : outcome),
  stats (psh (pmrun src_program pc ms)) lf = Some o ->
  exists k, leaf (pbase pc) k = lf /\ o = outc (pbase pc) k /\ psupplier_calls (pmrun src_program pc ms) k = 1.
Proof. rewrite src_is_canon. exact pm_stats_sound. Qed.

(* a state no poll schedule has: the entry is there, the slot is still empty *)
Lemma pm_stats_example :
  let s := pmrun src_program two_fill (repeat 0 12) in
  stats (psh s) 0 <> None /\ value (psh s) 0 = None /\ calls (psh s) = [0].
Proof. vm_compute. repeat split; discriminate. Qed.

