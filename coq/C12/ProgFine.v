(* C12/ProgFine.v — the canonical program under INSTRUCTION-level interleavings (round 5).
   [pmstep] executes ONE instruction of one task; [pmrun] folds it over any list of task ids: between any two
   instructions of a task — between the lock acquisition and the test of the slot, between
   `symbols_requested += 1` and the supplier call, between the store and the unlock — any other task may execute any
   number of instructions (a multi-threaded executor; each instruction touches one mutex-protected object or only
   the task's locals).  Invariant [GI]: mutual exclusion per slot, the supplier log is duplicate-free, a stored value is
   the scripted answer of its key, per-class facts of the lock holder, recorded results = remembered values, results ++
   remaining lookups = the task's lookups, no stuck task.  The counters at this granularity: C12/ProgCount.v. *)
From RM Require Import C12.Model C12.ProgModel C12.ProgProofs.
From Coq Require Import Lia.

Inductive cls := COut | CHold | CPre | CMid | CPost | CUse.
Definition cls_of (kont : list instr) : cls :=
  match kont with
  | IIfNone _ :: _ => CHold
  | IStoreCallAwait :: _ | IRequestedInc :: _ | ISupplierAwait :: _ | IFileClosure :: _ => CPre
  | ISupPoll :: _ | IProcessedInc :: _ | IStatsNew :: _ | IStatsClassify :: _ | ILeafKey :: _ | IStatsInsert :: _
  | IReturnResult :: _ | IStore :: _ => CMid
  | IReturnClone :: _ | IEndGet :: _ => CPost
  | IUseResult :: _ => CUse
  | _ => COut
  end.
Definition holds (x : cls) : bool := match x with COut | CUse => false | _ => true end.
Definition tkey (p : ptask) : option key := match fst (fst p) with (_, k) :: _ => Some k | [] => None end.
Definition tcls (p : ptask) : cls := cls_of (snd (fst p)).

Definition TR : list instr := [IReturnClone; IEndGet; IUseResult].
Definition TGU : list instr := [IIfNone [IStoreCallAwait]; IReturnClone; IEndGet; IUseResult].
Definition C2 : list instr :=
  [IProcessedInc; IStatsNew; IStatsClassify; ILeafKey; IStatsInsert; IReturnResult; IStore; IReturnClone; IEndGet; IUseResult].
Fixpoint suffixes (l : list instr) : list (list instr) :=
  match l with [] => [] | x :: r => (x :: r) :: suffixes r end.
(* every continuation a task of the canonical program can have (f: the slot is a file slot) *)
Definition allk (f : bool) : list (list instr) :=
  [ILockAwait :: TGU; TGU; IStoreCallAwait :: TR] ++
  (if f then [IFileClosure :: IStore :: TR; ISupPoll :: IStore :: TR] ++ suffixes (IStore :: TR)
   else [[IGetSymbolsAwait; IUseResult]; IRequestedInc :: ISupplierAwait :: C2; ISupplierAwait :: C2; ISupPoll :: C2]
        ++ suffixes C2).

Definition needs_res (kont : list instr) : bool :=
  match kont with
  | IProcessedInc :: _ | IStatsNew :: _ | IStatsClassify :: _ | ILeafKey :: _ | IStatsInsert :: _ | IReturnResult :: _
  | IStore :: _ | IEndGet :: _ | IUseResult :: _ => true
  | _ => false
  end.
Definition needs_lkey (kont : list instr) : bool := match kont with IStatsInsert :: _ => true | _ => false end.

Definition linv (c : config) (k : key) (f : bool) (kont : list instr) (l : local) : Prop :=
  In kont (allk f) /\ fcls l = f /\ guard l = holds (cls_of kont) /\
  (needs_res kont = true -> res l = Some (outc c k)) /\ (needs_lkey kont = true -> lkey l <> None).

Definition local_ok (c : config) (p : ptask) : Prop :=
  match p with
  | ([], kont, _) => kont = []
  | ((e, k) :: _, kont, l) => kont = [] \/ linv c k (is_file e) kont l
  end.

Record GI (c : config) (ks : task -> list key) (s : pstate) : Prop := {
  gi_local : forall t, local_ok c (ppcs s t);
  gi_lock : forall k t, lock (psh s) k = Some t <-> (tkey (ppcs s t) = Some k /\ holds (tcls (ppcs s t)) = true);
  gi_value : forall k o, value (psh s) k = Some o -> o = outc c k /\ In k (calls (psh s));
  gi_nodup : NoDup (calls (psh s));
  gi_pre : forall t k, tkey (ppcs s t) = Some k -> tcls (ppcs s t) = CPre ->
                       value (psh s) k = None /\ ~ In k (calls (psh s));
  gi_mid : forall t k, tkey (ppcs s t) = Some k -> tcls (ppcs s t) = CMid ->
                       value (psh s) k = None /\ In k (calls (psh s));
  gi_post : forall t k, tkey (ppcs s t) = Some k -> tcls (ppcs s t) = CPost -> value (psh s) k = Some (outc c k);
  gi_called : forall k, In k (calls (psh s)) ->
                        value (psh s) k <> None \/ exists u, tkey (ppcs s u) = Some k /\ tcls (ppcs s u) = CMid;
  gi_use : forall t k, tkey (ppcs s t) = Some k -> tcls (ppcs s t) = CUse -> value (psh s) k = Some (outc c k);
  gi_results : forall t k o, In (k, o) (results (psh s) t) -> o = outc c k /\ value (psh s) k = Some o;
  gi_complete : forall t, map fst (results (psh s) t) ++ map snd (fst (fst (ppcs s t))) = ks t
}.

(* what one instruction does to the part of the shared state the invariant talks about *)
Inductive trans (c : config) (t : task) (e : entry) (k : key) (rest : list lookup) (s : shared) : cls -> ptask -> shared -> Prop :=
| T_stay : forall x p' s', lock s' = lock s -> value s' = value s -> calls s' = calls s -> results s' = results s ->
    fst (fst p') = (e, k) :: rest -> tcls p' = x -> trans c t e k rest s x p' s'
| T_acq : forall p' s', lock s k = None -> lock s' = upd (lock s) k (Some t) -> value s' = value s ->
    calls s' = calls s -> results s' = results s -> fst (fst p') = (e, k) :: rest -> tcls p' = CHold ->
    trans c t e k rest s COut p' s'
| T_hold_pre : forall p' s', value s k = None -> lock s' = lock s -> value s' = value s -> calls s' = calls s ->
    results s' = results s -> fst (fst p') = (e, k) :: rest -> tcls p' = CPre -> trans c t e k rest s CHold p' s'
| T_hold_post : forall p' s' o, value s k = Some o -> lock s' = lock s -> value s' = value s -> calls s' = calls s ->
    results s' = results s -> fst (fst p') = (e, k) :: rest -> tcls p' = CPost -> trans c t e k rest s CHold p' s'
| T_call : forall p' s', lock s' = lock s -> value s' = value s -> calls s' = calls s ++ [k] ->
    results s' = results s -> fst (fst p') = (e, k) :: rest -> tcls p' = CMid -> trans c t e k rest s CPre p' s'
| T_store : forall p' s', lock s' = lock s -> value s' = upd (value s) k (Some (outc c k)) -> calls s' = calls s ->
    results s' = results s -> fst (fst p') = (e, k) :: rest -> tcls p' = CPost -> trans c t e k rest s CMid p' s'
| T_release : forall p' s', lock s' = upd (lock s) k None -> value s' = value s -> calls s' = calls s ->
    results s' = results s -> fst (fst p') = (e, k) :: rest -> tcls p' = CUse -> trans c t e k rest s CPost p' s'
| T_finish : forall s', lock s' = lock s -> value s' = value s -> calls s' = calls s ->
    results s' = upd (results s) t (results s t ++ [(k, outc c k)]) ->
    trans c t e k rest s CUse (rest, [], l0) s'.

Lemma upd_other : forall A (f : nat -> A) i v j, j <> i -> upd f i v j = f j.
Proof. intros. unfold upd. destruct (Nat.eqb j i) eqn:E; [apply Nat.eqb_eq in E; contradiction|reflexivity]. Qed.

Lemma tkey_of_rem : forall (p : ptask) e k rest, fst (fst p) = (e, k) :: rest -> tkey p = Some k.
Proof. intros [[r kk] ll] e k rest H. cbn in *. subst. reflexivity. Qed.

Lemma tkey_rest_cls : forall (rest : list lookup), tcls (rest, [], l0) = COut.
Proof. reflexivity. Qed.

Ltac tsplit u t Hme Hoth :=
  destruct (Nat.eq_dec u t) as [?Heu|?Hne]; [subst u; rewrite ?Hme in * | rewrite ?(Hoth u) in * by assumption].
Ltac ksplit k0 k :=
  destruct (Nat.eq_dec k0 k) as [?Hek|?Hnk]; [subst k0; rewrite ?upd_same in * | rewrite ?upd_other in * by assumption].
Ltac posefacts G u k0 :=
  pose proof (gi_lock _ _ _ G k0 u); pose proof (gi_value _ _ _ G k0);
  pose proof (gi_pre _ _ _ G u k0); pose proof (gi_mid _ _ _ G u k0); pose proof (gi_post _ _ _ G u k0);
  pose proof (gi_use _ _ _ G u k0).
Ltac norm :=
  repeat match goal with
         | H : tkey (ppcs ?s ?t) = Some ?k |- _ => progress (rewrite H in * |-) 
         | H : tcls ?p = ?x |- _ => progress (rewrite H in * |-)
         | H : tkey ?p = Some ?k |- _ => is_var p; progress (rewrite H in * |-)
         end;
  repeat match goal with
         | H : tkey ?p = Some ?k |- _ => rewrite H
         | H : tcls ?p = ?x |- _ => rewrite H
         end;
  cbn [holds tcls cls_of snd fst] in *.
Ltac fin := norm; intuition (try congruence; try discriminate).

Lemma NoDup_app_single : forall (l : list key) k, NoDup l -> ~ In k l -> NoDup (l ++ [k]).
Proof.
  induction l as [|x r IH]; intros k Hn Hi; cbn.
  - constructor; [intros []|constructor].
  - inversion Hn; subst. constructor.
    + intro X. apply in_app_or in X. destruct X as [X|[X|[]]]; [contradiction|]. subst. apply Hi. left. reflexivity.
    + apply IH; [assumption|]. intro X. apply Hi. right. exact X.
Qed.

Section Step.
Variable c : config.
Variable ks : task -> list key.

Lemma gi_trans : forall s t e k rest kont l p' s',
  GI c ks s -> ppcs s t = ((e, k) :: rest, kont, l) ->
  trans c t e k rest (psh s) (cls_of kont) p' s' -> local_ok c p' ->
  GI c ks {| ppcs := upd (ppcs s) t p'; psh := s' |}.
Proof.
  intros s t e k rest kont l p' s' G E T L.
  assert (Hk : tkey (ppcs s t) = Some k) by (rewrite E; reflexivity).
  assert (Hc : tcls (ppcs s t) = cls_of kont) by (rewrite E; reflexivity).
  assert (Hoth : forall u, u <> t -> upd (ppcs s) t p' u = ppcs s u) by (intros; apply upd_other; assumption).
  assert (Hme : upd (ppcs s) t p' t = p') by apply upd_same.
  (* no other task holds k while t holds it *)
  assert (Hexcl : forall u, holds (cls_of kont) = true -> tkey (ppcs s u) = Some k -> holds (tcls (ppcs s u)) = true -> u = t).
  { intros u Hh Hu1 Hu2.
    assert (A : lock (psh s) k = Some t) by (apply (gi_lock c ks s G); rewrite Hk, Hc; auto).
    assert (B : lock (psh s) k = Some u) by (apply (gi_lock c ks s G); auto).
    congruence. }
  assert (Hfree : forall u, lock (psh s) k = None -> tkey (ppcs s u) = Some k -> holds (tcls (ppcs s u)) = true -> False).
  { intros u Hn Hu1 Hu2.
    assert (B : lock (psh s) k = Some u) by (apply (gi_lock c ks s G); auto). congruence. }
  assert (Ft_lock : lock (psh s) k = Some t <-> holds (cls_of kont) = true).
  { rewrite (gi_lock c ks s G k t), Hk, Hc. intuition. }
  assert (Ft_pre : cls_of kont = CPre -> value (psh s) k = None /\ ~ In k (calls (psh s))).
  { intro X. apply (gi_pre c ks s G t k Hk). rewrite Hc. exact X. }
  assert (Ft_mid : cls_of kont = CMid -> value (psh s) k = None /\ In k (calls (psh s))).
  { intro X. apply (gi_mid c ks s G t k Hk). rewrite Hc. exact X. }
  assert (Ft_post : cls_of kont = CPost -> value (psh s) k = Some (outc c k)).
  { intro X. apply (gi_post c ks s G t k Hk). rewrite Hc. exact X. }
  assert (Ft_called : In k (calls (psh s)) -> holds (cls_of kont) = true -> cls_of kont <> CMid -> value (psh s) k <> None).
  { intros Hin Hh Hnm. destruct (gi_called c ks s G k Hin) as [V|(u & U1 & U2)]; [exact V|].
    assert (u = t) by (apply Hexcl; auto; rewrite U2; reflexivity). subst u. rewrite Hc in U2. contradiction. }
  assert (Ft_use : cls_of kont = CUse -> value (psh s) k = Some (outc c k)).
  { intro X. apply (gi_use c ks s G t k Hk). rewrite Hc. exact X. }
  inversion T; subst; clear T.
  all: try match goal with Hrem : fst (fst ?p) = (_, ?k1) :: _ |- _ => pose proof (tkey_of_rem _ _ _ _ Hrem) as Htk end.
  all: repeat match goal with H : ?X = cls_of ?K |- _ => rewrite <- H in *; clear H end.
  all: cbn [holds] in *.
  all: constructor; cbn [ppcs psh].
  all: repeat match goal with H : lock ?x = _ |- _ => rewrite H; clear H end.
  all: repeat match goal with H : value ?x = _ |- _ => rewrite H; clear H end.
  all: repeat match goal with H : calls ?x = _ |- _ => rewrite H; clear H end.
  all: repeat match goal with H : results ?x = _ |- _ => rewrite H; clear H end.
  (* gi_local *)
  all: try (intro u; destruct (Nat.eq_dec u t) as [->|Hne]; [rewrite Hme; exact L | rewrite (Hoth u Hne); apply (gi_local c ks s G)]).
  all: try solve [ intros kk uu; posefacts G uu kk; tsplit uu t Hme Hoth; ksplit kk k; fin ].
  all: try solve [ intros uu kk; posefacts G uu kk; tsplit uu t Hme Hoth; ksplit kk k; fin ].
  all: try solve [ intros kk oo; pose proof (gi_value c ks s G kk oo); ksplit kk k; fin ].
  (* gi_called when neither the log nor the values change *)
  all: try solve [ intros kk Hin; destruct (gi_called c ks s G kk Hin) as [V|(uu & U1 & U2)]; [left; exact V|];
                   destruct (Nat.eq_dec uu t) as [->|Hne];
                   [ rewrite Hk in U1; rewrite Hc in U2; first [discriminate | right; exists t; rewrite Hme; split; congruence]
                   | right; exists uu; rewrite (Hoth uu Hne); auto ] ].
  all: try exact (gi_nodup c ks s G).
  all: try exact (gi_results c ks s G).
  (* gi_complete when neither the results nor the remaining lookups change *)
  all: try solve [ intro uu; destruct (Nat.eq_dec uu t) as [->|Hne];
                   [ rewrite Hme; pose proof (gi_complete c ks s G t) as X; rewrite E in X; rewrite <- X;
                     f_equal; f_equal; assumption
                   | rewrite (Hoth uu Hne); apply (gi_complete c ks s G) ] ].
  - (* T_hold_post, gi_post: the value t has just seen is the scripted one *)
    intros uu kk A B. posefacts G uu kk. tsplit uu t Hme Hoth.
    + assert (kk = k) by congruence. subst kk.
      match goal with V : value (psh s) k = Some ?o |- _ => destruct (gi_value c ks s G k o V) as [-> _]; exact V end.
    + fin.
  - (* T_call, gi_value *)
    intros kk oo V. destruct (gi_value c ks s G kk oo V) as [A B]. split; [exact A|]. apply in_or_app. left. exact B.
  - (* T_call, gi_nodup *)
    destruct (Ft_pre eq_refl) as [_ Hn]. apply NoDup_app_single; [apply (gi_nodup c ks s G)|exact Hn].
  - (* T_call, gi_pre: another task about to call has another key *)
    intros uu kk A B. posefacts G uu kk. tsplit uu t Hme Hoth.
    + norm. congruence.
    + assert (kk <> k).
      { intro X. subst kk. apply Hne. apply Hexcl; auto. rewrite B. reflexivity. }
      assert (Q : value (psh s) kk = None /\ ~ In kk (calls (psh s))) by auto.
      destruct Q as [Q1 Q2]. split; [exact Q1|]. intro X. apply in_app_or in X. destruct X as [X|[X|[]]]; [auto|congruence].
  - (* T_call, gi_mid *)
    intros uu kk A B. posefacts G uu kk. tsplit uu t Hme Hoth.
    + assert (kk = k) by congruence. subst kk. destruct (Ft_pre eq_refl) as [Q _]. split; [exact Q|].
      apply in_or_app. right. left. reflexivity.
    + assert (Q : value (psh s) kk = None /\ In kk (calls (psh s))) by auto.
      destruct Q as [Q1 Q2]. split; [exact Q1|]. apply in_or_app. left. exact Q2.
  - (* T_call, gi_called *)
    intros kk Hin. apply in_app_or in Hin. destruct Hin as [Hin|[<-|[]]].
    + destruct (gi_called c ks s G kk Hin) as [V|(uu & U1 & U2)]; [left; exact V|].
      destruct (Nat.eq_dec uu t) as [->|Hne].
      * rewrite Hc in U2. discriminate.
      * right. exists uu. rewrite (Hoth uu Hne). auto.
    + right. exists t. rewrite Hme. split; assumption.
  - (* T_store, gi_mid *)
    intros uu kk A B. posefacts G uu kk. tsplit uu t Hme Hoth.
    + norm. congruence.
    + assert (kk <> k).
      { intro X. subst kk. apply Hne. apply Hexcl; auto. rewrite B. reflexivity. }
      rewrite upd_other by assumption. auto.
  - (* T_store, gi_called *)
    intros kk Hin. destruct (Nat.eq_dec kk k) as [->|Hnk].
    + left. rewrite upd_same. discriminate.
    + rewrite upd_other by assumption.
      destruct (gi_called c ks s G kk Hin) as [V|(uu & U1 & U2)]; [left; exact V|].
      destruct (Nat.eq_dec uu t) as [->|Hne].
      * rewrite Hk in U1. congruence.
      * right. exists uu. rewrite (Hoth uu Hne). auto.
  - (* T_store, gi_results: the key stored now had no value, so no recorded result is for it *)
    intros uu kk oo Hin. destruct (gi_results c ks s G uu kk oo Hin) as [A B]. split; [exact A|].
    destruct (Nat.eq_dec kk k) as [->|Hnk].
    + destruct (Ft_mid eq_refl) as [V _]. congruence.
    + rewrite upd_other by assumption. exact B.
  - (* T_finish, gi_results *)
    intros uu kk oo Hin. destruct (Nat.eq_dec uu t) as [->|Hne].
    + rewrite upd_same in Hin. apply in_app_or in Hin. destruct Hin as [Hin|[Hin|[]]].
      * apply (gi_results c ks s G t kk oo Hin).
      * inversion Hin; subst. split; [reflexivity|]. apply Ft_use. reflexivity.
    + rewrite upd_other in Hin by assumption. apply (gi_results c ks s G uu kk oo Hin).
  - (* T_finish, gi_complete *)
    intro uu. destruct (Nat.eq_dec uu t) as [->|Hne].
    + rewrite Hme, upd_same. pose proof (gi_complete c ks s G t) as X. rewrite E in X. cbn in X. cbn.
      rewrite map_app, <- app_assoc. cbn. exact X.
    + rewrite (Hoth uu Hne), upd_other by assumption. apply (gi_complete c ks s G).
Qed.

Ltac in_list := cbn; repeat (first [left; reflexivity | right]).
Ltac lok := first [ left; reflexivity
                  | match goal with |- local_ok _ (?r, [], _) => destruct r as [|[? ?] ?]; [reflexivity | left; reflexivity] end
                  | right; unfold linv; refine (conj _ (conj _ (conj _ (conj _ _))));
                    [ in_list | reflexivity | reflexivity | cbn; intros; try discriminate; try reflexivity; try assumption; try congruence
                    | cbn; intros; try discriminate; try congruence ] ].
Ltac trans_tac :=
  first [ apply T_finish; reflexivity
        | apply T_stay; reflexivity
        | apply T_acq; first [assumption | reflexivity]
        | apply T_hold_pre; first [assumption | reflexivity]
        | eapply T_hold_post; first [eassumption | reflexivity]
        | apply T_call; reflexivity
        | apply T_store; reflexivity
        | apply T_release; reflexivity ].

Lemma gi_pmstep : forall s t, GI c ks s -> GI c ks (pmstep canon c t s).
Proof.
  intros s t G. unfold pmstep.
  destruct (ppcs s t) as [[rem kont] l] eqn:E.
  destruct rem as [|[e k] rest]; [exact G|].
  pose proof (gi_local c ks s G t) as L0. rewrite E in L0. cbn in L0.
  destruct L0 as [->|(Hin & Hf & Hg & Hr & Hlk)].
  - (* the lookup has not begun: the entry point's first instruction *)
    destruct e; cbn;
      (eapply (gi_trans s t _ k rest [] l _ _ G E); [trans_tac | lok]).
  - destruct l as [g w f0 tk r ls lk]. cbn in Hf, Hg.
    destruct e; cbn in Hin;
      repeat (destruct Hin as [<-|Hin]; [|]); try contradiction; cbn in Hf, Hg, Hr, Hlk; subst.
    all: try (specialize (Hr eq_refl); subst r).
    all: try (specialize (Hlk eq_refl); destruct lk as [lf|]; [|contradiction]).
    all: cbn.
    all: try (rewrite (gi_post c ks s G t k ltac:(rewrite E; reflexivity) ltac:(rewrite E; reflexivity))).
    all: try (match goal with |- context [lock (psh ?s0) ?k0] => destruct (lock (psh s0) k0) eqn:Hlock end).
    all: try (match goal with |- context [value (psh ?s0) ?k0] => destruct (value (psh s0) k0) eqn:Hval end).
    all: try (match goal with |- context [match ?n with O => _ | S _ => _ end] => is_var n; destruct n end).
    all: cbn.
    all: try solve [eapply (gi_trans s t _ k rest _ _ _ _ G E); [trans_tac | lok]].
Qed.
End Step.

(* ---- every instruction-level run ---- *)
Definition allkeys (pc : pconfig) (t : task) : list key := map snd (nth t (ptasks pc) []).

Lemma gi_init : forall pc, GI (cfg pc) (allkeys pc) (pinit pc).
Proof.
  intro pc. constructor; cbn.
  - intro t. unfold local_ok. destruct (nth t (ptasks pc) []) as [|[e k] r]; [reflexivity|left; reflexivity].
  - intros k t. split; [discriminate|]. intros [_ H]. discriminate.
  - discriminate.
  - constructor.
  - intros t k _ H. discriminate.
  - intros t k _ H. discriminate.
  - intros t k _ H. discriminate.
  - intros k [].
  - intros t k _ H. discriminate.
  - intros t k o [].
  - intro t. reflexivity.
Qed.

Lemma pmrun_gi : forall pc ms, GI (cfg pc) (allkeys pc) (pmrun canon pc ms).
Proof.
  intros pc ms. unfold pmrun. generalize (gi_init pc). generalize (pinit pc).
  induction ms as [|t r IH]; intros s G; cbn; [exact G|]. apply IH. apply gi_pmstep. exact G.
Qed.

(* ---- no deadlock at instruction granularity: the only instruction that can fail to make progress is a
        lock().await on a held lock; while some task is unfinished, some unfinished task is not in that situation ---- *)
Definition blocked (s : pstate) (t : task) : bool :=
  match ppcs s t with
  | ((_, k) :: _, ILockAwait :: _, _) => match lock (psh s) k with Some _ => true | None => false end
  | _ => false
  end.

Lemma pmstep_range : forall P c n t s,
  (forall u, n <= u -> fst (fst (ppcs s u)) = []) -> (forall u, n <= u -> fst (fst (ppcs (pmstep P c t s) u)) = []).
Proof.
  intros P c n t s H u Hu. unfold pmstep.
  destruct (ppcs s t) as [[rem kont] l] eqn:E. destruct rem as [|[e k] rest]; [apply H; exact Hu|].
  assert (u <> t). { intro X. subst u. specialize (H t Hu). rewrite E in H. discriminate. }
  destruct (match kont with [] => (p_entry P e, l0) | _ :: _ => (kont, l) end) as [[|i more] li]; cbn [ppcs].
  - rewrite upd_other by assumption. apply H; exact Hu.
  - destruct (istep P c t k i more li (psh s)) as [[|x y] ? ?| ? ? ?|]; cbn [ppcs];
      rewrite upd_other by assumption; apply H; exact Hu.
Qed.

Lemma pmrun_range : forall P pc ms u, length (ptasks pc) <= u -> fst (fst (ppcs (pmrun P pc ms) u)) = [].
Proof.
  intros P pc ms. unfold pmrun.
  assert (H0 : forall u, length (ptasks pc) <= u -> fst (fst (ppcs (pinit pc) u)) = []).
  { intros u Hu. cbn. apply nth_overflow. exact Hu. }
  revert H0. generalize (pinit pc). induction ms as [|t r IH]; intros s H; cbn; [exact H|].
  apply IH. apply pmstep_range. exact H.
Qed.

Section FineTheorems.
Variable pc : pconfig.
Variable ms : list task.
Local Notation s := (pmrun canon pc ms).

Lemma pm_at_most_once : forall k, psupplier_calls s k <= 1.
Proof.
  intro k. unfold psupplier_calls. pose proof (gi_nodup _ _ _ (pmrun_gi pc ms)) as H.
  rewrite (NoDup_count_occ Nat.eq_dec) in H. apply H.
Qed.

Lemma pm_same_outcome : forall t i k o, ptask_result s t i = Some (k, o) -> o = outc (pbase pc) k.
Proof.
  intros t i k o H. unfold ptask_result in H. apply nth_error_In in H.
  apply (gi_results _ _ _ (pmrun_gi pc ms) t k o H).
Qed.

(* the slot's lock is held by t exactly when t is inside get for that slot, between the acquisition and the end of
   get; hence two tasks are never inside the critical section of one slot *)
Lemma pm_mutual_exclusion : forall k t u,
  lock (psh s) k = Some t ->
  tkey (ppcs s u) = Some k -> holds (tcls (ppcs s u)) = true -> u = t.
Proof.
  intros k t u Ht Hu1 Hu2.
  assert (B : lock (psh s) k = Some u) by (apply (gi_lock _ _ _ (pmrun_gi pc ms)); auto). congruence.
Qed.

Lemma pm_lock_iff : forall k t,
  lock (psh s) k = Some t <-> (tkey (ppcs s t) = Some k /\ holds (tcls (ppcs s t)) = true).
Proof. intros. apply (gi_lock _ _ _ (pmrun_gi pc ms)). Qed.

(* a remembered value is the supplier's scripted answer, and the supplier was asked for it *)
Lemma pm_value : forall k o, value (psh s) k = Some o -> o = outc (pbase pc) k /\ psupplier_calls s k = 1.
Proof.
  intros k o H. destruct (gi_value _ _ _ (pmrun_gi pc ms) k o H) as [A B]. split; [exact A|].
  pose proof (pm_at_most_once k). unfold psupplier_calls in *.
  apply (count_occ_In Nat.eq_dec) in B. lia.
Qed.

(* no request is lost: when every task has finished, each has one result per lookup, in order *)
Lemma pm_results_complete : forall t,
  pall_done pc s = true -> map fst (results (psh s) t) = map snd (nth t (ptasks pc) []).
Proof.
  intros t Hd. pose proof (gi_complete _ _ _ (pmrun_gi pc ms) t) as X. unfold allkeys in X.
  assert (R : fst (fst (ppcs s t)) = []).
  { destruct (Nat.lt_ge_cases t (length (ptasks pc))) as [A|A].
    - unfold pall_done in Hd. rewrite forallb_forall in Hd. specialize (Hd t).
      assert (In t (seq 0 (length (ptasks pc)))) by (apply in_seq; lia). specialize (Hd H).
      unfold ptask_done in Hd. destruct (fst (fst (ppcs s t))); [reflexivity|discriminate].
    - apply pmrun_range. exact A. }
  rewrite R in X. cbn in X. rewrite app_nil_r in X. exact X.
Qed.

(* ... and every requested slot was fetched exactly once *)
Lemma pm_exactly_once : forall k,
  pall_done pc s = true -> In k (concat (tasks (cfg pc))) -> psupplier_calls s k = 1.
Proof.
  intros k Hd Hk. cbn [cfg tasks] in Hk. apply in_concat in Hk. destruct Hk as (l & Hl & Hkl).
  apply in_map_iff in Hl. destruct Hl as (lk & <- & Hlk).
  apply (In_nth _ _ []) in Hlk. destruct Hlk as (t & _ & <-).
  assert (Hkl' : In k (map fst (results (psh s) t))) by (rewrite (pm_results_complete t Hd); exact Hkl).
  clear Hkl. rename Hkl' into Hkl. apply in_map_iff in Hkl. destruct Hkl as ([k' o] & Hf & Hin).
  cbn in Hf. subst k'. destruct (gi_results _ _ _ (pmrun_gi pc ms) t k o Hin) as [_ V].
  apply (pm_value k o V).
Qed.

(* no task panics (unwrap of an empty slot), none is left with an ill-formed continuation *)
Lemma pm_never_stuck : forall t, snd (fst (ppcs s t)) <> [IAbort].
Proof.
  intro t. pose proof (gi_local _ _ _ (pmrun_gi pc ms) t) as L. unfold local_ok in L.
  destruct (ppcs s t) as [[rem kont] l]. cbn. destruct rem as [|[e k] r].
  - subst. discriminate.
  - destruct L as [->|(Hin & _)]; [discriminate|].
    intro X. subst kont. destruct e; cbn in Hin; intuition discriminate.
Qed.
End FineTheorems.

Lemma forallb_false_ex : forall (f : nat -> bool) l, forallb f l = false -> exists x, In x l /\ f x = false.
Proof.
  induction l as [|a r IH]; cbn; intro H; [discriminate|].
  destruct (f a) eqn:Fa.
  - destruct (IH H) as (x & A & B). exists x. auto.
  - exists a. auto.
Qed.

Lemma pm_no_deadlock : forall (pc : pconfig) (ms : list task),
  pall_done pc (pmrun canon pc ms) = false ->
  exists t, t < length (ptasks pc) /\ ptask_done (pmrun canon pc ms) t = false /\ blocked (pmrun canon pc ms) t = false.
Proof.
  intros pc ms Hd. set (s := pmrun canon pc ms) in *.
  pose proof (pmrun_gi pc ms) as G. fold s in G.
  unfold pall_done in Hd.
  destruct (forallb_false_ex _ _ Hd) as (t0 & Hin & Hnd).
  assert (Hlt : t0 < length (ptasks pc)) by (apply in_seq in Hin; lia).
  destruct (blocked s t0) eqn:Hb; [|exists t0; auto].
  unfold blocked in Hb. destruct (ppcs s t0) as [[rem kont] l] eqn:E.
  destruct rem as [|[e k] rest]; [discriminate|]. destruct kont as [|i more]; [discriminate|].
  destruct i; try discriminate. destruct (lock (psh s) k) as [u|] eqn:Hl; [|discriminate].
  apply (gi_lock _ _ _ G) in Hl. destruct Hl as [U1 U2].
  exists u. split; [|split].
  - destruct (Nat.lt_ge_cases u (length (ptasks pc))) as [A|A]; [exact A|].
    pose proof (pmrun_range canon pc ms u A) as R. fold s in R. unfold tkey in U1. rewrite R in U1. discriminate.
  - unfold ptask_done. unfold tkey in U1. destruct (fst (fst (ppcs s u))); [discriminate|reflexivity].
  - unfold blocked. destruct (ppcs s u) as [[rem' kont'] l']. unfold tcls in U2. cbn in U2.
    destruct rem' as [|[e' k'] r']; [reflexivity|]. destruct kont' as [|i' m']; [reflexivity|].
    destruct i'; try reflexivity. cbn in U2. discriminate.
Qed.

(* ---- for the program regenerated from the source ---- *)
From RM Require Import C12.ProgSource Gen.C12Program.

Lemma src_pm_at_most_once : forall (pc : pconfig) (ms : list task) (k : key),
  psupplier_calls (pmrun src_program pc ms) k <= 1.
Proof. rewrite src_is_canon. exact pm_at_most_once. Qed.

Lemma src_pm_same_outcome : forall (pc : pconfig) (ms : list task) (t : task) (i : nat) (k : key) (o : outcome),
  ptask_result (pmrun src_program pc ms) t i = Some (k, o) -> o = outc (pbase pc) k.
Proof. rewrite src_is_canon. exact pm_same_outcome. Qed.

Lemma src_pm_mutual_exclusion : forall (pc : pconfig) (ms : list task) (k : key) (t u : task),
  lock (psh (pmrun src_program pc ms)) k = Some t ->
  tkey (ppcs (pmrun src_program pc ms) u) = Some k -> holds (tcls (ppcs (pmrun src_program pc ms) u)) = true -> u = t.
Proof. rewrite src_is_canon. exact pm_mutual_exclusion. Qed.

Lemma src_pm_value : forall (pc : pconfig) (ms : list task) (k : key) (o : outcome),
  value (psh (pmrun src_program pc ms)) k = Some o ->
  o = outc (pbase pc) k /\ psupplier_calls (pmrun src_program pc ms) k = 1.
Proof. rewrite src_is_canon. exact pm_value. Qed.

Lemma src_pm_no_deadlock : forall (pc : pconfig) (ms : list task),
  pall_done pc (pmrun src_program pc ms) = false ->
  exists t, t < length (ptasks pc) /\ ptask_done (pmrun src_program pc ms) t = false /\
            blocked (pmrun src_program pc ms) t = false.
Proof. rewrite src_is_canon. exact pm_no_deadlock. Qed.

Lemma src_pm_results_complete : forall (pc : pconfig) (ms : list task) (t : task),
  pall_done pc (pmrun src_program pc ms) = true ->
  map fst (results (psh (pmrun src_program pc ms)) t) = map snd (nth t (ptasks pc) []).
Proof. rewrite src_is_canon. exact pm_results_complete. Qed.

Lemma src_pm_exactly_once : forall (pc : pconfig) (ms : list task) (k : key),
  pall_done pc (pmrun src_program pc ms) = true -> In k (concat (tasks (cfg pc))) ->
  psupplier_calls (pmrun src_program pc ms) k = 1.
Proof. rewrite src_is_canon. exact pm_exactly_once. Qed.

Lemma src_pm_never_stuck : forall (pc : pconfig) (ms : list task) (t : task),
  snd (fst (ppcs (pmrun src_program pc ms) t)) <> [IAbort].
Proof. rewrite src_is_canon. exact pm_never_stuck. Qed.

(* an interleaving no poll schedule has: task 1 finds the slot locked while task 0 stands between
   `symbols_requested += 1` and the supplier call (requested = 1, log still empty) *)
Definition two_fill : pconfig :=
  {| ptasks := [[(EFill, 0)]; [(EWalk, 0)]];
     pbase := {| tasks := []; susp := fun _ => 0; outc := fun _ => OLoad; leaf := fun k => k |} |}.
Lemma pm_nonvacuous :
  let s1 := pmrun src_program two_fill [0; 0; 0; 0; 0; 1; 1] in
  req (psh s1) = 1 /\ calls (psh s1) = [] /\ lock (psh s1) 0 = Some 0 /\ waiting (snd (ppcs s1 1)) = true /\
  tcls (ppcs s1 0) = CPre /\
  let s2 := pmrun src_program two_fill ([0; 0; 0; 0; 0; 1; 1] ++ repeat 0 14 ++ repeat 1 8) in
  ptask_done s2 0 = true /\ ptask_done s2 1 = true /\ calls (psh s2) = [0] /\
  results (psh s2) 0 = [(0, OLoad)] /\ results (psh s2) 1 = [(0, OLoad)] /\ req (psh s2) = 1 /\ proc (psh s2) = 1.
Proof. vm_compute. repeat split. Qed.
