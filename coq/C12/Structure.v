(* C12/Structure.v — the shape of the source that C12/Model.v was written from (round 4).
   Gen/C12Structure.v is regenerated from breakpad-symbols/src/{lib,http}.rs on every run by
   translate/c12_structure.py; C12/Properties.v proves the generated data equal to the data below.
   How the operations map to the model:
     GLockAwait              MutexLockFuture polled: phase Start/Wait -> (lock free) continue, else Wait
     GIfNoneStoreCallAwait   value absent: begin_call (closure up to the supplier await, guard HELD across the await),
                             Sup n ticks, then complete stores the value; value present: hit
     GReturnClone            the result recorded in [results]; the guard is dropped at the end of get (unlock)
     CRequestedInc .. CSupplierAwait     begin_call: req + 1, calls ++ [k]   (before the await)
     CProcessedInc .. CStatsInsert       complete: proc + 1, stats (leaf k) := outcome     (after the await)
   [model_stats_arms] is computed from Model.stat_loaded / stat_corrupt, so the classification the model uses is
   the one the source's match performs. *)
From Coq Require Import List String Bool.
From RM Require Import C12.Model Gen.C12Structure.
Import ListNotations.
Open Scope string_scope.

Definition model_futmutex : string := "futures_util::lock::Mutex".
Definition model_slot_fields : list string := ["inner:FutMutex<Option<Arc<Result<T,E>>>>"].
Definition model_get_ops : list get_op := [GLockAwait; GIfNoneStoreCallAwait; GReturnClone].
Definition model_module_key_type : string := "(String,Option<String>,Option<String>,Option<String>)".
Definition model_module_key : list string := ["code_file"; "code_identifier"; "debug_file"; "debug_identifier"].
Definition model_get_symbols_wrapper : string := "self.symbols.cache_default(module_key(module)).get(||async{..}).await".
Definition model_closure_ops : list closure_op :=
  [CRequestedInc; CSupplierAwait; CProcessedInc; CStatsNew; CStatsClassify; CLeafKey; CStatsInsert; CReturnResult].

Definition variant_name (o : outcome) : string :=
  match o with
  | OOk => "Ok" | ONotFound => "NotFound" | OMissing => "MissingDebugFileOrId"
  | OLoad => "LoadError" | OParse => "ParseError"
  end.
Definition model_stats_arms : list (string * bool * bool) :=
  map (fun o => (variant_name o, stat_loaded o, stat_corrupt o)) [OOk; ONotFound; OMissing; OLoad; OParse].

Definition model_entry_points : list (string * string) :=
  [("fill_symbol", "letcached_sym=self.get_symbols(module).await;");
   ("walk_frame", "letcached_sym=self.get_symbols(module).await;");
   ("get_file_path", "self.supplier.locate_file(module,file_kind).await")].
Definition model_file_key_type : string := "(ModuleKey,FileKind)".
Definition model_file_key : string := "(module_key(module),file_kind)".
Definition model_cached_file_paths_type : string := "CacheMap<FileKey,CachedAsyncResult<(PathBuf,Option<Url>),FileError>>".
Definition model_locate_file_wrapper : string :=
  "self.cached_file_paths.cache_default(file_key(module,file_kind)).get(||async{..}).await.as_ref().clone()".
(* the only writers of the counters / the stats map / the slot maps are get_symbols and locate_file_internal *)
Definition model_touching : list (string * string * list string) := [
  ("lib.rs", "default", ["CachedAsyncResult"; "FutMutex"]);
  ("lib.rs", "new", ["pending_stats"]);
  ("lib.rs", "stats", ["self.stats"]);
  ("lib.rs", "pending_stats", ["pending_stats"]);
  ("lib.rs", "get_symbols", ["pending_stats"; "symbols_requested"; "symbols_processed"; "self.stats"; "self.symbols"; "self.supplier"; "cache_default"]);
  ("lib.rs", "get_file_path", ["self.supplier"]);
  ("http.rs", "new", ["cached_file_paths"]);
  ("http.rs", "locate_file_internal", ["cached_file_paths"; "cache_default"])
].

Definition structure_matches : Prop :=
  src_futmutex = model_futmutex /\ src_slot_fields = model_slot_fields /\ src_get_ops = model_get_ops /\
  src_module_key_type = model_module_key_type /\ src_module_key = model_module_key /\
  src_get_symbols_wrapper = model_get_symbols_wrapper /\ src_closure_ops = model_closure_ops /\
  src_stats_arms = model_stats_arms /\ src_entry_points = model_entry_points /\
  src_file_key_type = model_file_key_type /\ src_file_key = model_file_key /\
  src_cached_file_paths_type = model_cached_file_paths_type /\
  src_locate_file_wrapper = model_locate_file_wrapper /\ src_touching = model_touching.

Lemma structure_ok : structure_matches.
Proof. unfold structure_matches. repeat split; vm_compute; reflexivity. Qed.
