(* C12/Progress.v — liveness: no state is stuck, and fair schedules finish within a bound. *)
From Coq Require Import List Arith Bool Lia.
From RM Require Import C12.Model C12.Proofs.
Import ListNotations.

(* ---------- sums over task ids ---------- *)
Lemma sum_upto_ext : forall n f g, (forall t, t < n -> f t = g t) -> sum_upto n f = sum_upto n g.
Proof.
  induction n as [|n IH]; intros f g H; [reflexivity|].
  cbn [sum_upto]. rewrite (IH f g), (H n); auto.
Qed.

Lemma sum_upto_zero : forall n f, sum_upto n f = 0 <-> (forall t, t < n -> f t = 0).
Proof.
  induction n as [|n IH]; intros f; cbn [sum_upto].
  - split; [intros _ t Ht; lia|reflexivity].
  - split.
    + intros H t Ht. assert (H1 : sum_upto n f = 0) by lia. assert (H2 : f n = 0) by lia.
      destruct (Nat.eq_dec t n) as [E|N]; [now subst|]. apply (proj1 (IH f) H1). lia.
    + intros H. rewrite (proj2 (IH f)), (H n); auto.
Qed.

Lemma sum_upto_upd_ge : forall A (g : A -> nat) (p : nat -> A) t v n, n <= t ->
  sum_upto n (fun x => g (upd p t v x)) = sum_upto n (fun x => g (p x)).
Proof.
  intros A g p t v n Hn. apply sum_upto_ext. intros x Hx. rewrite upd_other; [reflexivity|lia].
Qed.

Lemma sum_upto_upd_lt : forall A (g : A -> nat) (p : nat -> A) t v n, t < n ->
  sum_upto n (fun x => g (upd p t v x)) + g (p t) = sum_upto n (fun x => g (p x)) + g v.
Proof.
  intros A g p t v. induction n as [|n IH]; intros Ht; [lia|].
  cbn [sum_upto]. destruct (Nat.eq_dec t n) as [E|N].
  - subst t. rewrite upd_same. rewrite (sum_upto_upd_ge A g p n v n) by lia. lia.
  - rewrite (upd_other _ p t v n) by (intro; subst; contradiction).
    assert (Hlt : t < n) by lia. specialize (IH Hlt). lia.
Qed.

Lemma forallb_false : forall A (f : A -> bool) l, forallb f l = false -> exists x, In x l /\ f x = false.
Proof.
  induction l as [|a l IH]; cbn [forallb]; intros H; [discriminate|].
  destruct (f a) eqn:E.
  - destruct (IH H) as (x & Hx & Hf). exists x. split; [now right|assumption].
  - exists a. split; [now left|assumption].
Qed.

Lemma firstn_plus : forall A n m (l : list A), firstn (n + m) l = firstn n l ++ firstn m (skipn n l).
Proof.
  induction n as [|n IH]; intros m l; [reflexivity|].
  destruct l as [|a l]; cbn [plus firstn skipn app].
  - now rewrite firstn_nil.
  - now rewrite IH.
Qed.

Lemma skipn_plus : forall A n m (l : list A), skipn m (skipn n l) = skipn (n + m) l.
Proof.
  induction n as [|n IH]; intros m l; [reflexivity|].
  destruct l as [|a l]; cbn [plus skipn]; [now rewrite skipn_nil|apply IH].
Qed.

Section Progress.
Variable c : config.

Lemma tcost_nosup : forall rem ph, not_sup ph -> tcost c (rem, ph) = cost c rem.
Proof. intros [|k rest] [| |m] H; try reflexivity; destruct H. Qed.

Lemma tcost_sup : forall k rest m, tcost c (k :: rest, Sup m) = S m + cost c rest.
Proof. reflexivity. Qed.

Lemma tcost_nil : forall ph, tcost c ([], ph) = 0.
Proof. intros [| |m]; reflexivity. Qed.

(* a poll of a task either strictly lowers that task's cost, or it changes nothing
   shared — and then the task has finished or is blocked on a lock somebody holds *)
Lemma advance_progress : forall t rem ph s rem' ph' s',
  advance c t rem ph s = (rem', ph', s') ->
  tcost c (rem', ph') < tcost c (rem, ph) \/
  (s' = s /\ tcost c (rem', ph') = tcost c (rem, ph) /\
   (rem = [] \/ exists k rest h, rem = k :: rest /\ not_sup ph /\ lock s k = Some h)).
Proof.
  intros t rem. induction rem as [|k rest IH]; intros ph s rem' ph' s' Ha.
  - cbn [advance] in Ha. inversion Ha; subst. right. repeat split; auto.
  - assert (Hcont : forall s0, advance c t rest Start s0 = (rem', ph', s') ->
                    tcost c (rem', ph') <= cost c rest).
    { intros s0 H0. apply IH in H0. rewrite (tcost_nosup rest Start I) in H0.
      destruct H0 as [H0|(_ & H0 & _)]; lia. }
    cbn [advance] in Ha.
    assert (Hnosup : not_sup ph ->
      match lock s k with
      | Some _ => (k :: rest, Wait, s)
      | None =>
          match value s k with
          | Some o => advance c t rest Start (hit t k o s)
          | None =>
              match susp c k with
              | 0 => advance c t rest Start (complete c t k (begin_call t k s))
              | S m => (k :: rest, Sup m, begin_call t k s)
              end
          end
      end = (rem', ph', s') ->
      tcost c (rem', ph') < tcost c (k :: rest, ph) \/
      (s' = s /\ tcost c (rem', ph') = tcost c (k :: rest, ph) /\
       (k :: rest = [] \/ exists k0 rest0 h, k :: rest = k0 :: rest0 /\ not_sup ph /\ lock s k0 = Some h))).
    { intros Hn H0. rewrite (tcost_nosup (k :: rest) ph Hn). cbn [cost].
      destruct (lock s k) as [h|] eqn:Hl.
      - inversion H0; subst. right. rewrite (tcost_nosup (k :: rest) Wait I). cbn [cost].
        repeat split; auto. right. exists k, rest, h. auto.
      - left. destruct (value s k) as [o|].
        + apply Hcont in H0. lia.
        + destruct (susp c k) as [|m].
          * apply Hcont in H0. lia.
          * inversion H0; subst. rewrite tcost_sup. lia. }
    destruct ph as [| |[|m]].
    + now apply Hnosup.
    + now apply Hnosup.
    + left. apply Hcont in Ha. rewrite tcost_sup. lia.
    + left. inversion Ha; subst. rewrite !tcost_sup. lia.
Qed.

Lemma advance_enabled : forall t k rest ph s rem' ph' s',
  advance c t (k :: rest) ph s = (rem', ph', s') ->
  (exists m, ph = Sup m) \/ lock s k = None ->
  tcost c (rem', ph') < tcost c (k :: rest, ph).
Proof.
  intros t k rest ph s rem' ph' s' Ha Hen.
  destruct (advance_progress _ _ _ _ _ _ _ Ha) as [H|(_ & _ & [H|(k0 & rest0 & h & E & Hn & Hl)])];
    [assumption|discriminate|].
  inversion E; subst. destruct Hen as [(m & Em)|Hfree].
  - subst ph. destruct Hn.
  - rewrite Hl in Hfree. discriminate.
Qed.

(* ---------- whole-state potential ---------- *)
Lemma poll_pcs_other : forall t t' s, t <> t' -> pcs (poll c t' s) t = pcs s t.
Proof.
  intros t t' s Hne. unfold poll. destruct (pcs s t') as [rem ph].
  destruct (advance c t' rem ph (sh s)) as [[rem' ph'] s']. cbn [pcs]. now apply upd_other.
Qed.

Lemma poll_potential : forall t s, SInv c s ->
  potential c (poll c t s) < potential c s \/
  (potential c (poll c t s) = potential c s /\ sh (poll c t s) = sh s).
Proof.
  intros t s HI. unfold poll, potential.
  destruct (pcs s t) as [rem ph] eqn:Hp.
  destruct (advance c t rem ph (sh s)) as [[rem' ph'] s'] eqn:Ha. cbn [pcs sh].
  destruct (Nat.lt_ge_cases t (ntasks c)) as [Hlt|Hge].
  - pose proof (sum_upto_upd_lt _ (tcost c) (pcs s) t (rem', ph') (ntasks c) Hlt) as Hsum.
    rewrite Hp in Hsum.
    destruct (advance_progress _ _ _ _ _ _ _ Ha) as [H|(Es & Ec & _)].
    + left. lia.
    + right. split; [lia|assumption].
  - right. rewrite (sum_upto_upd_ge _ (tcost c) (pcs s) t (rem', ph') (ntasks c) Hge).
    split; [reflexivity|].
    pose proof (rem_nil_beyond c s t HI Hge) as E. rewrite Hp in E. cbn [fst] in E. subst rem.
    cbn [advance] in Ha. now inversion Ha.
Qed.

Lemma poll_potential_le : forall t s, SInv c s -> potential c (poll c t s) <= potential c s.
Proof. intros t s HI. destruct (poll_potential t s HI) as [H|[H _]]; lia. Qed.

Lemma run_from_le : forall l s, SInv c s -> potential c (run_from c s l) <= potential c s.
Proof.
  induction l as [|t l IH]; intros s HI; [cbn; lia|].
  cbn [run_from fold_left]. fold (run_from c (poll c t s) l).
  specialize (IH (poll c t s) (poll_inv c t s HI)). pose proof (poll_potential_le t s HI). lia.
Qed.

(* task t would make progress if polled now *)
Definition en (s : state) (t : task) : Prop :=
  t < ntasks c /\ exists k rest ph, pcs s t = (k :: rest, ph) /\
                    ((exists m, ph = Sup m) \/ lock (sh s) k = None).

Lemma en_decreases : forall s t, en s t -> potential c (poll c t s) < potential c s.
Proof.
  intros s t (Hlt & k & rest & ph & Hp & Hen). unfold poll, potential. rewrite Hp.
  destruct (advance c t (k :: rest) ph (sh s)) as [[rem' ph'] s'] eqn:Ha. cbn [pcs].
  pose proof (sum_upto_upd_lt _ (tcost c) (pcs s) t (rem', ph') (ntasks c) Hlt) as Hsum.
  rewrite Hp in Hsum. pose proof (advance_enabled _ _ _ _ _ _ _ _ Ha Hen). lia.
Qed.

Lemma en_persist : forall s t t', SInv c s -> en s t -> t' <> t ->
  potential c (poll c t' s) = potential c s -> en (poll c t' s) t.
Proof.
  intros s t t' HI (Hlt & k & rest & ph & Hp & Hen) Hne Heq.
  destruct (poll_potential t' s HI) as [H|[_ Hsh]]; [lia|].
  split; [assumption|]. exists k, rest, ph. rewrite poll_pcs_other by auto. rewrite Hsh. auto.
Qed.

Lemma pending_lt : forall s t k rest ph, SInv c s -> pcs s t = (k :: rest, ph) -> t < ntasks c.
Proof.
  intros s t k rest ph HI Hp. destruct (Nat.lt_ge_cases t (ntasks c)) as [H|H]; [assumption|].
  pose proof (rem_nil_beyond c s t HI H) as E. rewrite Hp in E. discriminate.
Qed.

(* no state is stuck: unless everybody has finished, somebody can move *)
Lemma en_exists : forall s, SInv c s -> all_done c s = false -> exists t, en s t.
Proof.
  intros s HI Hd. unfold all_done in Hd. apply forallb_false in Hd.
  destruct Hd as (t & Hin & Hf). apply in_seq in Hin. unfold task_done in Hf.
  destruct (pcs s t) as [[|k rest] ph] eqn:Hp; cbn [fst] in Hf; [discriminate|].
  destruct ph as [| |m].
  - destruct (lock (sh s) k) as [h|] eqn:Hl.
    + apply (inv_lock _ _ _ HI) in Hl. destruct Hl as (r & m & Hh).
      exists h. split; [now apply (pending_lt s h k r (Sup m))|]. exists k, r, (Sup m). split; [assumption|left; now exists m].
    + exists t. split; [lia|]. exists k, rest, Start. auto.
  - destruct (lock (sh s) k) as [h|] eqn:Hl.
    + apply (inv_lock _ _ _ HI) in Hl. destruct Hl as (r & m & Hh).
      exists h. split; [now apply (pending_lt s h k r (Sup m))|]. exists k, r, (Sup m). split; [assumption|left; now exists m].
    + exists t. split; [lia|]. exists k, rest, Wait. auto.
  - exists t. split; [lia|]. exists k, rest, (Sup m). split; [assumption|left; now exists m].
Qed.

(* a round that contains an enabled task lowers the potential, whatever else it polls *)
Lemma round_progress : forall r s t, SInv c s -> en s t -> In t r ->
  potential c (run_from c s r) < potential c s.
Proof.
  induction r as [|a r IH]; intros s t HI Hen Hin; [destruct Hin|].
  cbn [run_from fold_left]. fold (run_from c (poll c a s) r).
  pose proof (poll_inv c a s HI) as HI'.
  pose proof (run_from_le r (poll c a s) HI') as Hle.
  destruct (Nat.eq_dec a t) as [E|N].
  - subst a. pose proof (en_decreases s t Hen). lia.
  - destruct Hin as [E|Hin]; [contradiction|].
    destruct (poll_potential a s HI) as [H|[Heq _]]; [lia|].
    pose proof (IH (poll c a s) t HI' (en_persist s t a HI Hen N Heq) Hin). lia.
Qed.

Lemma potential_zero_done : forall s, potential c s = 0 -> all_done c s = true.
Proof.
  intros s H. unfold potential in H. rewrite sum_upto_zero in H.
  unfold all_done. apply forallb_forall. intros t Hin. apply in_seq in Hin.
  assert (Ht : t < ntasks c) by lia. specialize (H t Ht). unfold task_done.
  destruct (pcs s t) as [[|k rest] ph]; cbn [fst]; [reflexivity|].
  destruct ph as [| |m]; cbn in H; lia.
Qed.

Lemma done_potential_zero : forall s, all_done c s = true -> potential c s = 0.
Proof.
  intros s H. unfold potential. apply sum_upto_zero. intros t Ht.
  pose proof (all_done_rem c s H t Ht) as E. destruct (pcs s t) as [rem ph]. cbn [fst] in E. subst rem.
  apply tcost_nil.
Qed.

Lemma run_from_app : forall s l1 l2, run_from c s (l1 ++ l2) = run_from c (run_from c s l1) l2.
Proof. intros. unfold run_from. apply fold_left_app. Qed.

Lemma rounds_potential : forall rounds s, SInv c s -> Forall (covers (ntasks c)) rounds ->
  potential c (run_from c s (concat rounds)) <= potential c s - length rounds.
Proof.
  induction rounds as [|r rs IH]; intros s HI Hf.
  - cbn. lia.
  - inversion Hf as [|r' rs' Hr Hrs]; subst. cbn [concat length]. rewrite run_from_app.
    pose proof (run_from_inv c r s HI) as HI1.
    specialize (IH (run_from c s r) HI1 Hrs).
    pose proof (run_from_le r s HI) as Hle.
    destruct (Nat.eq_dec (potential c s) 0) as [Z|NZ]; [lia|].
    destruct (all_done c s) eqn:Hd.
    + apply done_potential_zero in Hd. contradiction.
    + destruct (en_exists s HI Hd) as (t & Hen).
      assert (Hin : In t r) by (apply Hr; apply Hen).
      pose proof (round_progress r s t HI Hen Hin). lia.
Qed.

Lemma potential_init : potential c (init c) = work c.
Proof.
  unfold potential, work, init. cbn [pcs]. apply sum_upto_ext. intros t _.
  apply (tcost_nosup _ Start I).
Qed.

(* ---------- the statements used by Properties.v ---------- *)
Lemma no_deadlock : forall sched, all_done c (run c sched) = false ->
  exists t, t < ntasks c /\ potential c (poll c t (run c sched)) < potential c (run c sched).
Proof.
  intros sched Hd. destruct (en_exists _ (run_inv c sched) Hd) as (t & Hen).
  exists t. split; [apply Hen|now apply en_decreases].
Qed.

Lemma potential_monotone : forall sched t,
  potential c (run c (sched ++ [t])) <= potential c (run c sched) /\ potential c (run c sched) <= work c.
Proof.
  intros sched t. unfold run. rewrite run_from_app. split.
  - apply run_from_le. apply run_from_inv, init_inv.
  - rewrite <- potential_init. apply run_from_le, init_inv.
Qed.

Lemma finish_in_rounds : forall rounds, Forall (covers (ntasks c)) rounds -> work c <= length rounds ->
  all_done c (run c (concat rounds)) = true.
Proof.
  intros rounds Hf Hlen. apply potential_zero_done.
  pose proof (rounds_potential rounds (init c) (init_inv c) Hf) as H.
  rewrite potential_init in H. unfold run. lia.
Qed.

Lemma fair_chunks : forall T W sched, fair (ntasks c) T sched -> T * W <= length sched ->
  exists rounds, concat rounds = firstn (T * W) sched /\ length rounds = W /\
                 Forall (covers (ntasks c)) rounds.
Proof.
  intros T W. induction W as [|W IH]; intros sched Hfair Hlen.
  - exists []. rewrite Nat.mul_0_r. repeat split; constructor.
  - rewrite Nat.mul_succ_r in *. rewrite (Nat.add_comm (T * W) T) in *.
    assert (Hfair' : fair (ntasks c) T (skipn T sched)).
    { intros i Hi. rewrite skipn_length in Hi. rewrite skipn_plus. apply Hfair. lia. }
    assert (Hlen' : T * W <= length (skipn T sched)) by (rewrite skipn_length; lia).
    destruct (IH (skipn T sched) Hfair' Hlen') as (rounds & Hc & Hl & Hf).
    exists (firstn T sched :: rounds). repeat split.
    + cbn [concat]. rewrite Hc. symmetry. apply firstn_plus.
    + cbn [length]. now rewrite Hl.
    + constructor; [|assumption]. apply (Hfair 0). lia.
Qed.

Lemma finish_fair_prefix : forall T sched, fair (ntasks c) T sched -> T * work c <= length sched ->
  all_done c (run c (firstn (T * work c) sched)) = true.
Proof.
  intros T sched Hfair Hlen.
  destruct (fair_chunks T (work c) sched Hfair Hlen) as (rounds & Hc & Hl & Hf).
  rewrite <- Hc. apply finish_in_rounds; [assumption|lia].
Qed.

Lemma finish_fair : forall T sched, fair (ntasks c) T sched -> T * work c <= length sched ->
  all_done c (run c sched) = true.
Proof.
  intros T sched Hfair Hlen. apply potential_zero_done.
  pose proof (finish_fair_prefix T sched Hfair Hlen) as Hd. apply done_potential_zero in Hd.
  rewrite <- (firstn_skipn (T * work c) sched). unfold run in *. rewrite run_from_app.
  pose proof (run_from_le (skipn (T * work c) sched) _ (run_from_inv c (firstn (T * work c) sched) _ (init_inv c))).
  lia.
Qed.

End Progress.
