(* C12/ProgModel.v — the once-per-key code as a PROGRAM and its interpreter (round 5).
   Rounds 1-4 wrote C12/Model.v by hand from the source and pinned the shape of the source by comparing
   tags (C12/Structure.v).  Here the bodies of
       CachedAsyncResult::get, the closure Symbolizer::get_symbols passes to it, the closure
       HttpSymbolSupplier::locate_file_internal passes to it, and the entry points
       fill_symbol / walk_frame / get_symbol_at_address / get_file_path / HttpSymbolSupplier::locate_file
   are instruction lists (regenerated from the Rust source by translate/c12_program.py into
   Gen/C12Program.v) and [istep] gives every instruction its meaning on the shared state of C12/Model.v
   (the very same record [shared]: lock / value / supplier log / counters / stats / results).  The theorems of
   C12/Properties.v are then stated for the interpreter running the GENERATED program: an edit of the Rust
   bodies (an instruction moved, dropped, doubled, a retry, a non-waiting probe) changes the program the
   theorems are about.
   Granularity: [ppoll] runs one task until it returns Pending (lock held / supplier pending) or finishes,
   exactly as Future::poll does; [pmstep] executes ONE instruction (interleavings of a multi-threaded executor).
   Definitions only; proofs are in C12/ProgProofs.v (polls), C12/ProgFine.v (instructions), C12/ProgExec.v. *)
From RM Require Export C12.Model.

(* which public function a lookup goes through *)
Inductive entry :=
| EFill          (* Symbolizer::fill_symbol *)
| EWalk          (* Symbolizer::walk_frame *)
| EAddr          (* Symbolizer::get_symbol_at_address *)
| EFile.         (* HttpSymbolSupplier::locate_file (what Symbolizer::get_file_path delegates to) *)

Inductive instr :=
(* -- CachedAsyncResult::get -- *)
| ILockAwait                   (* let mut guard = self.inner.lock().await; *)
| IIfNone (body : list instr)  (* if guard.is_none() { body } *)
| IStoreCallAwait              (* *guard = Some(Arc::new(f().await));   f = the closure of the slot's class *)
| IReturnClone                 (* guard.as_ref().unwrap().clone()       (unwrap of None = stuck) *)
| IUnlock                      (* drop(guard) before the end of the function (not in the unchanged code) *)
(* -- the closure of Symbolizer::get_symbols -- *)
| IRequestedInc                (* self.pending_stats.lock().unwrap().symbols_requested += 1; *)
| ISupplierAwait               (* let result = self.supplier.locate_symbols(module).await; *)
| IProcessedInc                (* self.pending_stats.lock().unwrap().symbols_processed += 1; *)
| IStatsNew                    (* let mut stats = SymbolStats::default(); *)
| IStatsClassify               (* match &result { one arm per answer: loaded / corrupt } *)
| ILeafKey                     (* let key = leafname(module.code_file().as_ref()).to_string(); *)
| IStatsInsert                 (* self.stats.lock().unwrap().insert(key, stats); *)
| IReturnResult                (* result.map(|r| r.symbols) *)
| IRetryIf (o : outcome)       (* if let Err(<o>) = result { result = self.supplier.locate_symbols(module).await; }
                                  (not in the unchanged code) *)
(* -- the closure of HttpSymbolSupplier::locate_file_internal: local lookup, then one fetch per server until one
      succeeds, else FileError::NotFound; its suspensions and answer are FileModel.file_script -- *)
| IFileClosure
(* -- entry points -- *)
| IGetSymbolsAwait             (* let cached_sym = self.get_symbols(module).await;
                                  = self.symbols.cache_default(module_key(module)).get(|| async {..}).await *)
| ILocateFileInternalAwait     (* self.locate_file_internal(module, file_kind).await
                                  = self.cached_file_paths.cache_default(file_key(..)).get(|| async {..}).await *)
| ICall (e : entry)            (* self.fill_symbol(&k, &mut frame).await *)
| IUseResult                   (* everything after the await: a pure function of the cached result *)
| IProbeElseGet                (* match slot.probe() { Some(Some(v)) => v, Some(None) => get_symbols.await,
                                  None => return None }   (non-waiting try_lock; not in the unchanged code) *)
(* -- internal: never emitted by the translator -- *)
| ISupPoll                     (* the supplier's future being polled *)
| IStore                       (* the assignment half of IStoreCallAwait *)
| IEndGet                      (* end of get: the guard goes out of scope *)
| IAbort.                      (* a task whose program got stuck (panicked / ran out of fuel): never finishes *)

Record program := {
  p_get          : list instr;            (* CachedAsyncResult::get *)
  p_sym_closure  : list instr;            (* closure of get_symbols *)
  p_file_closure : list instr;            (* closure of locate_file_internal *)
  p_entry        : entry -> list instr
}.

Definition lookup := (entry * key)%type.

(* the locals of one task while it is inside a lookup *)
Record local := {
  guard   : bool;                 (* holds the MutexGuard of the slot *)
  waiting : bool;                 (* its MutexLockFuture was polled without acquiring *)
  fcls    : bool;                 (* the slot is a file slot (closure = p_file_closure) *)
  ticks   : nat;                  (* Pending answers the supplier's future still gives *)
  res     : option outcome;       (* `result` in the closure / what get returned *)
  lstat   : option outcome;       (* `stats` in the closure after classification (None = SymbolStats::default()) *)
  lkey    : option nat            (* `key` in the closure *)
}.
Definition l0 : local :=
  {| guard := false; waiting := false; fcls := false; ticks := 0; res := None; lstat := None; lkey := None |}.

Definition set_guard (l : local) (g w : bool) : local :=
  {| guard := g; waiting := w; fcls := fcls l; ticks := ticks l; res := res l; lstat := lstat l; lkey := lkey l |}.
Definition set_fcls (l : local) (b : bool) : local :=
  {| guard := guard l; waiting := waiting l; fcls := b; ticks := ticks l; res := res l; lstat := lstat l; lkey := lkey l |}.
Definition set_ticks (l : local) (n : nat) : local :=
  {| guard := guard l; waiting := waiting l; fcls := fcls l; ticks := n; res := res l; lstat := lstat l; lkey := lkey l |}.
Definition set_res (l : local) (r : option outcome) : local :=
  {| guard := guard l; waiting := waiting l; fcls := fcls l; ticks := ticks l; res := r; lstat := lstat l; lkey := lkey l |}.
Definition set_lstat (l : local) (r : option outcome) : local :=
  {| guard := guard l; waiting := waiting l; fcls := fcls l; ticks := ticks l; res := res l; lstat := r; lkey := lkey l |}.
Definition set_lkey (l : local) (r : option nat) : local :=
  {| guard := guard l; waiting := waiting l; fcls := fcls l; ticks := ticks l; res := res l; lstat := lstat l; lkey := r |}.

Definition sh_lock (s : shared) (f : key -> option task) : shared :=
  {| lock := f; value := value s; calls := calls s; req := req s; proc := proc s; stats := stats s; results := results s |}.
Definition sh_value (s : shared) (f : key -> option outcome) : shared :=
  {| lock := lock s; value := f; calls := calls s; req := req s; proc := proc s; stats := stats s; results := results s |}.
Definition sh_calls (s : shared) (l : list key) : shared :=
  {| lock := lock s; value := value s; calls := l; req := req s; proc := proc s; stats := stats s; results := results s |}.
Definition sh_req (s : shared) (n : nat) : shared :=
  {| lock := lock s; value := value s; calls := calls s; req := n; proc := proc s; stats := stats s; results := results s |}.
Definition sh_proc (s : shared) (n : nat) : shared :=
  {| lock := lock s; value := value s; calls := calls s; req := req s; proc := n; stats := stats s; results := results s |}.
Definition sh_stats (s : shared) (f : nat -> option outcome) : shared :=
  {| lock := lock s; value := value s; calls := calls s; req := req s; proc := proc s; stats := f; results := results s |}.
Definition sh_results (s : shared) (f : task -> list (key * outcome)) : shared :=
  {| lock := lock s; value := value s; calls := calls s; req := req s; proc := proc s; stats := stats s; results := f |}.

Inductive sres :=
| SNext (kont : list instr) (l : local) (s : shared)      (* go on with kont in the same poll *)
| SPend (kont : list instr) (l : local) (s : shared)      (* return Poll::Pending; the next poll resumes at kont *)
| SStuck.                                                 (* panic / ill-formed program *)

(* ONE instruction of task t, whose current lookup is for slot k; [rest] = what follows the instruction *)
Definition istep (P : program) (c : config) (t : task) (k : key) (i : instr) (rest : list instr)
           (l : local) (s : shared) : sres :=
  match i with
  | ILockAwait =>
      match lock s k with
      | Some _ => SPend (ILockAwait :: rest) (set_guard l false true) s
      | None => SNext rest (set_guard l true false) (sh_lock s (upd (lock s) k (Some t)))
      end
  | IIfNone body =>
      if guard l then match value s k with None => SNext (body ++ rest) l s | Some _ => SNext rest l s end
      else SStuck
  | IStoreCallAwait => SNext ((if fcls l then p_file_closure P else p_sym_closure P) ++ IStore :: rest) l s
  | IStore =>
      match guard l, res l with
      | true, Some o => SNext rest l (sh_value s (upd (value s) k (Some o)))
      | _, _ => SStuck
      end
  | IReturnClone =>
      match guard l, value s k with
      | true, Some o => SNext rest (set_res l (Some o)) s
      | _, _ => SStuck
      end
  | IUnlock | IEndGet =>
      if guard l then SNext rest (set_guard l false false) (sh_lock s (upd (lock s) k None)) else SNext rest l s
  | IRequestedInc => SNext rest l (sh_req s (S (req s)))
  | ISupplierAwait | IFileClosure =>
      (* async_trait: the body runs, and the mock logs, on the first poll, which is this same poll *)
      SNext (ISupPoll :: rest) (set_ticks l (susp c k)) (sh_calls s (calls s ++ [k]))
  | ISupPoll =>
      match ticks l with
      | O => SNext rest (set_res l (Some (outc c k))) s
      | S m => SPend (ISupPoll :: rest) (set_ticks l m) s
      end
  | IRetryIf o =>
      match res l with
      | Some o' => if outcome_eqb o o' then SNext (ISupplierAwait :: rest) l s else SNext rest l s
      | None => SStuck
      end
  | IProcessedInc => SNext rest l (sh_proc s (S (proc s)))
  | IStatsNew => SNext rest (set_lstat l None) s
  | IStatsClassify => match res l with Some o => SNext rest (set_lstat l (Some o)) s | None => SStuck end
  | ILeafKey => SNext rest (set_lkey l (Some (leaf c k))) s
  | IStatsInsert =>
      match lkey l with
      | Some lf => SNext rest l (sh_stats s (upd (stats s) lf (Some (match lstat l with Some o => o | None => ONotFound end))))
      | None => SStuck
      end
  | IReturnResult => match res l with Some _ => SNext rest l s | None => SStuck end
  | IGetSymbolsAwait => SNext (p_get P ++ IEndGet :: rest) (set_fcls l false) s
  | ILocateFileInternalAwait => SNext (p_get P ++ IEndGet :: rest) (set_fcls l true) s
  | ICall e => SNext (p_entry P e ++ rest) l s
  | IUseResult =>
      match res l with
      | Some o => SNext rest l (sh_results s (upd (results s) t (results s t ++ [(k, o)])))
      | None => SStuck
      end
  | IProbeElseGet =>
      match lock s k with
      | Some _ => SNext [] l (sh_results s (upd (results s) t (results s t ++ [(k, OMissing)])))   (* return None *)
      | None =>
          match value s k with
          | Some o => SNext rest (set_res l (Some o)) s
          | None => SNext (IGetSymbolsAwait :: rest) l s
          end
      end
  | IAbort => SPend [IAbort] l s
  end.

Inductive rres :=
| RDone (l : local) (s : shared)
| RPend (kont : list instr) (l : local) (s : shared)
| RStuck.

Fixpoint run_instrs (fuel : nat) (P : program) (c : config) (t : task) (k : key) (kont : list instr)
         (l : local) (s : shared) : rres :=
  match kont with
  | [] => RDone l s
  | i :: rest =>
      match fuel with
      | O => RStuck
      | S f =>
          match istep P c t k i rest l s with
          | SNext kont' l' s' => run_instrs f P c t k kont' l' s'
          | SPend kont' l' s' => RPend kont' l' s'
          | SStuck => RStuck
          end
      end
  end.

(* the programs have no loops: one lookup executes every instruction of every body at most twice (IRetryIf) *)
Fixpoint isize (i : instr) : nat :=
  match i with
  | IIfNone body => S ((fix go (b : list instr) := match b with [] => 0 | x :: r => isize x + go r end) body)
  | _ => 1
  end.
Definition lsize (p : list instr) : nat := fold_right (fun i n => isize i + n) 0 p.
Definition pfuel (P : program) : nat :=
  4 * (8 + lsize (p_get P) + lsize (p_sym_closure P) + lsize (p_file_closure P)
       + lsize (p_entry P EFill) + lsize (p_entry P EWalk) + lsize (p_entry P EAddr) + lsize (p_entry P EFile)).

Definition ptask := (list lookup * list instr * local)%type.    (* remaining lookups, continuation ([] = not begun), locals *)

(* poll task t: run until Pending or finished (on into the next lookups in the same poll) *)
Fixpoint padvance (P : program) (c : config) (t : task) (rem : list lookup) (kont : list instr) (l : local)
         (s : shared) : ptask * shared :=
  match rem with
  | [] => (([], [], l0), s)
  | (e, k) :: rest =>
      let '(kont0, li) := match kont with [] => (p_entry P e, l0) | _ => (kont, l) end in
      match run_instrs (pfuel P) P c t k kont0 li s with
      | RDone _ s' => padvance P c t rest [] l0 s'
      | RPend kont' l' s' => (((e, k) :: rest, kont', l'), s')
      | RStuck => (((e, k) :: rest, [IAbort], l0), s)
      end
  end.

Record pstate := { ppcs : task -> ptask; psh : shared }.

Definition ppoll (P : program) (c : config) (t : task) (s : pstate) : pstate :=
  let '(rem, kont, l) := ppcs s t in
  let '(p', s') := padvance P c t rem kont l (psh s) in
  {| ppcs := upd (ppcs s) t p'; psh := s' |}.

(* a program configuration: what each task calls, in order; the supplier scripts are those of [config] *)
Record pconfig := { ptasks : list (list lookup); pbase : config }.
Definition cfg (pc : pconfig) : config :=
  {| tasks := map (map snd) (ptasks pc); susp := susp (pbase pc); outc := outc (pbase pc); leaf := leaf (pbase pc) |}.

Definition pinit (pc : pconfig) : pstate :=
  {| ppcs := fun t => (nth t (ptasks pc) [], [], l0);
     psh := {| lock := fun _ => None; value := fun _ => None; calls := []; req := 0; proc := 0;
               stats := fun _ => None; results := fun _ => [] |} |}.
Definition prun_from (P : program) (pc : pconfig) (s : pstate) (sched : list task) : pstate :=
  fold_left (fun s t => ppoll P (cfg pc) t s) sched s.
Definition prun (P : program) (pc : pconfig) (sched : list task) : pstate := prun_from P pc (pinit pc) sched.

(* what Model.v calls the phase of a task *)
Definition phase_of (kont : list instr) (l : local) : phase :=
  match kont with
  | ISupPoll :: _ => Sup (ticks l)
  | _ => if waiting l then Wait else Start
  end.
Definition abs_task (p : ptask) : list key * phase :=
  let '(rem, kont, l) := p in (map snd rem, phase_of kont l).
Definition abs (s : pstate) : state := {| pcs := fun t => abs_task (ppcs s t); sh := psh s |}.

(* observations on the program run *)
Definition ptask_done (s : pstate) (t : task) : bool :=
  match fst (fst (ppcs s t)) with [] => true | _ => false end.
Definition pall_done (pc : pconfig) (s : pstate) : bool :=
  forallb (ptask_done s) (seq 0 (length (ptasks pc))).
Definition psupplier_calls (s : pstate) (k : key) : nat := count_occ Nat.eq_dec (calls (psh s)) k.
Definition ptask_result (s : pstate) (t : task) (i : nat) : option (key * outcome) := nth_error (results (psh s) t) i.

(* ONE instruction of task t (multi-threaded executors: any other task may run between two instructions) *)
Definition pmstep (P : program) (c : config) (t : task) (s : pstate) : pstate :=
  match ppcs s t with
  | ([], _, _) => s
  | ((e, k) :: rest, kont, l) =>
      match (match kont with [] => (p_entry P e, l0) | _ => (kont, l) end) with
      | ([], _) => {| ppcs := upd (ppcs s) t (rest, [], l0); psh := psh s |}
      | (i :: more, li) =>
          match istep P c t k i more li (psh s) with
          | SNext [] _ s' => {| ppcs := upd (ppcs s) t (rest, [], l0); psh := s' |}
          | SNext kont' l' s' | SPend kont' l' s' => {| ppcs := upd (ppcs s) t ((e, k) :: rest, kont', l'); psh := s' |}
          | SStuck => {| ppcs := upd (ppcs s) t ((e, k) :: rest, [IAbort], l0); psh := psh s |}
          end
      end
  end.
Definition pmrun (P : program) (pc : pconfig) (ms : list task) : pstate :=
  fold_left (fun s t => pmstep P (cfg pc) t s) ms (pinit pc).

(* the program C12/Model.v was written from (Gen/C12Program.v must be equal to it: C12/Properties.v) *)
Definition canon_get : list instr := [ILockAwait; IIfNone [IStoreCallAwait]; IReturnClone].
Definition canon_sym_closure : list instr :=
  [IRequestedInc; ISupplierAwait; IProcessedInc; IStatsNew; IStatsClassify; ILeafKey; IStatsInsert; IReturnResult].
Definition canon_file_closure : list instr := [IFileClosure].
Definition canon_entry (e : entry) : list instr :=
  match e with
  | EFill | EWalk => [IGetSymbolsAwait; IUseResult]
  | EAddr => [ICall EFill]
  | EFile => [ILocateFileInternalAwait; IUseResult]
  end.
Definition canon : program :=
  {| p_get := canon_get; p_sym_closure := canon_sym_closure; p_file_closure := canon_file_closure;
     p_entry := canon_entry |}.
