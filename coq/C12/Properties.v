(* C12/Properties.v — property theorems only.  Each is closed by [exact lemma] and
   followed by [Print Assumptions].  All statements quantify over every configuration
   (any number of tasks, lookups, keys, any suspension counts and answers) and every
   schedule (any list of task ids: repeated, spurious and unknown ids included). *)
From RM Require Import C12.Model C12.Proofs.

(* the supplier is asked at most once per distinct module key, in every reachable state *)
Theorem c12_at_most_once : forall (c : config) (sched : list task) (k : key),
  supplier_calls (run c sched) k <= 1.
Proof. exact at_most_once. Qed.
Print Assumptions c12_at_most_once.

(* every finished lookup returned the single scripted answer of its key (failures included),
   and it is the lookup the task issued at that position *)
Theorem c12_same_outcome : forall (c : config) (sched : list task) (t : task) (i : nat) (k : key) (o : outcome),
  task_result (run c sched) t i = Some (k, o) ->
  o = outc c k /\ nth_error (nth t (tasks c) []) i = Some k.
Proof. exact same_outcome. Qed.
Print Assumptions c12_same_outcome.

(* no request is lost: when every task has finished, each task has one result per lookup, in order *)
Theorem c12_results_complete : forall (c : config) (sched : list task) (t : task),
  all_done c (run c sched) = true ->
  map fst (results (sh (run c sched)) t) = nth t (tasks c) [].
Proof. exact results_complete. Qed.
Print Assumptions c12_results_complete.

(* pending counters: never ahead of the number of distinct modules ... *)
Theorem c12_counters_bounded : forall (c : config) (sched : list task),
  processed (run c sched) <= requested (run c sched) /\ requested (run c sched) <= distinct_keys c.
Proof. exact counters_bounded. Qed.
Print Assumptions c12_counters_bounded.

(* ... and at quiescence requested = processed = number of distinct modules asked for *)
Theorem c12_counters : forall (c : config) (sched : list task),
  all_done c (run c sched) = true ->
  requested (run c sched) = distinct_keys c /\ processed (run c sched) = distinct_keys c.
Proof. exact counters_quiescent. Qed.
Print Assumptions c12_counters.

Theorem c12_exactly_once_at_quiescence : forall (c : config) (sched : list task) (k : key),
  all_done c (run c sched) = true -> In k (concat (tasks c)) ->
  supplier_calls (run c sched) k = 1.
Proof. exact exactly_once_quiescent. Qed.
Print Assumptions c12_exactly_once_at_quiescence.

(* ---- liveness ---- *)
From RM Require Import C12.Progress.

(* no deadlock: in every reachable state in which some task is unfinished there is a task
   whose poll strictly lowers the progress measure (it completes a lookup, starts the
   supplier call, or consumes one of the supplier's suspensions) *)
Theorem c12_no_deadlock : forall (c : config) (sched : list task),
  all_done c (run c sched) = false ->
  exists t, t < ntasks c /\ potential c (poll c t (run c sched)) < potential c (run c sched).
Proof. exact no_deadlock. Qed.
Print Assumptions c12_no_deadlock.

(* the measure never increases (a poll that cannot progress changes nothing) and starts at
   work c = number of lookups + their scripted suspensions *)
Theorem c12_progress_measure : forall (c : config) (sched : list task) (t : task),
  potential c (run c (sched ++ [t])) <= potential c (run c sched) /\ potential c (run c sched) <= work c.
Proof. exact potential_monotone. Qed.
Print Assumptions c12_progress_measure.

(* rounds: if each round polls every task at least once (any order, any extra polls),
   everything has finished after at most [work c] rounds *)
Theorem c12_no_lost_request_rounds : forall (c : config) (rounds : list (list task)),
  Forall (covers (ntasks c)) rounds -> work c <= length rounds ->
  all_done c (run c (concat rounds)) = true.
Proof. exact finish_in_rounds. Qed.
Print Assumptions c12_no_lost_request_rounds.

(* fair schedules: every window of T polls contains every task; then the first T * work c
   polls already finish every task (and so does the whole schedule) *)
Theorem c12_no_lost_request : forall (c : config) (T : nat) (sched : list task),
  fair (ntasks c) T sched -> T * work c <= length sched ->
  all_done c (run c (firstn (T * work c) sched)) = true.
Proof. exact finish_fair_prefix. Qed.
Print Assumptions c12_no_lost_request.

Theorem c12_fair_schedule_finishes : forall (c : config) (T : nat) (sched : list task),
  fair (ntasks c) T sched -> T * work c <= length sched ->
  all_done c (run c sched) = true.
Proof. exact finish_fair. Qed.
Print Assumptions c12_fair_schedule_finishes.

(* ---- non-vacuity: concrete configurations reach the states the theorems talk about ---- *)
Definition ex_cfg : config :=
  {| tasks := [[0; 1]; [1; 0]; [0]];
     susp := fun k => match k with 0 => 2 | _ => 1 end;
     outc := fun k => match k with 0 => OOk | _ => ONotFound end;
     leaf := fun k => k |}.

(* contention really happens: after polling 0,1,2 once, task 0 is inside the supplier for
   key 0, task 1 inside the supplier for key 1 and task 2 waits for key 0's lock *)
Example c12_nonvacuous_contention :
  let s := run ex_cfg [0; 1; 2] in
  pcs s 0 = ([0; 1], Sup 1) /\ pcs s 1 = ([1; 0], Sup 0) /\ pcs s 2 = ([0], Wait) /\
  lock (sh s) 0 = Some 0 /\ calls (sh s) = [0; 1] /\ requested s = 2 /\ processed s = 0 /\
  all_done ex_cfg s = false.
Proof. vm_compute. repeat split. Qed.

(* a 3-task, 2-key run with suspensions, spurious polls and an unknown task id reaches
   quiescence with one supplier call per key and every requester seeing the same answer *)
Example c12_nonvacuous_quiescence :
  let s := run ex_cfg [0; 1; 1; 2; 7; 2; 0; 2; 1; 0; 0; 2; 1; 0; 1; 2] in
  all_done ex_cfg s = true /\ calls (sh s) = [0; 1] /\ requested s = 2 /\ processed s = 2 /\
  distinct_keys ex_cfg = 2 /\
  results (sh s) 0 = [(0, OOk); (1, ONotFound)] /\ results (sh s) 1 = [(1, ONotFound); (0, OOk)] /\
  results (sh s) 2 = [(0, OOk)].
Proof. vm_compute. repeat split. Qed.

Example c12_nonvacuous_rounds :
  work ex_cfg = 13 /\ Forall (covers (ntasks ex_cfg)) (repeat [0; 1; 2] 13) /\
  all_done ex_cfg (run ex_cfg (concat (repeat [0; 1; 2] 5))) = true.
Proof.
  split; [reflexivity|]. split; [|vm_compute; reflexivity].
  apply Forall_forall. intros r Hr. apply repeat_spec in Hr. subst r.
  intros t Ht. cbn in Ht. destruct t as [|[|[|t]]]; cbn; auto. exfalso. apply (Nat.lt_irrefl 3).
  apply Nat.le_lt_trans with (S (S (S t))); [apply le_n_S, le_n_S, le_n_S, Nat.le_0_l|exact Ht].
Qed.

Definition ex_cfg2 : config :=
  {| tasks := [[0]; [0]]; susp := fun _ => 1; outc := fun _ => OParse; leaf := fun _ => 0 |}.

Example c12_nonvacuous_fair :
  work ex_cfg2 = 4 /\ fair (ntasks ex_cfg2) 2 [0; 1; 0; 1; 0; 1; 0; 1] /\
  2 * work ex_cfg2 <= length [0; 1; 0; 1; 0; 1; 0; 1].
Proof.
  split; [reflexivity|]. split; [|cbn; apply le_n].
  intros i Hi t Ht. cbn in Ht.
  assert (Hc : forall j, In 0 (firstn 2 (skipn j [0; 1; 0; 1; 0; 1; 0; 1])) /\
                         In 1 (firstn 2 (skipn j [0; 1; 0; 1; 0; 1; 0; 1])) \/ 7 <= j).
  { intros j. do 7 (destruct j as [|j]; [left; cbn; auto|]). right.
    do 7 apply le_n_S. apply Nat.le_0_l. }
  destruct (Hc i) as [[H0 H1]|Hbig].
  - destruct t as [|[|t]]; [exact H0|exact H1|].
    exfalso. apply (Nat.lt_irrefl 2). apply Nat.le_lt_trans with (S (S t)); [apply le_n_S, le_n_S, Nat.le_0_l|exact Ht].
  - exfalso. cbn [length] in Hi. apply (Nat.lt_irrefl 8).
    apply Nat.lt_le_trans with (i + 2); [|exact Hi].
    rewrite Nat.add_comm. cbn. apply le_n_S, le_n_S. exact Hbig.
Qed.

(* ---- wake-driven executors (tokio, FuturesUnordered): tasks are polled only after their
        waker fired.  C12/WakeModel.v adds the futures-util Mutex's waiter slab, the wait_key of
        each lock future and the executor's per-task "woken" bit to the model above. ---- *)
From RM Require Import C12.WakeModel C12.WakeProofs C12.WakeBound.

(* the instrumentation does not change behaviour: all theorems above apply to wake-driven runs *)
Theorem c12_wake_refines : forall (c : config) (sched : list task),
  base (wrun c sched) = run c sched.
Proof. exact wrun_base. Qed.
Print Assumptions c12_wake_refines.

(* no lost wake-up: in every reachable state (after any polls, spurious ones included) with an
   unfinished task, some unfinished task has been woken and not yet polled *)
Theorem c12_no_lost_wakeup : forall (c : config) (sched : list task),
  all_done c (run c sched) = false -> runnable c (wrun c sched) <> [].
Proof. exact no_lost_wakeup. Qed.
Print Assumptions c12_no_lost_wakeup.

(* an executor that polls only woken tasks — whichever it picks — never runs dry and has
   finished every task after at most 2 * work c + ntasks c polls; the run it performed is a
   schedule of the plain model *)
Theorem c12_wake_driven_finishes : forall (c : config) (fuel : nat) (picks : list nat),
  2 * work c + ntasks c < fuel ->
  exists w sched, wexec c fuel picks (winit c) [] = (w, sched, WDone) /\
                  base w = run c sched /\ all_done c (run c sched) = true.
Proof. exact wake_driven_finishes. Qed.
Print Assumptions c12_wake_driven_finishes.

(* after polling 0,1,2: task 2 sits in k0's waiter slab (index 0, Waiting), its bit is clear, and
   only tasks 0 and 1 are runnable — wake-ups matter in this state *)
Example c12_nonvacuous_waiter :
  let w := wrun ex_cfg [0; 1; 2] in
  wk (ext w) 2 = Some (0, 0, false) /\ flag (ext w) 2 = false /\ runnable ex_cfg w = [0; 1].
Proof. vm_compute. repeat split. Qed.

Example c12_nonvacuous_wake_driven :
  let '(w, trace, st) := wexec ex_cfg 30 [2; 0; 1; 1; 0; 2; 1] (winit ex_cfg) [] in
  st = WDone /\ trace = [2; 0; 2; 2; 0; 0; 1] /\ calls (sh (base w)) = [0; 1] /\
  results (sh (base w)) 2 = [(0, OOk)].
Proof. vm_compute. repeat split. Qed.
