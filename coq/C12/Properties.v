(* C12/Properties.v — property theorems only.  Each is closed by [exact lemma] and
   followed by [Print Assumptions].  All statements quantify over every configuration
   (any number of tasks, lookups, keys, any suspension counts and answers) and every
   schedule (any list of task ids: repeated, spurious and unknown ids included). *)
From RM Require Import C12.Model C12.Proofs.

(* the supplier is asked at most once per distinct module key, in every reachable state *)
Theorem c12_at_most_once : forall (c : config) (sched : list task) (k : key),
  supplier_calls (run c sched) k <= 1.
Proof. exact at_most_once. Qed.
Print Assumptions c12_at_most_once.

(* every finished lookup returned the single scripted answer of its key (failures included),
   and it is the lookup the task issued at that position *)
Theorem c12_same_outcome : forall (c : config) (sched : list task) (t : task) (i : nat) (k : key) (o : outcome),
  task_result (run c sched) t i = Some (k, o) ->
  o = outc c k /\ nth_error (nth t (tasks c) []) i = Some k.
Proof. exact same_outcome. Qed.
Print Assumptions c12_same_outcome.

(* no request is lost: when every task has finished, each task has one result per lookup, in order *)
Theorem c12_results_complete : forall (c : config) (sched : list task) (t : task),
  all_done c (run c sched) = true ->
  map fst (results (sh (run c sched)) t) = nth t (tasks c) [].
Proof. exact results_complete. Qed.
Print Assumptions c12_results_complete.

(* pending counters: never ahead of the number of distinct modules ... *)
Theorem c12_counters_bounded : forall (c : config) (sched : list task),
  processed (run c sched) <= requested (run c sched) /\ requested (run c sched) <= distinct_keys c.
Proof. exact counters_bounded. Qed.
Print Assumptions c12_counters_bounded.

(* ... and at quiescence requested = processed = number of distinct modules asked for *)
Theorem c12_counters : forall (c : config) (sched : list task),
  all_done c (run c sched) = true ->
  requested (run c sched) = distinct_keys c /\ processed (run c sched) = distinct_keys c.
Proof. exact counters_quiescent. Qed.
Print Assumptions c12_counters.

Theorem c12_exactly_once_at_quiescence : forall (c : config) (sched : list task) (k : key),
  all_done c (run c sched) = true -> In k (concat (tasks c)) ->
  supplier_calls (run c sched) k = 1.
Proof. exact exactly_once_quiescent. Qed.
Print Assumptions c12_exactly_once_at_quiescence.

(* ---- liveness ---- *)
From RM Require Import C12.Progress.

(* no deadlock: in every reachable state in which some task is unfinished there is a task
   whose poll strictly lowers the progress measure (it completes a lookup, starts the
   supplier call, or consumes one of the supplier's suspensions) *)
Theorem c12_no_deadlock : forall (c : config) (sched : list task),
  all_done c (run c sched) = false ->
  exists t, t < ntasks c /\ potential c (poll c t (run c sched)) < potential c (run c sched).
Proof. exact no_deadlock. Qed.
Print Assumptions c12_no_deadlock.

(* the measure never increases (a poll that cannot progress changes nothing) and starts at
   work c = number of lookups + their scripted suspensions *)
Theorem c12_progress_measure : forall (c : config) (sched : list task) (t : task),
  potential c (run c (sched ++ [t])) <= potential c (run c sched) /\ potential c (run c sched) <= work c.
Proof. exact potential_monotone. Qed.
Print Assumptions c12_progress_measure.

(* rounds: if each round polls every task at least once (any order, any extra polls),
   everything has finished after at most [work c] rounds *)
Theorem c12_no_lost_request_rounds : forall (c : config) (rounds : list (list task)),
  Forall (covers (ntasks c)) rounds -> work c <= length rounds ->
  all_done c (run c (concat rounds)) = true.
Proof. exact finish_in_rounds. Qed.
Print Assumptions c12_no_lost_request_rounds.

(* fair schedules: every window of T polls contains every task; then the first T * work c
   polls already finish every task (and so does the whole schedule) *)
Theorem c12_no_lost_request : forall (c : config) (T : nat) (sched : list task),
  fair (ntasks c) T sched -> T * work c <= length sched ->
  all_done c (run c (firstn (T * work c) sched)) = true.
Proof. exact finish_fair_prefix. Qed.
Print Assumptions c12_no_lost_request.

Theorem c12_fair_schedule_finishes : forall (c : config) (T : nat) (sched : list task),
  fair (ntasks c) T sched -> T * work c <= length sched ->
  all_done c (run c sched) = true.
Proof. exact finish_fair. Qed.
Print Assumptions c12_fair_schedule_finishes.

(* ---- non-vacuity: concrete configurations reach the states the theorems talk about ---- *)
Definition ex_cfg : config :=
  {| tasks := [[0; 1]; [1; 0]; [0]];
     susp := fun k => match k with 0 => 2 | _ => 1 end;
     outc := fun k => match k with 0 => OOk | _ => ONotFound end;
     leaf := fun k => k |}.

(* contention really happens: after polling 0,1,2 once, task 0 is inside the supplier for
   key 0, task 1 inside the supplier for key 1 and task 2 waits for key 0's lock *)
Example c12_nonvacuous_contention :
  let s := run ex_cfg [0; 1; 2] in
  pcs s 0 = ([0; 1], Sup 1) /\ pcs s 1 = ([1; 0], Sup 0) /\ pcs s 2 = ([0], Wait) /\
  lock (sh s) 0 = Some 0 /\ calls (sh s) = [0; 1] /\ requested s = 2 /\ processed s = 0 /\
  all_done ex_cfg s = false.
Proof. vm_compute. repeat split. Qed.

(* a 3-task, 2-key run with suspensions, spurious polls and an unknown task id reaches
   quiescence with one supplier call per key and every requester seeing the same answer *)
Example c12_nonvacuous_quiescence :
  let s := run ex_cfg [0; 1; 1; 2; 7; 2; 0; 2; 1; 0; 0; 2; 1; 0; 1; 2] in
  all_done ex_cfg s = true /\ calls (sh s) = [0; 1] /\ requested s = 2 /\ processed s = 2 /\
  distinct_keys ex_cfg = 2 /\
  results (sh s) 0 = [(0, OOk); (1, ONotFound)] /\ results (sh s) 1 = [(1, ONotFound); (0, OOk)] /\
  results (sh s) 2 = [(0, OOk)].
Proof. vm_compute. repeat split. Qed.

Example c12_nonvacuous_rounds :
  work ex_cfg = 13 /\ Forall (covers (ntasks ex_cfg)) (repeat [0; 1; 2] 13) /\
  all_done ex_cfg (run ex_cfg (concat (repeat [0; 1; 2] 5))) = true.
Proof.
  split; [reflexivity|]. split; [|vm_compute; reflexivity].
  apply Forall_forall. intros r Hr. apply repeat_spec in Hr. subst r.
  intros t Ht. cbn in Ht. destruct t as [|[|[|t]]]; cbn; auto. exfalso. apply (Nat.lt_irrefl 3).
  apply Nat.le_lt_trans with (S (S (S t))); [apply le_n_S, le_n_S, le_n_S, Nat.le_0_l|exact Ht].
Qed.

Definition ex_cfg2 : config :=
  {| tasks := [[0]; [0]]; susp := fun _ => 1; outc := fun _ => OParse; leaf := fun _ => 0 |}.

Example c12_nonvacuous_fair :
  work ex_cfg2 = 4 /\ fair (ntasks ex_cfg2) 2 [0; 1; 0; 1; 0; 1; 0; 1] /\
  2 * work ex_cfg2 <= length [0; 1; 0; 1; 0; 1; 0; 1].
Proof.
  split; [reflexivity|]. split; [|cbn; apply le_n].
  intros i Hi t Ht. cbn in Ht.
  assert (Hc : forall j, In 0 (firstn 2 (skipn j [0; 1; 0; 1; 0; 1; 0; 1])) /\
                         In 1 (firstn 2 (skipn j [0; 1; 0; 1; 0; 1; 0; 1])) \/ 7 <= j).
  { intros j. do 7 (destruct j as [|j]; [left; cbn; auto|]). right.
    do 7 apply le_n_S. apply Nat.le_0_l. }
  destruct (Hc i) as [[H0 H1]|Hbig].
  - destruct t as [|[|t]]; [exact H0|exact H1|].
    exfalso. apply (Nat.lt_irrefl 2). apply Nat.le_lt_trans with (S (S t)); [apply le_n_S, le_n_S, Nat.le_0_l|exact Ht].
  - exfalso. cbn [length] in Hi. apply (Nat.lt_irrefl 8).
    apply Nat.lt_le_trans with (i + 2); [|exact Hi].
    rewrite Nat.add_comm. cbn. apply le_n_S, le_n_S. exact Hbig.
Qed.

(* ---- wake-driven executors (tokio, FuturesUnordered): tasks are polled only after their
        waker fired.  C12/WakeModel.v adds the futures-util Mutex's waiter slab, the wait_key of
        each lock future and the executor's per-task "woken" bit to the model above. ---- *)
From RM Require Import C12.WakeModel C12.WakeProofs C12.WakeBound.

(* the instrumentation does not change behaviour: all theorems above apply to wake-driven runs *)
Theorem c12_wake_refines : forall (c : config) (sched : list task),
  base (wrun c sched) = run c sched.
Proof. exact wrun_base. Qed.
Print Assumptions c12_wake_refines.

(* no lost wake-up: in every reachable state (after any polls, spurious ones included) with an
   unfinished task, some unfinished task has been woken and not yet polled *)
Theorem c12_no_lost_wakeup : forall (c : config) (sched : list task),
  all_done c (run c sched) = false -> runnable c (wrun c sched) <> [].
Proof. exact no_lost_wakeup. Qed.
Print Assumptions c12_no_lost_wakeup.

(* an executor that polls only woken tasks — whichever it picks — never runs dry and has
   finished every task after at most 2 * work c + ntasks c polls; the run it performed is a
   schedule of the plain model *)
Theorem c12_wake_driven_finishes : forall (c : config) (fuel : nat) (picks : list nat),
  2 * work c + ntasks c < fuel ->
  exists w sched, wexec c fuel picks (winit c) [] = (w, sched, WDone) /\
                  base w = run c sched /\ all_done c (run c sched) = true.
Proof. exact wake_driven_finishes. Qed.
Print Assumptions c12_wake_driven_finishes.

(* after polling 0,1,2: task 2 sits in k0's waiter slab (index 0, Waiting), its bit is clear, and
   only tasks 0 and 1 are runnable — wake-ups matter in this state *)
Example c12_nonvacuous_waiter :
  let w := wrun ex_cfg [0; 1; 2] in
  wk (ext w) 2 = Some (0, 0, false) /\ flag (ext w) 2 = false /\ runnable ex_cfg w = [0; 1].
Proof. vm_compute. repeat split. Qed.

Example c12_nonvacuous_wake_driven :
  let '(w, trace, st) := wexec ex_cfg 30 [2; 0; 1; 1; 0; 2; 1] (winit ex_cfg) [] in
  st = WDone /\ trace = [2; 0; 2; 2; 0; 0; 1] /\ calls (sh (base w)) = [0; 1] /\
  results (sh (base w)) 2 = [(0, OOk)].
Proof. vm_compute. repeat split. Qed.

(* ---- join_all with a shared waker (JoinAll::Small, <= 30 children; processor.rs): every poll of
        the parent polls all unfinished children in order; the executor polls the parent only after
        the one shared waker fired (C12/JoinModel.v) ---- *)
From RM Require Import C12.JoinModel C12.JoinProofs.

(* the executor never finds the parent unwoken while a child is unfinished (no WLost), it polls the
   parent at most work c times, and what happened is the explicit schedule "r round-robin rounds"
   of the plain model — so every safety theorem above applies to it *)
Theorem c12_join_all_spurious_ok : forall (c : config) (fuel : nat),
  work c <= fuel ->
  exists w r, jexec c fuel (winit c) 0 = (w, r, WDone) /\ r <= work c /\
              base w = run c (round_robin c r) /\ all_done c (run c (round_robin c r)) = true.
Proof. exact join_all_ok. Qed.
Print Assumptions c12_join_all_spurious_ok.

(* one parent poll is one round of the plain model, whatever the bits are *)
Theorem c12_join_all_round : forall (c : config) (w : wstate),
  base (jparent c w) = run_from c (base w) (seq 0 (ntasks c)).
Proof. exact jparent_base. Qed.
Print Assumptions c12_join_all_round.

Example c12_nonvacuous_join_all :
  let '(w, r, st) := jexec ex_cfg 13 (winit ex_cfg) 0 in
  st = WDone /\ r = 3 /\ calls (sh (base w)) = [0; 1] /\ all_done ex_cfg (base w) = true.
Proof. vm_compute. repeat split. Qed.

(* ---- HttpSymbolSupplier::locate_file_internal is an instance (C12/FileModel.v): the same
        cache_default + CachedAsyncResult::get over FileKey = (ModuleKey, FileKind) ---- *)
From RM Require Import C12.FileModel C12.FileProofs.

(* distinct (module, kind) pairs never share a slot *)
Theorem c12_files_distinct_slots : forall a b : fkey, enc a = enc b -> a = b.
Proof. exact enc_inj. Qed.
Print Assumptions c12_files_distinct_slots.

(* the fetch closure runs at most once per file key, under every schedule *)
Theorem c12_files_at_most_once : forall (fc : fconfig) (sched : list task) (fk : fkey),
  supplier_calls (run (to_config fc) sched) (enc fk) <= 1.
Proof. exact files_at_most_once. Qed.
Print Assumptions c12_files_at_most_once.

(* every requester of a file key gets the closure's single answer, which is Ok or NotFound *)
Theorem c12_files_same_outcome : forall (fc : fconfig) (sched : list task) (t : task) (i : nat) (fk : fkey) (o : outcome),
  task_result (run (to_config fc) sched) t i = Some (enc fk, o) ->
  o = snd (file_script fc fk) /\ (o = OOk \/ o = ONotFound) /\
  nth_error (nth t (ftasks fc) []) i = Some fk.
Proof. exact files_same_outcome. Qed.
Print Assumptions c12_files_same_outcome.

Theorem c12_files_total_fetches : forall (fc : fconfig) (sched : list task),
  length (calls (sh (run (to_config fc) sched))) <= distinct_keys (to_config fc).
Proof. exact files_total_calls. Qed.
Print Assumptions c12_files_total_fetches.

Example c12_nonvacuous_files :
  let fc := {| ftasks := [[(0, KBin); (0, KDbg)]; [(0, KDbg); (1, KBin)]; [(0, KBin)]];
               local_hit := fun _ => false;
               has_lookup := fun fk => match fk with (1, KBin) => false | _ => true end;
               servers := [fun fk => (1, match fk with (0, KDbg) => true | _ => false end);
                           fun fk => (2, match fk with (0, KBin) => true | _ => false end)] |} in
  let s := run (to_config fc) [0; 1; 2; 2; 1; 0; 0; 1; 2; 0; 1; 2; 0] in
  all_done (to_config fc) s = true /\ calls (sh s) = [enc (0, KBin); enc (0, KDbg); enc (1, KBin)] /\
  results (sh s) 1 = [(enc (0, KDbg), OOk); (enc (1, KBin), ONotFound)] /\
  results (sh s) 2 = [(enc (0, KBin), OOk)].
Proof. vm_compute. repeat split. Qed.

(* ---- BEYOND THE PROPERTY'S QUANTIFIER (C12 excludes cancellation): a requester that is waiting
        for a slot's lock is dropped (C12/DropModel.v: MutexLockFuture::drop = remove_waker(key, true),
        which passes a wake-up the dropped waiter had already received on to the next waiter).
        [erun c evs] = any sequence of polls and such drops; it returns the configuration
        truncated to what the dropped tasks had completed, and the state. ---- *)
From RM Require Import C12.DropModel C12.DropProofs.

(* no wake-up is lost: while a surviving task is unfinished, some unfinished task is woken *)
Theorem c12_drop_waiter_no_lost_wakeup : forall (c : config) (evs : list event),
  all_done (fst (erun c evs)) (base (snd (erun c evs))) = false ->
  runnable (fst (erun c evs)) (snd (erun c evs)) <> [].
Proof. exact drop_no_lost_wakeup. Qed.
Print Assumptions c12_drop_waiter_no_lost_wakeup.

(* ... and a wake-driven executor then finishes all surviving tasks within the same bound *)
Theorem c12_drop_waiter_still_finishes : forall (c : config) (evs : list event) (fuel : nat) (picks : list nat),
  2 * work c + ntasks c < fuel ->
  exists w' sched,
    wexec (fst (erun c evs)) fuel picks (snd (erun c evs)) [] = (w', sched, WDone) /\
    all_done (fst (erun c evs)) (base w') = true.
Proof. exact drop_still_finishes. Qed.
Print Assumptions c12_drop_waiter_still_finishes.

(* safety is unaffected: still at most one supplier call per key, one answer per key *)
Theorem c12_drop_waiter_safety : forall (c : config) (evs : list event) (k : key),
  supplier_calls (base (snd (erun c evs))) k <= 1 /\
  (forall t o, In (k, o) (results (sh (base (snd (erun c evs)))) t) -> o = outc c k).
Proof. exact drop_safety. Qed.
Print Assumptions c12_drop_waiter_safety.

(* the woken waiter is dropped before it runs: the wake-up moves on to the other waiter *)
Example c12_nonvacuous_drop :
  let c := {| tasks := [[0]; [0]; [0]]; susp := fun _ => 1; outc := fun _ => OOk; leaf := fun _ => 0 |} in
  let cw := erun c [EPoll 0; EPoll 1; EPoll 2; EPoll 0] in
  wk (ext (snd cw)) 1 = Some (0, 0, true) /\ wk (ext (snd cw)) 2 = Some (0, 1, false) /\
  runnable (fst cw) (snd cw) = [1] /\
  let cw' := erun c [EPoll 0; EPoll 1; EPoll 2; EPoll 0; EDrop 1] in
  runnable (fst cw') (snd cw') = [2] /\ tasks (fst cw') = [[0]; []; [0]] /\
  wk (ext (snd cw')) 2 = Some (0, 1, true).
Proof. vm_compute. repeat split. Qed.

(* ==== Round 4: interleavings finer than polls (multi-threaded executors) and schedule independence ====
   [mrun c ms] (C12/FineModel.v) folds ONE atomic action of a task (wait / hit / begin / tick / complete) over ANY
   list of task ids: between two lookups of one poll, and between the start of the supplier call and its first
   answer, any other task may take any number of steps — what two worker threads polling two tasks at the same
   time can produce.  Unbounded tasks, lookups, keys, suspensions, as everywhere above. *)
From Coq Require Import Permutation.
From RM Require Import C12.FineModel C12.FineProofs.

(* every poll schedule of the model above is a micro schedule (so the fine theorems subsume the coarse ones) *)
Theorem c12_polls_are_micro_schedules : forall (c : config) (sched : list task),
  exists ms, state_eq (mrun c ms) (run c sched).
Proof. exact run_refines. Qed.
Print Assumptions c12_polls_are_micro_schedules.

(* safety under every micro schedule: supplier asked at most once per key; every finished lookup carries the
   key's single scripted answer (failures included) and is the lookup issued at that position;
   processed <= requested <= distinct keys *)
Theorem c12_fine_safety : forall (c : config) (ms : list task),
  (forall k, supplier_calls (mrun c ms) k <= 1) /\
  (forall t i k o, task_result (mrun c ms) t i = Some (k, o) ->
     o = outc c k /\ nth_error (nth t (tasks c) []) i = Some k) /\
  processed (mrun c ms) <= requested (mrun c ms) /\ requested (mrun c ms) <= distinct_keys c.
Proof. exact fine_safety. Qed.
Print Assumptions c12_fine_safety.

(* at quiescence, however it was reached: each task holds exactly the scripted answers of its lookups in order,
   every requested key was fetched exactly once, requested = processed = distinct keys *)
Theorem c12_fine_quiescent : forall (c : config) (ms : list task),
  all_done c (mrun c ms) = true ->
  (forall t, results (sh (mrun c ms)) t = map (fun k => (k, outc c k)) (nth t (tasks c) [])) /\
  (forall k, In k (concat (tasks c)) -> supplier_calls (mrun c ms) k = 1) /\
  requested (mrun c ms) = distinct_keys c /\ processed (mrun c ms) = distinct_keys c.
Proof. exact fine_quiescent. Qed.
Print Assumptions c12_fine_quiescent.

(* no stuck state and bounded work under micro schedules: the measure (micro steps still needed) starts at
   work + number of lookups, no step of any task (spurious ones included) increases it, and while some task is
   unfinished some task's next step strictly lowers it — so every schedule that keeps stepping a task whose step
   is not a no-op ends after at most that many effective steps *)
Theorem c12_fine_progress : forall (c : config) (ms : list task),
  (mpotential c (mrun c ms) <= work c + length (concat (tasks c))) /\
  (forall t, mpotential c (mstep c t (mrun c ms)) <= mpotential c (mrun c ms)) /\
  (all_done c (mrun c ms) = false ->
     exists t, t < ntasks c /\ mpotential c (mstep c t (mrun c ms)) < mpotential c (mrun c ms)).
Proof. exact fine_progress. Qed.
Print Assumptions c12_fine_progress.

(* everything a requester or the CLI can observe at the end is independent of the schedule: per-task results,
   the set of supplier calls (the log is a permutation), the remembered value per key, both counters.  This is
   what justifies comparing runs whose schedule the harness does not control (tokio multi-thread, FuturesUnordered)
   with ANY complete run of the model. *)
Theorem c12_quiescent_observables_schedule_independent : forall (c : config) (m1 m2 : list task),
  all_done c (mrun c m1) = true -> all_done c (mrun c m2) = true ->
  (forall t, results (sh (mrun c m1)) t = results (sh (mrun c m2)) t) /\
  Permutation (calls (sh (mrun c m1))) (calls (sh (mrun c m2))) /\
  (forall k, value (sh (mrun c m1)) k = value (sh (mrun c m2)) k) /\
  requested (mrun c m1) = requested (mrun c m2) /\ processed (mrun c m1) = processed (mrun c m2).
Proof. exact fine_independent. Qed.
Print Assumptions c12_quiescent_observables_schedule_independent.

(* ... the same for poll schedules *)
Theorem c12_poll_schedule_independent : forall (c : config) (s1 s2 : list task),
  all_done c (run c s1) = true -> all_done c (run c s2) = true ->
  (forall t, results (sh (run c s1)) t = results (sh (run c s2)) t) /\
  Permutation (calls (sh (run c s1))) (calls (sh (run c s2))) /\
  (forall k, value (sh (run c s1)) k = value (sh (run c s2)) k) /\
  requested (run c s1) = requested (run c s2) /\ processed (run c s1) = processed (run c s2).
Proof. exact poll_independent. Qed.
Print Assumptions c12_poll_schedule_independent.

(* a micro schedule no poll schedule can produce: the supplier never suspends (susp = 0), yet task 1 observes
   the slot locked between task 0's begin and complete (a poll would run both in one go); then both finish,
   two different orders of completion give the same observables; the failure (OLoad) is remembered *)
Example c12_nonvacuous_fine :
  let c := {| tasks := [[0; 1]; [0]; [1; 0]]; susp := fun _ => 0; outc := fun k => if Nat.eqb k 0 then OLoad else OOk;
              leaf := fun _ => 0 |} in
  lock (sh (mrun c [0; 1])) 0 = Some 0 /\ snd (pcs (mrun c [0; 1]) 1) = Wait /\
  requested (mrun c [0; 1; 2]) = 2 /\ processed (mrun c [0; 1; 2]) = 0 /\
  all_done c (mrun c [0; 1; 2; 2; 0; 0; 1; 2; 0; 2]) = true /\
  all_done c (mrun c [2; 2; 2; 1; 0; 2; 0; 0; 1]) = true /\
  calls (sh (mrun c [0; 1; 2; 2; 0; 0; 1; 2; 0; 2])) = [0; 1] /\
  calls (sh (mrun c [2; 2; 2; 1; 0; 2; 0; 0; 1])) = [1; 0] /\
  results (sh (mrun c [2; 2; 2; 1; 0; 2; 0; 0; 1])) 1 = [(0, OLoad)] /\
  mpotential c (init c) = 10.
Proof. vm_compute. repeat split. Qed.

(* ==== Round 4: the source still has the structure the model was written from (Gen/C12Structure.v is regenerated
   from breakpad-symbols/src/{lib,http}.rs on every run; C12/Structure.v says what each operation is in the model):
   FutMutex is the futures-util async mutex; get = lock().await, `if none { store(f().await) }` with the guard held
   across the await, clone; module_key has its four components, unnormalised; get_symbols goes through
   cache_default(module_key(module)).get(closure); the closure bumps requested before and processed after the
   supplier await, classifies the answer as Model.stat_loaded/stat_corrupt do, inserts into stats; nobody else
   writes the counters, the stats map or the slot maps; locate_file_internal has the same shape over FileKey. *)
From RM Require Import C12.Structure.
Theorem c12_source_structure_modelled : structure_matches.
Proof. exact structure_ok. Qed.
Print Assumptions c12_source_structure_modelled.

(* ==== Round 5: the theorems for the PROGRAM regenerated from the Rust bodies.
   Gen/C12Program.v (translate/c12_program.py, every run) holds CachedAsyncResult::get, the closure of
   Symbolizer::get_symbols, the closure of HttpSymbolSupplier::locate_file_internal and the entry points fill_symbol /
   walk_frame / get_symbol_at_address / HttpSymbolSupplier::locate_file (= what Symbolizer::get_file_path delegates
   to) as instruction lists; C12/ProgModel.v interprets them on the shared state of C12/Model.v ([prun] = whole polls in
   any order, spurious and unknown ids included).  The statements below are about [prun src_program]: an edit of those
   bodies (instruction moved / dropped / doubled, retry, non-waiting probe, early unlock) changes the program they are
   about.  ONE configuration type covers every mix of the four entry points; a lookup (e, k) addresses slot k (symbols:
   a module key; files: FileModel.enc (module key, kind)); a configuration that mixes the two maps gives them
   disjoint key ranges (Symbolizer.symbols and HttpSymbolSupplier.cached_file_paths are different maps). *)
From RM Require Import C12.ProgModel C12.ProgProofs C12.ProgSource Gen.C12Program C12.FileModel.

(* poll for poll the interpreter on the source's program is C12/Model.v: same phase and remaining lookups per task,
   same lock / value per slot, same supplier log, same per-task results; with symbol lookups only also the same
   counters and stats (the file closure has neither) — so every theorem above holds for it *)
Theorem c12_source_program_refines_model : forall (full : bool) (pc : pconfig) (sched : list task),
  (full = true -> sym_only pc) -> psim full (prun src_program pc sched) (run (cfg pc) sched).
Proof. exact src_refines. Qed.
Print Assumptions c12_source_program_refines_model.

(* at most one supplier call (locate_symbols, resp. the file closure's fetch sequence) per slot, whatever the mix
   of entry points and the schedule *)
Theorem c12_source_at_most_once : forall (pc : pconfig) (sched : list task) (k : key),
  psupplier_calls (prun src_program pc sched) k <= 1.
Proof. exact src_at_most_once. Qed.
Print Assumptions c12_source_at_most_once.

(* every requester — through whichever entry point — observes the slot's single scripted answer, failures included *)
Theorem c12_source_same_outcome : forall (pc : pconfig) (sched : list task) (t : task) (i : nat) (k : key) (o : outcome),
  ptask_result (prun src_program pc sched) t i = Some (k, o) ->
  o = outc (pbase pc) k /\ exists e, nth_error (nth t (ptasks pc) []) i = Some (e, k).
Proof. exact src_same_outcome. Qed.
Print Assumptions c12_source_same_outcome.

Theorem c12_source_results_complete : forall (pc : pconfig) (sched : list task) (t : task),
  pall_done pc (prun src_program pc sched) = true ->
  map fst (results (psh (prun src_program pc sched)) t) = map snd (nth t (ptasks pc) []).
Proof. exact src_results_complete. Qed.
Print Assumptions c12_source_results_complete.

Theorem c12_source_exactly_once_at_quiescence : forall (pc : pconfig) (sched : list task) (k : key),
  pall_done pc (prun src_program pc sched) = true -> In k (concat (tasks (cfg pc))) ->
  psupplier_calls (prun src_program pc sched) k = 1.
Proof. exact src_exactly_once. Qed.
Print Assumptions c12_source_exactly_once_at_quiescence.

(* no request is lost, nothing deadlocks, no task of the program panics (unwrap of an empty slot) or is left with an
   ill-formed continuation *)
Theorem c12_source_fair_schedule_finishes : forall (pc : pconfig) (sched : list task) (T : nat),
  fair (length (ptasks pc)) T sched -> T * work (cfg pc) <= length sched ->
  pall_done pc (prun src_program pc sched) = true.
Proof. exact src_fair_finishes. Qed.
Print Assumptions c12_source_fair_schedule_finishes.

Theorem c12_source_never_stuck : forall (pc : pconfig) (sched : list task) (t : task),
  snd (fst (ppcs (prun src_program pc sched) t)) <> [IAbort].
Proof. exact src_never_stuck. Qed.
Print Assumptions c12_source_never_stuck.

(* the pending counters (symbol lookups: fill_symbol / walk_frame / get_symbol_at_address) *)
Theorem c12_source_counters_bounded : forall (pc : pconfig) (sched : list task), sym_only pc ->
  proc (psh (prun src_program pc sched)) <= req (psh (prun src_program pc sched)) /\
  req (psh (prun src_program pc sched)) <= distinct_keys (cfg pc).
Proof. exact src_counters_bounded. Qed.
Print Assumptions c12_source_counters_bounded.

Theorem c12_source_counters : forall (pc : pconfig) (sched : list task), sym_only pc ->
  pall_done pc (prun src_program pc sched) = true ->
  req (psh (prun src_program pc sched)) = distinct_keys (cfg pc) /\
  proc (psh (prun src_program pc sched)) = distinct_keys (cfg pc).
Proof. exact src_counters. Qed.
Print Assumptions c12_source_counters.

(* HttpSymbolSupplier::locate_file: file configurations are configurations of the same program *)
Theorem c12_source_files_at_most_once : forall (fc : fconfig) (sched : list task) (fk : fkey),
  psupplier_calls (prun src_program (pc_of_fc fc) sched) (enc fk) <= 1.
Proof. exact src_files_at_most_once. Qed.
Print Assumptions c12_source_files_at_most_once.

Theorem c12_source_files_same_outcome : forall (fc : fconfig) (sched : list task) (t : task) (i : nat) (k : key) (o : outcome),
  ptask_result (prun src_program (pc_of_fc fc) sched) t i = Some (k, o) ->
  o = snd (file_script fc (dec k)) /\ (o = OOk \/ o = ONotFound).
Proof. exact src_files_same_outcome. Qed.
Print Assumptions c12_source_files_same_outcome.

(* the slots are reached through these entry points only (regenerated list of callers) *)
Theorem c12_source_ways_into_the_slots : src_ways = canon_ways.
Proof. exact src_ways_ok. Qed.
Print Assumptions c12_source_ways_into_the_slots.

(* the instruction set means something: the two seeded shapes are programs too, and the interpreter refutes the
   property on them — a retry after ParseError asks the supplier twice (counters still 1); with a non-waiting probe in
   walk_frame a requester polled while the other's lookup is suspended observes a failure although the supplier's
   single answer is Ok *)
Theorem c12_retry_program_refuted :
  psupplier_calls (prun retry_program one_parse [0]) 0 = 2 /\
  pall_done one_parse (prun retry_program one_parse [0]) = true /\
  req (psh (prun retry_program one_parse [0])) = 1.
Proof. exact retry_refuted. Qed.
Print Assumptions c12_retry_program_refuted.

Theorem c12_probe_program_refuted :
  let s := prun probe_program two_on_one [0; 1; 0] in
  pall_done two_on_one s = true /\ psupplier_calls s 0 = 1 /\
  ptask_result s 0 0 = Some (0, OOk) /\ ptask_result s 1 0 = Some (0, OMissing) /\ outc (pbase two_on_one) 0 = OOk.
Proof. exact probe_refuted. Qed.
Print Assumptions c12_probe_program_refuted.

(* non-vacuity: a mixed workload (all four entry points; symbol slots 0 and 1, file slot 2; a remembered failure)
   under a schedule with spurious polls and an unknown id: contention mid-run, quiescence at the end *)
Definition ex_pc : pconfig :=
  {| ptasks := [[(EFill, 0); (EFile, 2)]; [(EWalk, 0); (EAddr, 1)]; [(EFile, 2); (EFill, 1)]];
     pbase := {| tasks := []; susp := fun k => S k; outc := fun k => if Nat.eqb k 1 then OParse else OOk;
                 leaf := fun k => k |} |}.
Example c12_nonvacuous_source_program :
  let s := prun src_program ex_pc [0; 1; 1] in
  let s' := prun src_program ex_pc ([0; 1; 1; 2; 7] ++ concat (repeat [0; 1; 2] 8)) in
  phase_of (snd (fst (ppcs s 0))) (snd (ppcs s 0)) = Sup 0 /\ phase_of (snd (fst (ppcs s 1))) (snd (ppcs s 1)) = Wait /\
  lock (psh s) 0 = Some 0 /\ req (psh s) = 1 /\ proc (psh s) = 0 /\
  pall_done ex_pc s' = true /\
  results (psh s') 1 = [(0, OOk); (1, OParse)] /\ results (psh s') 2 = [(2, OOk); (1, OParse)] /\
  calls (psh s') = [0; 2; 1] /\ req (psh s') = 2 /\ proc (psh s') = 2 /\
  src_program = canon.
Proof. vm_compute. repeat split. Qed.

(* ---- the executors of rounds 1-4 driving the program of the source (C12/ProgExec.v) ---- *)
From RM Require Import C12.WakeModel C12.JoinModel C12.ProgExec.
From Coq Require Import Permutation.

(* a wake-driven executor (polls only tasks whose waker fired, whichever it picks) finishes every task of the program
   within 2 * work + ntasks polls and never finds nobody woken; the interpreter's final state is the executor's *)
Theorem c12_source_wake_driven_finishes : forall (pc : pconfig) (fuel : nat) (picks : list nat),
  2 * work (cfg pc) + length (ptasks pc) < fuel ->
  exists w sched, wexec (cfg pc) fuel picks (winit (cfg pc)) [] = (w, sched, WDone) /\
                  pall_done pc (prun src_program pc sched) = true /\
                  psim false (prun src_program pc sched) (base w).
Proof. exact src_wake_driven_finishes. Qed.
Print Assumptions c12_source_wake_driven_finishes.

Theorem c12_source_no_lost_wakeup : forall (pc : pconfig) (sched : list task),
  pall_done pc (prun src_program pc sched) = false -> runnable (cfg pc) (wrun (cfg pc) sched) <> [].
Proof. exact src_no_lost_wakeup. Qed.
Print Assumptions c12_source_no_lost_wakeup.

(* join_all (shared waker, children re-polled spuriously): at most [work] parent polls *)
Theorem c12_source_join_all : forall (pc : pconfig) (fuel : nat),
  work (cfg pc) <= fuel ->
  exists w r, jexec (cfg pc) fuel (winit (cfg pc)) 0 = (w, r, WDone) /\ r <= work (cfg pc) /\
              pall_done pc (prun src_program pc (round_robin (cfg pc) r)) = true.
Proof. exact src_join_all. Qed.
Print Assumptions c12_source_join_all.

(* per-task results, the set of supplier calls and the remembered values do not depend on the schedule *)
Theorem c12_source_schedule_independent : forall (pc : pconfig) (s1 s2 : list task),
  pall_done pc (prun src_program pc s1) = true -> pall_done pc (prun src_program pc s2) = true ->
  (forall t, results (psh (prun src_program pc s1)) t = results (psh (prun src_program pc s2)) t) /\
  Permutation (calls (psh (prun src_program pc s1))) (calls (psh (prun src_program pc s2))) /\
  (forall k, value (psh (prun src_program pc s1)) k = value (psh (prun src_program pc s2)) k).
Proof. exact src_schedule_independent. Qed.
Print Assumptions c12_source_schedule_independent.

(* ---- INSTRUCTION-level interleavings of the program of the source (C12/ProgFine.v): [pmrun] executes one
   instruction of one task per step, in any order — between `lock().await` and the test of the slot, between
   `symbols_requested += 1` and the supplier call, between the store and the end of get any other task may run
   (multi-threaded executors).  Finer than C12/FineModel.v's five atomic blocks. ---- *)
From RM Require Import C12.ProgFine.

Theorem c12_source_instr_at_most_once : forall (pc : pconfig) (ms : list task) (k : key),
  psupplier_calls (pmrun src_program pc ms) k <= 1.
Proof. exact src_pm_at_most_once. Qed.
Print Assumptions c12_source_instr_at_most_once.

Theorem c12_source_instr_same_outcome : forall (pc : pconfig) (ms : list task) (t : task) (i : nat) (k : key) (o : outcome),
  ptask_result (pmrun src_program pc ms) t i = Some (k, o) -> o = outc (pbase pc) k.
Proof. exact src_pm_same_outcome. Qed.
Print Assumptions c12_source_instr_same_outcome.

(* two tasks are never between the acquisition of a slot's lock and the end of get for the same slot *)
Theorem c12_source_instr_mutual_exclusion : forall (pc : pconfig) (ms : list task) (k : key) (t u : task),
  lock (psh (pmrun src_program pc ms)) k = Some t ->
  tkey (ppcs (pmrun src_program pc ms) u) = Some k -> holds (tcls (ppcs (pmrun src_program pc ms) u)) = true -> u = t.
Proof. exact src_pm_mutual_exclusion. Qed.
Print Assumptions c12_source_instr_mutual_exclusion.

(* a remembered value is the supplier's single answer for that slot *)
Theorem c12_source_instr_value : forall (pc : pconfig) (ms : list task) (k : key) (o : outcome),
  value (psh (pmrun src_program pc ms)) k = Some o ->
  o = outc (pbase pc) k /\ psupplier_calls (pmrun src_program pc ms) k = 1.
Proof. exact src_pm_value. Qed.
Print Assumptions c12_source_instr_value.

Theorem c12_source_instr_never_stuck : forall (pc : pconfig) (ms : list task) (t : task),
  snd (fst (ppcs (pmrun src_program pc ms) t)) <> [IAbort].
Proof. exact src_pm_never_stuck. Qed.
Print Assumptions c12_source_instr_never_stuck.

(* no deadlock at instruction granularity: the only instruction that can fail to progress is lock().await on a held
   lock; while some task is unfinished, some unfinished task is not waiting for a held lock *)
Theorem c12_source_instr_no_deadlock : forall (pc : pconfig) (ms : list task),
  pall_done pc (pmrun src_program pc ms) = false ->
  exists t, t < length (ptasks pc) /\ ptask_done (pmrun src_program pc ms) t = false /\
            blocked (pmrun src_program pc ms) t = false.
Proof. exact src_pm_no_deadlock. Qed.
Print Assumptions c12_source_instr_no_deadlock.

(* no request is lost: when every task has finished, each has one result per lookup, in order, and every requested
   slot was fetched exactly once — whatever the instruction-level interleaving was *)
Theorem c12_source_instr_results_complete : forall (pc : pconfig) (ms : list task) (t : task),
  pall_done pc (pmrun src_program pc ms) = true ->
  map fst (results (psh (pmrun src_program pc ms)) t) = map snd (nth t (ptasks pc) []).
Proof. exact src_pm_results_complete. Qed.
Print Assumptions c12_source_instr_results_complete.

Theorem c12_source_instr_exactly_once_at_quiescence : forall (pc : pconfig) (ms : list task) (k : key),
  pall_done pc (pmrun src_program pc ms) = true -> In k (concat (tasks (cfg pc))) ->
  psupplier_calls (pmrun src_program pc ms) k = 1.
Proof. exact src_pm_exactly_once. Qed.
Print Assumptions c12_source_instr_exactly_once_at_quiescence.

(* every poll schedule is an instruction schedule: a poll of a task is some number of its instructions in a row
   ([pstate_eq]: the same per-task state pointwise, the same shared state), so the instruction-level theorems speak
   about every run the poll-level ones speak about *)
From RM Require Import C12.ProgSteps.
Theorem c12_source_polls_are_instruction_schedules : forall (pc : pconfig) (sched : list task),
  exists ms, pstate_eq (pmrun src_program pc ms) (prun src_program pc sched).
Proof. exact src_polls_are_instruction_schedules. Qed.
Print Assumptions c12_source_polls_are_instruction_schedules.

(* the pending counters at instruction granularity (symbol lookups): `symbols_requested += 1`, the supplier call,
   `symbols_processed += 1`, the stats insert and the store are separate steps between which other tasks run *)
From RM Require Import C12.ProgCount.
Theorem c12_source_instr_counters_bounded : forall (pc : pconfig) (ms : list task), sym_only pc ->
  proc (psh (pmrun src_program pc ms)) <= req (psh (pmrun src_program pc ms)) /\
  req (psh (pmrun src_program pc ms)) <= distinct_keys (cfg pc).
Proof. exact src_pm_counters_bounded. Qed.
Print Assumptions c12_source_instr_counters_bounded.

Theorem c12_source_instr_counters : forall (pc : pconfig) (ms : list task), sym_only pc ->
  pall_done pc (pmrun src_program pc ms) = true ->
  req (psh (pmrun src_program pc ms)) = distinct_keys (cfg pc) /\ proc (psh (pmrun src_program pc ms)) = distinct_keys (cfg pc).
Proof. exact src_pm_counters_quiescent. Qed.
Print Assumptions c12_source_instr_counters.

(* progress measure at instruction granularity ([imu] = an upper bound on the instruction steps still needed: per
   lookup not begun 17 / 18 / 10 + the supplier's suspensions): no step increases it, a step of a task waiting for a
   held lock leaves the shared state alone, every other step of an unfinished task lowers it — and by
   c12_source_instr_no_deadlock such a task exists while anything is unfinished: no stuck state, no livelock *)
From RM Require Import C12.ProgMeasure.
Theorem c12_source_instr_progress : forall (pc : pconfig) (ms : list task) (t : task),
  imu (cfg pc) (length (ptasks pc)) (pmstep src_program (cfg pc) t (pmrun src_program pc ms))
    <= imu (cfg pc) (length (ptasks pc)) (pmrun src_program pc ms) /\
  (blocked (pmrun src_program pc ms) t = true ->
     psh (pmstep src_program (cfg pc) t (pmrun src_program pc ms)) = psh (pmrun src_program pc ms)) /\
  (blocked (pmrun src_program pc ms) t = false -> ptask_done (pmrun src_program pc ms) t = false ->
     imu (cfg pc) (length (ptasks pc)) (pmstep src_program (cfg pc) t (pmrun src_program pc ms))
       < imu (cfg pc) (length (ptasks pc)) (pmrun src_program pc ms)).
Proof. exact src_pm_progress. Qed.
Print Assumptions c12_source_instr_progress.

(* fairness implies termination at instruction granularity: if every window of T consecutive instruction steps
   contains every task, everything has finished after T * imu(initial state) steps — no request is lost, whatever
   the (fair) interleaving of single instructions *)
From RM Require Import C12.ProgFair.
Theorem c12_source_instr_fair_schedule_finishes : forall (pc : pconfig) (T : nat) (ms : list task),
  fair (length (ptasks pc)) T ms -> T * imu (cfg pc) (length (ptasks pc)) (pinit pc) <= length ms ->
  pall_done pc (pmrun src_program pc ms) = true.
Proof. exact src_pm_fair_finishes. Qed.
Print Assumptions c12_source_instr_fair_schedule_finishes.

Example c12_nonvacuous_instr_fair :
  imu (cfg two_fill) 2 (pinit two_fill) = 34 /\
  pall_done two_fill (pmrun src_program two_fill (concat (repeat [0; 1] 20))) = true.
Proof. split; [exact imu_two_fill|vm_compute; reflexivity]. Qed.

Example c12_nonvacuous_instr :
  let s1 := pmrun src_program two_fill [0; 0; 0; 0; 0; 1; 1] in
  req (psh s1) = 1 /\ calls (psh s1) = [] /\ lock (psh s1) 0 = Some 0 /\ waiting (snd (ppcs s1 1)) = true /\
  tcls (ppcs s1 0) = CPre /\
  let s2 := pmrun src_program two_fill ([0; 0; 0; 0; 0; 1; 1] ++ repeat 0 14 ++ repeat 1 8) in
  ptask_done s2 0 = true /\ ptask_done s2 1 = true /\ calls (psh s2) = [0] /\
  results (psh s2) 0 = [(0, OLoad)] /\ results (psh s2) 1 = [(0, OLoad)] /\ req (psh s2) = 1 /\ proc (psh s2) = 1.
Proof. exact pm_nonvacuous. Qed.

(* ---- the `stats` map (Symbolizer::stats; round 5, second pass; C12/StatsProofs.v): in EVERY reachable state an entry is the
   classification of the supplier's single answer for a requested module with that leaf name whose lookup has
   completed (remembered failures included), a finished lookup's module has an entry under its leaf name, and at
   quiescence every requested module has one.  Which module of a shared leaf name wins is schedule dependent (C13). ---- *)
From RM Require Import C12.StatsProofs.
Theorem c12_stats_sound : forall (c : config) (sched : list task) (lf : nat) (o : outcome),
  stats (sh (run c sched)) lf = Some o ->
  exists k, In k (concat (tasks c)) /\ leaf c k = lf /\ o = outc c k /\ value (sh (run c sched)) k = Some o.
Proof. exact stats_sound. Qed.
Print Assumptions c12_stats_sound.

Theorem c12_stats_has_finished : forall (c : config) (sched : list task) (t : task) (i : nat) (k : key) (o : outcome),
  task_result (run c sched) t i = Some (k, o) -> stats (sh (run c sched)) (leaf c k) <> None.
Proof. exact stats_has_finished. Qed.
Print Assumptions c12_stats_has_finished.

Theorem c12_stats_complete_at_quiescence : forall (c : config) (sched : list task) (k : key),
  all_done c (run c sched) = true -> In k (concat (tasks c)) -> stats (sh (run c sched)) (leaf c k) <> None.
Proof. exact stats_complete_quiescent. Qed.
Print Assumptions c12_stats_complete_at_quiescence.

Example c12_nonvacuous_stats :
  let c := {| tasks := [[0; 1]; [1; 2]]; susp := fun k => k; outc := fun k => if Nat.eqb k 1 then OParse else OOk;
              leaf := fun k => k / 2 |} in
  let mid := run c [0; 1] in let fin := run c [0; 1; 0; 1; 0; 1; 0; 1] in
  task_result mid 0 0 = Some (0, OOk) /\ stats (sh mid) 0 = Some OOk /\ stats (sh mid) 1 = None /\
  all_done c fin = true /\ stats (sh fin) 0 = Some OParse /\ stats (sh fin) 1 = Some OOk.
Proof. vm_compute. repeat split. Qed.

(* ---- the processor (round 5, second pass; C12/ProcModel.v, C12/ProcProofs.v, Gen/C12Processor.v regenerated by
   translate/c12_processor.py from processor.rs / minidump-unwind): into_process_state reads the stats, walks ALL threads
   by one join_all whose per-thread future awaits walk_stack once, reads the stats again; walk_stack asks
   fill_symbol for the module of every frame and then lets get_caller_frame make its lookups; the provider methods of
   Symbolizer are plain delegations. ---- *)
From RM Require Import C12.ProcModel C12.ProcProofs Gen.C12Processor.

Theorem c12_source_processor_shape : src_walker = canon_walker.
Proof. exact src_walker_is_canon. Qed.
Print Assumptions c12_source_processor_shape.

Theorem c12_source_provider_users : src_provider_users = canon_provider_users.
Proof. exact src_provider_users_ok. Qed.
Print Assumptions c12_source_provider_users.

(* the CFI attempt of get_caller_frame, every architecture: one provider call — walk_frame on the module covering the callee
   frame's instruction (nothing is asked when no module covers it) *)
Theorem c12_source_cfi_calls : src_cfi = canon_cfi /\ src_cfi_x86 = cfi_of x86_name src_cfi /\ src_cfi_module = CfiModuleOfCalleeInstruction /\
  forall a ops k, In (a, ops) src_cfi -> cfi_lookups ops src_cfi_module (Some k) = [(EWalk, k)] /\
                                         cfi_lookups ops src_cfi_module None = [].
Proof. exact src_cfi_ok. Qed.
Print Assumptions c12_source_cfi_calls.

(* for EVERY dump shape (any number of threads, frames, modules; any lookups of the unwinder, symbol lookups only), every
   supplier script and enough fuel: the executor that polls the join_all only when its waker fired finishes (never
   "nobody woken") after at most [work] root polls; the first stats read is empty; every module of every frame — and
   every module the unwinder asked about — was located exactly once, nothing more than once; every thread has all its
   answers and each is the supplier's single answer for that module; requested = processed = distinct modules; the
   stats map copied into the ProcessState has an entry for the leaf name of every such module and each entry
   classifies the answer of one of the requested modules with that leaf name *)
Theorem c12_processor_once_per_module : forall (d : dump) (base : config) (fuel : nat),
  walk_ok d -> work (cfg (proc_pc src_walker d base)) <= fuel ->
  exists (s : pstate) (r : nat) (after : snapshot),
    process src_program src_walker d base fuel = Some (s, [(fun _ => None); after]) /\
    after = stats (psh s) /\
    s = prun src_program (proc_pc src_walker d base) (round_robin (cfg (proc_pc src_walker d base)) r) /\
    r <= work (cfg (proc_pc src_walker d base)) /\
    pall_done (proc_pc src_walker d base) s = true /\
    (forall th f k, In th d -> In f th -> f_module f = Some k -> psupplier_calls s k = 1) /\
    (forall k, In k (concat (tasks (cfg (proc_pc src_walker d base)))) -> psupplier_calls s k = 1) /\
    (forall k, psupplier_calls s k <= 1) /\
    (forall t, map fst (results (psh s) t) = map snd (nth t (ptasks (proc_pc src_walker d base)) [])) /\
    (forall t i k o, ptask_result s t i = Some (k, o) -> o = outc base k) /\
    req (psh s) = distinct_keys (cfg (proc_pc src_walker d base)) /\
    proc (psh s) = distinct_keys (cfg (proc_pc src_walker d base)) /\
    (forall lf o, after lf = Some o ->
       exists k, In k (concat (tasks (cfg (proc_pc src_walker d base)))) /\ leaf base k = lf /\ o = outc base k) /\
    (forall k, In k (concat (tasks (cfg (proc_pc src_walker d base)))) -> after (leaf base k) <> None).
Proof. exact processor_once_per_module. Qed.
Print Assumptions c12_processor_once_per_module.

Example c12_nonvacuous_processor :
  walk_ok ex_dump /\ work (cfg (proc_pc src_walker ex_dump ex_base)) = 28 /\
  match process src_program src_walker ex_dump ex_base 28 with
  | Some (s, [before; after]) =>
      before 0 = None /\ after 0 = Some OParse /\ after 1 = Some OOk /\ after 2 = None /\
      calls (psh s) = [0; 1; 2] /\ req (psh s) = 3 /\ proc (psh s) = 3 /\
      results (psh s) 1 = [(1, OParse); (1, OParse); (2, OOk); (0, OOk); (0, OOk)]
  | _ => False
  end.
Proof. split; [exact ex_dump_ok|exact ex_process]. Qed.

(* ---- the pending counters of a run that MIXES symbol lookups and file lookups (round 5, second pass;
   C12/ProgCountMix.v): [sk] tells symbol slots from file slots (different maps in the code).  The closure of
   locate_file_internal touches neither counter; whatever the instruction-level interleaving,
   processed <= requested <= number of distinct MODULE keys asked for, and at quiescence all three are equal — the
   file lookups of the same run (each fetched once, c12_source_instr_at_most_once) do not count.  With
   sk = fun _ => true this is c12_source_instr_counters. ---- *)
From RM Require Import C12.ProgCountMix.
Theorem c12_source_instr_mixed_counters_bounded : forall (sk : key -> bool) (pc : pconfig) (ms : list task),
  classified sk pc ->
  proc (psh (pmrun src_program pc ms)) <= req (psh (pmrun src_program pc ms)) /\
  req (psh (pmrun src_program pc ms)) <= distinct_sym_keys sk pc.
Proof. exact src_mix_counters_bounded. Qed.
Print Assumptions c12_source_instr_mixed_counters_bounded.

Theorem c12_source_instr_mixed_counters : forall (sk : key -> bool) (pc : pconfig) (ms : list task),
  classified sk pc -> pall_done pc (pmrun src_program pc ms) = true ->
  req (psh (pmrun src_program pc ms)) = distinct_sym_keys sk pc /\
  proc (psh (pmrun src_program pc ms)) = distinct_sym_keys sk pc.
Proof. exact src_mix_counters_quiescent. Qed.
Print Assumptions c12_source_instr_mixed_counters.

(* the same for whole polls in any order (every poll schedule is an instruction schedule) *)
Theorem c12_source_mixed_counters : forall (sk : key -> bool) (pc : pconfig) (sched : list task), classified sk pc ->
  proc (psh (prun src_program pc sched)) <= req (psh (prun src_program pc sched)) /\
  req (psh (prun src_program pc sched)) <= distinct_sym_keys sk pc /\
  (pall_done pc (prun src_program pc sched) = true ->
   req (psh (prun src_program pc sched)) = distinct_sym_keys sk pc /\
   proc (psh (prun src_program pc sched)) = distinct_sym_keys sk pc).
Proof. exact src_mix_poll_counters. Qed.
Print Assumptions c12_source_mixed_counters.

Example c12_nonvacuous_mixed_counters :
  classified mix_sk mix_pc /\ distinct_sym_keys mix_sk mix_pc = 2 /\ distinct_keys (cfg mix_pc) = 3 /\
  let s := pmrun src_program mix_pc (concat (repeat [0; 1; 2] 40)) in
  pall_done mix_pc s = true /\ req (psh s) = 2 /\ proc (psh s) = 2 /\ length (calls (psh s)) = 3.
Proof. split; [exact mix_classified|exact mix_example]. Qed.

(* ---- ADAPTIVE requesters (round 5, second pass; C12/AdaptModel.v, C12/AdaptProofs.v): a task is a strategy — its next
   lookup is a function of the answers it has received so far (the unwinder: which module the caller's frame lies in
   depends on what the callee's module's symbols gave).  For every configuration of strategies that stop within N
   lookups when they are given the supplier's scripted answers, every schedule and every per-poll fuel > N, the
   adaptive run is, poll for poll, the run of C12/Model.v on the fixed lists [fixed_config N ac] (same shared state:
   locks, remembered values, supplier log, counters, stats, results; same phase and the same finished tasks) — so
   every theorem of C12 speaks about adaptive requesters. ---- *)
From RM Require Import C12.AdaptModel C12.AdaptProofs.
Theorem c12_adaptive_refines : forall (N : nat) (ac : aconfig) (fuel : nat) (sched : list task),
  N < fuel -> Forall (fun sg => ends N (outc (abase ac)) sg [] = true) (astrats ac) ->
  ash (arun fuel ac sched) = sh (run (fixed_config N ac) sched) /\
  (forall t, aph (arun fuel ac sched) t = snd (pcs (run (fixed_config N ac) sched) t)) /\
  (forall t, atask_done ac (arun fuel ac sched) t = task_done (run (fixed_config N ac) sched) t) /\
  aall_done ac (arun fuel ac sched) = all_done (fixed_config N ac) (run (fixed_config N ac) sched).
Proof. exact adaptive_refines_all. Qed.
Print Assumptions c12_adaptive_refines.

Theorem c12_adaptive_at_most_once : forall (N : nat) (ac : aconfig) (fuel : nat) (sched : list task) (k : key),
  N < fuel -> Forall (fun sg => ends N (outc (abase ac)) sg [] = true) (astrats ac) ->
  count_occ Nat.eq_dec (calls (ash (arun fuel ac sched))) k <= 1.
Proof. exact adaptive_at_most_once_all. Qed.
Print Assumptions c12_adaptive_at_most_once.

Theorem c12_adaptive_same_outcome : forall (N : nat) (ac : aconfig) (fuel : nat) (sched : list task) (t : task) (i : nat)
  (k : key) (o : outcome),
  N < fuel -> Forall (fun sg => ends N (outc (abase ac)) sg [] = true) (astrats ac) ->
  nth_error (results (ash (arun fuel ac sched)) t) i = Some (k, o) -> o = outc (abase ac) k.
Proof. exact adaptive_same_outcome_all. Qed.
Print Assumptions c12_adaptive_same_outcome.

Theorem c12_adaptive_counters : forall (N : nat) (ac : aconfig) (fuel : nat) (sched : list task),
  N < fuel -> Forall (fun sg => ends N (outc (abase ac)) sg [] = true) (astrats ac) ->
  aall_done ac (arun fuel ac sched) = true ->
  req (ash (arun fuel ac sched)) = distinct_keys (fixed_config N ac) /\
  proc (ash (arun fuel ac sched)) = distinct_keys (fixed_config N ac) /\
  forall k, In k (concat (tasks (fixed_config N ac))) -> count_occ Nat.eq_dec (calls (ash (arun fuel ac sched))) k = 1.
Proof. exact adaptive_counters_all. Qed.
Print Assumptions c12_adaptive_counters.

(* non-vacuity: two requesters that ask for module 0 and then, depending on what they got, for module 1 (symbols) or
   module 2 (none); module 0's symbol file is corrupt, so both go on to module 2 and module 1 is never asked for *)
Definition ex_strat : strat :=
  fun acc => match acc with
             | [] => Some 0
             | [(_, OOk)] => Some 1
             | [_] => Some 2
             | _ => None
             end.
Definition ex_ac : aconfig :=
  {| astrats := [ex_strat; ex_strat];
     abase := {| tasks := []; susp := fun k => 1; outc := fun k => if Nat.eqb k 0 then OParse else OOk; leaf := fun k => k |} |}.
Example c12_nonvacuous_adaptive :
  Forall (fun sg => ends 2 (outc (abase ex_ac)) sg [] = true) (astrats ex_ac) /\
  tasks (fixed_config 2 ex_ac) = [[0; 2]; [0; 2]] /\
  let s := arun 3 ex_ac [0; 1; 0; 1; 1; 0; 0; 1] in
  aall_done ex_ac s = true /\ calls (ash s) = [0; 2] /\ req (ash s) = 2 /\ proc (ash s) = 2 /\
  results (ash s) 0 = [(0, OParse); (2, OOk)] /\ results (ash s) 1 = [(0, OParse); (2, OOk)].
Proof. split; [repeat constructor|]. vm_compute. repeat split. Qed.

(* adaptive requesters and the program regenerated from the source: the interpreter on the unfolded lists (every lookup
   through fill_symbol) has, poll for poll, the shared state of the adaptive run — locks, remembered values, supplier log,
   results, both counters, stats — and finishes exactly when it does *)
From RM Require Import C12.AdaptSource.
Theorem c12_adaptive_source_program : forall (N : nat) (ac : aconfig) (fuel : nat) (sched : list task),
  N < fuel -> Forall (fun sg => ends N (outc (abase ac)) sg [] = true) (astrats ac) ->
  sh_eq true (psh (prun src_program (fill_pc N ac) sched)) (ash (arun fuel ac sched)) /\
  pall_done (fill_pc N ac) (prun src_program (fill_pc N ac) sched) = aall_done ac (arun fuel ac sched).
Proof. exact adaptive_source. Qed.
Print Assumptions c12_adaptive_source_program.

(* the stats map for the interpreter on the regenerated program (symbol lookups through any entry point) *)
Theorem c12_source_stats_sound : forall (pc : pconfig) (sched : list task) (lf : nat) (o : outcome), sym_only pc ->
  stats (psh (prun src_program pc sched)) lf = Some o ->
  exists k, In k (concat (tasks (cfg pc))) /\ leaf (pbase pc) k = lf /\ o = outc (pbase pc) k /\
            value (psh (prun src_program pc sched)) k = Some o.
Proof. exact src_stats_sound. Qed.
Print Assumptions c12_source_stats_sound.

Theorem c12_source_stats_complete : forall (pc : pconfig) (sched : list task) (k : key), sym_only pc ->
  pall_done pc (prun src_program pc sched) = true -> In k (concat (tasks (cfg pc))) ->
  stats (psh (prun src_program pc sched)) (leaf (pbase pc) k) <> None.
Proof. exact src_stats_complete. Qed.
Print Assumptions c12_source_stats_complete.

(* the stats map at INSTRUCTION granularity (C12/ProgStats.v): `SymbolStats::default()`, the classification, the leaf name
   and the insert are separate steps between which other tasks run (and the insert precedes the store into the slot);
   every entry classifies the single answer of a module with that leaf name which the supplier was asked for exactly once *)
From RM Require Import C12.ProgStats.
Theorem c12_source_instr_stats_sound : forall (pc : pconfig) (ms : list task) (lf : nat) (o : outcome),
  stats (psh (pmrun src_program pc ms)) lf = Some o ->
  exists k, leaf (pbase pc) k = lf /\ o = outc (pbase pc) k /\ psupplier_calls (pmrun src_program pc ms) k = 1.
Proof. exact src_pm_stats_sound. Qed.
Print Assumptions c12_source_instr_stats_sound.

Example c12_nonvacuous_instr_stats :
  let s := pmrun src_program two_fill (repeat 0 12) in
  stats (psh s) 0 <> None /\ value (psh s) 0 = None /\ calls (psh s) = [0].
Proof. exact pm_stats_example. Qed.

(* the thread walks of the processor on a MULTI-THREADED executor: under EVERY instruction-level interleaving of the
   per-thread futures (one instruction of the regenerated program of one thread at a time, any order) each module is
   located at most once, every answer is the module's single one, processed <= requested <= distinct modules, every
   stats entry classifies the answer of a module located exactly once; when all threads have finished: every module of
   every frame located exactly once, every thread has all its answers, requested = processed = distinct modules; and under
   any fair instruction schedule of sufficient length all threads finish *)
From RM Require Import C12.ProgMeasure C12.ProgFair.
Theorem c12_processor_threads_instr : forall (d : dump) (base : config) (ms : list task), walk_ok d ->
  (forall k, psupplier_calls (pmrun src_program (proc_pc src_walker d base) ms) k <= 1) /\
  (forall t i k o, ptask_result (pmrun src_program (proc_pc src_walker d base) ms) t i = Some (k, o) -> o = outc base k) /\
  proc (psh (pmrun src_program (proc_pc src_walker d base) ms)) <= req (psh (pmrun src_program (proc_pc src_walker d base) ms)) /\
  req (psh (pmrun src_program (proc_pc src_walker d base) ms)) <= distinct_keys (cfg (proc_pc src_walker d base)) /\
  (forall lf o, stats (psh (pmrun src_program (proc_pc src_walker d base) ms)) lf = Some o ->
     exists k, leaf base k = lf /\ o = outc base k /\ psupplier_calls (pmrun src_program (proc_pc src_walker d base) ms) k = 1) /\
  (pall_done (proc_pc src_walker d base) (pmrun src_program (proc_pc src_walker d base) ms) = true ->
     (forall th f k, In th d -> In f th -> f_module f = Some k ->
        psupplier_calls (pmrun src_program (proc_pc src_walker d base) ms) k = 1) /\
     (forall t, map fst (results (psh (pmrun src_program (proc_pc src_walker d base) ms)) t) =
                map snd (nth t (ptasks (proc_pc src_walker d base)) [])) /\
     req (psh (pmrun src_program (proc_pc src_walker d base) ms)) = distinct_keys (cfg (proc_pc src_walker d base)) /\
     proc (psh (pmrun src_program (proc_pc src_walker d base) ms)) = distinct_keys (cfg (proc_pc src_walker d base))) /\
  (forall T, fair (length (ptasks (proc_pc src_walker d base))) T ms ->
     T * imu (cfg (proc_pc src_walker d base)) (length (ptasks (proc_pc src_walker d base))) (pinit (proc_pc src_walker d base)) <= length ms ->
     pall_done (proc_pc src_walker d base) (pmrun src_program (proc_pc src_walker d base) ms) = true).
Proof. exact processor_instr. Qed.
Print Assumptions c12_processor_threads_instr.

(* ---- the closure of HttpSymbolSupplier::locate_file_internal as statements (round 5, second pass; C12/FileProg.v,
   C12/FileProgProofs.v): translate/c12_program.py regenerates its body as instructions (local lookup with early return;
   if a lookup path exists: per server fetch_lookup().await with early return on success; the cab branch compiled out;
   Err(NotFound)) and [fexec] gives them their meaning — total suspensions and answer.  For every file configuration and
   file key the regenerated body means FileModel.file_script, the script the once-per-key theorems assume for a file slot,
   and what a locate_file requester observes is that meaning. ---- *)
From RM Require Import C12.FileProg C12.FileProgProofs.
Theorem c12_source_file_closure_meaning : forall (fc : fconfig) (fk : fkey),
  file_meaning src_file_body fc fk = Some (file_script fc fk).
Proof. exact src_file_meaning. Qed.
Print Assumptions c12_source_file_closure_meaning.

Theorem c12_source_files_outcome_is_closure_meaning : forall (fc : fconfig) (sched : list task) (t : task) (i : nat)
  (k : key) (o : outcome),
  ptask_result (prun src_program (pc_of_fc fc) sched) t i = Some (k, o) ->
  exists n, file_meaning src_file_body fc (dec k) = Some (n, o).
Proof. exact src_files_outcome_is_closure_meaning. Qed.
Print Assumptions c12_source_files_outcome_is_closure_meaning.

Example c12_nonvacuous_file_closure :
  file_meaning noreturn_body one_server (0, KSym) = Some (2, ONotFound) /\
  file_meaning src_file_body one_server (0, KSym) = Some (2, OOk).
Proof. exact noreturn_differs. Qed.

(* adaptive requesters through ANY symbol entry point, and through the processor: when the lookups of the thread walks
   are what the unwinder's decisions (functions of the answers it got) unfold to, the processor's run on the regenerated
   program and walker has the adaptive run's shared state, whatever the schedule *)
Theorem c12_adaptive_source_program_any_entry : forall (N : nat) (ac : aconfig) (fuel : nat) (pc : pconfig) (sched : list task),
  N < fuel -> Forall (fun sg => ends N (outc (abase ac)) sg [] = true) (astrats ac) ->
  sym_only pc -> cfg pc = fixed_config N ac ->
  sh_eq true (psh (prun src_program pc sched)) (ash (arun fuel ac sched)) /\
  pall_done pc (prun src_program pc sched) = aall_done ac (arun fuel ac sched).
Proof. exact adaptive_source_any_entry. Qed.
Print Assumptions c12_adaptive_source_program_any_entry.

Theorem c12_adaptive_processor : forall (N : nat) (ac : aconfig) (fuel : nat) (d : dump) (sched : list task),
  N < fuel -> Forall (fun sg => ends N (outc (abase ac)) sg [] = true) (astrats ac) ->
  walk_ok d -> cfg (proc_pc src_walker d (abase ac)) = fixed_config N ac ->
  sh_eq true (psh (prun src_program (proc_pc src_walker d (abase ac)) sched)) (ash (arun fuel ac sched)) /\
  pall_done (proc_pc src_walker d (abase ac)) (prun src_program (proc_pc src_walker d (abase ac)) sched) =
    aall_done ac (arun fuel ac sched).
Proof. exact adaptive_processor. Qed.
Print Assumptions c12_adaptive_processor.

Example c12_nonvacuous_adaptive_processor :
  Forall (fun sg => ends 4 (outc (abase ex_ac2)) sg [] = true) (astrats ex_ac2) /\ walk_ok ex_dump2 /\
  cfg (proc_pc src_walker ex_dump2 (abase ex_ac2)) = fixed_config 4 ex_ac2.
Proof. exact ex_adaptive_processor. Qed.

(* completeness of the stats map at instruction granularity, any mix of symbol and file lookups (C12/ProgStatsMix.v): a
   module slot that holds a remembered answer has an entry under the module's leaf name — the insert precedes the store and
   entries are never removed; file slots have none *)
From RM Require Import C12.ProgStatsMix.
Theorem c12_source_instr_stats_complete : forall (sk : key -> bool) (pc : pconfig) (ms : list task) (k : key),
  classified sk pc -> sk k = true ->
  value (psh (pmrun src_program pc ms)) k <> None -> stats (psh (pmrun src_program pc ms)) (leaf (pbase pc) k) <> None.
Proof. exact src_pm_stats_complete. Qed.
Print Assumptions c12_source_instr_stats_complete.
