(* C12/FileModel.v — HttpSymbolSupplier::locate_file_internal (breakpad-symbols/src/http.rs) as an
   instance of C12/Model.v.  The code is
       self.cached_file_paths.cache_default(file_key(module, file_kind)).get(|| async { .. }).await
   with  file_key = (module_key(module), file_kind) : FileKey = (ModuleKey, FileKind),
   i.e. the very same CacheMap::cache_default + CachedAsyncResult::get as Symbolizer::get_symbols,
   over a different key type and with a different closure:
       1. self.local.locate_file(module, kind)       (async fn that never suspends) -> Ok(path)
       2. if lookup(module, kind) is Some: for each symbol server, in order,
              fetch_lookup(..).await                 (suspends; first success wins)
       3. Err(FileError::NotFound)                   (FileError has this single variant)
   (the mozilla_cab_symbols branch is compiled out in the harness' feature set).
   So a file key is a key of the model, and the closure is a supplier script.  The closure's
   answer is a function of the file key as long as distinct file keys of the configuration do
   not share an on-disk cache path (then one download could satisfy the other's local lookup;
   that interplay is C16's subject).  Definitions only. *)
From RM Require Export C12.Model.

Inductive fkind := KSym | KBin | KDbg.        (* FileKind::{BreakpadSym, Binary, ExtraDebugInfo} *)
Definition fkind_code (k : fkind) : nat := match k with KSym => 0 | KBin => 1 | KDbg => 2 end.
Definition fkind_of (n : nat) : fkind := match n with 0 => KSym | 1 => KBin | _ => KDbg end.

Definition fkey := (key * fkind)%type.        (* FileKey = (ModuleKey, FileKind) *)
Definition enc (fk : fkey) : key := 3 * fst fk + fkind_code (snd fk).
Definition dec (k : key) : fkey := (Nat.div k 3, fkind_of (Nat.modulo k 3)).

Record fconfig := {
  ftasks     : list (list fkey);              (* task t issues these locate_file calls in order *)
  local_hit  : fkey -> bool;                  (* the local paths / cache already hold the file *)
  has_lookup : fkey -> bool;                  (* lookup(module, kind) is Some *)
  servers    : list (fkey -> nat * bool)      (* per symbol server: suspensions of fetch_lookup, success *)
}.

(* step 2 of the closure: total suspensions and whether some server had the file *)
Fixpoint fetch_all (us : list (fkey -> nat * bool)) (fk : fkey) : nat * bool :=
  match us with
  | [] => (0, false)
  | u :: r =>
      let '(n, ok) := u fk in
      if ok then (n, true)
      else let '(n', ok') := fetch_all r fk in (n + n', ok')
  end.

Definition file_script (fc : fconfig) (fk : fkey) : nat * outcome :=
  if local_hit fc fk then (0, OOk)
  else if has_lookup fc fk then
         let '(n, ok) := fetch_all (servers fc) fk in (n, if ok then OOk else ONotFound)
       else (0, ONotFound).

Definition to_config (fc : fconfig) : config :=
  {| tasks := map (map enc) (ftasks fc);
     susp := fun k => fst (file_script fc (dec k));
     outc := fun k => snd (file_script fc (dec k));
     leaf := fun k => k |}.
