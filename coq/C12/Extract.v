From Coq Require Extraction.
From Coq Require Import ExtrOcamlBasic.
From RM Require Import C12.Model C12.Driver.
Extraction "c12_model.ml" run_case run_pcase run_pfcase run_proccase run_acase unfold_rows o_mid_req o_mid_proc o_mid_done o_log o_results o_req o_proc o_stats o_rounds o_hung nat_of_z z_of_nat stat_loaded stat_corrupt run_wcase run_dcase run_jcase run_fcase w_trace w_lost w_fuel w_log w_results w_req w_proc w_stats.
