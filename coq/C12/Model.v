(* C12/Model.v — executable model of concurrent symbol lookups on one Symbolizer.
   Mirrors (read from source, not from documentation):
     breakpad-symbols/src/lib.rs  module_key, CachedAsyncResult::get,
        Symbolizer::{get_symbols, fill_symbol, walk_frame, stats, pending_stats}
     cachemap2 0.3.0  CacheMap::cache_default           (insert-once slot per key)
     futures-util 0.3.31  lock::Mutex / MutexLockFuture::poll
        (try_lock; register the waker; try_lock again — a polled waiter acquires iff
         the lock is free at that moment; no hand-off queue; a poll that does not
         acquire changes nothing that later polls can observe)
   The unit of concurrency is a task: a future that performs its lookups one after the
   other (fill_symbol / walk_frame / get_symbol_at_address all start with
   get_symbols(module).await).  An executor decides which task is polled next; [poll]
   runs one task until it returns Pending or finishes, exactly as Future::poll does.
   Definitions only; proofs are in C12/Proofs.v. *)
From Coq Require Export List Arith Bool.
Export ListNotations.

Definition key := nat.      (* a distinct ModuleKey (code_file, code_id, debug_file, debug_id) *)
Definition task := nat.

(* what the supplier finally answers (SymbolError has four variants) *)
Inductive outcome := OOk | ONotFound | OMissing | OLoad | OParse.

Definition outcome_eqb (a b : outcome) : bool :=
  match a, b with
  | OOk, OOk | ONotFound, ONotFound | OMissing, OMissing | OLoad, OLoad | OParse, OParse => true
  | _, _ => false
  end.

(* SymbolStats.{loaded_symbols, corrupt_symbols} as get_symbols sets them *)
Definition stat_loaded (o : outcome) : bool :=
  match o with OOk | OParse => true | _ => false end.
Definition stat_corrupt (o : outcome) : bool :=
  match o with OParse => true | _ => false end.

Record config := {
  tasks : list (list key);      (* task t performs these lookups in order *)
  susp  : key -> nat;           (* locate_symbols for k returns Pending this many times ... *)
  outc  : key -> outcome;       (* ... and then this *)
  leaf  : key -> nat            (* leafname(code_file) of the module: the key of the stats map *)
}.

(* where a task stands inside get_symbols for its current lookup (head of its list) *)
Inductive phase :=
| Start                 (* lookup not begun / between lookups *)
| Wait                  (* MutexLockFuture polled at least once without acquiring *)
| Sup (n : nat).        (* guard held, supplier future pending; n more Pending answers to come *)

Definition upd {A} (f : nat -> A) (i : nat) (v : A) : nat -> A :=
  fun j => if Nat.eqb j i then v else f j.

(* everything the tasks share: the Symbolizer and the supplier's log *)
Record shared := {
  lock    : key -> option task;           (* FutMutex state of the slot of k: held by *)
  value   : key -> option outcome;        (* the Option<Arc<Result<..>>> inside the mutex *)
  calls   : list key;                     (* supplier call log, oldest first *)
  req     : nat;                          (* pending_stats.symbols_requested *)
  proc    : nat;                          (* pending_stats.symbols_processed *)
  stats   : nat -> option outcome;        (* stats map: leafname -> SymbolStats (as its outcome class) *)
  results : task -> list (key * outcome)  (* what each finished lookup returned, oldest first *)
}.

Record state := {
  pcs : task -> list key * phase;         (* remaining lookups (head = current) and phase *)
  sh  : shared
}.

(* the closure passed to CachedAsyncResult::get up to the supplier call:
   guard acquired, value is None:  symbols_requested += 1;  supplier.locate_symbols(module)
   (async_trait: the body runs — and logs — on the first poll, which is this same poll) *)
Definition begin_call (t : task) (k : key) (s : shared) : shared :=
  {| lock := upd (lock s) k (Some t); value := value s; calls := calls s ++ [k];
     req := S (req s); proc := proc s; stats := stats s; results := results s |}.

(* supplier answered:  symbols_processed += 1;  stats.insert(leafname, ..);  *guard = Some(Arc(result));
   guard dropped (unlock);  the caller gets the Arc *)
Definition complete (c : config) (t : task) (k : key) (s : shared) : shared :=
  let o := outc c k in
  {| lock := upd (lock s) k None; value := upd (value s) k (Some o); calls := calls s;
     req := req s; proc := S (proc s); stats := upd (stats s) (leaf c k) (Some o);
     results := upd (results s) t (results s t ++ [(k, o)]) |}.

(* guard acquired, value already there: clone the Arc, drop the guard *)
Definition hit (t : task) (k : key) (o : outcome) (s : shared) : shared :=
  {| lock := lock s; value := value s; calls := calls s; req := req s; proc := proc s;
     stats := stats s; results := upd (results s) t (results s t ++ [(k, o)]) |}.

(* Poll task t, whose remaining lookups are [rem] and which stands at [ph]: run until
   Pending or finished.  Returns the task's new (remaining, phase) and the shared state. *)
Fixpoint advance (c : config) (t : task) (rem : list key) (ph : phase) (s : shared)
  : list key * phase * shared :=
  match rem with
  | [] => ([], ph, s)
  | k :: rest =>
      match ph with
      | Sup (S m) => (k :: rest, Sup m, s)                                (* supplier: Pending again *)
      | Sup O => advance c t rest Start (complete c t k s)           (* supplier: Ready *)
      | _ =>                                                          (* lock().await polled *)
          match lock s k with
          | Some _ => (k :: rest, Wait, s)                                (* held: Pending *)
          | None =>
              match value s k with
              | Some o => advance c t rest Start (hit t k o s)
              | None =>
                  let s1 := begin_call t k s in
                  match susp c k with
                  | O => advance c t rest Start (complete c t k s1)
                  | S m => (k :: rest, Sup m, s1)
                  end
              end
          end
      end
  end.

Definition poll (c : config) (t : task) (s : state) : state :=
  let '(rem, ph) := pcs s t in
  let '(rem', ph', s') := advance c t rem ph (sh s) in
  {| pcs := upd (pcs s) t (rem', ph'); sh := s' |}.

Definition init (c : config) : state :=
  {| pcs := fun t => (nth t (tasks c) [], Start);
     sh := {| lock := fun _ => None; value := fun _ => None; calls := []; req := 0; proc := 0;
              stats := fun _ => None; results := fun _ => [] |} |}.

(* the executor: polls tasks in the order of the schedule; polling a finished task, a
   blocked task or a task id that does not exist is allowed (and changes nothing) *)
Definition run_from (c : config) (s : state) (sched : list task) : state :=
  fold_left (fun s t => poll c t s) sched s.
Definition run (c : config) (sched : list task) : state := run_from c (init c) sched.

(* ---- observations ---- *)
Definition ntasks (c : config) : nat := length (tasks c).
Definition task_done (s : state) (t : task) : bool :=
  match fst (pcs s t) with [] => true | _ => false end.
Definition all_done (c : config) (s : state) : bool :=
  forallb (task_done s) (seq 0 (ntasks c)).
Definition supplier_calls (s : state) (k : key) : nat := count_occ Nat.eq_dec (calls (sh s)) k.
Definition task_result (s : state) (t : task) (i : nat) : option (key * outcome) :=
  nth_error (results (sh s) t) i.
Definition requested (s : state) : nat := req (sh s).
Definition processed (s : state) : nat := proc (sh s).
Definition distinct_keys (c : config) : nat := length (nodup Nat.eq_dec (concat (tasks c))).

(* ---- progress measure: one unit per lookup plus one per scripted suspension ---- *)
Fixpoint cost (c : config) (rem : list key) : nat :=
  match rem with [] => 0 | k :: rest => S (susp c k) + cost c rest end.
Definition tcost (c : config) (p : list key * phase) : nat :=
  match p with
  | (k :: rest, Sup m) => S m + cost c rest
  | (rem, _) => cost c rem
  end.
Fixpoint sum_upto (n : nat) (f : nat -> nat) : nat :=
  match n with O => 0 | S m => sum_upto m f + f m end.
Definition potential (c : config) (s : state) : nat :=
  sum_upto (ntasks c) (fun t => tcost c (pcs s t)).
Definition work (c : config) : nat := sum_upto (ntasks c) (fun t => cost c (nth t (tasks c) [])).

(* a round polls every task at least once (any order, any repetitions, any extra ids) *)
Definition covers (n : nat) (round : list task) : Prop := forall t, t < n -> In t round.
(* every window of T consecutive polls of the schedule contains every task *)
Definition fair (n T : nat) (sched : list task) : Prop :=
  forall i, i + T <= length sched -> covers n (firstn T (skipn i sched)).
