(* C12/JoinModel.v — futures_util::future::join_all over at most 30 children (JoinAll::Small,
   futures-util 0.3.31 future/join_all.rs): the children share the PARENT's waker; a poll of the
   parent polls every child that is not yet done, in order; the executor polls the parent again
   only after that one waker fired.  This is how minidump-processor walks all threads through one
   Symbolizer (processor.rs).  Modelled on top of C12/WakeModel.v: all per-task bits together are
   the parent's single "woken" bit — cleared when the parent poll begins, never cleared in
   between, so at the end of the parent poll it is set iff some waker fired during that poll.
   Definitions only. *)
From RM Require Export C12.WakeModel.

Definition clear_all (x : wext) : wext := {| wk := wk x; slen := slen x; flag := fun _ => false |}.

(* poll of one child with the parent's context: nothing is cleared per child *)
Definition jchild (c : config) (t : task) (w : wstate) : wstate :=
  let '(rem, ph) := pcs (base w) t in
  let '(rem', ph', s', x') := wadvance c (ntasks c) t rem ph (sh (base w)) (ext w) in
  {| base := {| pcs := upd (pcs (base w)) t (rem', ph'); sh := s' |}; ext := x' |}.

Definition jround (c : config) (w : wstate) (ts : list task) : wstate :=
  fold_left (fun w t => jchild c t w) ts w.

(* one poll of the JoinAll future *)
Definition jparent (c : config) (w : wstate) : wstate :=
  jround c {| base := base w; ext := clear_all (ext w) |} (seq 0 (ntasks c)).

(* the parent's woken bit *)
Definition pbit (c : config) (w : wstate) : bool :=
  existsb (fun t => flag (ext w) t) (seq 0 (ntasks c)).

(* the executor: polls the parent while its bit is set; [polls] counts parent polls *)
Fixpoint jexec (c : config) (fuel : nat) (w : wstate) (polls : nat) : wstate * nat * wstatus :=
  if all_done c (base w) then (w, polls, WDone)
  else if pbit c w then
         match fuel with
         | O => (w, polls, WFuel)
         | S f => jexec c f (jparent c w) (S polls)
         end
       else (w, polls, WLost).

Definition round_robin (c : config) (r : nat) : list task := concat (repeat (seq 0 (ntasks c)) r).
