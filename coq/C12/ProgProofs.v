(* C12/ProgProofs.v — the interpreter of C12/ProgModel.v running the canonical program refines C12/Model.v:
   poll for poll, for every configuration and every schedule (round 5).  Symbol lookups (fill_symbol,
   walk_frame, get_symbol_at_address) refine the model completely (slot state, supplier log, results, counters,
   stats); runs that contain file lookups (locate_file -> locate_file_internal) refine its slot part (lock,
   value, log, results) — the file closure has no counters and no stats. *)
From RM Require Import C12.Model C12.ProgModel.
From Coq Require Import Lia.

Definition is_file (e : entry) : bool := match e with EFile => true | _ => false end.

(* equality of shared states, pointwise in the maps; counters and stats only when [full] *)
Definition sh_eq (full : bool) (a b : shared) : Prop :=
  (forall k, lock a k = lock b k) /\ (forall k, value a k = value b k) /\ calls a = calls b /\
  (forall t, results a t = results b t) /\
  (full = true -> req a = req b /\ proc a = proc b /\ forall l, stats a l = stats b l).

Definition okfull (full : bool) (rem : list lookup) : Prop :=
  full = true -> Forall (fun l => is_file (fst l) = false) rem.

Lemma okfull_tail : forall full x rem, okfull full (x :: rem) -> okfull full rem.
Proof. intros full x rem H F. specialize (H F). inversion H; assumption. Qed.

(* where a task of the canonical program can stand between two polls *)
Definition tail_get : list instr := [IIfNone [IStoreCallAwait]; IReturnClone; IEndGet; IUseResult].
Definition tail_sup (f : bool) : list instr :=
  (if f then [] else [IProcessedInc; IStatsNew; IStatsClassify; ILeafKey; IStatsInsert; IReturnResult])
  ++ [IStore; IReturnClone; IEndGet; IUseResult].

Inductive bnd : list lookup -> list instr -> local -> Prop :=
| BStart : forall rem, bnd rem [] l0
| BWait : forall e k rest, bnd ((e, k) :: rest) (ILockAwait :: tail_get) (set_guard (set_fcls l0 (is_file e)) false true)
| BSup : forall e k rest l, guard l = true -> fcls l = is_file e ->
                            bnd ((e, k) :: rest) (ISupPoll :: tail_sup (is_file e)) l.

Definition bnd_task (p : ptask) : Prop := let '(r, k, l) := p in bnd r k l.

Lemma pfuel_canon : pfuel canon = 112.
Proof. reflexivity. Qed.

Lemma upd_same : forall A (f : nat -> A) i v, upd f i v i = v.
Proof. intros. unfold upd. rewrite Nat.eqb_refl. reflexivity. Qed.

Ltac pw H1 H2 H4 :=
  unfold upd;
  repeat match goal with |- context [Nat.eqb ?a ?b] =>
           let E := fresh "E" in destruct (Nat.eqb a b) eqn:E; [apply Nat.eqb_eq in E; subst | ] end;
  rewrite ?H1, ?H2, ?H4; try reflexivity; try congruence.

Ltac sheq :=
  match goal with
  | H : sh_eq _ _ _ |- sh_eq _ _ _ =>
      let H1 := fresh in let H2 := fresh in let H3 := fresh in let H4 := fresh in let H5 := fresh in
      destruct H as (H1 & H2 & H3 & H4 & H5);
      unfold sh_eq; cbn;
      refine (conj _ (conj _ (conj _ (conj _ _))));
      [ intros; pw H1 H2 H4 | intros; pw H1 H2 H4 | congruence | intros; pw H1 H2 H4
      | let F := fresh in let R := fresh in let Q := fresh in let S := fresh in
        intro F;
        first [ exfalso; match goal with Hf : _ = true -> is_file EFile = false |- _ => specialize (Hf F); discriminate end
              | destruct (H5 F) as (R & Q & S);
                refine (conj _ (conj _ _)); [congruence | congruence | intros; pw S S S] ] ]
  end.

Ltac lockcases :=
  match goal with
  | Hl : lock ?s ?k = lock ?s' ?k, Hv : value ?s ?k = value ?s' ?k,
    Hp : _ = (_, _), Ha : _ = (_, _, _), He : sh_eq _ ?s ?s', IH : forall _ _ _ _, _, Hok' : okfull _ ?rest, Hok : okfull _ ((?e, ?k) :: ?rest) |- _ =>
      let Hlk := fresh "Hlk" in let Hvk := fresh "Hvk" in let Hs := fresh "Hs" in
      rewrite <- Hl, <- Hv in Ha;
      destruct (lock s k) eqn:Hlk; destruct (value s k) eqn:Hvk;
      match goal with IHx : context [padvance canon ?c _ _ _ _ _] |- _ => destruct (susp c k) eqn:Hs end; cbn in Ha;
      destruct e;
      repeat (progress (cbn in Hp; rewrite ?Hlk, ?Hvk, ?upd_same in Hp; try rewrite Hs in Hp));
      first
        [ (* pending *)
          inversion Hp; inversion Ha; subst; cbn;
          refine (conj _ (conj _ _));
          [ reflexivity
          | first [ match goal with |- bnd ((?e0, _) :: _) _ _ => exact (BWait e0 k rest) end
                  | match goal with |- bnd ((?e0, _) :: _) _ _ => apply (BSup e0 k rest); reflexivity end ]
          | first [ exact He | sheq ] ]
        | (* this lookup finished in this poll *)
          eapply IH; [exact Hok' | apply BStart | | exact Hp | exact Ha]; sheq ]
  end.

Section Sim.
Variable full : bool.
Variable c : config.
Variable t : task.

Lemma sim_advance : forall rem kont l s s',
  okfull full rem -> bnd rem kont l -> sh_eq full s s' ->
  forall p1 s1, padvance canon c t rem kont l s = (p1, s1) ->
  forall rem2 ph2 s2, advance c t (map snd rem) (phase_of kont l) s' = (rem2, ph2, s2) ->
  abs_task p1 = (rem2, ph2) /\ bnd_task p1 /\ sh_eq full s1 s2.
Proof.
  induction rem as [|[e k] rest IH]; intros kont l s s' Hok Hb He p1 s1 Hp rem2 ph2 s2 Ha.
  - cbn in Hp, Ha. inversion Hp; subst. inversion Hb; subst. cbn in Ha. inversion Ha; subst.
    refine (conj _ (conj _ _)); [reflexivity | constructor | exact He].
  - assert (Hok' := okfull_tail _ _ _ Hok).
    assert (Hfile : full = true -> is_file e = false).
    { intro F. specialize (Hok F). inversion Hok; assumption. }
    assert (Hl : lock s k = lock s' k) by apply He.
    assert (Hv : value s k = value s' k) by apply He.
    cbn [padvance] in Hp. rewrite pfuel_canon in Hp.
    cbn [map snd advance] in Ha.
    inversion Hb; subst.
    + (* not begun *)
      cbn [phase_of waiting l0] in Ha. lockcases.
    + (* waiting for the lock *)
      cbn [phase_of waiting set_guard] in Ha. lockcases.
    + (* inside the supplier *)
      cbn [phase_of] in Ha.
      match goal with Hg : guard ?l = true, Hf : fcls ?l = _ |- _ => destruct l as [g w f tk r ls lk]; cbn in Hg, Hf; subst g f end.
      destruct e;
        (destruct tk as [|m]; repeat (progress (cbn in Hp; rewrite ?upd_same in Hp));
         [ eapply IH; [exact Hok' | apply BStart | | exact Hp | exact Ha]; try sheq
         | inversion Hp; inversion Ha; subst; cbn;
           refine (conj _ (conj _ _)); [reflexivity | match goal with |- bnd ((?e0, _) :: _) _ _ => apply (BSup e0 k rest); reflexivity end | exact He] ]).
      all: try (exfalso; specialize (Hfile ltac:(assumption)); discriminate).
Qed.
End Sim.
