(* C12/ProgProofs.v — the interpreter of C12/ProgModel.v running the canonical program refines C12/Model.v:
   poll for poll, for every configuration and every schedule (round 5).  Symbol lookups (fill_symbol,
   walk_frame, get_symbol_at_address) refine the model completely (slot state, supplier log, results, counters,
   stats); runs that contain file lookups (locate_file -> locate_file_internal) refine its slot part (lock,
   value, log, results) — the file closure has no counters and no stats. *)
From RM Require Import C12.Model C12.ProgModel.
From Coq Require Import Lia.

Definition is_file (e : entry) : bool := match e with EFile => true | _ => false end.

(* equality of shared states, pointwise in the maps; counters and stats only when [full] *)
Definition sh_eq (full : bool) (a b : shared) : Prop :=
  (forall k, lock a k = lock b k) /\ (forall k, value a k = value b k) /\ calls a = calls b /\
  (forall t, results a t = results b t) /\
  (full = true -> req a = req b /\ proc a = proc b /\ forall l, stats a l = stats b l).

Definition okfull (full : bool) (rem : list lookup) : Prop :=
  full = true -> Forall (fun l => is_file (fst l) = false) rem.

Lemma okfull_tail : forall full x rem, okfull full (x :: rem) -> okfull full rem.
Proof. intros full x rem H F. specialize (H F). inversion H; assumption. Qed.

(* where a task of the canonical program can stand between two polls *)
Definition tail_get : list instr := [IIfNone [IStoreCallAwait]; IReturnClone; IEndGet; IUseResult].
Definition tail_sup (f : bool) : list instr :=
  (if f then [] else [IProcessedInc; IStatsNew; IStatsClassify; ILeafKey; IStatsInsert; IReturnResult])
  ++ [IStore; IReturnClone; IEndGet; IUseResult].

Inductive bnd : list lookup -> list instr -> local -> Prop :=
| BStart : forall rem, bnd rem [] l0
| BWait : forall e k rest, bnd ((e, k) :: rest) (ILockAwait :: tail_get) (set_guard (set_fcls l0 (is_file e)) false true)
| BSup : forall e k rest l, guard l = true -> fcls l = is_file e ->
                            bnd ((e, k) :: rest) (ISupPoll :: tail_sup (is_file e)) l.

Definition bnd_task (p : ptask) : Prop := let '(r, k, l) := p in bnd r k l.

Lemma pfuel_canon : pfuel canon = 112.
Proof. reflexivity. Qed.

Lemma upd_same : forall A (f : nat -> A) i v, upd f i v i = v.
Proof. intros. unfold upd. rewrite Nat.eqb_refl. reflexivity. Qed.

Ltac pw H1 H2 H4 :=
  unfold upd;
  repeat match goal with |- context [Nat.eqb ?a ?b] =>
           let E := fresh "E" in destruct (Nat.eqb a b) eqn:E; [apply Nat.eqb_eq in E; subst | ] end;
  rewrite ?H1, ?H2, ?H4; try reflexivity; try congruence.

Ltac sheq :=
  match goal with
  | H : sh_eq _ _ _ |- sh_eq _ _ _ =>
      let H1 := fresh in let H2 := fresh in let H3 := fresh in let H4 := fresh in let H5 := fresh in
      destruct H as (H1 & H2 & H3 & H4 & H5);
      unfold sh_eq; cbn;
      refine (conj _ (conj _ (conj _ (conj _ _))));
      [ intros; pw H1 H2 H4 | intros; pw H1 H2 H4 | congruence | intros; pw H1 H2 H4
      | let F := fresh in let R := fresh in let Q := fresh in let S := fresh in
        intro F;
        first [ exfalso; match goal with Hf : _ = true -> is_file EFile = false |- _ => specialize (Hf F); discriminate end
              | destruct (H5 F) as (R & Q & S);
                refine (conj _ (conj _ _)); [congruence | congruence | intros; pw S S S] ] ]
  end.

Ltac lockcases :=
  match goal with
  | Hl : lock ?s ?k = lock ?s' ?k, Hv : value ?s ?k = value ?s' ?k,
    Hp : _ = (_, _), Ha : _ = (_, _, _), He : sh_eq _ ?s ?s', IH : forall _ _ _ _, _, Hok' : okfull _ ?rest, Hok : okfull _ ((?e, ?k) :: ?rest) |- _ =>
      let Hlk := fresh "Hlk" in let Hvk := fresh "Hvk" in let Hs := fresh "Hs" in
      rewrite <- Hl, <- Hv in Ha;
      destruct (lock s k) eqn:Hlk; destruct (value s k) eqn:Hvk;
      match goal with IHx : context [padvance canon ?c _ _ _ _ _] |- _ => destruct (susp c k) eqn:Hs end; cbn in Ha;
      destruct e;
      repeat (progress (cbn in Hp; rewrite ?Hlk, ?Hvk, ?upd_same in Hp; try rewrite Hs in Hp));
      first
        [ (* pending *)
          inversion Hp; inversion Ha; subst; cbn;
          refine (conj _ (conj _ _));
          [ reflexivity
          | first [ match goal with |- bnd ((?e0, _) :: _) _ _ => exact (BWait e0 k rest) end
                  | match goal with |- bnd ((?e0, _) :: _) _ _ => apply (BSup e0 k rest); reflexivity end ]
          | first [ exact He | sheq ] ]
        | (* this lookup finished in this poll *)
          eapply IH; [exact Hok' | apply BStart | | exact Hp | exact Ha]; sheq ]
  end.

Section Sim.
Variable full : bool.
Variable c : config.
Variable t : task.

Lemma sim_advance : forall rem kont l s s',
  okfull full rem -> bnd rem kont l -> sh_eq full s s' ->
  forall p1 s1, padvance canon c t rem kont l s = (p1, s1) ->
  forall rem2 ph2 s2, advance c t (map snd rem) (phase_of kont l) s' = (rem2, ph2, s2) ->
  abs_task p1 = (rem2, ph2) /\ bnd_task p1 /\ sh_eq full s1 s2.
Proof.
  induction rem as [|[e k] rest IH]; intros kont l s s' Hok Hb He p1 s1 Hp rem2 ph2 s2 Ha.
  - cbn in Hp, Ha. inversion Hp; subst. inversion Hb; subst. cbn in Ha. inversion Ha; subst.
    refine (conj _ (conj _ _)); [reflexivity | constructor | exact He].
  - assert (Hok' := okfull_tail _ _ _ Hok).
    assert (Hfile : full = true -> is_file e = false).
    { intro F. specialize (Hok F). inversion Hok; assumption. }
    assert (Hl : lock s k = lock s' k) by apply He.
    assert (Hv : value s k = value s' k) by apply He.
    cbn [padvance] in Hp. rewrite pfuel_canon in Hp.
    cbn [map snd advance] in Ha.
    inversion Hb; subst.
    + (* not begun *)
      cbn [phase_of waiting l0] in Ha. lockcases.
    + (* waiting for the lock *)
      cbn [phase_of waiting set_guard] in Ha. lockcases.
    + (* inside the supplier *)
      cbn [phase_of] in Ha.
      match goal with Hg : guard ?l = true, Hf : fcls ?l = _ |- _ => destruct l as [g w f tk r ls lk]; cbn in Hg, Hf; subst g f end.
      destruct e;
        (destruct tk as [|m]; repeat (progress (cbn in Hp; rewrite ?upd_same in Hp));
         [ eapply IH; [exact Hok' | apply BStart | | exact Hp | exact Ha]; try sheq
         | inversion Hp; inversion Ha; subst; cbn;
           refine (conj _ (conj _ _)); [reflexivity | match goal with |- bnd ((?e0, _) :: _) _ _ => apply (BSup e0 k rest); reflexivity end | exact He] ]).
      all: try (exfalso; specialize (Hfile ltac:(assumption)); discriminate).
Qed.
End Sim.

(* ---- from one poll to whole schedules ---- *)
Lemma padvance_suffix : forall P c t rem kont l s,
  exists pre, rem = pre ++ fst (fst (fst (padvance P c t rem kont l s))).
Proof.
  induction rem as [|[e k] rest IH]; intros kont l s.
  - exists []. reflexivity.
  - cbn [padvance].
    destruct (match kont with [] => (p_entry P e, l0) | _ :: _ => (kont, l) end) as [kont0 li].
    destruct (run_instrs (pfuel P) P c t k kont0 li s) as [l' s'|kont' l' s'|].
    + destruct (IH [] l0 s') as [pre H]. exists ((e, k) :: pre). cbn. f_equal. exact H.
    + exists []. reflexivity.
    + exists []. reflexivity.
Qed.

Lemma okfull_suffix : forall full pre rem, okfull full (pre ++ rem) -> okfull full rem.
Proof. intros full pre rem H F. specialize (H F). apply Forall_app in H. apply H. Qed.

Definition psim (full : bool) (ps : pstate) (ms : state) : Prop :=
  (forall t, abs_task (ppcs ps t) = pcs ms t) /\ (forall t, bnd_task (ppcs ps t)) /\
  (forall t, okfull full (fst (fst (ppcs ps t)))) /\ sh_eq full (psh ps) (sh ms).

Lemma psim_poll : forall full c t ps ms,
  psim full ps ms -> psim full (ppoll canon c t ps) (poll c t ms).
Proof.
  intros full c t ps ms (Hpc & Hb & Hok & He).
  unfold ppoll, poll.
  destruct (ppcs ps t) as [[rem kont] l] eqn:Ept.
  assert (Hm : pcs ms t = (map snd rem, phase_of kont l)).
  { rewrite <- Hpc, Ept. reflexivity. }
  rewrite Hm.
  destruct (padvance canon c t rem kont l (psh ps)) as [p1 s1] eqn:Ep.
  destruct (advance c t (map snd rem) (phase_of kont l) (sh ms)) as [[rem2 ph2] s2] eqn:Ea.
  assert (Hb0 : bnd rem kont l). { specialize (Hb t). rewrite Ept in Hb. exact Hb. }
  assert (Hok0 : okfull full rem). { specialize (Hok t). rewrite Ept in Hok. exact Hok. }
  destruct (sim_advance full c t rem kont l (psh ps) (sh ms) Hok0 Hb0 He p1 s1 Ep rem2 ph2 s2 Ea)
    as (A & B & C).
  assert (Hsuf : okfull full (fst (fst p1))).
  { destruct (padvance_suffix canon c t rem kont l (psh ps)) as [pre Hpre]. rewrite Ep in Hpre. cbn in Hpre.
    apply (okfull_suffix full pre). rewrite <- Hpre. exact Hok0. }
  unfold psim. cbn [ppcs psh pcs sh].
  refine (conj _ (conj _ (conj _ C))); intro u; unfold upd; destruct (Nat.eqb u t); auto.
Qed.

Lemma psim_run_from : forall full c sched ps ms,
  psim full ps ms ->
  psim full (fold_left (fun s t => ppoll canon c t s) sched ps) (run_from c ms sched).
Proof.
  induction sched as [|t r IH]; intros ps ms H; cbn.
  - exact H.
  - apply IH. apply psim_poll. exact H.
Qed.

Definition sym_only (pc : pconfig) : Prop :=
  Forall (Forall (fun l : lookup => is_file (fst l) = false)) (ptasks pc).

Lemma psim_init : forall full pc, (full = true -> sym_only pc) -> psim full (pinit pc) (init (cfg pc)).
Proof.
  intros full pc Hs. unfold psim, pinit, init. cbn.
  refine (conj _ (conj _ (conj _ _))).
  - intro t. f_equal. exact (eq_sym (map_nth (map (@snd entry key)) (ptasks pc) [] t)).
  - intro t. apply BStart.
  - intros t F. specialize (Hs F). unfold sym_only in Hs.
    destruct (Nat.lt_ge_cases t (length (ptasks pc))) as [Hlt|Hge].
    + rewrite Forall_forall in Hs. apply Hs. apply nth_In. exact Hlt.
    + rewrite nth_overflow by exact Hge. constructor.
  - unfold sh_eq. cbn. repeat split; reflexivity.
Qed.

(* the interpreter running the canonical program is the model, poll for poll *)
Theorem prun_refines : forall full pc sched,
  (full = true -> sym_only pc) -> psim full (prun canon pc sched) (run (cfg pc) sched).
Proof. intros. unfold prun, prun_from, run. apply psim_run_from. apply psim_init. assumption. Qed.

(* ---- the property-level statements, transported ---- *)
From RM Require Import C12.Proofs C12.Progress.

Lemma ptask_done_abs : forall full ps ms t, psim full ps ms -> ptask_done ps t = task_done ms t.
Proof.
  intros full ps ms t (Hpc & _). unfold ptask_done, task_done. rewrite <- Hpc.
  destruct (ppcs ps t) as [[rem kont] l]. cbn. destruct rem; reflexivity.
Qed.

Lemma pall_done_abs : forall full pc ps ms, psim full ps ms -> pall_done pc ps = all_done (cfg pc) ms.
Proof.
  intros full pc ps ms H. unfold pall_done, all_done, ntasks.
  replace (length (tasks (cfg pc))) with (length (ptasks pc)) by (symmetry; apply map_length).
  generalize (seq 0 (length (ptasks pc))). induction l as [|t r IH]; cbn; [reflexivity|].
  rewrite (ptask_done_abs full ps ms t H), IH. reflexivity.
Qed.

Section Transport.
Variable pc : pconfig.
Variable sched : list task.
Local Notation ps := (prun canon pc sched).
Local Notation ms := (run (cfg pc) sched).

Lemma sim0 : psim false ps ms.
Proof. apply prun_refines. discriminate. Qed.

(* the supplier (locate_symbols / the file closure's fetch) is entered at most once per slot, whatever mix of
   fill_symbol / walk_frame / get_symbol_at_address / locate_file calls the tasks make *)
Lemma p_at_most_once : forall k, psupplier_calls ps k <= 1.
Proof.
  intro k. destruct sim0 as (_ & _ & _ & He). destruct He as (_ & _ & Hc & _).
  unfold psupplier_calls. rewrite Hc. apply (at_most_once (cfg pc)).
Qed.

Lemma p_same_outcome : forall t i k o,
  ptask_result ps t i = Some (k, o) ->
  o = outc (pbase pc) k /\ exists e, nth_error (nth t (ptasks pc) []) i = Some (e, k).
Proof.
  intros t i k o H. destruct sim0 as (_ & _ & _ & He). destruct He as (_ & _ & _ & Hr & _).
  unfold ptask_result in H. rewrite Hr in H.
  destruct (same_outcome (cfg pc) sched t i k o H) as [A B]. split; [exact A|].
  cbn [cfg tasks] in B.
  assert (E : nth t (map (map (@snd entry key)) (ptasks pc)) [] = map (@snd entry key) (nth t (ptasks pc) []))
    by exact (map_nth (map (@snd entry key)) (ptasks pc) [] t).
  rewrite E in B.
  rewrite nth_error_map in B.
  match type of B with option_map _ ?x = _ => destruct x as [[e k']|] eqn:Ex end; cbn in B; [|discriminate].
  inversion B; subst. exists e. exact Ex.
Qed.

Lemma p_results_complete : forall t,
  pall_done pc ps = true -> map fst (results (psh ps) t) = map snd (nth t (ptasks pc) []).
Proof.
  intros t Hd. rewrite (pall_done_abs false pc ps ms sim0) in Hd.
  destruct sim0 as (_ & _ & _ & He). destruct He as (_ & _ & _ & Hr & _).
  rewrite Hr. rewrite (results_complete (cfg pc) sched t Hd). cbn [cfg tasks].
  exact (map_nth (map (@snd entry key)) (ptasks pc) [] t).
Qed.

Lemma p_exactly_once : forall k,
  pall_done pc ps = true -> In k (concat (tasks (cfg pc))) -> psupplier_calls ps k = 1.
Proof.
  intros k Hd Hk. rewrite (pall_done_abs false pc ps ms sim0) in Hd.
  destruct sim0 as (_ & _ & _ & He). destruct He as (_ & _ & Hc & _).
  unfold psupplier_calls. rewrite Hc. apply (exactly_once_quiescent (cfg pc)); assumption.
Qed.

Lemma p_fair_finishes : forall T,
  fair (length (ptasks pc)) T sched -> T * work (cfg pc) <= length sched -> pall_done pc ps = true.
Proof.
  intros T Hf Hl. rewrite (pall_done_abs false pc ps ms sim0).
  apply (finish_fair (cfg pc) T); [|exact Hl].
  unfold ntasks. cbn [cfg tasks]. rewrite map_length. exact Hf.
Qed.

(* a task of the canonical program is never stuck (no unwrap of None, no ill-formed continuation, fuel suffices) *)
Lemma p_never_stuck : forall t, snd (fst (ppcs ps t)) <> [IAbort].
Proof.
  intro t. destruct sim0 as (_ & Hb & _). specialize (Hb t).
  destruct (ppcs ps t) as [[rem kont] l]. cbn in *. inversion Hb; discriminate.
Qed.

(* symbol lookups only: the pending counters *)
Hypothesis Hsym : sym_only pc.

Lemma sim1 : psim true ps ms.
Proof. apply prun_refines. intros _. exact Hsym. Qed.

Lemma p_counters_bounded :
  proc (psh ps) <= req (psh ps) /\ req (psh ps) <= distinct_keys (cfg pc).
Proof.
  destruct sim1 as (_ & _ & _ & He). destruct He as (_ & _ & _ & _ & H5).
  destruct (H5 eq_refl) as (R & Q & _). rewrite R, Q. apply (counters_bounded (cfg pc)).
Qed.

Lemma p_counters :
  pall_done pc ps = true -> req (psh ps) = distinct_keys (cfg pc) /\ proc (psh ps) = distinct_keys (cfg pc).
Proof.
  intro Hd. rewrite (pall_done_abs true pc ps ms sim1) in Hd.
  destruct sim1 as (_ & _ & _ & He). destruct He as (_ & _ & _ & _ & H5).
  destruct (H5 eq_refl) as (R & Q & _). rewrite R, Q. apply (counters_quiescent (cfg pc)). exact Hd.
Qed.

Lemma p_stats : forall lf, stats (psh ps) lf = stats (sh ms) lf.
Proof.
  destruct sim1 as (_ & _ & _ & He). destruct He as (_ & _ & _ & _ & H5).
  destruct (H5 eq_refl) as (_ & _ & S). exact S.
Qed.
End Transport.
