(* C12/FineModel.v — finer interleavings than whole polls (round 4).
   With a multi-threaded executor (tokio's work-stealing runtime, 2..n workers) two tasks are polled at the same
   time: the unit of interleaving is no longer a whole [poll] but what one task does between two points at which
   another thread can interfere with the shared state it touches.  For CachedAsyncResult::get these are
     wait      MutexLockFuture::poll finds the slot's lock held (try_lock fails, waker registered)
     hit       lock acquired, value present: clone, unlock
     begin     lock acquired, value absent: symbols_requested += 1, supplier.locate_symbols called (logged)
     tick      the supplier's future answers Pending (guard still held)
     complete  the supplier answered: symbols_processed += 1, stats.insert, value stored, unlock, result returned
   [mstep c t] performs ONE of them for task t; [mrun] folds it over ANY list of task ids, so between any two
   lookups of one poll — and between begin and the supplier's first answer — any other task may take any number of
   steps.  Every poll of Model.v is a sequence of msteps of the same task (FineProofs.poll_msteps), so the poll
   schedules of Model.v are a subset of the micro schedules.
   Assumption of this granularity: inside begin / complete the code touches three independent objects
   (pending_stats, stats: std::sync::Mutex each; the slot: under the held async lock) one after the other; a
   concurrent reader of pending_stats() may see a state between the pre- and the post-state of the block, never
   anything else.  Definitions only. *)
From RM Require Import C12.Model.

Definition mstep (c : config) (t : task) (s : state) : state :=
  match pcs s t with
  | ([], _) => s
  | (k :: rest, Sup (S m)) => {| pcs := upd (pcs s) t (k :: rest, Sup m); sh := sh s |}
  | (k :: rest, Sup O) => {| pcs := upd (pcs s) t (rest, Start); sh := complete c t k (sh s) |}
  | (k :: rest, _) =>
      match lock (sh s) k with
      | Some _ => {| pcs := upd (pcs s) t (k :: rest, Wait); sh := sh s |}
      | None =>
          match value (sh s) k with
          | Some o => {| pcs := upd (pcs s) t (rest, Start); sh := hit t k o (sh s) |}
          | None => {| pcs := upd (pcs s) t (k :: rest, Sup (susp c k)); sh := begin_call t k (sh s) |}
          end
      end
  end.

Definition mrun_from (c : config) (s : state) (ms : list task) : state :=
  fold_left (fun s t => mstep c t s) ms s.
Definition mrun (c : config) (ms : list task) : state := mrun_from c (init c) ms.

(* states that differ only in how the per-task function is written *)
Definition state_eq (s s' : state) : Prop := (forall t, pcs s t = pcs s' t) /\ sh s = sh s'.

(* the fine progress measure = micro steps the task still needs when unobstructed: begin + susp ticks + complete
   per lookup not yet begun (a hit needs only one), 1 + remaining ticks for the lookup in flight *)
Definition mcost (c : config) (p : list key * phase) : nat :=
  match p with
  | (k :: rest, Sup m) => S m + (cost c rest + length rest)
  | (rem, _) => cost c rem + length rem
  end.
Definition mpotential (c : config) (s : state) : nat :=
  sum_upto (ntasks c) (fun t => mcost c (pcs s t)).
