(* C12/DropProofs.v — dropping a requester that waits for a lock loses no wake-up and no
   request of the remaining tasks.  Goes beyond C12's quantifier (cancellation is excluded there). *)
From Coq Require Import List Arith Bool Lia.
From RM Require Import C12.Model C12.WakeModel C12.DropModel C12.Proofs C12.Progress C12.WakeProofs C12.WakeBound.
Import ListNotations.

Lemma set_nth_length : forall A (l : list A) i v, length (set_nth l i v) = length l.
Proof. induction l as [|a l IH]; intros [|i] v; cbn [set_nth length]; auto. Qed.

Lemma set_nth_same : forall A (l : list A) i v d, i < length l -> nth i (set_nth l i v) d = v.
Proof.
  induction l as [|a l IH]; intros i v d H; [cbn in H; lia|].
  destruct i as [|i]; cbn [set_nth nth]; [reflexivity|]. apply IH. cbn [length] in H. lia.
Qed.

Lemma set_nth_other : forall A (l : list A) i j v d, j <> i -> nth j (set_nth l i v) d = nth j l d.
Proof.
  induction l as [|a l IH]; intros i j v d H; [destruct i; reflexivity|].
  destruct i as [|i], j as [|j]; cbn [set_nth nth]; try reflexivity; try contradiction.
  apply IH. lia.
Qed.

Lemma ntasks_truncate : forall c t d, ntasks (truncate c t d) = ntasks c.
Proof. intros. unfold ntasks, truncate. cbn [tasks]. apply set_nth_length. Qed.

Lemma cost_truncate : forall c t d rem, cost (truncate c t d) rem = cost c rem.
Proof. intros c t d rem. induction rem as [|k rest IH]; cbn [cost]; [reflexivity|]. now rewrite IH. Qed.

Lemma tcost_truncate : forall c t d p, tcost (truncate c t d) p = tcost c p.
Proof.
  intros c t d [[|k rest] ph]; unfold tcost.
  - destruct ph; apply cost_truncate.
  - destruct ph; try apply cost_truncate. now rewrite cost_truncate.
Qed.

Lemma potential_truncate : forall c t d s, potential (truncate c t d) s = potential c s.
Proof.
  intros. unfold potential. rewrite ntasks_truncate. apply sum_upto_ext. intros u _. apply tcost_truncate.
Qed.

(* ---------- the plain invariant survives a drop (with the truncated configuration) ---------- *)
Lemma drop_sinv : forall c s t k rest,
  SInv c s -> pcs s t = (k :: rest, Wait) ->
  SInv (truncate c t (map fst (results (sh s) t)))
       {| pcs := upd (pcs s) t ([], Start); sh := sh s |}.
Proof.
  intros c s t k rest HI Hp. pose proof (pending_lt c s t k rest Wait HI Hp) as Hlt.
  destruct HI as [H1 H2 H3 H4 H5 Hq H6 H7 H8 H9]. unfold SInv. cbn [pcs sh].
  assert (Hh : forall h k0, holds (upd (pcs s) t ([], Start)) h k0 <-> holds (pcs s) h k0).
  { intros h k0. apply (holds_upd_nosup (pcs s) t (k :: rest) Wait); cbn; auto. }
  split; try assumption.
  - intros k0 h. now rewrite H1, Hh.
  - intros k0 Hk. destruct (Hq k0 Hk) as [(h & X)|R]; [left; exists h; now apply Hh|now right].
  - intros u. unfold truncate. cbn [tasks].
    destruct (Nat.eq_dec u t) as [E|N].
    + subst u. rewrite upd_same. cbn [fst]. rewrite app_nil_r. symmetry. now apply set_nth_same.
    + rewrite upd_other by assumption. rewrite set_nth_other by assumption. apply H7.
Qed.

(* ---------- the wake-up invariant survives a drop ---------- *)
Lemma winv_weaken_ex : forall t rk p s x, WInv None rk p s x -> WInv (Some t) rk p s x.
Proof.
  intros t rk p s x [W1 W2 W3 W4 W5]. split; auto.
  - intros u k i E _. apply (W3 u k i E). discriminate.
  - intros u k r ph Hp Hph _. apply (W5 u k r ph Hp Hph). discriminate.
Qed.

Lemma winv_done_ex : forall t rk p s x ph,
  WInv (Some t) rk p s x -> p t = ([], ph) -> wk x t = None -> WInv None rk p s x.
Proof.
  intros t rk p s x ph [W1 W2 W3 W4 W5] Hp Hnone. split; auto.
  - intros u k i E _. apply (W3 u k i E). intro X; inversion X; subst. rewrite Hnone in E. discriminate.
  - intros u k r ph0 Hpu Hph _. apply (W5 u k r ph0 Hpu Hph).
    intro X; inversion X; subst. rewrite Hp in Hpu. discriminate.
Qed.

Lemma winv_fill : forall ex k p s x,
  WInv ex (Some k) p s x ->
  (lock s k = None -> (exists u i w, wk x u = Some (k, i, w)) -> exists u i, wk x u = Some (k, i, true)) ->
  WInv ex None p s x.
Proof.
  intros ex k p s x [W1 W2 W3 W4 W5] Hk. split; auto.
  intros k0 Hl _ Hex. destruct (Nat.eq_dec k0 k) as [E|N].
  - subst k0. now apply Hk.
  - apply W4; auto. intro X; inversion X; contradiction.
Qed.

Lemma drop_winv : forall c p s x t k rest,
  Inv c (upd p t ([], Start)) s ->
  WInv None None p s x -> p t = (k :: rest, Wait) ->
  WInv None None (upd p t ([], Start)) s
       (match wk x t with
        | Some (_, _, true) => wake (ntasks c) k (unregister t x)
        | _ => unregister t x
        end).
Proof.
  intros c p s x t k rest HI' HW Hp.
  assert (Hun : (forall u, u <> t -> wk (unregister t x) u = wk x u) /\ wk (unregister t x) t = None /\
                (forall u, flag (unregister t x) u = flag x u)).
  { cbn [unregister wk flag]. repeat split; auto; [intros u N; now apply upd_other|apply upd_same]. }
  destruct Hun as (Hu1 & Hu2 & Hu3).
  assert (Hrel : WInv None (Some k) (upd p t ([], Start)) s (unregister t x)).
  { apply (winv_done_ex t (Some k) _ s _ Start); [|apply upd_same|assumption].
    apply (leave_lookup p s s x (unregister t x) t k rest Wait []); auto.
    now apply winv_weaken_ex. }
  assert (Hplain : (forall k' i, wk x t <> Some (k', i, true)) ->
                   WInv None None (upd p t ([], Start)) s (unregister t x)).
  { intros Hnw. apply (winv_fill None k); [assumption|].
    intros Hl (u & i & w & E).
    assert (N : u <> t) by (intro; subst; rewrite Hu2 in E; discriminate).
    rewrite Hu1 in E by assumption.
    destruct (w_free _ _ _ _ _ HW k Hl) as (u' & i' & E'); [discriminate|now exists u, i, w|].
    assert (N' : u' <> t) by (intro; subst u'; now apply (Hnw k i')).
    exists u', i'. now rewrite Hu1. }
  destruct (wk x t) as [[[k' i] [|]]|] eqn:Et.
  - destruct (w_wait _ _ _ _ _ HW t k' i true Et) as (r & X). rewrite Hp in X. inversion X; subst k'.
    now apply wake_restores.
  - apply Hplain. intros k0 i0 X. discriminate.
  - apply Hplain. intros k0 i0 X. discriminate.
Qed.

Lemma wdrop_inv : forall c t w, WSInv c w -> WSInv (fst (wdrop c t w)) (snd (wdrop c t w)).
Proof.
  intros c t w [HI HW]. unfold wdrop.
  destruct (pcs (base w) t) as [[|k rest] ph] eqn:Hp; [now split|].
  destruct ph; try now split.
  cbn [fst snd]. pose proof (drop_sinv c (base w) t k rest HI Hp) as HI'.
  split; [exact HI'|]. cbn [base ext pcs sh].
  rewrite <- (ntasks_truncate c t (map fst (results (sh (base w)) t))).
  apply (drop_winv _ (pcs (base w)) (sh (base w)) (ext w) t k rest); auto.
Qed.

(* ---------- runs with drops ---------- *)
Definition EInv (c0 : config) (cw : config * wstate) : Prop :=
  WSInv (fst cw) (snd cw) /\ ntasks (fst cw) = ntasks c0 /\ outc (fst cw) = outc c0 /\
  potential (fst cw) (base (snd cw)) <= work c0.

Lemma wdrop_potential : forall c t w, WSInv c w ->
  potential (fst (wdrop c t w)) (base (snd (wdrop c t w))) <= potential c (base w).
Proof.
  intros c t w [HI _]. unfold wdrop.
  destruct (pcs (base w) t) as [[|k rest] ph] eqn:Hp; [cbn; lia|].
  destruct ph; try (cbn [fst snd]; lia).
  cbn [fst snd base]. rewrite potential_truncate. unfold potential. cbn [pcs].
  pose proof (pending_lt c (base w) t k rest Wait HI Hp) as Hlt.
  pose proof (sum_upto_upd_lt _ (tcost c) (pcs (base w)) t ([], Start) (ntasks c) Hlt) as Hs.
  rewrite (tcost_nil c Start) in Hs. lia.
Qed.

Lemma estep_inv : forall c0 cw e, EInv c0 cw -> EInv c0 (estep cw e).
Proof.
  intros c0 [c w] e (HW & Hn & Ho & Hpot). cbn [fst snd] in *. destruct e as [t|t]; unfold EInv, estep; cbn [fst snd].
  - split; [now apply wpoll_winv|]. split; [assumption|]. split; [assumption|].
    rewrite wpoll_base. destruct HW as [HI _]. pose proof (poll_potential_le c t (base w) HI). lia.
  - split; [now apply wdrop_inv|]. split; [|split].
    + unfold wdrop. destruct (pcs (base w) t) as [[|k rest] [| |m]]; cbn [fst]; auto.
      now rewrite ntasks_truncate.
    + unfold wdrop. destruct (pcs (base w) t) as [[|k rest] [| |m]]; cbn [fst]; auto.
    + pose proof (wdrop_potential c t w HW). lia.
Qed.

Lemma erun_inv : forall c evs, EInv c (erun c evs).
Proof.
  intros c evs. unfold erun.
  assert (H0 : EInv c (c, winit c)).
  { split; [apply winit_winv|]. split; [reflexivity|]. split; [reflexivity|].
    cbn [fst snd winit base]. rewrite potential_init. lia. }
  revert H0. generalize (c, winit c). induction evs as [|e evs IH]; intros cw H; [assumption|].
  cbn [fold_left]. apply IH. now apply estep_inv.
Qed.

(* ---------- statements used by Properties.v ---------- *)
Lemma drop_no_lost_wakeup : forall c evs,
  all_done (fst (erun c evs)) (base (snd (erun c evs))) = false ->
  runnable (fst (erun c evs)) (snd (erun c evs)) <> [].
Proof.
  intros c evs Hd. destruct (erun_inv c evs) as (HW & _). now apply runnable_exists.
Qed.

Lemma drop_still_finishes : forall c evs fuel picks,
  2 * work c + ntasks c < fuel ->
  exists w' sched,
    wexec (fst (erun c evs)) fuel picks (snd (erun c evs)) [] = (w', sched, WDone) /\
    all_done (fst (erun c evs)) (base w') = true.
Proof.
  intros c evs fuel picks Hf. destruct (erun_inv c evs) as (HW & Hn & _ & Hpot).
  destruct (wexec_finishes (fst (erun c evs)) fuel picks (snd (erun c evs)) [] HW) as (w' & sched & He & _ & Hd).
  - unfold measure.
    assert (length (runnable (fst (erun c evs)) (snd (erun c evs))) <= ntasks (fst (erun c evs))).
    { unfold runnable. rewrite <- (seq_length (ntasks (fst (erun c evs))) 0) at 2. apply filter_len_le. }
    lia.
  - exists w', sched. cbn [app] in He. now split.
Qed.

Lemma drop_safety : forall c evs k,
  supplier_calls (base (snd (erun c evs))) k <= 1 /\
  (forall t o, In (k, o) (results (sh (base (snd (erun c evs)))) t) -> o = outc c k).
Proof.
  intros c evs k. destruct (erun_inv c evs) as ((HI & _) & _ & Ho & _). split.
  - unfold supplier_calls. pose proof (inv_nodup _ _ _ HI) as H.
    rewrite (NoDup_count_occ Nat.eq_dec) in H. apply H.
  - intros t o Hin. rewrite <- Ho. apply (inv_val _ _ _ HI). now apply (inv_res _ _ _ HI t).
Qed.

(* the executor with drops used by the correspondence run never reports a lost wake-up *)
Lemma dexec_not_lost : forall fuel picks c w trace, WSInv c w ->
  snd (dexec c fuel picks w trace) <> WLost.
Proof.
  induction fuel as [|f IH]; intros picks c w trace HW; cbn [dexec].
  - destruct (all_done c (base w)); cbn [snd]; discriminate.
  - assert (Hstep : forall ps tr,
              snd (if all_done c (base w) then (c, w, tr, WDone)
                   else match runnable c w with
                        | [] => (c, w, tr, WLost)
                        | r :: rs => dexec c f ps (wpoll c (nth (Nat.modulo (hd 0 (hd 0 picks :: nil)) (length (r :: rs))) (r :: rs) r) w)
                                       (tr ++ [nth (Nat.modulo (hd 0 (hd 0 picks :: nil)) (length (r :: rs))) (r :: rs) r])
                        end) <> WLost).
    { intros ps tr. destruct (all_done c (base w)) eqn:Hd; [cbn [snd]; discriminate|].
      pose proof (runnable_exists c w HW Hd) as Hne.
      destruct (runnable c w) as [|r rs]; [contradiction|]. apply IH. now apply wpoll_winv. }
    destruct picks as [|p ps].
    + destruct (all_done c (base w)) eqn:Hd; [cbn [snd]; discriminate|].
      pose proof (runnable_exists c w HW Hd) as Hne.
      destruct (runnable c w) as [|r rs]; [contradiction|]. apply IH. now apply wpoll_winv.
    + destruct (Nat.leb 100 p).
      * destruct (pcs (base w) (p - 100)) as [[|k rest] ph] eqn:Hp; [now apply IH|].
        destruct ph; try now apply IH.
        pose proof (wdrop_inv c (p - 100) w HW) as HW'.
        destruct (wdrop c (p - 100) w) as [c' w']. now apply IH.
      * cbn [hd] in Hstep. apply (Hstep ps trace).
Qed.
