(* C12/ProcModel.v — how the PROCESSOR reaches the symbolizer (round 5, second pass).
   minidump-processor walks all threads of a dump concurrently through ONE symbol provider:
       MinidumpInfo::into_process_state:   symbol_provider.stats();
                                           join_all(threads.map(|..| async move { .. walk_stack(.., symbol_provider).await; .. })).await;
                                           symbol_provider.stats()               (-> ProcessState.symbol_stats)
       minidump_unwind::walk_stack:        while has_new_frame { fill_source_line_info(frame, modules, symbol_provider).await;
                                                                 .. get_caller_frame(.., symbol_provider ..).await }
       fill_source_line_info:              if let Some(module) = modules.module_at_address(frame.instruction)
                                             { let _ = symbol_provider.fill_symbol(module, frame).await; }
       impl SymbolProvider for Symbolizer: plain delegation to Symbolizer::{fill_symbol, walk_frame, get_file_path, stats, pending_stats}
   translate/c12_processor.py regenerates these shapes as a [walker] (Gen/C12Processor.v).  This file gives a walker
   its meaning: from the frames of every thread (which module covers the frame; which lookups get_caller_frame makes for
   it: walk_frame for the CFI of the callee's module, fill_symbol for the candidates of a stack scan) it derives the
   per-thread sequences of lookups — the configuration of C12/ProgModel.v the dump stands for — and [process] runs the
   walker's into_process_state on the interpreter of the regenerated program with the join_all executor of C12/JoinModel.v.
   Definitions only; proofs in C12/ProcProofs.v. *)
From RM Require Export C12.ProgModel C12.JoinModel.

Inductive pmeth := PMFill | PMWalk | PMFile | PMStats | PMPending.

Inductive wop :=
| WStatsRead                          (* let symbol_stats = symbol_provider.stats(); *)
| WJoinAllThreads (body : list wop)   (* futures_util::future::join_all(state.threads.iter_mut().zip(..).enumerate()
                                           .map(|(i, (stack, thread))| async move { body })).await *)
| WWalkStackAwait                     (* walk_stack(i, .., stack, stack_memory, modules, system_info, symbol_provider).await; *)
| WWhileNewFrame (body : list wop)    (* while has_new_frame { body }    (one iteration per frame of the finished stack) *)
| WFillSourceLineAwait                (* fill_source_line_info(frame, modules, symbol_provider).await; *)
| WGetCallerAwait                     (* let new_frame = get_caller_frame(frame_idx, &GetCallerFrameArgs {.., symbol_provider}).await; *)
| WIfModule (body : list wop)         (* if let Some(module) = modules.module_at_address(frame.instruction) { body } *)
| WFillSymbolAwait.                   (* let _ = symbol_provider.fill_symbol(module, frame).await; *)

(* get_caller_by_cfi (one per architecture): its provider call; CfiStackWalker::from_ctx_and_args: where its module comes from *)
Inductive cfiop := CfiWalkCalleeModule.      (* args.symbol_provider.walk_frame(stack_walker.module, &mut stack_walker).await? *)
Inductive cfimod := CfiModuleOfCalleeInstruction.   (* module = args.modules.module_at_address(args.callee_frame.instruction)? *)

Record walker := {
  w_process     : list wop;      (* into_process_state: uses of the provider, in order *)
  w_walk_stack  : list wop;      (* walk_stack *)
  w_fill_source : list wop;      (* fill_source_line_info *)
  w_provider    : list pmeth     (* impl SymbolProvider for Symbolizer: methods that are plain delegations *)
}.

(* one frame of a thread's finished stack: the module covering its instruction (None: no module) and the lookups
   get_caller_frame makes to find its caller (walk_frame on the callee's module for CFI; fill_symbol on the modules of
   the candidate return addresses of a stack scan) — symbol lookups *)
Record frame := { f_module : option key; f_caller : list lookup }.
Definition thread := list frame.
Definition dump := list thread.

Definition fill_source_lookups (W : walker) (f : frame) : list lookup :=
  flat_map (fun o => match o with
                     | WIfModule body =>
                         match f_module f with
                         | Some k => flat_map (fun o' => match o' with WFillSymbolAwait => [(EFill, k)] | _ => [] end) body
                         | None => []
                         end
                     | _ => []
                     end) (w_fill_source W).
Definition frame_lookups (W : walker) (body : list wop) (f : frame) : list lookup :=
  flat_map (fun o => match o with
                     | WFillSourceLineAwait => fill_source_lookups W f
                     | WGetCallerAwait => f_caller f
                     | _ => []
                     end) body.
Definition thread_lookups (W : walker) (th : thread) : list lookup :=
  flat_map (fun o => match o with WWhileNewFrame body => flat_map (frame_lookups W body) th | _ => [] end) (w_walk_stack W).
Definition future_lookups (W : walker) (body : list wop) (th : thread) : list lookup :=
  flat_map (fun o => match o with WWalkStackAwait => thread_lookups W th | _ => [] end) body.
(* one task per thread of the dump: the children of the join_all *)
Definition process_tasks (W : walker) (d : dump) : list (list lookup) :=
  flat_map (fun o => match o with WJoinAllThreads body => map (future_lookups W body) d | _ => [] end) (w_process W).

Definition proc_pc (W : walker) (d : dump) (base : config) : pconfig := {| ptasks := process_tasks W d; pbase := base |}.

(* into_process_state on the interpreter: a stats read is a snapshot of the stats map; the join_all is driven by an
   executor that polls the root only after its waker fired (jexec) *)
Definition snapshot := nat -> option outcome.
Definition process (P : program) (W : walker) (d : dump) (base : config) (fuel : nat) : option (pstate * list snapshot) :=
  let pc := proc_pc W d base in
  fold_left (fun acc o =>
               match acc with
               | None => None
               | Some (s, snaps) =>
                   match o with
                   | WStatsRead => Some (s, snaps ++ [stats (psh s)])
                   | WJoinAllThreads _ =>
                       match jexec (cfg pc) fuel (winit (cfg pc)) 0 with
                       | (_, r, WDone) => Some (prun P pc (round_robin (cfg pc) r), snaps)
                       | _ => None            (* the root was never woken again / out of fuel *)
                       end
                   | _ => Some (s, snaps)
                   end
               end) (w_process W) (Some (pinit pc, [])).

(* the lookups of the CFI attempt of get_caller_frame for a frame: walk_frame on the module covering the callee frame's
   instruction (none when no module covers it: from_ctx_and_args returns None before the provider is asked) *)
Definition cfi_lookups (ops : list cfiop) (m : cfimod) (f_mod : option key) : list lookup :=
  flat_map (fun o => match o, m with
                     | CfiWalkCalleeModule, CfiModuleOfCalleeInstruction =>
                         match f_mod with Some k => [(EWalk, k)] | None => [] end
                     end) ops.

Definition canon_walker : walker :=
  {| w_process := [WStatsRead; WJoinAllThreads [WWalkStackAwait]; WStatsRead];
     w_walk_stack := [WWhileNewFrame [WFillSourceLineAwait; WGetCallerAwait]];
     w_fill_source := [WIfModule [WFillSymbolAwait]];
     w_provider := [PMFill; PMWalk; PMFile; PMStats; PMPending] |}.

(* the thread walks make symbol lookups only (fill_symbol / walk_frame / get_symbol_at_address) *)
Definition walk_ok (d : dump) : Prop :=
  Forall (Forall (fun f => Forall (fun l : lookup => match fst l with EFile => False | _ => True end) (f_caller f))) d.

(* what canon_walker makes of a thread: per frame, fill_symbol on its module, then the unwinder's lookups *)
Definition canon_thread (th : thread) : list lookup :=
  flat_map (fun f => (match f_module f with Some k => [(EFill, k)] | None => [] end) ++ f_caller f) th.

(* every source file of minidump-unwind / minidump-processor (unit-test files excluded) that calls a provider method, with
   the number of call sites: the unwinders' get_caller_by_cfi (walk_frame), fill_source_line_info and
   instruction_seems_valid_by_symbols (fill_symbol), the provider wrappers of symbols/, and the two stats reads of
   into_process_state — no other way from a thread walk into the symbolizer *)
From Coq Require Import String.
Open Scope string_scope.
Definition canon_provider_users : list (string * list (string * nat)) := [
  ("minidump-unwind/src/amd64.rs", [(".walk_frame(", 1)]);
  ("minidump-unwind/src/arm.rs", [(".walk_frame(", 1)]);
  ("minidump-unwind/src/arm64.rs", [(".walk_frame(", 1)]);
  ("minidump-unwind/src/arm64_old.rs", [(".walk_frame(", 1)]);
  ("minidump-unwind/src/lib.rs", [(".fill_symbol(", 2)]);
  ("minidump-unwind/src/mips.rs", [(".walk_frame(", 1)]);
  ("minidump-unwind/src/symbols/debuginfo.rs", [(".fill_symbol(", 1)]);
  ("minidump-unwind/src/symbols/mod.rs", [(".fill_symbol(", 3); (".walk_frame(", 3); (".get_file_path(", 3); (".pending_stats()", 3)]);
  ("minidump-unwind/src/x86.rs", [(".walk_frame(", 1)]);
  ("minidump-processor/src/processor.rs", [("symbol_provider.stats()", 2)])
].
Definition canon_cfi : list (string * list cfiop) :=
  [("amd64", [CfiWalkCalleeModule]); ("arm", [CfiWalkCalleeModule]); ("arm64", [CfiWalkCalleeModule]);
   ("arm64_old", [CfiWalkCalleeModule]); ("mips", [CfiWalkCalleeModule]); ("x86", [CfiWalkCalleeModule])].
Definition cfi_of (a : string) (l : list (string * list cfiop)) : list cfiop :=
  match find (fun p => String.eqb (fst p) a) l with Some p => snd p | None => [] end.
Definition x86_name : string := "x86".
Close Scope string_scope.
