(* C12/AdaptProofs.v — an adaptive run is the run of the unfolded fixed lists, poll for poll. *)
From RM Require Import C12.Model C12.Proofs C12.AdaptModel.
From Coq Require Import Lia.

Definition valok (c : config) (s : shared) : Prop := forall k o, value s k = Some o -> o = outc c k.

Lemma valok_hit : forall c t k o s, valok c s -> valok c (hit t k o s).
Proof. intros c t k o s H. exact H. Qed.
Lemma valok_begin : forall c t k s, valok c s -> valok c (begin_call t k s).
Proof. intros c t k s H. exact H. Qed.
Lemma valok_complete : forall c t k s, valok c s -> valok c (complete c t k s).
Proof.
  intros c t k s H k' o E. cbn [complete value] in E. unfold upd in E.
  destruct (Nat.eqb k' k) eqn:Q; [apply Nat.eqb_eq in Q; subst; inversion E; reflexivity|apply H; exact E].
Qed.

Lemma res_hit : forall t k o s, results (hit t k o s) t = results s t ++ [(k, o)].
Proof. intros. cbn [hit results]. apply upd_same. Qed.
Lemma res_begin : forall t k s, results (begin_call t k s) t = results s t.
Proof. reflexivity. Qed.
Lemma res_complete : forall c t k s, results (complete c t k s) t = results s t ++ [(k, outc c k)].
Proof. intros. cbn [complete results]. apply upd_same. Qed.

Lemma ends_none : forall n oc sg acc, sg acc = None -> ends n oc sg acc = true.
Proof. intros n oc sg acc H. destruct n; cbn; rewrite H; reflexivity. Qed.
Lemma unfold_none : forall n oc sg acc, sg acc = None -> unfold_strat n oc sg acc = [].
Proof. intros n oc sg acc H. destruct n; cbn; [|rewrite H]; reflexivity. Qed.

(* one poll *)
Lemma adv_sim : forall c t sg n fuel ph s,
  n < fuel -> ends n (outc c) sg (results s t) = true -> valok c s ->
  exists n', n' <= n /\
    aadvance fuel c t sg ph s = (snd (fst (advance c t (unfold_strat n (outc c) sg (results s t)) ph s)),
                                 snd (advance c t (unfold_strat n (outc c) sg (results s t)) ph s)) /\
    valok c (snd (advance c t (unfold_strat n (outc c) sg (results s t)) ph s)) /\
    ends n' (outc c) sg (results (snd (advance c t (unfold_strat n (outc c) sg (results s t)) ph s)) t) = true /\
    fst (fst (advance c t (unfold_strat n (outc c) sg (results s t)) ph s)) =
      unfold_strat n' (outc c) sg (results (snd (advance c t (unfold_strat n (outc c) sg (results s t)) ph s)) t).
Proof.
  intros c t sg n. induction n as [|m IH]; intros fuel ph s Hf He Hv.
  - cbn [ends] in He. destruct (sg (results s t)) eqn:E; [discriminate|].
    exists 0. cbn [unfold_strat advance fst snd]. destruct fuel; [lia|]. cbn [aadvance]. rewrite E.
    split; [lia|]. split; [reflexivity|]. split; [exact Hv|]. split; [apply ends_none; exact E|reflexivity].
  - destruct fuel as [|f]; [lia|]. cbn [ends] in He. cbn [unfold_strat aadvance].
    destruct (sg (results s t)) as [k|] eqn:E.
    2:{ exists 0. cbn [advance fst snd]. split; [lia|]. split; [reflexivity|]. split; [exact Hv|].
        split; [apply ends_none; exact E|reflexivity]. }
    assert (Stay : forall ph' : phase, exists n', n' <= S m /\ ends n' (outc c) sg (results s t) = true /\
               k :: unfold_strat m (outc c) sg (results s t ++ [(k, outc c k)]) = unfold_strat n' (outc c) sg (results s t)).
    { intros _. exists (S m). split; [lia|]. split; [cbn [ends]; rewrite E; exact He|]. cbn [unfold_strat]. rewrite E. reflexivity. }
    assert (Go : forall s1, valok c s1 -> results s1 t = results s t ++ [(k, outc c k)] ->
               exists n', n' <= S m /\
                 aadvance f c t sg Start s1 =
                   (snd (fst (advance c t (unfold_strat m (outc c) sg (results s t ++ [(k, outc c k)])) Start s1)),
                    snd (advance c t (unfold_strat m (outc c) sg (results s t ++ [(k, outc c k)])) Start s1)) /\
                 valok c (snd (advance c t (unfold_strat m (outc c) sg (results s t ++ [(k, outc c k)])) Start s1)) /\
                 ends n' (outc c) sg (results (snd (advance c t (unfold_strat m (outc c) sg (results s t ++ [(k, outc c k)])) Start s1)) t) = true /\
                 fst (fst (advance c t (unfold_strat m (outc c) sg (results s t ++ [(k, outc c k)])) Start s1)) =
                   unfold_strat n' (outc c) sg (results (snd (advance c t (unfold_strat m (outc c) sg (results s t ++ [(k, outc c k)])) Start s1)) t)).
    { intros s1 Hv1 Hr. rewrite <- Hr in *.
      destruct (IH f Start s1 ltac:(lia) He Hv1) as (n' & Hn & A & B & C & D).
      exists n'. split; [lia|]. repeat split; assumption. }
    cbn [advance].
    destruct ph as [| |[|j]].
    + destruct (lock s k) eqn:Hl.
      * destruct (Stay Wait) as (n' & Hn & A & B). exists n'. cbn [fst snd]. repeat split; auto.
      * destruct (value s k) as [o|] eqn:Hval.
        -- assert (o = outc c k) by (apply Hv; exact Hval). subst o.
           apply Go; [apply valok_hit; exact Hv|apply res_hit].
        -- cbv zeta. destruct (susp c k) eqn:Hs.
           ++ apply Go; [apply valok_complete; apply valok_begin; exact Hv|rewrite res_complete, res_begin; reflexivity].
           ++ destruct (Stay Wait) as (n' & Hn & A & B). exists n'. cbn [fst snd]. rewrite res_begin.
              repeat split; auto; try (apply valok_begin; exact Hv).
    + destruct (lock s k) eqn:Hl.
      * destruct (Stay Wait) as (n' & Hn & A & B). exists n'. cbn [fst snd]. repeat split; auto.
      * destruct (value s k) as [o|] eqn:Hval.
        -- assert (o = outc c k) by (apply Hv; exact Hval). subst o.
           apply Go; [apply valok_hit; exact Hv|apply res_hit].
        -- cbv zeta. destruct (susp c k) eqn:Hs.
           ++ apply Go; [apply valok_complete; apply valok_begin; exact Hv|rewrite res_complete, res_begin; reflexivity].
           ++ destruct (Stay Wait) as (n' & Hn & A & B). exists n'. cbn [fst snd]. rewrite res_begin.
              repeat split; auto; try (apply valok_begin; exact Hv).
    + apply Go; [apply valok_complete; exact Hv|apply res_complete].
    + destruct (Stay Wait) as (n' & Hn & A & B). exists n'. cbn [fst snd]. repeat split; auto.
Qed.

Lemma complete_ext : forall c c' t k s, outc c k = outc c' k -> leaf c k = leaf c' k -> complete c t k s = complete c' t k s.
Proof. intros c c' t k s A B. unfold complete. rewrite A, B. reflexivity. Qed.

Lemma advance_ext : forall c c', (forall k, susp c k = susp c' k) -> (forall k, outc c k = outc c' k) ->
  (forall k, leaf c k = leaf c' k) -> forall t rem ph s, advance c t rem ph s = advance c' t rem ph s.
Proof.
  intros c c' A B C t rem. induction rem as [|k rest IH]; intros ph s; [reflexivity|].
  cbn [advance]. rewrite <- A. rewrite !(complete_ext c c' t k) by auto. rewrite !IH.
  destruct ph as [| |[|j]]; try reflexivity;
    (destruct (lock s k); [reflexivity|]; destruct (value s k); [apply IH|]; destruct (susp c k); reflexivity).
Qed.

(* a poll of task t leaves the results of the other tasks alone *)
Lemma advance_results_other : forall c t u rem ph s, u <> t -> results (snd (advance c t rem ph s)) u = results s u.
Proof.
  intros c t u rem. induction rem as [|k rest IH]; intros ph s Hu; [reflexivity|].
  assert (Hc : forall s0, results (complete c t k s0) u = results s0 u).
  { intro s0. cbn [complete results]. unfold upd. destruct (Nat.eqb u t) eqn:Q; [apply Nat.eqb_eq in Q; contradiction|reflexivity]. }
  assert (Hh : forall o, results (hit t k o s) u = results s u).
  { intro o. cbn [hit results]. unfold upd. destruct (Nat.eqb u t) eqn:Q; [apply Nat.eqb_eq in Q; contradiction|reflexivity]. }
  assert (G : results (snd (match lock s k with
      | Some _ => (k :: rest, Wait, s)
      | None => match value s k with
                | Some o => advance c t rest Start (hit t k o s)
                | None => match susp c k with
                          | O => advance c t rest Start (complete c t k (begin_call t k s))
                          | S m => (k :: rest, Sup m, begin_call t k s)
                          end
                end
      end)) u = results s u).
  { destruct (lock s k); [reflexivity|]. destruct (value s k) as [o|].
    - rewrite IH by exact Hu. apply Hh.
    - destruct (susp c k); [|reflexivity]. rewrite IH by exact Hu. rewrite Hc. reflexivity. }
  cbn [advance]. destruct ph as [| |[|j]]; try exact G; [|reflexivity].
  rewrite IH by exact Hu. apply Hc.
Qed.

Section Refine.
Variable N : nat.
Variable ac : aconfig.
Variable fuel : nat.
Hypothesis Hfuel : N < fuel.
Hypothesis Hends : Forall (fun sg => ends N (outc (abase ac)) sg [] = true) (astrats ac).
Local Notation base := (abase ac).
Local Notation c' := (fixed_config N ac).

Record R (a : astate) (m : state) : Prop := {
  r_sh : ash a = sh m;
  r_val : valok base (sh m);
  r_task : forall t, exists n, n <= N /\ ends n (outc base) (astrat ac t) (results (sh m) t) = true /\
                     pcs m t = (unfold_strat n (outc base) (astrat ac t) (results (sh m) t), aph a t)
}.

Lemma adv_fixed : forall t rem ph s, advance c' t rem ph s = advance base t rem ph s.
Proof. intros. apply advance_ext; reflexivity. Qed.

Lemma nth_fixed : forall t, nth t (tasks c') [] = unfold_strat N (outc base) (astrat ac t) [].
Proof.
  intro t. cbn [fixed_config tasks]. unfold astrat. generalize (astrats ac). intro l. revert t.
  induction l as [|x r IH]; intro t.
  - destruct t; cbn [map nth]; symmetry; apply unfold_none; reflexivity.
  - destruct t; cbn [map nth]; [reflexivity|apply IH].
Qed.

Lemma ends_strat : forall t, ends N (outc base) (astrat ac t) [] = true.
Proof.
  intro t. unfold astrat. destruct (Nat.lt_ge_cases t (length (astrats ac))) as [A|A].
  - rewrite Forall_forall in Hends. apply Hends. apply nth_In. exact A.
  - rewrite nth_overflow by exact A. apply ends_none. reflexivity.
Qed.

Lemma R_init : R ainit (init c').
Proof.
  constructor.
  - reflexivity.
  - intros k o H. discriminate.
  - intro t. exists N. split; [lia|]. cbn [init sh pcs results ainit aph]. split; [apply ends_strat|].
    rewrite nth_fixed. reflexivity.
Qed.

Lemma R_poll : forall t a m, R a m -> R (apoll fuel ac t a) (poll c' t m).
Proof.
  intros t a m [Hs Hv Ht]. unfold apoll, poll.
  destruct (Ht t) as (n & Hn & He & Hp). rewrite Hp. rewrite adv_fixed. rewrite Hs.
  destruct (adv_sim base t (astrat ac t) n fuel (aph a t) (sh m) ltac:(lia) He Hv) as (n' & Hn' & A & B & C & D).
  rewrite A.
  destruct (advance base t (unfold_strat n (outc base) (astrat ac t) (results (sh m) t)) (aph a t) (sh m))
    as [[rem' ph'] s'] eqn:Eadv.
  cbn [fst snd] in *. constructor; cbn [ash sh aph pcs].
  - reflexivity.
  - exact B.
  - intro u. destruct (Nat.eq_dec u t) as [->|Hne].
    + exists n'. split; [lia|]. split; [exact C|]. rewrite !upd_same. rewrite D. reflexivity.
    + destruct (Ht u) as (nu & Hnu & Heu & Hpu). exists nu.
      assert (Hru : results s' u = results (sh m) u).
      { pose proof (advance_results_other base t u (unfold_strat n (outc base) (astrat ac t) (results (sh m) t)) (aph a t) (sh m) Hne) as X.
        rewrite Eadv in X. exact X. }
      rewrite Hru. split; [exact Hnu|]. split; [exact Heu|].
      unfold upd. destruct (Nat.eqb u t) eqn:Q; [apply Nat.eqb_eq in Q; contradiction|]. exact Hpu.
Qed.

Lemma R_run : forall sched, R (arun fuel ac sched) (run c' sched).
Proof.
  intro sched. unfold arun, run, run_from.
  assert (G : forall a m, R a m -> R (fold_left (fun s t => apoll fuel ac t s) sched a) (fold_left (fun s t => poll c' t s) sched m)).
  { induction sched as [|t r IH]; intros a m H; [exact H|]. cbn [fold_left]. apply IH. apply R_poll. exact H. }
  apply G. apply R_init.
Qed.

Lemma R_done : forall a m t, R a m -> atask_done ac a t = task_done m t.
Proof.
  intros a m t [Hs Hv Ht]. unfold atask_done, task_done. rewrite Hs.
  destruct (Ht t) as (n & _ & He & Hp). rewrite Hp. cbn [fst].
  destruct (astrat ac t (results (sh m) t)) as [k|] eqn:E.
  - destruct n; cbn [ends] in He; rewrite E in He; [discriminate|]. cbn [unfold_strat]. rewrite E. reflexivity.
  - rewrite unfold_none by exact E. reflexivity.
Qed.

(* an adaptive run is the run of the fixed lists obtained by unfolding the strategies along the scripted answers *)
Lemma adaptive_refines : forall sched,
  ash (arun fuel ac sched) = sh (run c' sched) /\
  (forall t, aph (arun fuel ac sched) t = snd (pcs (run c' sched) t)) /\
  (forall t, atask_done ac (arun fuel ac sched) t = task_done (run c' sched) t) /\
  aall_done ac (arun fuel ac sched) = all_done c' (run c' sched).
Proof.
  intro sched. pose proof (R_run sched) as H. split; [apply (r_sh _ _ H)|]. split; [|split].
  - intro t. destruct (r_task _ _ H t) as (n & _ & _ & Hp). rewrite Hp. reflexivity.
  - intro t. apply R_done. exact H.
  - unfold aall_done, all_done, ntasks. cbn [fixed_config tasks]. rewrite map_length.
    induction (seq 0 (length (astrats ac))) as [|t r IH]; [reflexivity|]. cbn [forallb]. rewrite IH.
    rewrite (R_done _ _ t H). reflexivity.
Qed.

Lemma adaptive_at_most_once : forall sched k, count_occ Nat.eq_dec (calls (ash (arun fuel ac sched))) k <= 1.
Proof. intros sched k. destruct (adaptive_refines sched) as (E & _). rewrite E. apply (at_most_once c' sched k). Qed.

Lemma adaptive_same_outcome : forall sched t i k o,
  nth_error (results (ash (arun fuel ac sched)) t) i = Some (k, o) -> o = outc base k.
Proof.
  intros sched t i k o H. destruct (adaptive_refines sched) as (E & _). rewrite E in H.
  destruct (same_outcome c' sched t i k o H) as [A _]. exact A.
Qed.

Lemma adaptive_counters : forall sched, aall_done ac (arun fuel ac sched) = true ->
  req (ash (arun fuel ac sched)) = distinct_keys c' /\ proc (ash (arun fuel ac sched)) = distinct_keys c' /\
  forall k, In k (concat (tasks c')) -> count_occ Nat.eq_dec (calls (ash (arun fuel ac sched))) k = 1.
Proof.
  intros sched Hd. destruct (adaptive_refines sched) as (E & _ & _ & D). rewrite D in Hd. rewrite E.
  destruct (counters_quiescent c' sched Hd) as [A B]. split; [exact A|]. split; [exact B|].
  intros k Hk. apply (exactly_once_quiescent c' sched k Hd Hk).
Qed.
End Refine.

(* the statements of C12/Properties.v *)
Lemma adaptive_refines_all : forall (N : nat) (ac : aconfig) (fuel : nat) (sched : list task),
  N < fuel -> Forall (fun sg => ends N (outc (abase ac)) sg [] = true) (astrats ac) ->
  ash (arun fuel ac sched) = sh (run (fixed_config N ac) sched) /\
  (forall t, aph (arun fuel ac sched) t = snd (pcs (run (fixed_config N ac) sched) t)) /\
  (forall t, atask_done ac (arun fuel ac sched) t = task_done (run (fixed_config N ac) sched) t) /\
  aall_done ac (arun fuel ac sched) = all_done (fixed_config N ac) (run (fixed_config N ac) sched).
Proof. intros N ac fuel sched H1 H2. exact (adaptive_refines N ac fuel H1 H2 sched). Qed.

Lemma adaptive_at_most_once_all : forall (N : nat) (ac : aconfig) (fuel : nat) (sched : list task) (k : key),
  N < fuel -> Forall (fun sg => ends N (outc (abase ac)) sg [] = true) (astrats ac) ->
  count_occ Nat.eq_dec (calls (ash (arun fuel ac sched))) k <= 1.
Proof. intros N ac fuel sched k H1 H2. exact (adaptive_at_most_once N ac fuel H1 H2 sched k). Qed.

Lemma adaptive_same_outcome_all : forall (N : nat) (ac : aconfig) (fuel : nat) (sched : list task) (t : task) (i : nat)
  (k : key) (o : outcome),
  N < fuel -> Forall (fun sg => ends N (outc (abase ac)) sg [] = true) (astrats ac) ->
  nth_error (results (ash (arun fuel ac sched)) t) i = Some (k, o) -> o = outc (abase ac) k.
Proof. intros N ac fuel sched t i k o H1 H2. exact (adaptive_same_outcome N ac fuel H1 H2 sched t i k o). Qed.

Lemma adaptive_counters_all : forall (N : nat) (ac : aconfig) (fuel : nat) (sched : list task),
  N < fuel -> Forall (fun sg => ends N (outc (abase ac)) sg [] = true) (astrats ac) ->
  aall_done ac (arun fuel ac sched) = true ->
  req (ash (arun fuel ac sched)) = distinct_keys (fixed_config N ac) /\
  proc (ash (arun fuel ac sched)) = distinct_keys (fixed_config N ac) /\
  forall k, In k (concat (tasks (fixed_config N ac))) -> count_occ Nat.eq_dec (calls (ash (arun fuel ac sched))) k = 1.
Proof. intros N ac fuel sched H1 H2. exact (adaptive_counters N ac fuel H1 H2 sched). Qed.
