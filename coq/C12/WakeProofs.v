(* C12/WakeProofs.v — the wake-up instrumentation refines the plain model, and no wake-up
   is ever lost: while some task is unfinished, some unfinished task has its waker fired. *)
From Coq Require Import List Arith Bool Lia.
From RM Require Import C12.Model C12.WakeModel C12.Proofs C12.Progress.
Import ListNotations.

(* ---------- refinement: forgetting the wakers gives the plain model ---------- *)
Lemma wadvance_base : forall c n t rem ph s x,
  fst (wadvance c n t rem ph s x) = advance c t rem ph s.
Proof.
  intros c n t rem. induction rem as [|k rest IH]; intros ph s x; [reflexivity|].
  cbn [wadvance advance].
  destruct ph as [| |[|m]]; try reflexivity; try apply IH;
    (destruct (lock s k); [reflexivity|]; destruct (value s k); [apply IH|];
     destruct (susp c k); [apply IH|reflexivity]).
Qed.

Lemma wpoll_base : forall c t w, base (wpoll c t w) = poll c t (base w).
Proof.
  intros c t w. unfold wpoll, poll. destruct (pcs (base w) t) as [rem ph].
  pose proof (wadvance_base c (ntasks c) t rem ph (sh (base w)) (set_flag (ext w) t false)) as H.
  destruct (wadvance c (ntasks c) t rem ph (sh (base w)) (set_flag (ext w) t false)) as [[[rem' ph'] s'] x'].
  cbn [fst] in H. rewrite <- H. reflexivity.
Qed.

Lemma wrun_from_base : forall c sched w, base (wrun_from c w sched) = run_from c (base w) sched.
Proof.
  intros c sched. induction sched as [|t sched IH]; intros w; [reflexivity|].
  cbn [wrun_from run_from fold_left]. fold (wrun_from c (wpoll c t w) sched).
  fold (run_from c (poll c t (base w)) sched). rewrite IH, wpoll_base. reflexivity.
Qed.

Lemma wrun_base : forall c sched, base (wrun c sched) = run c sched.
Proof. intros. unfold wrun, run. now rewrite wrun_from_base. Qed.

(* ---------- first_waiter ---------- *)
Lemma first_waiter_sound : forall x k ts best u i,
  first_waiter x k ts best = Some (u, i) ->
  best = Some (u, i) \/ (In u ts /\ exists w, wk x u = Some (k, i, w)).
Proof.
  intros x k ts. induction ts as [|a ts IH]; intros best u i H; cbn [first_waiter] in H.
  - now left.
  - apply IH in H. destruct H as [H|[Hin Hw]]; [|right; split; [now right|assumption]].
    destruct (wk x a) as [[[k' j] w]|] eqn:Ea; [|now left].
    destruct (Nat.eqb_spec k' k) as [Ek|Nk]; [|now left]. subst k'.
    destruct best as [[b jb]|].
    + destruct (Nat.ltb j jb); [|now left].
      inversion H; subst. right. split; [now left|]. now exists w.
    + inversion H; subst. right. split; [now left|]. now exists w.
Qed.

Lemma first_waiter_some : forall x k ts best,
  best <> None \/ (exists u i w, In u ts /\ wk x u = Some (k, i, w)) ->
  first_waiter x k ts best <> None.
Proof.
  intros x k ts. induction ts as [|a ts IH]; intros best H; cbn [first_waiter].
  - destruct H as [H|(u & i & w & [] & _)]. assumption.
  - apply IH. destruct H as [H|(u & i & w & [E|Hin] & Hw)].
    + left. destruct (wk x a) as [[[k' j] w]|]; [|assumption].
      destruct (Nat.eqb k' k); [|assumption].
      destruct best as [[b jb]|]; [|discriminate]. destruct (Nat.ltb j jb); discriminate.
    + subst a. left. rewrite Hw, Nat.eqb_refl.
      destruct best as [[b jb]|]; [|discriminate]. destruct (Nat.ltb i jb); discriminate.
    + right. now exists u, i, w.
Qed.

(* what Mutex::unlock does to the waiters *)
Lemma wake_spec : forall n k x,
  (forall u i w, wk x u = Some (k, i, w) -> u < n) ->
  let x' := wake n k x in
  (forall u, wk x' u = wk x u \/
             exists i, wk x u = Some (k, i, false) /\ wk x' u = Some (k, i, true) /\ flag x' u = true) /\
  (forall u, flag x u = true -> flag x' u = true) /\
  ((exists u i w, wk x u = Some (k, i, w)) -> exists u i, wk x' u = Some (k, i, true)).
Proof.
  intros n k x Hlt. cbv zeta. unfold wake.
  destruct (first_waiter x k (seq 0 n) None) as [[u j]|] eqn:Hf.
  - destruct (first_waiter_sound _ _ _ _ _ _ Hf) as [H|[_ (w & Hw)]]; [discriminate|].
    rewrite Hw. destruct w.
    + repeat split; auto. intros _. now exists u, j.
    + cbn [wk flag]. repeat split.
      * intros v. destruct (upd_cases _ (wk x) u (Some (k, j, true)) v) as [[E1 E2]|[E1 E2]]; rewrite E2.
        -- subst v. right. exists j. repeat split; auto. apply upd_same.
        -- now left.
      * intros v Hv. destruct (upd_cases _ (flag x) u true v) as [[E1 E2]|[E1 E2]]; rewrite E2; auto.
      * intros _. exists u, j. apply upd_same.
  - repeat split; auto. intros (u & i & w & Hw). exfalso.
    apply (first_waiter_some x k (seq 0 n) None); [|assumption].
    right. exists u, i, w. split; [|assumption]. apply in_seq. specialize (Hlt u i w Hw). lia.
Qed.

Section Wake.
Variable c : config.

Definition waiting (p : task -> list key * phase) (u : task) (k : key) : Prop :=
  exists rest, p u = (k :: rest, Wait).

(* [ex] = the task being polled right now (its bit was cleared by the executor);
   [rk] = a key whose guard was just dropped without the wake having been done yet *)
Record WInv (ex : option task) (rk : option key) (p : task -> list key * phase) (s : shared) (x : wext) : Prop := {
  w_reg   : forall u k, waiting p u k -> exists i w, wk x u = Some (k, i, w);
  w_wait  : forall u k i w, wk x u = Some (k, i, w) -> waiting p u k;
  w_woken : forall u k i, wk x u = Some (k, i, true) -> Some u <> ex -> flag x u = true;
  w_free  : forall k, lock s k = None -> Some k <> rk -> (exists u i w, wk x u = Some (k, i, w)) ->
                      exists u i, wk x u = Some (k, i, true);
  w_ready : forall u k rest ph, p u = (k :: rest, ph) -> ph <> Wait -> Some u <> ex -> flag x u = true
}.

Lemma waiting_upd_other : forall p t v u k, u <> t -> (waiting (upd p t v) u k <-> waiting p u k).
Proof. intros p t v u k N. unfold waiting. now rewrite upd_other. Qed.

Lemma waiter_lt : forall ex rk p s x u k i w,
  Inv c p s -> WInv ex rk p s x -> wk x u = Some (k, i, w) -> u < ntasks c.
Proof.
  intros ex rk p s x u k i w HI HW Hw. destruct (w_wait _ _ _ _ _ HW u k i w Hw) as (rest & Hp).
  destruct (Nat.lt_ge_cases u (ntasks c)) as [H|H]; [assumption|].
  pose proof (inv_pos _ _ _ HI u) as E. rewrite (nth_overflow (tasks c) []) in E by assumption.
  apply app_eq_nil in E. rewrite Hp in E. destruct E as [_ E]. discriminate.
Qed.

(* the wake performed by unlock re-establishes the invariant for the released key *)
Lemma wake_restores : forall ex k p s x,
  Inv c p s -> WInv ex (Some k) p s x -> WInv ex None p s (wake (ntasks c) k x).
Proof.
  intros ex k p s x HI HW.
  assert (Hlt : forall u i w, wk x u = Some (k, i, w) -> u < ntasks c).
  { intros u i w. apply (waiter_lt ex (Some k) p s x u k i w HI HW). }
  destruct (wake_spec (ntasks c) k x Hlt) as (Hwk & Hfl & Hsome).
  set (x' := wake (ntasks c) k x) in *.
  destruct HW as [W1 W2 W3 W4 W5]. split.
  - intros u k0 Hwt. destruct (W1 u k0 Hwt) as (i & w & E).
    destruct (Hwk u) as [H|(j & H1 & H2 & _)].
    + exists i, w. now rewrite H.
    + rewrite E in H1. inversion H1; subst. now exists j, true.
  - intros u k0 i w E. destruct (Hwk u) as [H|(j & H1 & H2 & _)].
    + rewrite H in E. now apply (W2 u k0 i w).
    + rewrite H2 in E. inversion E; subst. now apply (W2 u k0 i false).
  - intros u k0 i E Hex. destruct (Hwk u) as [H|(j & H1 & H2 & H3)]; [|assumption].
    rewrite H in E. apply Hfl. now apply (W3 u k0 i).
  - intros k0 Hl _ (u & i & w & E).
    assert (Hold : exists u i w, wk x u = Some (k0, i, w)).
    { destruct (Hwk u) as [H|(j & H1 & H2 & _)].
      - rewrite H in E. now exists u, i, w.
      - rewrite H2 in E. inversion E; subst. do 3 eexists. exact H1. }
    destruct (Nat.eq_dec k0 k) as [Ek|Nk].
    + subst k0. now apply Hsome.
    + destruct (W4 k0 Hl) as (u' & i' & E'); [intro X; inversion X; contradiction|assumption|].
      exists u', i'. destruct (Hwk u') as [H|(j & H1 & _)]; [now rewrite H|].
      rewrite E' in H1. discriminate.
  - intros u k0 rest ph Hp Hph Hex. apply Hfl. now apply (W5 u k0 rest ph).
Qed.

(* the polled task leaves its current lookup (hit, or supplier answered): its waiter entry is
   gone, the lock of k is released, the wake is still to be done *)
Lemma leave_lookup : forall p s s' x x0 t k rest ph rest',
  p t = (k :: rest, ph) -> WInv (Some t) None p s x ->
  (forall k0, k0 <> k -> lock s' k0 = lock s k0) ->
  (forall u, u <> t -> wk x0 u = wk x u) -> wk x0 t = None -> (forall u, flag x0 u = flag x u) ->
  WInv (Some t) (Some k) (upd p t (rest', Start)) s' x0.
Proof.
  intros p s s' x x0 t k rest ph rest' Hp [W1 W2 W3 W4 W5] Hlock Hwk Hwt Hfl. split.
  - intros u k0 Hw. destruct (Nat.eq_dec u t) as [E|N].
    + subst u. destruct Hw as (r & Hw). rewrite upd_same in Hw.
      destruct rest'; inversion Hw.
    + rewrite Hwk by assumption. apply W1. now apply (waiting_upd_other p t (rest', Start)).
  - intros u k0 i w E. destruct (Nat.eq_dec u t) as [Eu|N].
    + subst u. rewrite Hwt in E. discriminate.
    + rewrite Hwk in E by assumption. apply waiting_upd_other; [assumption|]. now apply (W2 u k0 i w).
  - intros u k0 i E Hex. assert (N : u <> t) by (intro; subst; now apply Hex).
    rewrite Hwk in E by assumption. rewrite Hfl. now apply (W3 u k0 i).
  - intros k0 Hl Hrk (u & i & w & E).
    assert (Nk : k0 <> k) by (intro; subst; now apply Hrk).
    assert (N : u <> t) by (intro; subst; rewrite Hwt in E; discriminate).
    rewrite Hwk in E by assumption. rewrite Hlock in Hl by assumption.
    destruct (W4 k0 Hl) as (u' & i' & E'); [discriminate|now exists u, i, w|].
    assert (N' : u' <> t).
    { intro; subst u'. destruct (W2 t k0 i' true E') as (r & X). rewrite Hp in X. congruence. }
    exists u', i'. now rewrite Hwk.
  - intros u k0 r ph0 Hpu Hph Hex. assert (N : u <> t) by (intro; subst; now apply Hex).
    rewrite upd_other in Hpu by assumption. rewrite Hfl. now apply (W5 u k0 r ph0).
Qed.

(* a task that is not in phase Wait owns no waiter entry *)
Lemma not_waiting_no_entry : forall ex rk p s x t rem ph,
  WInv ex rk p s x -> p t = (rem, ph) -> ph <> Wait -> wk x t = None.
Proof.
  intros ex rk p s x t rem ph HW Hp Hph. destruct (wk x t) as [[[k i] w]|] eqn:E; [|reflexivity].
  destruct (w_wait _ _ _ _ _ HW t k i w E) as (r & X). rewrite Hp in X. inversion X. contradiction.
Qed.

(* ---------- terminal steps of a poll: the task returns Pending ---------- *)
Lemma wstep_tick : forall p s x t k rest m m',
  p t = (k :: rest, Sup m) -> WInv (Some t) None p s x ->
  WInv None None (upd p t (k :: rest, Sup m')) s (set_flag x t true).
Proof.
  intros p s x t k rest m m' Hp HW.
  assert (Hnone : wk x t = None) by (apply (not_waiting_no_entry (Some t) None p s x t (k :: rest) (Sup m) HW Hp); discriminate).
  destruct HW as [W1 W2 W3 W4 W5]. split; cbn [set_flag wk flag].
  - intros u k0 Hw. destruct (Nat.eq_dec u t) as [E|N].
    + subst u. destruct Hw as (r & Hw). rewrite upd_same in Hw. inversion Hw.
    + apply W1. now apply (waiting_upd_other p t (k :: rest, Sup m')).
  - intros u k0 i w E. assert (N : u <> t) by (intro; subst; rewrite Hnone in E; discriminate).
    apply waiting_upd_other; [assumption|]. now apply (W2 u k0 i w).
  - intros u k0 i E _. assert (N : u <> t) by (intro; subst; rewrite Hnone in E; discriminate).
    rewrite upd_other by assumption. apply (W3 u k0 i E). intro X; inversion X; contradiction.
  - intros k0 Hl _ Hex. apply W4; auto. discriminate.
  - intros u k0 r ph Hpu Hph _. destruct (Nat.eq_dec u t) as [E|N].
    + subst u. apply upd_same.
    + rewrite upd_other in Hpu by assumption. rewrite upd_other by assumption.
      apply (W5 u k0 r ph Hpu Hph). intro X; inversion X; contradiction.
Qed.

Lemma wstep_wait : forall p s x t k rest ph h,
  p t = (k :: rest, ph) -> not_sup ph -> lock s k = Some h -> WInv (Some t) None p s x ->
  WInv None None (upd p t (k :: rest, Wait)) s (register t k x).
Proof.
  intros p s x t k rest ph h Hp Hn Hl HW.
  assert (Hkey : forall k' i w, wk x t = Some (k', i, w) -> k' = k).
  { intros k' i w E. destruct (w_wait _ _ _ _ _ HW t k' i w E) as (r & X). rewrite Hp in X. now inversion X. }
  assert (Hreg : exists i, wk (register t k x) t = Some (k, i, false) /\
                 (forall u, u <> t -> wk (register t k x) u = wk x u) /\
                 (forall u, flag (register t k x) u = flag x u)).
  { unfold register. destruct (wk x t) as [[[k' i] w]|] eqn:E.
    - rewrite (Hkey k' i w eq_refl). exists i. cbn [wk flag]. repeat split; auto.
      + apply upd_same.
      + intros u N. now apply upd_other.
    - eexists. cbn [wk flag]. repeat split; auto.
      + apply upd_same.
      + intros u N. now apply upd_other. }
  destruct Hreg as (i0 & Ht & Hother & Hflag).
  destruct HW as [W1 W2 W3 W4 W5]. split.
  - intros u k0 Hw. destruct (Nat.eq_dec u t) as [E|N].
    + subst u. destruct Hw as (r & Hw). rewrite upd_same in Hw. inversion Hw; subst. now exists i0, false.
    + rewrite Hother by assumption. apply W1. now apply (waiting_upd_other p t (k :: rest, Wait)).
  - intros u k0 i w E. destruct (Nat.eq_dec u t) as [Eu|N].
    + subst u. rewrite Ht in E. inversion E; subst. exists rest. apply upd_same.
    + rewrite Hother in E by assumption. apply waiting_upd_other; [assumption|]. now apply (W2 u k0 i w).
  - intros u k0 i E _. destruct (Nat.eq_dec u t) as [Eu|N].
    + subst u. rewrite Ht in E. discriminate.
    + rewrite Hother in E by assumption. rewrite Hflag. apply (W3 u k0 i E). intro X; inversion X; contradiction.
  - intros k0 Hl0 _ (u & i & w & E).
    assert (Nk : k0 <> k) by (intro; subst; rewrite Hl in Hl0; discriminate).
    assert (N : u <> t) by (intro; subst; rewrite Ht in E; congruence).
    rewrite Hother in E by assumption.
    destruct (W4 k0 Hl0) as (u' & i' & E'); [discriminate|now exists u, i, w|].
    assert (N' : u' <> t) by (intro; subst u'; apply Nk; now apply (Hkey k0 i' true)).
    exists u', i'. now rewrite Hother.
  - intros u k0 r ph0 Hpu Hph _. destruct (Nat.eq_dec u t) as [E|N].
    + subst u. rewrite upd_same in Hpu. inversion Hpu; subst. contradiction.
    + rewrite upd_other in Hpu by assumption. rewrite Hflag.
      apply (W5 u k0 r ph0 Hpu Hph). intro X; inversion X; contradiction.
Qed.

Lemma wstep_begin : forall p s x t k rest ph m,
  p t = (k :: rest, ph) -> not_sup ph -> lock s k = None -> WInv (Some t) None p s x ->
  WInv None None (upd p t (k :: rest, Sup m)) (begin_call t k s) (set_flag (unregister t x) t true).
Proof.
  intros p s x t k rest ph m Hp Hn Hl HW.
  assert (Hkey : forall k' i w, wk x t = Some (k', i, w) -> k' = k).
  { intros k' i w E. destruct (w_wait _ _ _ _ _ HW t k' i w E) as (r & X). rewrite Hp in X. now inversion X. }
  destruct HW as [W1 W2 W3 W4 W5]. split; cbn [set_flag unregister begin_call wk flag lock].
  - intros u k0 Hw. destruct (Nat.eq_dec u t) as [E|N].
    + subst u. destruct Hw as (r & Hw). rewrite upd_same in Hw. inversion Hw.
    + rewrite upd_other by assumption. apply W1. now apply (waiting_upd_other p t (k :: rest, Sup m)).
  - intros u k0 i w E. destruct (Nat.eq_dec u t) as [Eu|N].
    + subst u. rewrite upd_same in E. discriminate.
    + rewrite upd_other in E by assumption. apply waiting_upd_other; [assumption|]. now apply (W2 u k0 i w).
  - intros u k0 i E _. destruct (Nat.eq_dec u t) as [Eu|N].
    + subst u. apply upd_same.
    + rewrite upd_other in E by assumption. rewrite upd_other by assumption.
      apply (W3 u k0 i E). intro X; inversion X; contradiction.
  - intros k0 Hl0 _ (u & i & w & E).
    assert (Nk : k0 <> k) by (intro; subst; rewrite upd_same in Hl0; discriminate).
    rewrite upd_other in Hl0 by assumption.
    assert (N : u <> t) by (intro; subst; rewrite upd_same in E; discriminate).
    rewrite upd_other in E by assumption.
    destruct (W4 k0 Hl0) as (u' & i' & E'); [discriminate|now exists u, i, w|].
    assert (N' : u' <> t) by (intro; subst u'; apply Nk; now apply (Hkey k0 i' true)).
    exists u', i'. now rewrite upd_other.
  - intros u k0 r ph0 Hpu Hph _. destruct (Nat.eq_dec u t) as [E|N].
    + subst u. apply upd_same.
    + rewrite upd_other in Hpu by assumption. rewrite upd_other by assumption.
      apply (W5 u k0 r ph0 Hpu Hph). intro X; inversion X; contradiction.
Qed.

Lemma WInv_ext : forall ex rk p p' s x, (forall u, p u = p' u) -> WInv ex rk p s x -> WInv ex rk p' s x.
Proof.
  intros ex rk p p' s x E [W1 W2 W3 W4 W5]. split; auto.
  - intros u k (r & H). rewrite <- E in H. apply W1. now exists r.
  - intros u k i w H. destruct (W2 u k i w H) as (r & X). exists r. now rewrite <- E.
  - intros u k r ph H. rewrite <- E in H. now apply (W5 u k r ph).
Qed.

(* a finished (or just finishing) task needs no wake-up *)
Lemma wstep_done : forall p s x t ph,
  p t = ([], ph) -> WInv (Some t) None p s x -> WInv None None p s x.
Proof.
  intros p s x t ph Hp HW.
  assert (Hnone : wk x t = None).
  { destruct (wk x t) as [[[k i] w]|] eqn:E; [|reflexivity].
    destruct (w_wait _ _ _ _ _ HW t k i w E) as (r & X). rewrite Hp in X. inversion X. }
  destruct HW as [W1 W2 W3 W4 W5]. split; auto.
  - intros u k i E _. apply (W3 u k i E). intro X; inversion X; subst. rewrite Hnone in E. discriminate.
  - intros u k r ph0 Hpu Hph _. apply (W5 u k r ph0 Hpu Hph).
    intro X; inversion X; subst. rewrite Hp in Hpu. discriminate.
Qed.

(* ---------- one poll ---------- *)
Lemma wadvance_winv : forall t rem ph s x p rem' ph' s' x',
  p t = (rem, ph) -> Inv c p s -> WInv (Some t) None p s x ->
  wadvance c (ntasks c) t rem ph s x = (rem', ph', s', x') ->
  WInv None None (upd p t (rem', ph')) s' x'.
Proof.
  intros t rem. induction rem as [|k rest IH]; intros ph s x p rem' ph' s' x' Hp HI HW Ha.
  - cbn [wadvance] in Ha. inversion Ha; subst.
    apply (WInv_ext _ _ p); [intro u; rewrite <- Hp; symmetry; apply upd_id|].
    now apply (wstep_done p s' x' t ph').
  - (* continuing with the next lookup after k's guard has been dropped *)
    assert (Hcont : forall s0 x0,
              Inv c (upd p t (rest, Start)) s0 ->
              WInv (Some t) (Some k) (upd p t (rest, Start)) s0 x0 ->
              wadvance c (ntasks c) t rest Start s0 (wake (ntasks c) k x0) = (rem', ph', s', x') ->
              WInv None None (upd p t (rem', ph')) s' x').
    { intros s0 x0 HI0 HW0 Ha0.
      apply (WInv_ext _ _ (upd (upd p t (rest, Start)) t (rem', ph'))); [intro u; apply upd_upd|].
      apply (IH Start s0 (wake (ntasks c) k x0) (upd p t (rest, Start))); auto.
      - apply upd_same.
      - now apply wake_restores. }
    cbn [wadvance] in Ha.
    assert (Hnosup : not_sup ph ->
      match lock s k with
      | Some _ => (k :: rest, Wait, s, register t k x)
      | None =>
          match value s k with
          | Some o => wadvance c (ntasks c) t rest Start (hit t k o s) (wake (ntasks c) k (unregister t x))
          | None =>
              match susp c k with
              | 0 => wadvance c (ntasks c) t rest Start (complete c t k (begin_call t k s))
                       (wake (ntasks c) k (unregister t x))
              | S m => (k :: rest, Sup m, begin_call t k s, set_flag (unregister t x) t true)
              end
          end
      end = (rem', ph', s', x') -> WInv None None (upd p t (rem', ph')) s' x').
    { intros Hn H0.
      assert (Hun : (forall u, u <> t -> wk (unregister t x) u = wk x u) /\ wk (unregister t x) t = None /\
                    (forall u, flag (unregister t x) u = flag x u)).
      { cbn [unregister wk flag]. repeat split; auto; [intros u N; now apply upd_other|apply upd_same]. }
      destruct Hun as (Hu1 & Hu2 & Hu3).
      destruct (lock s k) as [h|] eqn:Hl.
      - inversion H0; subst. now apply (wstep_wait p s' x t k rest ph h).
      - destruct (value s k) as [o|] eqn:Hv.
        + apply (Hcont (hit t k o s) (unregister t x)); auto.
          * now apply (step_hit c p s t k rest ph o).
          * apply (leave_lookup p s (hit t k o s) x (unregister t x) t k rest ph); auto.
        + destruct (susp c k) as [|m] eqn:Hs.
          * apply (Hcont (complete c t k (begin_call t k s)) (unregister t x)); auto.
            -- pose proof (step_begin c p s t k rest ph 0 Hp Hn Hl Hv HI) as HI1.
               apply (Inv_ext c (upd (upd p t (k :: rest, Sup 0)) t (rest, Start))); [intro u; apply upd_upd|].
               apply (step_complete c _ _ t k rest 0); [apply upd_same|assumption].
            -- apply (leave_lookup p s _ x (unregister t x) t k rest ph); auto.
               intros k0 Nk. cbn [complete begin_call lock]. now rewrite !upd_other.
          * inversion H0; subst. now apply (wstep_begin p s x t k rest ph m). }
    destruct ph as [| |[|m]].
    + now apply Hnosup.
    + now apply Hnosup.
    + assert (Hnone : wk x t = None)
        by (apply (not_waiting_no_entry (Some t) None p s x t (k :: rest) (Sup 0) HW Hp); discriminate).
      apply (Hcont (complete c t k s) x); auto.
      * now apply (step_complete c p s t k rest 0).
      * apply (leave_lookup p s (complete c t k s) x x t k rest (Sup 0)); auto.
        intros k0 Nk. cbn [complete lock]. now rewrite upd_other.
    + inversion Ha; subst. now apply (wstep_tick p s' x t k rest (S m) m).
Qed.

Definition WSInv (w : wstate) : Prop :=
  SInv c (base w) /\ WInv None None (pcs (base w)) (sh (base w)) (ext w).

(* the executor clears the polled task's bit *)
Lemma clear_flag_winv : forall p s x t,
  WInv None None p s x -> WInv (Some t) None p s (set_flag x t false).
Proof.
  intros p s x t [W1 W2 W3 W4 W5]. split; cbn [set_flag wk flag]; auto.
  - intros u k i E Hex. assert (N : u <> t) by (intro; subst; now apply Hex).
    rewrite upd_other by assumption. apply (W3 u k i E). discriminate.
  - intros u k r ph Hp Hph Hex. assert (N : u <> t) by (intro; subst; now apply Hex).
    rewrite upd_other by assumption. apply (W5 u k r ph Hp Hph). discriminate.
Qed.

Lemma wpoll_winv : forall t w, WSInv w -> WSInv (wpoll c t w).
Proof.
  intros t w [HI HW]. split.
  - rewrite wpoll_base. now apply poll_inv.
  - unfold wpoll. destruct (pcs (base w) t) as [rem ph] eqn:Hp.
    destruct (wadvance c (ntasks c) t rem ph (sh (base w)) (set_flag (ext w) t false)) as [[[rem' ph'] s'] x'] eqn:Ha.
    cbn [base ext pcs sh].
    apply (wadvance_winv t rem ph (sh (base w)) (set_flag (ext w) t false) (pcs (base w))); auto.
    now apply clear_flag_winv.
Qed.

Lemma winit_winv : WSInv (winit c).
Proof.
  split; [apply init_inv|]. unfold winit, init. cbn [base ext pcs sh].
  split; cbn [wk flag lock]; try (intros; discriminate); auto.
  - intros u k (r & H). inversion H.
  - intros k _ _ (u & i & w & H). discriminate.
Qed.

Lemma wrun_from_winv : forall sched w, WSInv w -> WSInv (wrun_from c w sched).
Proof.
  induction sched as [|t sched IH]; intros w H; [assumption|].
  cbn [wrun_from fold_left]. apply IH. now apply wpoll_winv.
Qed.

(* ---------- no lost wake-up ---------- *)
Lemma runnable_exists : forall w, WSInv w -> all_done c (base w) = false -> runnable c w <> [].
Proof.
  intros w [HI HW] Hd.
  assert (Hgoal : exists t, In t (runnable c w)); [|destruct Hgoal as (t & Ht); intro E; rewrite E in Ht; destruct Ht].
  assert (Hrun : forall u k rest ph, pcs (base w) u = (k :: rest, ph) -> flag (ext w) u = true -> In u (runnable c w)).
  { intros u k rest ph Hp Hf. unfold runnable. apply filter_In. split.
    - apply in_seq. pose proof (pending_lt c (base w) u k rest ph HI Hp). lia.
    - rewrite Hf. unfold task_done. now rewrite Hp. }
  unfold all_done in Hd. apply forallb_false in Hd. destruct Hd as (t & Hin & Hf).
  unfold task_done in Hf. destruct (pcs (base w) t) as [[|k rest] ph] eqn:Hp; cbn [fst] in Hf; [discriminate|].
  assert (Hnw : ph <> Wait -> exists t0, In t0 (runnable c w)).
  { intros Hph. exists t. apply (Hrun t k rest ph Hp). apply (w_ready _ _ _ _ _ HW t k rest ph Hp Hph). discriminate. }
  destruct ph as [| |m]; [apply Hnw; discriminate| |apply Hnw; discriminate].
  destruct (lock (sh (base w)) k) as [h|] eqn:Hl.
  - apply (inv_lock _ _ _ HI) in Hl. destruct Hl as (r & m & Hh).
    exists h. apply (Hrun h k r (Sup m) Hh). apply (w_ready _ _ _ _ _ HW h k r (Sup m) Hh); discriminate.
  - destruct (w_reg _ _ _ _ _ HW t k) as (i & b & E); [now exists rest|].
    destruct (w_free _ _ _ _ _ HW k Hl) as (u & j & Eu); [discriminate|now exists t, i, b|].
    destruct (w_wait _ _ _ _ _ HW u k j true Eu) as (r & Hu).
    exists u. apply (Hrun u k r Wait Hu). apply (w_woken _ _ _ _ _ HW u k j Eu). discriminate.
Qed.

Lemma no_lost_wakeup : forall sched,
  all_done c (run c sched) = false -> runnable c (wrun c sched) <> [].
Proof.
  intros sched Hd. apply runnable_exists.
  - apply wrun_from_winv, winit_winv.
  - now rewrite wrun_base.
Qed.

End Wake.
