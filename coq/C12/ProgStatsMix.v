(* C12/ProgStatsMix.v — completeness of the stats map under INSTRUCTION-level interleavings, any mix of symbol and file
   lookups (round 5, second pass): a symbol slot that holds a remembered answer has an entry under its module's leaf name —
   the insert into the stats map precedes the store into the slot, and entries are never removed.  (File slots have no
   stats: the closure of locate_file_internal does not touch the map.) *)
From RM Require Import C12.Model C12.ProgModel C12.ProgProofs C12.ProgFine C12.ProgCount C12.ProgCountMix C12.ProgStats.
From Coq Require Import Lia.

Definition after_insert (p : ptask) : option key :=
  match p with
  | ((e, k) :: _, IReturnResult :: _, _) => Some k
  | ((e, k) :: _, IStore :: _, _) => if is_file e then None else Some k
  | _ => None
  end.

Record SC (sk : key -> bool) (c : config) (s : pstate) : Prop := {
  sc_val : forall k, sk k = true -> value (psh s) k <> None -> stats (psh s) (leaf c k) <> None;
  sc_task : forall t k, after_insert (ppcs s t) = Some k -> stats (psh s) (leaf c k) <> None
}.

Lemma sc_update : forall sk c s t p' sh',
  SC sk c s ->
  (forall lf, stats (psh s) lf <> None -> stats sh' lf <> None) ->
  (forall k, sk k = true -> value sh' k <> None -> value (psh s) k <> None \/ stats sh' (leaf c k) <> None) ->
  (forall k, after_insert p' = Some k -> stats sh' (leaf c k) <> None) ->
  SC sk c {| ppcs := upd (ppcs s) t p'; psh := sh' |}.
Proof.
  intros sk c s t p' sh' [A B] Mono Val Loc. constructor; cbn [ppcs psh].
  - intros k Hk Hv. destruct (Val k Hk Hv) as [X|X]; [apply Mono; apply A; assumption|exact X].
  - intros u k H. unfold upd in H. destruct (Nat.eqb u t); [apply Loc; exact H|apply Mono; apply (B u k H)].
Qed.

Lemma sc_pmstep : forall sk pc s t,
  GI (cfg pc) (allkeys pc) s -> SI (cfg pc) s -> (forall u, Forall (okl sk) (fst (fst (ppcs s u)))) ->
  SC sk (cfg pc) s -> SC sk (cfg pc) (pmstep canon (cfg pc) t s).
Proof.
  intros sk pc s t G Si Hcl C.
  pose proof (sc_task _ _ _ C t) as Ct.
  pose proof (si_local _ _ Si t) as SLt.
  unfold pmstep.
  destruct (ppcs s t) as [[rem kont] l] eqn:E.
  destruct rem as [|[e k] rest]; [exact C|].
  assert (Hsk : sk k = negb (is_file e))
    by (pose proof (Hcl t) as R; rewrite E in R; inversion R; assumption).
  pose proof (gi_local _ _ _ G t) as L0; rewrite E in L0; cbn in L0.
  destruct L0 as [->|(Hin & Hf & Hg & Hr & Hlk)].
  - destruct e; cbn; apply sc_update; cbn; auto; intros; discriminate.
  - destruct l as [g w f0 tk r ls lk]; cbn in Hf, Hg.
    destruct e; cbn in Hsk; cbn in Hin;
      repeat (destruct Hin as [<-|Hin]; [|]); try contradiction; cbn in Hf, Hg, Hr, Hlk, Ct, SLt; subst.
    all: try (specialize (Hr eq_refl); subst r).
    all: try (specialize (Hlk eq_refl); destruct lk as [lf|]; [|contradiction]).
    all: cbn.
    all: try (rewrite (gi_post _ _ _ G t k ltac:(rewrite E; reflexivity) ltac:(rewrite E; reflexivity))).
    all: try (match goal with |- context [lock (psh ?s0) ?k0] => destruct (lock (psh s0) k0) eqn:Hlock end).
    all: try (match goal with |- context [value (psh ?s0) ?k0] => destruct (value (psh s0) k0) eqn:Hval end).
    all: try (match goal with |- context [match ?n with O => _ | S _ => _ end] => is_var n; destruct n end).
    all: cbn.
    all: try solve [apply sc_update; cbn; auto; intros; discriminate].
    (* a lookup finishes *)
    all: try solve [apply sc_update; cbn; auto; destruct rest as [|[? ?] ?]; cbn; intros; discriminate].
    (* the insert into the stats map *)
    all: try solve [match type of SLt with _ /\ ?X => assert (SLk : X) by apply SLt end; inversion SLk; subst; apply sc_update; cbn;
                    [exact C
                    |intros lf0 H0; unfold upd; destruct (Nat.eqb lf0 (leaf (pbase pc) k)); [discriminate|exact H0]
                    |auto
                    |intros k0 H0; inversion H0; subst; rewrite upd_same; discriminate]].
    (* the store into the slot *)
    all: try solve [apply sc_update; cbn;
                    [exact C
                    |auto
                    |intros k0 Hk0 Hv0; unfold upd in Hv0; destruct (Nat.eqb k0 k) eqn:Q;
                       [apply Nat.eqb_eq in Q; subst k0; first [right; apply Ct; reflexivity|congruence]|left; exact Hv0]
                    |intros; discriminate]].
Qed.

Lemma sc_init : forall sk pc, SC sk (cfg pc) (pinit pc).
Proof.
  intros sk pc. constructor; cbn.
  - intros k _ H. contradiction.
  - intros t k H. destruct (nth t (ptasks pc) []) as [|[? ?] ?]; discriminate.
Qed.

Lemma pmrun_sc : forall sk pc ms, classified sk pc -> SC sk (cfg pc) (pmrun canon pc ms).
Proof.
  intros sk pc ms Hc. unfold pmrun.
  generalize (gi_init pc) (si_init pc) (mi_cls _ _ _ _ (mi_init sk pc Hc)) (sc_init sk pc). generalize (pinit pc).
  induction ms as [|t r IH]; intros s G Si Cl C; cbn; [exact C|].
  apply IH; [apply gi_pmstep; exact G|apply si_pmstep; assumption|apply pmstep_forall; exact Cl|apply sc_pmstep; assumption].
Qed.

Lemma pm_stats_complete : forall sk pc ms k, classified sk pc -> sk k = true ->
  value (psh (pmrun canon pc ms)) k <> None -> stats (psh (pmrun canon pc ms)) (leaf (pbase pc) k) <> None.
Proof. intros sk pc ms k Hc Hk Hv. apply (sc_val _ _ _ (pmrun_sc sk pc ms Hc) k Hk Hv). Qed.

From RM Require Import C12.ProgSource Gen.C12Program.
(* a symbol slot with a remembered answer has its stats entry; in particular every finished symbol lookup *)
Lemma src_pm_stats_complete : forall (sk : key -> bool) (pc : pconfig) (ms : list task) (k : key), classified sk pc -> sk k = true ->
  value (psh (pmrun src_program pc ms)) k <> None -> stats (psh (pmrun src_program pc ms)) (leaf (pbase pc) k) <> None.
Proof. rewrite src_is_canon. exact pm_stats_complete. Qed.

