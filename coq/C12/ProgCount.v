(* C12/ProgCount.v — the pending counters under INSTRUCTION-level interleavings (round 5; symbol lookups only — the file
   closure has no counters).  Linear invariants: with a t = 1 iff task t stands between `symbols_requested += 1` and the
   supplier call, and b t = 1 iff it stands between the supplier call and `symbols_processed += 1`,
       requested = |supplier log| + sum a        processed + sum b = |supplier log|
   so processed <= requested <= distinct keys in every reachable state, and at quiescence all three are equal. *)
From RM Require Import C12.Model C12.ProgModel C12.ProgProofs C12.ProgFine.
From Coq Require Import Lia Permutation.

Definition wa (p : ptask) : nat := match snd (fst p) with ISupplierAwait :: _ => 1 | _ => 0 end.
Definition wb (p : ptask) : nat := match snd (fst p) with ISupPoll :: _ | IProcessedInc :: _ => 1 | _ => 0 end.

Lemma sum_upd : forall n (f : nat -> ptask) t p' (w : ptask -> nat), t < n ->
  sum_upto n (fun u => w (upd f t p' u)) + w (f t) = sum_upto n (fun u => w (f u)) + w p'.
Proof.
  induction n as [|m IH]; intros f t p' w Ht; [lia|]. cbn [sum_upto].
  destruct (Nat.eq_dec t m) as [->|Hne].
  - rewrite upd_same.
    assert (E : sum_upto m (fun u => w (upd f m p' u)) = sum_upto m (fun u => w (f u))).
    { clear IH Ht. assert (G : forall j, j <= m -> sum_upto j (fun u => w (upd f m p' u)) = sum_upto j (fun u => w (f u))).
      { induction j as [|j IHj]; intro Hj; [reflexivity|]. cbn [sum_upto]. rewrite IHj by lia.
        rewrite upd_other by lia. reflexivity. }
      apply G. lia. }
    rewrite E. lia.
  - rewrite (upd_other _ f t p' m) by lia. specialize (IH f t p' w ltac:(lia)). lia.
Qed.

Lemma sum_zero : forall n (f : nat -> nat), (forall u, u < n -> f u = 0) -> sum_upto n f = 0.
Proof. induction n as [|m IH]; intros f H; [reflexivity|]. cbn. rewrite IH by (intros; apply H; lia). rewrite H by lia. reflexivity. Qed.

Lemma NoDup_app_disjoint : forall (l1 l2 : list key),
  NoDup l1 -> NoDup l2 -> (forall k, In k l1 -> In k l2 -> False) -> NoDup (l1 ++ l2).
Proof.
  induction l1 as [|x r IH]; intros l2 H1 H2 D; cbn; [exact H2|].
  inversion H1; subst. constructor.
  - intro X. apply in_app_or in X. destruct X as [X|X]; [contradiction|]. apply (D x); [left; reflexivity|exact X].
  - apply IH; auto. intros k A B. apply (D k); [right; exact A|exact B].
Qed.

Record CI (c : config) (n : nat) (s : pstate) : Prop := {
  ci_range : forall u, n <= u -> fst (fst (ppcs s u)) = [];
  ci_sym : forall u, Forall (fun l : lookup => is_file (fst l) = false) (fst (fst (ppcs s u)));
  ci_sub : forall k, In k (calls (psh s)) -> In k (concat (tasks c));
  ci_req : req (psh s) = length (calls (psh s)) + sum_upto n (fun u => wa (ppcs s u));
  ci_proc : proc (psh s) + sum_upto n (fun u => wb (ppcs s u)) = length (calls (psh s))
}.

Lemma pmstep_sym : forall P c t s,
  (forall u, Forall (fun l : lookup => is_file (fst l) = false) (fst (fst (ppcs s u)))) ->
  forall u, Forall (fun l : lookup => is_file (fst l) = false) (fst (fst (ppcs (pmstep P c t s) u))).
Proof.
  intros P c t s H u. unfold pmstep.
  destruct (ppcs s t) as [[rem kont] l] eqn:E. destruct rem as [|[e k] rest]; [apply H|].
  assert (Ht : Forall (fun l : lookup => is_file (fst l) = false) ((e, k) :: rest)).
  { specialize (H t). rewrite E in H. exact H. }
  assert (Hr : Forall (fun l : lookup => is_file (fst l) = false) rest) by (inversion Ht; assumption).
  destruct (match kont with [] => (p_entry P e, l0) | _ :: _ => (kont, l) end) as [[|i more] li]; cbn [ppcs].
  - unfold upd. destruct (Nat.eqb u t); [exact Hr|apply H].
  - destruct (istep P c t k i more li (psh s)) as [[|x y] ? ?| ? ? ?|]; cbn [ppcs];
      unfold upd; destruct (Nat.eqb u t); try apply H; try exact Hr; exact Ht.
Qed.

Lemma key_requested : forall pc s t e k rest kont l,
  GI (cfg pc) (allkeys pc) s -> ppcs s t = ((e, k) :: rest, kont, l) -> t < length (ptasks pc) ->
  In k (concat (tasks (cfg pc))).
Proof.
  intros pc s t e k rest kont l G E Ht.
  pose proof (gi_complete _ _ _ G t) as X. rewrite E in X. cbn in X. unfold allkeys in X.
  assert (A : In k (map snd (nth t (ptasks pc) []))).
  { rewrite <- X. apply in_or_app. right. left. reflexivity. }
  apply in_concat. exists (map snd (nth t (ptasks pc) [])). split; [|exact A].
  cbn [cfg tasks]. apply in_map. apply nth_In. exact Ht.
Qed.

Ltac cnt_case E Hlt CR CP :=
  match goal with
  | |- context [upd (ppcs ?s) ?t ?p'] =>
      let A := fresh "A" in let B := fresh "B" in
      pose proof (sum_upd _ (ppcs s) t p' wa Hlt) as A; pose proof (sum_upd _ (ppcs s) t p' wb Hlt) as B;
      rewrite E in A, B; cbn in A, B; cbn; rewrite ?app_length; cbn; lia
  end.

Lemma ci_pmstep : forall pc s t,
  GI (cfg pc) (allkeys pc) s -> CI (cfg pc) (length (ptasks pc)) s ->
  CI (cfg pc) (length (ptasks pc)) (pmstep canon (cfg pc) t s).
Proof.
  intros pc s t G C.
  assert (Hrange := pmstep_range canon (cfg pc) (length (ptasks pc)) t s (ci_range _ _ _ C)).
  assert (Hsym := pmstep_sym canon (cfg pc) t s (ci_sym _ _ _ C)).
  pose proof (ci_req _ _ _ C) as CR. pose proof (ci_proc _ _ _ C) as CP. pose proof (ci_sub _ _ _ C) as CS.
  constructor; [exact Hrange|exact Hsym| | |]; clear Hrange Hsym.
  all: unfold pmstep.
  all: destruct (ppcs s t) as [[rem kont] l] eqn:E.
  all: destruct rem as [|[e k] rest]; [assumption|].
  all: assert (Hlt : t < length (ptasks pc))
         by (destruct (Nat.lt_ge_cases t (length (ptasks pc))) as [A|A]; [exact A|];
             pose proof (ci_range _ _ _ C t A) as R; rewrite E in R; discriminate).
  all: assert (Hnf : is_file e = false)
         by (pose proof (ci_sym _ _ _ C t) as R; rewrite E in R; inversion R; assumption).
  all: pose proof (key_requested pc s t e k rest kont l G E Hlt) as KR.
  all: pose proof (gi_local _ _ _ G t) as L0; rewrite E in L0; cbn in L0.
  all: destruct L0 as [->|(Hin & Hf & Hg & Hr & Hlk)].
  (* the lookup has not begun *)
  1, 3, 5: destruct e; try discriminate Hnf; cbn;
    first [ exact CS | cnt_case E Hlt CR CP ].
  (* inside a lookup *)
  all: destruct l as [g w f0 tk r ls lk]; cbn in Hf, Hg.
  all: destruct e; try discriminate Hnf; cbn in Hin;
       repeat (destruct Hin as [<-|Hin]; [|]); try contradiction; cbn in Hf, Hg, Hr, Hlk; subst.
  all: try (specialize (Hr eq_refl); subst r).
  all: try (specialize (Hlk eq_refl); destruct lk as [lf|]; [|contradiction]).
  all: cbn.
  all: try (rewrite (gi_post _ _ _ G t k ltac:(rewrite E; reflexivity) ltac:(rewrite E; reflexivity))).
  all: try (match goal with |- context [lock (psh ?s0) ?k0] => destruct (lock (psh s0) k0) eqn:Hlock end).
  all: try (match goal with |- context [value (psh ?s0) ?k0] => destruct (value (psh s0) k0) eqn:Hval end).
  all: try (match goal with |- context [match ?n with O => _ | S _ => _ end] => is_var n; destruct n end).
  all: cbn.
  all: try exact CS.
  all: try solve [cnt_case E Hlt CR CP].
  all: try solve [intros kk Hin2; apply in_app_or in Hin2; destruct Hin2 as [Hin2|[<-|[]]]; [exact (CS kk Hin2)|exact KR]].
Qed.

Lemma ci_init : forall pc, sym_only pc -> CI (cfg pc) (length (ptasks pc)) (pinit pc).
Proof.
  intros pc Hs. constructor; cbn.
  - intros u Hu. apply nth_overflow. exact Hu.
  - intro u. destruct (Nat.lt_ge_cases u (length (ptasks pc))) as [A|A].
    + unfold sym_only in Hs. rewrite Forall_forall in Hs. apply Hs. apply nth_In. exact A.
    + rewrite nth_overflow by exact A. constructor.
  - intros k [].
  - rewrite sum_zero; [reflexivity|]. intros; reflexivity.
  - rewrite sum_zero; [reflexivity|]. intros; reflexivity.
Qed.

Lemma pmrun_ci : forall pc ms, sym_only pc -> CI (cfg pc) (length (ptasks pc)) (pmrun canon pc ms).
Proof.
  intros pc ms Hs. unfold pmrun.
  generalize (gi_init pc) (ci_init pc Hs). generalize (pinit pc).
  induction ms as [|t r IH]; intros s G C; cbn; [exact C|].
  apply IH; [apply gi_pmstep; exact G|apply ci_pmstep; assumption].
Qed.

(* requested <= distinct keys in every reachable state: the keys in the log and the keys of the tasks standing
   between `symbols_requested += 1` and the supplier call are pairwise different requested keys *)
Definition akey (p : ptask) : list key :=
  match p with ((_, k) :: _, ISupplierAwait :: _, _) => [k] | _ => [] end.
Definition akeys (s : pstate) (n : nat) : list key := flat_map (fun u => akey (ppcs s u)) (seq 0 n).

Lemma akey_len : forall c p, local_ok c p -> length (akey p) = wa p.
Proof.
  intros c [[rem kont] l] L. unfold akey, wa. cbn.
  destruct rem as [|[e k] r]; [cbn in L; subst; reflexivity|].
  destruct kont as [|i m]; [reflexivity|]. destruct i; reflexivity.
Qed.

Lemma akeys_len : forall c ks s n, GI c ks s -> length (akeys s n) = sum_upto n (fun u => wa (ppcs s u)).
Proof.
  intros c ks s n G. unfold akeys. induction n as [|m IH]; [reflexivity|].
  rewrite seq_S, flat_map_app, app_length. cbn [sum_upto]. f_equal; [exact IH|].
  cbn. rewrite app_nil_r. apply (akey_len c _ (gi_local _ _ _ G m)).
Qed.

Lemma akeys_in : forall s n k, In k (akeys s n) ->
  exists u, u < n /\ tkey (ppcs s u) = Some k /\ tcls (ppcs s u) = CPre.
Proof.
  intros s n k H. unfold akeys in H. apply in_flat_map in H. destruct H as (u & Hu & Hk).
  apply in_seq in Hu. exists u. split; [lia|].
  destruct (ppcs s u) as [[rem kont] l]. unfold akey in Hk.
  destruct rem as [|[e k'] r]; [contradiction|]. destruct kont as [|i m]; [contradiction|].
  destruct i; try contradiction. destruct Hk as [<-|[]]. split; reflexivity.
Qed.

Lemma akeys_nodup : forall c ks s n, GI c ks s -> NoDup (akeys s n).
Proof.
  intros c ks s n G. unfold akeys. induction n as [|m IH]; [constructor|].
  rewrite seq_S, flat_map_app. cbn. rewrite app_nil_r.
  destruct (akey (ppcs s m)) as [|k [|k2 r]] eqn:Ek.
  - rewrite app_nil_r. exact IH.
  - apply NoDup_app_single; [exact IH|]. intro Hin.
    destruct (akeys_in s m k Hin) as (u & Hu & U1 & U2).
    assert (M1 : tkey (ppcs s m) = Some k /\ tcls (ppcs s m) = CPre).
    { assert (X : In k (akeys s (S m))).
      { unfold akeys. rewrite seq_S, flat_map_app. apply in_or_app. right. cbn. rewrite Ek. left. reflexivity. }
      destruct (ppcs s m) as [[rem kont] l]. unfold akey in Ek.
      destruct rem as [|[e k'] r]; [discriminate|]. destruct kont as [|i mm]; [discriminate|].
      destruct i; try discriminate. inversion Ek; subst. split; reflexivity. }
    destruct M1 as [M1 M2].
    assert (A : lock (psh s) k = Some u) by (apply (gi_lock _ _ _ G); rewrite U2; auto).
    assert (B : lock (psh s) k = Some m) by (apply (gi_lock _ _ _ G); rewrite M2; auto).
    assert (u = m) by congruence. lia.
  - exfalso. destruct (ppcs s m) as [[rem kont] l]. unfold akey in Ek.
    destruct rem as [|[e k'] r']; [discriminate|]. destruct kont as [|i mm]; [discriminate|].
    destruct i; discriminate.
Qed.

Section CountTheorems.
Variable pc : pconfig.
Variable ms : list task.
Hypothesis Hsym : sym_only pc.
Local Notation s := (pmrun canon pc ms).

(* never more processed than requested, whatever the instruction-level interleaving *)
Lemma pm_processed_le_requested : proc (psh s) <= req (psh s).
Proof. pose proof (pmrun_ci pc ms Hsym) as C. pose proof (ci_req _ _ _ C). pose proof (ci_proc _ _ _ C). lia. Qed.

Lemma pm_requested_le_distinct : req (psh s) <= distinct_keys (cfg pc).
Proof.
  pose proof (pmrun_ci pc ms Hsym) as C. pose proof (pmrun_gi pc ms) as G.
  rewrite (ci_req _ _ _ C). rewrite <- (akeys_len _ _ _ _ G). rewrite <- app_length.
  unfold distinct_keys. apply NoDup_incl_length.
  - apply NoDup_app_disjoint; [apply (gi_nodup _ _ _ G)|apply (akeys_nodup _ _ _ _ G)|].
    intros k H1 H2. destruct (akeys_in _ _ _ H2) as (u & _ & U1 & U2).
    destruct (gi_pre _ _ _ G u k U1 U2) as [_ X]. contradiction.
  - intros k Hk. apply nodup_In. apply in_app_or in Hk. destruct Hk as [Hk|Hk].
    + apply (ci_sub _ _ _ C). exact Hk.
    + destruct (akeys_in _ _ _ Hk) as (u & Hu & U1 & _).
      destruct (ppcs s u) as [[rem kont] l] eqn:E. unfold tkey in U1. cbn in U1.
      destruct rem as [|[e k'] r]; [discriminate|]. inversion U1; subst.
      apply (key_requested pc s u e k r kont l G E Hu).
Qed.

(* at quiescence requested = processed = number of distinct module keys asked for *)
Lemma pm_counters_quiescent :
  pall_done pc s = true -> req (psh s) = distinct_keys (cfg pc) /\ proc (psh s) = distinct_keys (cfg pc).
Proof.
  intro Hd. pose proof (pmrun_ci pc ms Hsym) as C. pose proof (pmrun_gi pc ms) as G.
  assert (Hk : forall u, u < length (ptasks pc) -> snd (fst (ppcs s u)) = []).
  { intros u Hu. unfold pall_done in Hd. rewrite forallb_forall in Hd.
    assert (Hin : In u (seq 0 (length (ptasks pc)))) by (apply in_seq; lia).
    specialize (Hd u Hin). unfold ptask_done in Hd.
    pose proof (gi_local _ _ _ G u) as L. unfold local_ok in L.
    destruct (ppcs s u) as [[rem kont] l]. cbn in *. destruct rem; [exact L|discriminate]. }
  assert (Za : sum_upto (length (ptasks pc)) (fun u => wa (ppcs s u)) = 0).
  { apply sum_zero. intros u Hu. unfold wa. rewrite (Hk u Hu). reflexivity. }
  assert (Zb : sum_upto (length (ptasks pc)) (fun u => wb (ppcs s u)) = 0).
  { apply sum_zero. intros u Hu. unfold wb. rewrite (Hk u Hu). reflexivity. }
  pose proof (ci_req _ _ _ C) as R. pose proof (ci_proc _ _ _ C) as Q. rewrite Za in R. rewrite Zb in Q.
  assert (L : length (calls (psh s)) = distinct_keys (cfg pc)).
  { unfold distinct_keys. apply Permutation_length. apply NoDup_Permutation.
    - apply (gi_nodup _ _ _ G).
    - apply NoDup_nodup.
    - intro k. rewrite nodup_In. split.
      + apply (ci_sub _ _ _ C).
      + intro Hk2. pose proof (pm_exactly_once pc ms k Hd Hk2) as X. unfold psupplier_calls in X.
        apply (count_occ_In Nat.eq_dec). lia. }
  lia.
Qed.
End CountTheorems.

From RM Require Import C12.ProgSource Gen.C12Program.
Lemma src_pm_processed_le_requested : forall (pc : pconfig) (ms : list task), sym_only pc ->
  proc (psh (pmrun src_program pc ms)) <= req (psh (pmrun src_program pc ms)).
Proof. rewrite src_is_canon. exact pm_processed_le_requested. Qed.

Lemma src_pm_requested_le_distinct : forall (pc : pconfig) (ms : list task), sym_only pc ->
  req (psh (pmrun src_program pc ms)) <= distinct_keys (cfg pc).
Proof. rewrite src_is_canon. exact pm_requested_le_distinct. Qed.

Lemma src_pm_counters_bounded : forall (pc : pconfig) (ms : list task), sym_only pc ->
  proc (psh (pmrun src_program pc ms)) <= req (psh (pmrun src_program pc ms)) /\
  req (psh (pmrun src_program pc ms)) <= distinct_keys (cfg pc).
Proof. intros pc ms H. split; [apply src_pm_processed_le_requested|apply src_pm_requested_le_distinct]; exact H. Qed.

Lemma src_pm_counters_quiescent : forall (pc : pconfig) (ms : list task), sym_only pc ->
  pall_done pc (pmrun src_program pc ms) = true ->
  req (psh (pmrun src_program pc ms)) = distinct_keys (cfg pc) /\ proc (psh (pmrun src_program pc ms)) = distinct_keys (cfg pc).
Proof. rewrite src_is_canon. exact pm_counters_quiescent. Qed.
