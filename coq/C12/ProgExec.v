(* C12/ProgExec.v — the executors of rounds 1-4 driving the interpreter of the regenerated program (round 5):
   wake-driven executor, join_all with its shared waker, schedule independence of the final observables.
   The wake-up / join_all layers are instrumentation on top of [run]; their traces are poll schedules, and the
   interpreter on the source's program is [run] poll for poll (ProgSource.src_refines). *)
From RM Require Import C12.Model C12.Proofs C12.WakeModel C12.WakeProofs C12.WakeBound C12.JoinModel C12.JoinProofs
  C12.FineModel C12.FineProofs C12.ProgModel C12.ProgProofs C12.ProgSource Gen.C12Program.
From Coq Require Import Permutation.

Lemma ntasks_cfg : forall pc, ntasks (cfg pc) = length (ptasks pc).
Proof. intro pc. unfold ntasks. cbn. apply map_length. Qed.

Lemma src_done_iff : forall pc sched,
  pall_done pc (prun src_program pc sched) = all_done (cfg pc) (run (cfg pc) sched).
Proof. intros. apply (pall_done_abs false). apply src_refines. discriminate. Qed.

(* an executor that polls only woken tasks, whichever it picks, finishes every task of the program within
   2 * work + ntasks polls and never runs dry *)
Lemma src_wake_driven_finishes : forall (pc : pconfig) (fuel : nat) (picks : list nat),
  2 * work (cfg pc) + length (ptasks pc) < fuel ->
  exists w sched, wexec (cfg pc) fuel picks (winit (cfg pc)) [] = (w, sched, WDone) /\
                  pall_done pc (prun src_program pc sched) = true /\
                  psim false (prun src_program pc sched) (base w).
Proof.
  intros pc fuel picks Hf. rewrite <- ntasks_cfg in Hf.
  destruct (wake_driven_finishes (cfg pc) fuel picks Hf) as (w & sched & He & Hb & Hd).
  exists w, sched. split; [exact He|]. split.
  - rewrite src_done_iff. exact Hd.
  - rewrite Hb. apply src_refines. discriminate.
Qed.

(* no lost wake-up: while a task of the program is unfinished, some unfinished task has been woken *)
Lemma src_no_lost_wakeup : forall (pc : pconfig) (sched : list task),
  pall_done pc (prun src_program pc sched) = false -> runnable (cfg pc) (wrun (cfg pc) sched) <> [].
Proof. intros pc sched H. rewrite src_done_iff in H. apply no_lost_wakeup. exact H. Qed.

(* join_all (one shared waker): at most [work] parent polls, each a round-robin round of the program *)
Lemma src_join_all : forall (pc : pconfig) (fuel : nat),
  work (cfg pc) <= fuel ->
  exists w r, jexec (cfg pc) fuel (winit (cfg pc)) 0 = (w, r, WDone) /\ r <= work (cfg pc) /\
              pall_done pc (prun src_program pc (round_robin (cfg pc) r)) = true.
Proof.
  intros pc fuel Hf. destruct (join_all_ok (cfg pc) fuel Hf) as (w & r & He & Hr & _ & Hd).
  exists w, r. repeat split; auto. rewrite src_done_iff. exact Hd.
Qed.

(* the final observables of the program do not depend on the schedule *)
Lemma src_schedule_independent : forall (pc : pconfig) (s1 s2 : list task),
  pall_done pc (prun src_program pc s1) = true -> pall_done pc (prun src_program pc s2) = true ->
  (forall t, results (psh (prun src_program pc s1)) t = results (psh (prun src_program pc s2)) t) /\
  Permutation (calls (psh (prun src_program pc s1))) (calls (psh (prun src_program pc s2))) /\
  (forall k, value (psh (prun src_program pc s1)) k = value (psh (prun src_program pc s2)) k).
Proof.
  intros pc s1 s2 D1 D2. rewrite src_done_iff in D1, D2.
  destruct (poll_independent (cfg pc) s1 s2 D1 D2) as (R & C & V & _).
  destruct (src_refines false pc s1 ltac:(discriminate)) as (_ & _ & _ & (L1 & V1 & C1 & R1 & _)).
  destruct (src_refines false pc s2 ltac:(discriminate)) as (_ & _ & _ & (L2 & V2 & C2 & R2 & _)).
  repeat split.
  - intro t. rewrite R1, R2. apply R.
  - rewrite C1, C2. exact C.
  - intro k. rewrite V1, V2. apply V.
Qed.
