(* C12/WakeBound.v — a wake-driven executor finishes every task within 2*work + ntasks polls:
   each poll of a runnable task lowers  2 * potential + #runnable. *)
From Coq Require Import List Arith Bool Lia.
From RM Require Import C12.Model C12.WakeModel C12.Proofs C12.Progress C12.WakeProofs.
Import ListNotations.

Lemma filter_le_one : forall (l : list nat) (f g : nat -> bool) k,
  NoDup l -> (forall x, x <> k -> g x = f x) -> length (filter g l) <= S (length (filter f l)).
Proof.
  induction l as [|a l IH]; intros f g k Hnd Hext; [cbn; lia|].
  inversion Hnd as [|a' l' Hnotin Hnd']; subst. cbn [filter].
  destruct (Nat.eq_dec a k) as [E|N].
  - subst a. assert (Hsame : filter g l = filter f l).
    { apply filter_ext_in. intros x Hx. apply Hext. intro; subst; contradiction. }
    rewrite Hsame. destruct (g k), (f k); cbn [length]; lia.
  - rewrite (Hext a N). specialize (IH f g k Hnd' Hext). destruct (f a); cbn [length]; lia.
Qed.

Lemma filter_len_mono : forall (l : list nat) (f g : nat -> bool),
  (forall x, In x l -> f x = true -> g x = true) -> length (filter f l) <= length (filter g l).
Proof.
  induction l as [|a l IH]; intros f g H; [cbn; lia|]. cbn [filter].
  assert (IH' : length (filter f l) <= length (filter g l)) by (apply IH; intros x Hx; apply H; now right).
  destruct (f a) eqn:Ef.
  - rewrite (H a (or_introl eq_refl) Ef). cbn [length]. lia.
  - destruct (g a); cbn [length]; lia.
Qed.

(* unlock sets at most one bit *)
Lemma wake_flag_one : forall n k x, exists u0, forall u, u <> u0 -> flag (wake n k x) u = flag x u.
Proof.
  intros n k x. unfold wake. destruct (first_waiter x k (seq 0 n) None) as [[u j]|]; [|now exists 0].
  destruct (wk x u) as [[[k' i] [|]]|]; try (now exists 0).
  exists u. intros v N. cbn [flag]. now apply upd_other.
Qed.

Section Bound.
Variable c : config.

(* flagged tasks among those that can still matter: [t] itself, or unfinished ones ([unf]) *)
Definition hcount (t : task) (unf : task -> bool) (x : wext) : nat :=
  length (filter (fun u => flag x u && (Nat.eqb u t || unf u)) (seq 0 (ntasks c))).

Lemma hcount_one : forall t unf x x' u0,
  (forall u, u <> u0 -> flag x' u = flag x u) -> hcount t unf x' <= S (hcount t unf x).
Proof.
  intros t unf x x' u0 H. unfold hcount. apply (filter_le_one _ _ _ u0); [apply seq_NoDup|].
  intros u N. now rewrite H.
Qed.

Lemma hcount_same : forall t unf x x',
  (forall u, flag x' u = flag x u) -> hcount t unf x' = hcount t unf x.
Proof. intros t unf x x' H. unfold hcount. apply filter_same. intros u _. now rewrite H. Qed.

Lemma hcount_wake : forall t unf k x, hcount t unf (wake (ntasks c) k x) <= S (hcount t unf x).
Proof. intros. destruct (wake_flag_one (ntasks c) k x) as (u0 & H). now apply (hcount_one _ _ _ _ u0). Qed.

Lemma hcount_set : forall t unf x b, hcount t unf (set_flag x t b) <= S (hcount t unf x).
Proof. intros. apply (hcount_one _ _ _ _ t). intros u N. cbn [set_flag flag]. now apply upd_other. Qed.

(* accounting over one poll: twice the task's cost plus the bits never grows *)
Lemma wadvance_count : forall t unf rem ph s x rem' ph' s' x',
  wadvance c (ntasks c) t rem ph s x = (rem', ph', s', x') ->
  2 * tcost c (rem', ph') + hcount t unf x' <= 2 * tcost c (rem, ph) + hcount t unf x.
Proof.
  intros t unf rem. induction rem as [|k rest IH]; intros ph s x rem' ph' s' x' Ha.
  - cbn [wadvance] in Ha. inversion Ha; subst. lia.
  - assert (Hcont : forall s0 x0, wadvance c (ntasks c) t rest Start s0 (wake (ntasks c) k x0) = (rem', ph', s', x') ->
                    (forall u, flag x0 u = flag x u) ->
                    2 * tcost c (rem', ph') + hcount t unf x' <= 2 * cost c rest + S (hcount t unf x)).
    { intros s0 x0 H0 Hfl. apply IH in H0. rewrite (tcost_nosup c rest Start I) in H0.
      pose proof (hcount_wake t unf k x0). rewrite (hcount_same t unf x x0 Hfl) in H. lia. }
    cbn [wadvance] in Ha.
    assert (Hnosup : not_sup ph ->
      match lock s k with
      | Some _ => (k :: rest, Wait, s, register t k x)
      | None =>
          match value s k with
          | Some o => wadvance c (ntasks c) t rest Start (hit t k o s) (wake (ntasks c) k (unregister t x))
          | None =>
              match susp c k with
              | 0 => wadvance c (ntasks c) t rest Start (complete c t k (begin_call t k s))
                       (wake (ntasks c) k (unregister t x))
              | S m => (k :: rest, Sup m, begin_call t k s, set_flag (unregister t x) t true)
              end
          end
      end = (rem', ph', s', x') ->
      2 * tcost c (rem', ph') + hcount t unf x' <= 2 * tcost c (k :: rest, ph) + hcount t unf x).
    { intros Hn H0. rewrite (tcost_nosup c (k :: rest) ph Hn). cbn [cost].
      destruct (lock s k) as [h|].
      - inversion H0; subst. rewrite (tcost_nosup c (k :: rest) Wait I). cbn [cost].
        rewrite (hcount_same t unf x (register t k x)); [lia|].
        intros u. unfold register. destruct (wk x t) as [[[k' i] w]|]; reflexivity.
      - destruct (value s k) as [o|].
        + apply Hcont in H0; [lia|reflexivity].
        + destruct (susp c k) as [|m].
          * apply Hcont in H0; [lia|reflexivity].
          * inversion H0; subst. rewrite tcost_sup.
            pose proof (hcount_set t unf (unregister t x) true) as H.
            rewrite (hcount_same t unf x (unregister t x)) in H by reflexivity. lia. }
    destruct ph as [| |[|m]].
    + now apply Hnosup.
    + now apply Hnosup.
    + apply Hcont in Ha; [|reflexivity]. rewrite tcost_sup. lia.
    + inversion Ha; subst. rewrite !tcost_sup. pose proof (hcount_set t unf x true). lia.
Qed.

Definition measure (w : wstate) : nat := 2 * potential c (base w) + length (runnable c w).

Lemma wpoll_measure : forall t w, WSInv c w -> In t (runnable c w) -> measure (wpoll c t w) < measure w.
Proof.
  intros t w [HI HW] Hin. unfold runnable in Hin. apply filter_In in Hin. destruct Hin as [Hseq Hpred].
  apply in_seq in Hseq. assert (Hlt : t < ntasks c) by lia.
  apply andb_prop in Hpred. destruct Hpred as [Hflag Hunf].
  set (unf := fun u => negb (task_done (base w) u)).
  set (x0 := set_flag (ext w) t false).
  (* clearing t's bit removes exactly t from the runnable set *)
  assert (H0 : length (runnable c w) = S (hcount t unf x0)).
  { unfold runnable, hcount. apply (filter_flip _ _ _ t).
    - apply seq_NoDup.
    - apply in_seq. lia.
    - unfold x0. cbn [set_flag flag]. now rewrite upd_same.
    - now rewrite Hflag, Hunf.
    - intros u N. unfold x0. cbn [set_flag flag]. rewrite upd_other by assumption.
      destruct (Nat.eqb_spec u t) as [E|_]; [contradiction|]. reflexivity. }
  unfold measure. rewrite H0. unfold wpoll, potential.
  destruct (pcs (base w) t) as [rem ph] eqn:Hp.
  fold x0.
  destruct (wadvance c (ntasks c) t rem ph (sh (base w)) x0) as [[[rem' ph'] s'] x'] eqn:Ha.
  cbn [base pcs].
  pose proof (wadvance_count t unf rem ph (sh (base w)) x0 rem' ph' s' x' Ha) as Hcnt.
  pose proof (sum_upto_upd_lt _ (tcost c) (pcs (base w)) t (rem', ph') (ntasks c) Hlt) as Hsum.
  rewrite Hp in Hsum.
  (* whoever is runnable afterwards is counted by hcount *)
  assert (H1 : length (runnable c {| base := {| pcs := upd (pcs (base w)) t (rem', ph'); sh := s' |}; ext := x' |})
               <= hcount t unf x').
  { unfold runnable, hcount. cbn [base ext]. apply filter_len_mono. intros u _ Hu.
    apply andb_prop in Hu. destruct Hu as [Hf Hd]. rewrite Hf. cbn [andb].
    destruct (Nat.eqb_spec u t) as [E|N]; [reflexivity|]. cbn [orb].
    unfold unf, task_done in *. cbn [pcs] in Hd. now rewrite upd_other in Hd. }
  lia.
Qed.

Lemma wexec_finishes : forall fuel picks w trace,
  WSInv c w -> measure w < fuel ->
  exists w' sched, wexec c fuel picks w trace = (w', trace ++ sched, WDone) /\
                   w' = wrun_from c w sched /\ all_done c (base w') = true.
Proof.
  induction fuel as [|f IH]; intros picks w trace HW Hm; [lia|].
  cbn [wexec]. destruct (all_done c (base w)) eqn:Hd.
  - exists w, []. rewrite app_nil_r. repeat split; auto.
  - pose proof (runnable_exists c w HW Hd) as Hne.
    destruct (runnable c w) as [|r rs] eqn:Hr; [contradiction|].
    set (t := nth (Nat.modulo (hd 0 picks) (length (r :: rs))) (r :: rs) r).
    assert (Hin : In t (runnable c w)).
    { rewrite Hr. apply nth_In. apply Nat.mod_upper_bound. cbn [length]. lia. }
    pose proof (wpoll_measure t w HW Hin) as Hdec.
    destruct (IH (tl picks) (wpoll c t w) (trace ++ [t]) (wpoll_winv c t w HW)) as (w' & sched & He & Hw & Hdone); [lia|].
    exists w', (t :: sched). rewrite He. rewrite <- app_assoc. cbn [app]. repeat split; auto.
Qed.

Lemma measure_init : measure (winit c) <= 2 * work c + ntasks c.
Proof.
  unfold measure. cbn [winit base]. rewrite potential_init.
  assert (length (runnable c (winit c)) <= ntasks c).
  { unfold runnable. rewrite <- (seq_length (ntasks c) 0) at 2. apply filter_len_le. }
  lia.
Qed.

(* the statement used by Properties.v *)
Lemma wake_driven_finishes : forall fuel picks,
  2 * work c + ntasks c < fuel ->
  exists w sched, wexec c fuel picks (winit c) [] = (w, sched, WDone) /\
                  base w = run c sched /\ all_done c (run c sched) = true.
Proof.
  intros fuel picks Hf.
  destruct (wexec_finishes fuel picks (winit c) [] (winit_winv c)) as (w & sched & He & Hw & Hd).
  - pose proof measure_init. lia.
  - exists w, sched. cbn [app] in He. repeat split; auto.
    + rewrite Hw. apply wrun_base.
    + subst w. change (wrun_from c (winit c) sched) with (wrun c sched) in Hd. now rewrite wrun_base in Hd.
Qed.

End Bound.
